// Package mutate enumerates single-field mutations of a protobuf message by walking
// its generated Go struct with reflection (E7 of DESIGN.md): scalars get other values,
// bytes / strings get bit flips, truncations, extensions and emptying, repeated fields
// get drop / duplicate / swap / append, maps get value / key edits, nested messages are
// recursed into and nil-ed. Mutants that are equal to the original after a marshal
// round trip are discarded as non-semantic.
package mutate

import (
	"fmt"
	"reflect"
	"sort"
	"strings"

	"github.com/golang/protobuf/proto"
)

// Mutant is one mutated deep copy of the root message.
type Mutant struct {
	Path string // e.g. "TxInputs[1].Amount"
	Kind string // e.g. "bitflip-first"
	Msg  proto.Message
}

// Field returns the top-level field name of the path.
func (m Mutant) Field() string {
	p := m.Path
	if i := strings.IndexAny(p, ".["); i >= 0 {
		p = p[:i]
	}
	return p
}

type step struct {
	field int    // struct field index, or -1
	idx   int    // slice index, or -1
	key   string // map key
	isKey bool
}

type site struct {
	path  []step
	name  string
	typ   reflect.Type
	isNil bool
	empty bool // non-nil nested message without content (nil-ing it is not a semantic change)
	n     int  // slice length
	keys  []string
}

// All enumerates the mutants of root.
func All(root proto.Message) []Mutant {
	var sites []site
	collect(reflect.ValueOf(root).Elem(), nil, "", &sites)
	var out []Mutant
	orig, _ := proto.Marshal(root)
	origMsg := reflect.New(reflect.TypeOf(root).Elem()).Interface().(proto.Message)
	proto.Unmarshal(orig, origMsg)
	emit := func(s site, kind string, f func(v reflect.Value)) {
		c := proto.Clone(root)
		v := navigate(reflect.ValueOf(c).Elem(), s.path)
		f(v)
		buf, err := proto.Marshal(c)
		if err != nil {
			return
		}
		// round trip so that the mutant looks like something received from the wire
		w := reflect.New(reflect.TypeOf(root).Elem()).Interface().(proto.Message)
		if proto.Unmarshal(buf, w) != nil {
			return
		}
		if proto.Equal(w, origMsg) {
			return // not a semantic change (nil vs empty, map order ...)
		}
		out = append(out, Mutant{Path: s.name, Kind: kind, Msg: w})
	}
	for _, s := range sites {
		s := s
		switch s.typ.Kind() {
		case reflect.Bool:
			emit(s, "flip", func(v reflect.Value) { v.SetBool(!v.Bool()) })
		case reflect.Int32, reflect.Int64:
			emit(s, "plus1", func(v reflect.Value) { v.SetInt(v.Int() + 1) })
			emit(s, "minus1", func(v reflect.Value) { v.SetInt(v.Int() - 1) })
			emit(s, "zero", func(v reflect.Value) { v.SetInt(0) })
			emit(s, "big", func(v reflect.Value) { v.SetInt(v.Int() + 1<<20) })
		case reflect.String:
			emit(s, "append", func(v reflect.Value) { v.SetString(v.String() + "x") })
			emit(s, "truncate", func(v reflect.Value) {
				if n := len(v.String()); n > 0 {
					v.SetString(v.String()[:n-1])
				}
			})
			emit(s, "empty", func(v reflect.Value) { v.SetString("") })
			emit(s, "flipchar", func(v reflect.Value) {
				b := []byte(v.String())
				if len(b) > 0 {
					b[len(b)/2] ^= 1
					v.SetString(string(b))
				} else {
					v.SetString("y")
				}
			})
		case reflect.Slice:
			if s.typ.Elem().Kind() == reflect.Uint8 { // []byte
				emit(s, "bitflip-first", func(v reflect.Value) { flip(v, 0) })
				emit(s, "bitflip-last", func(v reflect.Value) { flip(v, -1) })
				emit(s, "truncate", func(v reflect.Value) {
					if v.Len() > 0 {
						v.Set(v.Slice(0, v.Len()-1))
					}
				})
				emit(s, "extend", func(v reflect.Value) { v.Set(reflect.Append(v, reflect.ValueOf(byte(0)))) })
				emit(s, "extend-front", func(v reflect.Value) {
					v.Set(reflect.AppendSlice(reflect.ValueOf([]byte{0}), v))
				})
				emit(s, "empty", func(v reflect.Value) { v.Set(reflect.Zero(v.Type())) })
				break
			}
			// repeated field
			n := s.n
			for i := 0; i < n; i++ {
				i := i
				emit(s, fmt.Sprintf("drop[%d]", i), func(v reflect.Value) {
					v.Set(reflect.AppendSlice(v.Slice(0, i), v.Slice(i+1, v.Len())))
				})
				emit(s, fmt.Sprintf("dup[%d]", i), func(v reflect.Value) {
					nv := reflect.MakeSlice(v.Type(), 0, v.Len()+1)
					nv = reflect.AppendSlice(nv, v.Slice(0, i+1))
					nv = reflect.Append(nv, cloneElem(v.Index(i)))
					nv = reflect.AppendSlice(nv, v.Slice(i+1, v.Len()))
					v.Set(nv)
				})
				// element i overwritten by a copy of a neighbour (count kept, one entry repeated)
				for _, j := range []int{i - 1, i + 1} {
					j := j
					if j < 0 || j >= n {
						continue
					}
					emit(s, fmt.Sprintf("overwrite[%d<-%d]", i, j), func(v reflect.Value) { v.Index(i).Set(cloneElem(v.Index(j))) })
				}
				if i+1 < n {
					emit(s, fmt.Sprintf("swap[%d,%d]", i, i+1), func(v reflect.Value) {
						a, b := cloneElem(v.Index(i)), cloneElem(v.Index(i+1))
						v.Index(i).Set(b)
						v.Index(i + 1).Set(a)
					})
				}
			}
			emit(s, "append-fresh", func(v reflect.Value) { v.Set(reflect.Append(v, freshElem(v.Type().Elem()))) })
		case reflect.Map:
			for _, k := range s.keys {
				k := k
				emit(s, "map-drop["+k+"]", func(v reflect.Value) { v.SetMapIndex(reflect.ValueOf(k), reflect.Value{}) })
				emit(s, "map-value["+k+"]", func(v reflect.Value) {
					old := v.MapIndex(reflect.ValueOf(k))
					if old.Kind() == reflect.String {
						v.SetMapIndex(reflect.ValueOf(k), reflect.ValueOf(old.String()+"x"))
					} else {
						nb := append(append([]byte{}, old.Bytes()...), 1)
						v.SetMapIndex(reflect.ValueOf(k), reflect.ValueOf(nb))
					}
				})
				emit(s, "map-rename["+k+"]", func(v reflect.Value) {
					old := v.MapIndex(reflect.ValueOf(k))
					v.SetMapIndex(reflect.ValueOf(k), reflect.Value{})
					v.SetMapIndex(reflect.ValueOf(k+"x"), old)
				})
			}
			emit(s, "map-add", func(v reflect.Value) {
				if v.IsNil() {
					v.Set(reflect.MakeMap(v.Type()))
				}
				if v.Type().Elem().Kind() == reflect.String {
					v.SetMapIndex(reflect.ValueOf("zz-added"), reflect.ValueOf("v"))
				} else {
					v.SetMapIndex(reflect.ValueOf("zz-added"), reflect.ValueOf([]byte("v")))
				}
			})
		case reflect.Ptr: // nested message
			// (nil -> empty message is not a semantic change in proto3 and is not generated)
			if !s.isNil && !s.empty {
				emit(s, "nil", func(v reflect.Value) { v.Set(reflect.Zero(v.Type())) })
			}
		}
	}
	out = append(out, boundaryShifts(root, orig)...)
	return out
}

func flip(v reflect.Value, i int) {
	if v.Len() == 0 {
		v.Set(reflect.ValueOf([]byte{1}))
		return
	}
	b := append([]byte{}, v.Bytes()...)
	if i < 0 {
		i = len(b) - 1
	}
	b[i] ^= 0x01
	v.SetBytes(b)
}

func cloneElem(v reflect.Value) reflect.Value {
	if v.Kind() == reflect.Ptr {
		if v.IsNil() {
			return v
		}
		if m, ok := v.Interface().(proto.Message); ok {
			return reflect.ValueOf(proto.Clone(m))
		}
	}
	if v.Kind() == reflect.Slice {
		c := reflect.MakeSlice(v.Type(), v.Len(), v.Len())
		reflect.Copy(c, v)
		return c
	}
	return v
}

func freshElem(t reflect.Type) reflect.Value {
	switch t.Kind() {
	case reflect.Ptr:
		e := reflect.New(t.Elem())
		// give the fresh message some content so that it survives the wire
		ev := e.Elem()
		for i := 0; i < ev.NumField(); i++ {
			f := ev.Field(i)
			if !f.CanSet() || strings.HasPrefix(ev.Type().Field(i).Name, "XXX_") {
				continue
			}
			switch f.Kind() {
			case reflect.String:
				f.SetString("fresh")
			case reflect.Slice:
				if f.Type().Elem().Kind() == reflect.Uint8 {
					f.SetBytes([]byte("fresh"))
				}
			case reflect.Int32, reflect.Int64:
				f.SetInt(1)
			}
		}
		return e
	case reflect.String:
		return reflect.ValueOf("fresh")
	case reflect.Slice:
		return reflect.ValueOf([]byte("fresh"))
	}
	return reflect.Zero(t)
}

func collect(v reflect.Value, path []step, name string, out *[]site) {
	t := v.Type()
	for i := 0; i < t.NumField(); i++ {
		sf := t.Field(i)
		if strings.HasPrefix(sf.Name, "XXX_") || sf.PkgPath != "" {
			continue
		}
		f := v.Field(i)
		p := append(append([]step{}, path...), step{field: i, idx: -1})
		n := sf.Name
		if name != "" {
			n = name + "." + sf.Name
		}
		collectValue(f, p, n, out)
	}
}

func collectValue(f reflect.Value, p []step, n string, out *[]site) {
	switch f.Kind() {
	case reflect.Bool, reflect.Int32, reflect.Int64, reflect.String:
		*out = append(*out, site{path: p, name: n, typ: f.Type()})
	case reflect.Slice:
		if f.Type().Elem().Kind() == reflect.Uint8 {
			*out = append(*out, site{path: p, name: n, typ: f.Type()})
			return
		}
		*out = append(*out, site{path: p, name: n, typ: f.Type(), n: f.Len()})
		for i := 0; i < f.Len(); i++ {
			ep := append(append([]step{}, p...), step{field: -1, idx: i})
			en := fmt.Sprintf("%s[%d]", n, i)
			e := f.Index(i)
			if e.Kind() == reflect.Ptr {
				if !e.IsNil() {
					collect(e.Elem(), ep, en, out)
				}
			} else {
				collectValue(e, ep, en, out)
			}
		}
	case reflect.Map:
		ks := []string{}
		for _, k := range f.MapKeys() {
			ks = append(ks, k.String())
		}
		sort.Strings(ks)
		*out = append(*out, site{path: p, name: n, typ: f.Type(), keys: ks})
	case reflect.Ptr:
		if f.Type().Elem().Kind() != reflect.Struct {
			return
		}
		empty := false
		if !f.IsNil() {
			if m, ok := f.Interface().(proto.Message); ok && proto.Size(m) == 0 {
				empty = true
			}
		}
		*out = append(*out, site{path: p, name: n, typ: f.Type(), isNil: f.IsNil(), empty: empty})
		if !f.IsNil() {
			collect(f.Elem(), p, n, out)
		}
	}
}

func navigate(v reflect.Value, path []step) reflect.Value {
	for _, s := range path {
		if s.field >= 0 {
			if v.Kind() == reflect.Ptr {
				v = v.Elem()
			}
			v = v.Field(s.field)
		} else {
			v = v.Index(s.idx)
		}
	}
	return v
}

// boundaryShifts moves one byte between two adjacent variable-length fields of the same
// message (detects a digest that forgets a length prefix).
func boundaryShifts(root proto.Message, orig []byte) []Mutant {
	var out []Mutant
	origMsg := reflect.New(reflect.TypeOf(root).Elem()).Interface().(proto.Message)
	proto.Unmarshal(orig, origMsg)
	var sites []site
	collect(reflect.ValueOf(root).Elem(), nil, "", &sites)
	isVar := func(s site) bool {
		return s.typ.Kind() == reflect.String || (s.typ.Kind() == reflect.Slice && s.typ.Elem().Kind() == reflect.Uint8)
	}
	get := func(v reflect.Value) []byte {
		if v.Kind() == reflect.String {
			return []byte(v.String())
		}
		return append([]byte{}, v.Bytes()...)
	}
	set := func(v reflect.Value, b []byte) {
		if v.Kind() == reflect.String {
			v.SetString(string(b))
		} else {
			v.SetBytes(b)
		}
	}
	for i := 0; i+1 < len(sites); i++ {
		a, b := sites[i], sites[i+1]
		if !isVar(a) || !isVar(b) || len(a.path) != len(b.path) {
			continue
		}
		same := true
		for k := 0; k < len(a.path)-1; k++ {
			if a.path[k] != b.path[k] {
				same = false
			}
		}
		if !same {
			continue
		}
		for dir := 0; dir < 2; dir++ {
			c := proto.Clone(root)
			va := navigate(reflect.ValueOf(c).Elem(), a.path)
			vb := navigate(reflect.ValueOf(c).Elem(), b.path)
			ba, bb := get(va), get(vb)
			if dir == 0 {
				if len(ba) == 0 {
					continue
				}
				bb = append([]byte{ba[len(ba)-1]}, bb...)
				ba = ba[:len(ba)-1]
			} else {
				if len(bb) == 0 {
					continue
				}
				ba = append(ba, bb[0])
				bb = bb[1:]
			}
			set(va, ba)
			set(vb, bb)
			buf, err := proto.Marshal(c)
			if err != nil {
				continue
			}
			w := reflect.New(reflect.TypeOf(root).Elem()).Interface().(proto.Message)
			if proto.Unmarshal(buf, w) != nil || proto.Equal(w, origMsg) {
				continue
			}
			out = append(out, Mutant{Path: a.name + "|" + b.name, Kind: fmt.Sprintf("boundary-shift-%d", dir), Msg: w})
		}
	}
	return out
}
