package refmodel

import "sort"

// TBlock is a stored block of the tree model.
type TBlock struct {
	ID     string
	Parent string
	Height int64
	Seq    int // arrival sequence number
	Txids  []string
}

// TreeModel is the block tree + main-chain rule of C04's statement: the tip changes only
// to a strictly higher block (the earlier-confirmed block wins ties); truncation to a
// main-chain block removes everything above its height.
type TreeModel struct {
	Blocks map[string]*TBlock
	Root   string
	Tip    string
	seq    int
}

func NewTreeModel(rootID string, txids []string) *TreeModel {
	m := &TreeModel{Blocks: map[string]*TBlock{}, Root: rootID, Tip: rootID}
	m.Blocks[rootID] = &TBlock{ID: rootID, Height: 0, Txids: txids}
	return m
}

// Has reports whether the block is stored.
func (m *TreeModel) Has(id string) bool { _, ok := m.Blocks[id]; return ok }

// CanConfirm: a new block is acceptable iff it is not stored yet and its parent is.
func (m *TreeModel) CanConfirm(id, parent string) bool {
	return !m.Has(id) && m.Has(parent)
}

// Confirm stores the block and applies the main-chain rule.
func (m *TreeModel) Confirm(id, parent string, txids []string) {
	m.seq++
	b := &TBlock{ID: id, Parent: parent, Height: m.Blocks[parent].Height + 1, Seq: m.seq, Txids: txids}
	m.Blocks[id] = b
	if b.Height > m.Blocks[m.Tip].Height {
		m.Tip = id
	}
}

// Truncate keeps only blocks not higher than the target and makes the target the tip.
func (m *TreeModel) Truncate(target string) []string {
	h := m.Blocks[target].Height
	var removed []string
	for id, b := range m.Blocks {
		if b.Height > h {
			removed = append(removed, id)
		}
	}
	for _, id := range removed {
		delete(m.Blocks, id)
	}
	m.Tip = target
	sort.Strings(removed)
	return removed
}

// MainChain lists root..tip.
func (m *TreeModel) MainChain() []string {
	var rev []string
	for id := m.Tip; id != ""; id = m.Blocks[id].Parent {
		rev = append(rev, id)
		if id == m.Root {
			break
		}
	}
	out := make([]string, len(rev))
	for i, id := range rev {
		out[len(rev)-1-i] = id
	}
	return out
}

// InTrunk reports main-chain membership.
func (m *TreeModel) InTrunk(id string) bool {
	b, ok := m.Blocks[id]
	if !ok {
		return false
	}
	mc := m.MainChain()
	return int(b.Height) < len(mc) && mc[b.Height] == id
}

// Leaves lists stored blocks without stored children.
func (m *TreeModel) Leaves() []string {
	hasChild := map[string]bool{}
	for _, b := range m.Blocks {
		hasChild[b.Parent] = true
	}
	var out []string
	for id := range m.Blocks {
		if !hasChild[id] {
			out = append(out, id)
		}
	}
	sort.Strings(out)
	return out
}

// LCA is the lowest common ancestor of two stored blocks.
func (m *TreeModel) LCA(a, b string) string {
	for a != b {
		if m.Blocks[a].Height >= m.Blocks[b].Height {
			a = m.Blocks[a].Parent
		} else {
			b = m.Blocks[b].Parent
		}
	}
	return a
}

// Paths returns the blocks to undo (from cur down to, excluding, the LCA) and to redo
// (from dest down to, excluding, the LCA), both newest first.
func (m *TreeModel) Paths(cur, dest string) (undo, todo []string) {
	l := m.LCA(cur, dest)
	for x := cur; x != l; x = m.Blocks[x].Parent {
		undo = append(undo, x)
	}
	for x := dest; x != l; x = m.Blocks[x].Parent {
		todo = append(todo, x)
	}
	return
}
