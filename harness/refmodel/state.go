// Package refmodel holds small executable models written from the property statements
// (not from the implementation): a UTXO + versioned-key ledger state, a block tree, etc.
package refmodel

import (
	"bytes"
	"fmt"
	"math/big"

	pb "github.com/xuperchain/xupercore/bcs/ledger/xledger/xldgpb"
)

// TransientBucket is the bucket whose writes are never persisted (statement of C09).
const TransientBucket = "$transient"

// Coin is one unspent output.
type Coin struct {
	Owner  string
	Amount *big.Int
	Frozen int64
}

// KeyVer is the current version of a key.
type KeyVer struct {
	Version string // "" = never written; txid_offset otherwise
	Value   []byte
	Deleted bool
}

// State is the ledger state implied by a sequence of applied transactions.
type State struct {
	U          map[string]Coin   // "owner_txidhex_offset"
	KV         map[string]KeyVer // "bucket/key"
	Total      *big.Int          // sum of coinbase outputs applied
	PendingFee *big.Int          // '$' outputs of transactions applied without a block (pool)
}

func NewState() *State {
	return &State{U: map[string]Coin{}, KV: map[string]KeyVer{}, Total: new(big.Int), PendingFee: new(big.Int)}
}

func (s *State) Copy() *State {
	n := NewState()
	for k, v := range s.U {
		n.U[k] = v
	}
	for k, v := range s.KV {
		n.KV[k] = v
	}
	n.Total.Set(s.Total)
	n.PendingFee.Set(s.PendingFee)
	return n
}

func CoinKey(owner []byte, txid []byte, off int32) string {
	return fmt.Sprintf("%s_%x_%d", owner, txid, off)
}

func Version(txid []byte, off int32) string {
	if txid == nil {
		return ""
	}
	return fmt.Sprintf("%x_%d", txid, off)
}

// Inadmissible explains why a transaction may not be applied. Kind is one of
// "dup-input", "spent-input", "amount", "frozen", "sum", "stale-key".
type Inadmissible struct {
	Why     string
	Kind    string
	Key     string // for stale-key: the key; Current: its current version
	Current string
}

func (e *Inadmissible) Error() string { return e.Why }

// Check decides, from the statement of C02/C03, whether tx is admissible on s at the
// given ledger height: every token input is a currently unspent, unfrozen output with
// the cited owner and amount, inputs are pairwise distinct, every key read is at the
// cited version, sums are equal unless coinbase. It does not look at signatures.
func (s *State) Check(tx *pb.Transaction, ledgerHeight int64) error {
	seen := map[string]bool{}
	in := new(big.Int)
	for _, i := range tx.TxInputs {
		k := CoinKey(i.FromAddr, i.RefTxid, i.RefOffset)
		if seen[k] {
			return &Inadmissible{Why: "duplicate input " + k, Kind: "dup-input"}
		}
		seen[k] = true
		c, ok := s.U[k]
		if !ok {
			return &Inadmissible{Why: "input not unspent: " + k, Kind: "spent-input"}
		}
		if c.Amount.Cmp(new(big.Int).SetBytes(i.Amount)) != 0 {
			return &Inadmissible{Why: fmt.Sprintf("input %s cites amount %x, real %s", k, i.Amount, c.Amount), Kind: "amount"}
		}
		if c.Frozen == -1 || c.Frozen > ledgerHeight {
			return &Inadmissible{Why: fmt.Sprintf("input %s frozen (%d > %d)", k, c.Frozen, ledgerHeight), Kind: "frozen"}
		}
		in.Add(in, c.Amount)
	}
	out := new(big.Int)
	for _, o := range tx.TxOutputs {
		out.Add(out, new(big.Int).SetBytes(o.Amount))
	}
	if in.Cmp(out) != 0 && !(tx.Coinbase && len(tx.TxInputs) == 0) {
		return &Inadmissible{Why: fmt.Sprintf("inputs %s != outputs %s", in, out), Kind: "sum"}
	}
	for _, i := range tx.TxInputsExt {
		k := i.Bucket + "/" + string(i.Key)
		if cur := s.KV[k].Version; cur != Version(i.RefTxid, i.RefOffset) {
			return &Inadmissible{Why: fmt.Sprintf("key %s read at %s, current %s", k, Version(i.RefTxid, i.RefOffset), cur), Kind: "stale-key", Key: k, Current: cur}
		}
	}
	return nil
}

// Apply applies an admissible transaction. proposer == "" means "pending in the pool":
// fee outputs are not materialised but remembered; otherwise they go to the proposer.
func (s *State) Apply(tx *pb.Transaction, proposer string) {
	for _, i := range tx.TxInputs {
		delete(s.U, CoinKey(i.FromAddr, i.RefTxid, i.RefOffset))
	}
	for off, o := range tx.TxOutputs {
		amt := new(big.Int).SetBytes(o.Amount)
		if bytes.Equal(o.ToAddr, []byte("$")) {
			if proposer == "" {
				s.PendingFee.Add(s.PendingFee, amt)
			} else {
				// the fee output belongs to the proposer once the block is applied;
				// (a zero fee is still materialised by the implementation: mirror only non-zero)
				s.U[CoinKey([]byte(proposer), tx.Txid, int32(off))] = Coin{Owner: proposer, Amount: amt}
			}
			continue
		}
		if amt.Sign() == 0 {
			continue
		}
		s.U[CoinKey(o.ToAddr, tx.Txid, int32(off))] = Coin{Owner: string(o.ToAddr), Amount: amt, Frozen: o.FrozenHeight}
		if tx.Coinbase {
			s.Total.Add(s.Total, amt)
		}
	}
	for off, o := range tx.TxOutputsExt {
		if o.Bucket == TransientBucket {
			continue
		}
		k := o.Bucket + "/" + string(o.Key)
		s.KV[k] = KeyVer{Version: Version(tx.Txid, int32(off)), Value: o.Value, Deleted: bytes.Equal(o.Value, []byte{0})}
	}
}

// SumU is the sum of all unspent outputs.
func (s *State) SumU() *big.Int {
	t := new(big.Int)
	for _, c := range s.U {
		t.Add(t, c.Amount)
	}
	return t
}

// Balance is the sum of an owner's unspent outputs.
func (s *State) Balance(owner string) *big.Int {
	t := new(big.Int)
	for _, c := range s.U {
		if c.Owner == owner {
			t.Add(t, c.Amount)
		}
	}
	return t
}
