// Package hist drives a system-under-test node through random legal operation
// sequences over a generated block tree and runs auditors after every operation.
package hist

import (
	"fmt"
	"math/rand"
	"strings"

	pb "github.com/xuperchain/xupercore/bcs/ledger/xledger/xldgpb"

	"verif/gen"
	"verif/refmodel"
	sn "verif/simnode"
)

// Op is one logged operation.
type Op struct {
	Kind   string `json:"kind"`
	Block  int    `json:"block,omitempty"`
	Arg    string `json:"arg,omitempty"`
	Result string `json:"result,omitempty"`
}

func (o Op) String() string { return fmt.Sprintf("%s(%d%s)=%s", o.Kind, o.Block, o.Arg, o.Result) }

// Problem is something an auditor objects to.
type Problem struct {
	Sig    string // narrow structural signature
	Detail string
}

// Auditor inspects the SUT after an operation.
type Auditor func(s *SUT, op Op) []Problem

// SUT is the node under test plus the harness's knowledge about it.
type SUT struct {
	N          *sn.Node
	T          *gen.Tree
	Confirmed  map[int]bool
	Arrival    []int
	Log        []Op
	Applied    map[int]bool // blocks ever applied to the state (for C17)
	Stats      map[string]int
	Tainted    bool
	models     map[int]*refmodel.State
	hn         int
	Predicting bool
	pending    []Problem

	// LedgerTipBefore: tree index of the ledger's tip when the last Receive (or faulted receive)
	// started (-1 unknown)
	LedgerTipBefore int

	poolBeforePlay map[string]bool
	junk           [][]byte // blocks stored by the ledger that the state machine must refuse
}

// NewSUT starts a node at genesis of the tree's chain.
func NewSUT(t *gen.Tree) (*SUT, error) {
	n, err := sn.NewNode(t.Opts.Cfg)
	if err != nil {
		return nil, err
	}
	if string(n.Root()) != string(t.Blocks[0].ID) {
		return nil, fmt.Errorf("genesis id differs between SUT and tree")
	}
	return &SUT{N: n, T: t, Confirmed: map[int]bool{0: true}, Applied: map[int]bool{0: true}, Stats: map[string]int{}}, nil
}

// Fork opens an independent node on a copy of this SUT's persisted data (caches cold, as after a
// restart) and wraps it with a copy of the bookkeeping: many executions can start from one
// prepared situation.
func (s *SUT) Fork() (*SUT, error) {
	n, err := s.N.Twin()
	if err != nil {
		return nil, err
	}
	f := &SUT{N: n, T: s.T, Confirmed: map[int]bool{}, Applied: map[int]bool{}, Stats: map[string]int{}, hn: s.hn,
		Predicting: s.Predicting, models: map[int]*refmodel.State{}}
	for k, v := range s.Confirmed {
		f.Confirmed[k] = v
	}
	for k, v := range s.Applied {
		f.Applied[k] = v
	}
	for k, v := range s.models {
		f.models[k] = v
	}
	f.Arrival = append(f.Arrival, s.Arrival...)
	f.junk = append(f.junk, s.junk...)
	return f, nil
}

// Tip returns the tree index of the state machine's current block (-1 if unknown).
func (s *SUT) Tip() int {
	if i, ok := s.T.ByID[string(s.N.StateTip())]; ok {
		return i
	}
	return -1
}

// LedgerTip returns the tree index of the ledger's tip.
func (s *SUT) LedgerTip() int {
	if i, ok := s.T.ByID[string(s.N.LedgerTip())]; ok {
		return i
	}
	return -1
}

func (s *SUT) log(op Op) Op {
	s.Log = append(s.Log, op)
	s.Stats["op."+op.Kind]++
	return op
}

// OpLog renders the history for witnesses.
func (s *SUT) OpLog() []string {
	out := []string{}
	for _, o := range s.Log {
		out = append(out, o.String())
	}
	return out
}

// ---- operations ----

func (s *SUT) Confirm(i int) Op {
	st := s.N.Confirm(s.T.Blocks[i].Block)
	res := "ok"
	if !st.Succ {
		res = fmt.Sprintf("FAIL(%v)", st.Error)
	} else {
		s.Confirmed[i] = true
		s.Arrival = append(s.Arrival, i)
		if st.TrunkSwitch {
			res = "ok+switch"
			s.Stats["confirm.switch"]++
		} else if st.Orphan {
			res = "ok+branch"
		}
	}
	return s.log(Op{Kind: "confirm", Block: i, Result: res})
}

// Receive hands tree block i to the engine's real entry point for blocks received from peers
// (Miner.ProcBlock: validity checks, pending store, VerifyBlock, consensus, ConfirmBlock, Walk of
// the state to the ledger tip). The engine ignores blocks below the height it has already
// synchronised to: that is its policy, not a failure.
func (s *SUT) Receive(i int) Op {
	// the engine first walks the state to the ledger's CURRENT tip when the two differ, then
	// stores the block and walks to the new tip: blocks may be applied and undone inside one call
	s.LedgerTipBefore = s.LedgerTip()
	err := s.N.ProcBlock(s.T.Blocks[i].Block)
	res := "ok"
	switch {
	case err == nil:
	case sn.IsForbidden(err):
		res = "ignored(" + err.Error() + ")"
	default:
		res = "FAIL(" + err.Error() + ")"
	}
	if s.N.Ledger.ExistBlock(s.T.Blocks[i].ID) {
		s.Confirmed[i] = true
		s.Arrival = append(s.Arrival, i)
		s.Stats["receive.stored"]++
	}
	if tip := s.Tip(); tip >= 0 {
		for _, j := range s.T.Path(tip) {
			s.Applied[j] = true
		}
	}
	return s.log(Op{Kind: "receive", Block: i, Result: res})
}

func (s *SUT) Play(i int) Op {
	hz := ""
	if s.PlayHazard(i) {
		hz = ",hazard"
		s.Stats["play.hazard"]++
	}
	s.poolBeforePlay = map[string]bool{}
	if pool, perr := s.N.State.GetUnconfirmedTx(false); perr == nil {
		for _, x := range pool {
			s.poolBeforePlay[fmt.Sprintf("%x", x.Txid)] = true
		}
	}
	err := s.N.State.Play(s.T.Blocks[i].ID)
	res := "ok"
	if err != nil {
		res = "FAIL(" + err.Error() + ")"
	} else {
		s.Applied[i] = true
	}
	return s.log(Op{Kind: "play", Block: i, Arg: hz, Result: res})
}

func (s *SUT) Walk(i int, prune bool) Op {
	from := s.Tip()
	err := s.N.Walk(s.T.Blocks[i].ID, prune)
	res := "ok"
	if err != nil {
		res = "FAIL(" + err.Error() + ")"
	} else {
		// blocks redone by the walk count as applied
		for _, j := range s.T.Path(i) {
			s.Applied[j] = true
		}
		if from >= 0 {
			lca := from
			for !s.T.IsAncestor(lca, i) {
				lca = s.T.Blocks[lca].Parent
			}
			undone := int(s.T.Blocks[from].Height - s.T.Blocks[lca].Height)
			redone := int(s.T.Blocks[i].Height - s.T.Blocks[lca].Height)
			if undone > 0 {
				s.Stats["walk.undo"]++
			}
			if undone >= 2 {
				s.Stats["walk.undo2+"]++
			}
			if undone > 0 && redone > 0 {
				s.Stats["walk.crossfork"]++
			}
			s.Stats["walk.undone.blocks"] += undone
		}
	}
	arg := ""
	if prune {
		arg = ",prune"
	}
	return s.log(Op{Kind: "walk", Block: i, Arg: arg, Result: res})
}

func (s *SUT) Reopen() Op {
	err := s.N.Reopen()
	res := "ok"
	if err != nil {
		res = "FAIL(" + err.Error() + ")"
	}
	return s.log(Op{Kind: "reopen", Result: res})
}

// Submit pushes the first k non-coinbase transactions of block i through VerifyTx + DoTx.
func (s *SUT) Submit(i, k int) Op {
	var rs []string
	n := 0
	for _, x := range s.T.Blocks[i].Block.Transactions {
		if x.Coinbase || n >= k {
			continue
		}
		n++
		rs = append(rs, s.SubmitTx(x))
	}
	return s.log(Op{Kind: "submit", Block: i, Arg: fmt.Sprintf(",%d", k), Result: strings.Join(rs, "|")})
}

// SubmitTx is the engine's SubmitTx sequence on the bare state machine.
func (s *SUT) SubmitTx(x *pb.Transaction) string {
	c := sn.CloneTx(x)
	c.Blockid = nil
	adm, why := true, ""
	predicted := false
	if s.Predicting {
		var err error
		adm, why, err = s.Predict(c)
		predicted = err == nil
		if predicted {
			s.Stats["submit.predicted"]++
		}
	}
	res := "ok"
	known := false // refused as already pending / already confirmed: allowed for an admissible transaction
	ok, err := s.N.State.VerifyTx(c)
	if err != nil || !ok {
		res = fmt.Sprintf("verify:%v", err)
		known = sn.IsAlreadyPending(err) || sn.IsAlreadyConfirmed(err)
	} else if err := s.N.State.DoTx(c); err != nil {
		res = "dotx:" + err.Error()
		known = sn.IsAlreadyPending(err) || sn.IsAlreadyConfirmed(err)
	} else {
		s.Stats["pool.admitted"]++
	}
	if predicted {
		if res == "ok" && !adm {
			s.pending = append(s.pending, Problem{Sig: "admission|admitted-inadmissible|submit",
				Detail: fmt.Sprintf("submitted tx %x admitted although: %s", c.Txid, why)})
		}
		if res != "ok" && adm && !known {
			s.pending = append(s.pending, Problem{Sig: "admission|refused-admissible|submit",
				Detail: fmt.Sprintf("submitted tx %x refused (%s) although every input is current", c.Txid, res)})
		}
	}
	return res
}

// TakeProblems returns (and clears) problems noticed inside operations.
func (s *SUT) TakeProblems() []Problem {
	p := s.pending
	s.pending = nil
	return p
}

// poolWithin reports whether every pool transaction is part of block i: the producer
// packs its whole pool (the real miner packs a prefix of the pool order; partial packing is
// exercised by C13 through the pool-order oracle).
func (s *SUT) poolWithin(i int) bool {
	in := map[string]bool{}
	for _, x := range s.T.Blocks[i].Block.Transactions {
		in[string(x.Txid)] = true
	}
	pool, _ := s.N.State.GetUnconfirmedTx(false)
	for _, x := range pool {
		if !in[string(x.Txid)] {
			return false
		}
	}
	return true
}

// Mine lets the SUT act as producer of tree block i: admit its transactions to the own
// pool, confirm the block, PlayForMiner.
func (s *SUT) Mine(i int) Op {
	b := s.T.Blocks[i]
	inPool := map[string]bool{}
	pool, _ := s.N.State.GetUnconfirmedTx(false)
	for _, x := range pool {
		inPool[string(x.Txid)] = true
	}
	for _, x := range b.Block.Transactions {
		if x.Coinbase || inPool[string(x.Txid)] {
			continue
		}
		if r := s.SubmitTx(x); r != "ok" {
			return s.log(Op{Kind: "mine", Block: i, Result: "skipped(" + r + ")"})
		}
	}
	st := s.N.Confirm(b.Block)
	if !st.Succ {
		return s.log(Op{Kind: "mine", Block: i, Result: fmt.Sprintf("FAIL(confirm %v)", st.Error)})
	}
	s.Confirmed[i] = true
	s.Arrival = append(s.Arrival, i)
	if st.Orphan {
		return s.log(Op{Kind: "mine", Block: i, Result: "ok+branch"})
	}
	if err := s.N.State.PlayForMiner(b.ID); err != nil {
		return s.log(Op{Kind: "mine", Block: i, Result: "FAIL(playforminer " + err.Error() + ")"})
	}
	s.Applied[i] = true
	s.Stats["mine.done"]++
	return s.log(Op{Kind: "mine", Block: i, Result: "ok"})
}

// PlayHazard reports the structural precondition of finding C03/pool-writer-vs-block-reader:
// a pool transaction W wrote a key K, and a transaction R of block i that is not in the
// pool reads K at another version than W's. Play (PlayAndRepost) neither evicts W (when W
// is outside the block) nor orders it after R (when W is itself part of the block and only
// skipped as "already applied"), and then fails on R. Checks that do not own that finding
// keep out of its way (taint control).
func (s *SUT) PlayHazard(i int) bool {
	blk := s.T.Blocks[i].Block
	pool, _ := s.N.State.GetUnconfirmedTx(false)
	inPool := map[string]bool{}
	wrote := map[string][]string{} // key -> versions written by pool txs
	for _, x := range pool {
		inPool[string(x.Txid)] = true
		for off, out := range x.TxOutputsExt {
			k := out.Bucket + "/" + string(out.Key)
			wrote[k] = append(wrote[k], refmodel.Version(x.Txid, int32(off)))
		}
	}
	for _, x := range blk.Transactions {
		if inPool[string(x.Txid)] {
			continue
		}
		for _, in := range x.TxInputsExt {
			cited := refmodel.Version(in.RefTxid, in.RefOffset)
			for _, v := range wrote[in.Bucket+"/"+string(in.Key)] {
				if v != cited {
					return true
				}
			}
		}
	}
	// second form (finding pool-stale-reader-kept-after-play): the block's last writer of K is a
	// transaction the pool already knows, and another pool transaction outside the block read or
	// wrote K at another version: processUnconfirmTxs exempts it from eviction
	inBlock := map[string]bool{}
	lastWriter := map[string]string{} // key -> version written by the block
	writerInPool := map[string]bool{}
	for _, x := range blk.Transactions {
		inBlock[string(x.Txid)] = true
		for off, out := range x.TxOutputsExt {
			k := out.Bucket + "/" + string(out.Key)
			lastWriter[k] = refmodel.Version(x.Txid, int32(off))
			writerInPool[k] = inPool[string(x.Txid)]
		}
	}
	for _, x := range pool {
		if inBlock[string(x.Txid)] {
			continue
		}
		for _, in := range x.TxInputsExt {
			k := in.Bucket + "/" + string(in.Key)
			if v, ok := lastWriter[k]; ok && writerInPool[k] && v != refmodel.Version(in.RefTxid, in.RefOffset) {
				return true
			}
		}
	}
	return false
}

// ---- random legal step ----

// StepOpts tunes the operation mix.
type StepOpts struct {
	Reopen          bool
	Pool            bool
	Mine            bool
	Truncate        bool
	Prune           bool // some walks carry the ledger-prune flag
	AllowPlayHazard bool // only the check that owns the finding sets this
	PredictSubmit   bool // compare every pool submission with the model's prediction (C03)
	Engine          bool // some peer blocks arrive through the engine's real Miner.ProcBlock
}

// Step performs one random legal operation and returns it.
func (s *SUT) Step(rng *rand.Rand, o StepOpts) Op {
	s.Predicting = o.PredictSubmit
	t := s.T
	tip := s.Tip()
	var confirmable, playable, minable, walkable, submittable []int
	for _, b := range t.Blocks {
		if b.Idx == 0 {
			walkable = append(walkable, 0)
			continue
		}
		if s.Confirmed[b.Idx] {
			walkable = append(walkable, b.Idx)
			if b.Parent == tip {
				playable = append(playable, b.Idx)
			}
		} else if s.Confirmed[b.Parent] {
			confirmable = append(confirmable, b.Idx)
			if b.Parent == tip && s.LedgerTip() == tip && s.poolWithin(b.Idx) {
				minable = append(minable, b.Idx)
			}
		}
		if b.Parent == tip && len(b.Block.Transactions) > 1 {
			submittable = append(submittable, b.Idx)
		}
	}
	for try := 0; try < 20; try++ {
		switch r := rng.Intn(100); {
		case r < 30 && len(confirmable) > 0:
			if o.Engine && rng.Intn(3) == 0 && s.LedgerTip() >= 0 {
				return s.Receive(confirmable[rng.Intn(len(confirmable))])
			}
			return s.Confirm(confirmable[rng.Intn(len(confirmable))])
		case r < 45 && len(playable) > 0:
			i := playable[rng.Intn(len(playable))]
			if !o.AllowPlayHazard && s.PlayHazard(i) {
				s.Stats["play.hazard.avoided"]++
				return s.Walk(i, false)
			}
			return s.Play(i)
		case r < 55 && o.Mine && len(minable) > 0:
			return s.Mine(minable[rng.Intn(len(minable))])
		case r < 80 && len(walkable) > 1:
			var target int
			if rng.Intn(3) == 0 && s.LedgerTip() >= 0 {
				target = s.LedgerTip() // what the engine does
			} else {
				target = walkable[rng.Intn(len(walkable))]
			}
			if target == tip && rng.Intn(4) > 0 {
				continue
			}
			return s.Walk(target, o.Prune && rng.Intn(4) == 0)
		case r < 88 && o.Reopen:
			if o.Truncate && rng.Intn(2) == 0 && s.LedgerTip() > 0 {
				mc := s.T.Path(s.LedgerTip())
				return s.Truncate(mc[rng.Intn(len(mc))])
			}
			return s.Reopen()
		case r < 100 && o.Pool && len(submittable) > 0:
			i := submittable[rng.Intn(len(submittable))]
			return s.Submit(i, 1+rng.Intn(3))
		}
	}
	return s.Walk(tip, false)
}

// ---- the C01 oracle: state == canon(tip) + pool ----

// Expected builds the history-free reference for the SUT's current position: a fresh node
// opened on canon(tip) to which the SUT's pool transactions are submitted. The statement
// only requires the pool to be a conflict-free extension of the chain state, i.e. that
// SOME sequential order exists; we try admission order (received timestamp), then the
// pool's own order with retries, then (small pools) every order. Pool transactions the
// reference refuses in all of them are returned.
func (s *SUT) Expected() (*sn.Node, []*pb.Transaction, error) {
	tip := s.Tip()
	if tip < 0 {
		return nil, nil, fmt.Errorf("state tip is not a block of the tree")
	}
	pool, err := s.N.State.GetUnconfirmedTx(false)
	if err != nil {
		return nil, nil, err
	}
	open := func() (*sn.Node, error) { return sn.OpenOn(s.T.Blocks[tip].Canon.Clone(), s.T.Opts.Cfg) }
	apply := func(e *sn.Node, order []*pb.Transaction, retry bool) []*pb.Transaction {
		pending := order
		for len(pending) > 0 {
			var next []*pb.Transaction
			for _, x := range pending {
				if err := e.State.DoTx(sn.CloneTx(x)); err != nil {
					next = append(next, x)
				}
			}
			if !retry || len(next) == len(pending) {
				return next
			}
			pending = next
		}
		return nil
	}
	byTime := append([]*pb.Transaction(nil), pool...)
	for i := 1; i < len(byTime); i++ {
		for j := i; j > 0 && byTime[j].ReceivedTimestamp < byTime[j-1].ReceivedTimestamp; j-- {
			byTime[j], byTime[j-1] = byTime[j-1], byTime[j]
		}
	}
	e, err := open()
	if err != nil {
		return nil, nil, err
	}
	refused := apply(e, byTime, true)
	if len(refused) == 0 {
		return e, nil, nil
	}
	s.Stats["expected.order.fallback"]++
	e.Drop()
	if e, err = open(); err != nil {
		return nil, nil, err
	}
	if r2 := apply(e, pool, true); len(r2) == 0 {
		return e, nil, nil
	}
	if len(pool) <= 6 {
		idx := make([]int, len(pool))
		for i := range idx {
			idx[i] = i
		}
		var found *sn.Node
		permute(idx, 0, func(p []int) bool {
			ord := make([]*pb.Transaction, len(p))
			for i, j := range p {
				ord[i] = pool[j]
			}
			c, err := open()
			if err != nil {
				return false
			}
			if len(apply(c, ord, false)) == 0 {
				found = c
				return true
			}
			c.Drop()
			return false
		})
		if found != nil {
			e.Drop()
			return found, nil, nil
		}
	}
	return e, refused, nil
}

func permute(a []int, k int, f func([]int) bool) bool {
	if k == len(a) {
		return f(a)
	}
	for i := k; i < len(a); i++ {
		a[k], a[i] = a[i], a[k]
		if permute(a, k+1, f) {
			return true
		}
		a[k], a[i] = a[i], a[k]
	}
	return false
}

// CanonSelect: include SelectUtxos answers in the canon comparison (switched off by checks
// that leave temporary selection locks on the SUT).
var CanonSelect = true

// CanonAuditor compares every observable with the reference.
func CanonAuditor(s *SUT, op Op) []Problem {
	e, refused, err := s.Expected()
	if e != nil {
		defer e.Drop()
	}
	if err != nil {
		return []Problem{{Sig: "canon|expected-unavailable", Detail: err.Error()}}
	}
	var ps []Problem
	if len(refused) > 0 {
		ps = append(ps, Problem{Sig: "canon|pool-tx-invalid-on-fresh-state",
			Detail: fmt.Sprintf("%d pool transactions of the SUT are refused by a fresh node at the same block, first %x; fresh node log: %v", len(refused), refused[0].Txid, e.Log.Tail(4))})
		return ps
	}
	tip := s.Tip()
	ids := s.T.ChainTxids(tip)
	onChain := map[string]bool{}
	for _, id := range ids {
		onChain[string(id)] = true
	}
	pool, _ := s.N.State.GetUnconfirmedTx(false)
	for _, x := range pool {
		if onChain[string(x.Txid)] {
			// pending and applied at once: the node would pack it a second time
			ps = append(ps, Problem{Sig: "canon|pool-holds-transaction-of-the-state-chain",
				Detail: fmt.Sprintf("pool transaction %x is part of a block on the state's own chain (tip %d)", x.Txid, tip)})
			return ps
		}
		ids = append(ids, x.Txid)
	}
	// SelectUtxos(addr, whole unfrozen balance) is part of the vector: "unspent outputs" as a client
	// obtains them (generated frozen heights are far from every ledger height, so the answer does not
	// depend on how tall the SUT's ledger is)
	got := sn.ObserveOpt(s.N, sn.ObsOpt{Txids: ids, Select: CanonSelect})
	want := sn.ObserveOpt(e, sn.ObsOpt{Txids: ids, Select: CanonSelect})
	if d := got.Diff(want); len(d) > 0 {
		ps = append(ps, Problem{Sig: "canon|" + diffClass(d), Detail: fmt.Sprintf("SUT vs fresh node at block %d: %s", tip, strings.Join(head(d, 8), " ;; "))})
	}
	s.Stats["canon.compared"]++
	s.Stats["canon.entries"] += len(want.M)
	return ps
}

func head(d []string, n int) []string {
	if len(d) > n {
		return d[:n]
	}
	return d
}

// diffClass reduces a diff to the set of observable classes that differ.
func diffClass(d []string) string {
	cl := map[string]bool{}
	for _, x := range d {
		pre := ""
		if strings.HasPrefix(x, "L:") {
			pre, x = "L.", x[2:]
		}
		i := strings.IndexAny(x, ":.0123456789")
		if i > 0 {
			cl[pre+x[:i]] = true
		}
	}
	ks := []string{}
	for k := range cl {
		ks = append(ks, k)
	}
	sortStrings(ks)
	return strings.Join(ks, "+")
}

func sortStrings(a []string) {
	for i := 1; i < len(a); i++ {
		for j := i; j > 0 && a[j] < a[j-1]; j-- {
			a[j], a[j-1] = a[j-1], a[j]
		}
	}
}
