package hist

import (
	"encoding/hex"
	"fmt"
	"math/big"
	"math/rand"
	"os"
	"strings"

	pb "github.com/xuperchain/xupercore/bcs/ledger/xledger/xldgpb"
	"github.com/xuperchain/xupercore/protos"

	sn "verif/simnode"
)

// BlockClasses are the ways a peer's block can carry an inadmissible transaction (C03 "admitted
// ... through a block only if"): conflict families whose members meet inside one block, hostile
// variants, and a fresh transaction re-spending an output the chain has already consumed.
var BlockClasses = []string{"fam:double-spend", "fam:kv-ww", "fam:kv-wr", "fam:chain-out-of-order", "fam:stale-after-write",
	"dup-input", "cite-more", "cite-less", "out-more", "out-less", "missing-input", "wrong-owner", "frozen-input",
	"same-input-two-txs", "stale-key", "respend-chain-input"}

// respendChainInput builds a freshly signed transaction that spends an input which a transaction
// of the applied chain (the newest one found) has already spent.
func (s *SUT) respendChainInput(rng *rand.Rand) *pb.Transaction {
	for i := s.Tip(); i > 0; i = s.T.Blocks[i].Parent {
		for _, x := range s.T.Blocks[i].Block.Transactions {
			if x.Coinbase || len(x.TxInputs) == 0 {
				continue
			}
			in := x.TxInputs[rng.Intn(len(x.TxInputs))]
			k := sn.KeyByAddr(string(in.FromAddr))
			if k == nil {
				continue
			}
			c := *in
			amt := new(big.Int).SetBytes(in.Amount)
			s.hn++
			y, err := sn.BuildTx(sn.TxSpec{Initiator: k.Address, Signers: []*sn.Key{k}, Inputs: []*protos.TxInput{&c},
				Outputs: []sn.Out{{To: sn.K(rng.Intn(6)).Address, Amount: amt}}, Nonce: fmt.Sprintf("rs%d", s.hn), Timestamp: int64(5000 + s.hn)})
			if err != nil {
				return nil
			}
			return y
		}
	}
	return nil
}

// BlockAttempt offers the state machine a well-formed, correctly signed block on its tip whose
// transaction list (after the award and 0..2 honest transactions) realises class cl, and compares
// the verdict of Play with the statement-level model of chain(tip): the block's transactions are
// applied one by one to the model; if one is inadmissible at its turn the block must be refused.
// Lists the model admits completely are not played (honest blocks are the generator's job).
func (s *SUT) BlockAttempt(rng *rand.Rand, cl string) (Op, []Problem) {
	tip := s.Tip()
	if tip < 0 || s.LedgerTip() < 0 {
		return Op{}, nil
	}
	var xs []*pb.Transaction
	switch {
	case len(cl) > 4 && cl[:4] == "fam:":
		fam := cl[4:]
		xs = s.Family(rng, fam)
		if fam == "chain-out-of-order" && len(xs) == 3 {
			xs = xs[:2] // child before parent
		}
		if fam == "stale-after-write" && len(xs) == 3 {
			xs = []*pb.Transaction{xs[0], xs[2]}
		}
	case cl == "respend-chain-input":
		if y := s.respendChainInput(rng); y != nil {
			xs = []*pb.Transaction{y}
		}
	default:
		xs = s.Hostile(rng, cl)
	}
	var txs []*pb.Transaction
	for _, x := range xs {
		if x != nil {
			txs = append(txs, x)
		}
	}
	if len(txs) == 0 {
		return Op{}, nil
	}
	base, err := s.ModelAt(tip)
	if err != nil {
		return Op{}, []Problem{{Sig: "admission|model-unavailable", Detail: err.Error()}}
	}
	h := s.T.Blocks[tip].Height + 1
	s.hn++
	b, err := s.N.FormatBlock(s.T.Blocks[tip].ID, h, sn.K(rng.Intn(3)), int64(950000+s.hn), txs, true)
	if err != nil {
		return Op{}, nil
	}
	m := base.Copy()
	bad, why := -1, ""
	for i, x := range b.Transactions {
		if e := m.Check(x, h); e != nil {
			bad, why = i, e.Error()
			break
		}
		m.Apply(x, string(b.Proposer))
	}
	if bad < 0 {
		s.Stats["blockattempt.admissible-not-played"]++
		return Op{}, nil
	}
	if st := s.N.Confirm(b); !st.Succ {
		s.Stats["blockattempt.ledger-refused"]++
		return s.log(Op{Kind: "blockattempt", Arg: cl, Result: "confirm refused"}), nil
	}
	s.junk = append(s.junk, b.Blockid)
	before := s.snap()
	// through Play or through Walk (the engine's path for peer blocks: one step, on the state's tip)
	var perr error
	via := "play"
	if rng.Intn(2) == 0 {
		via = "walk"
		perr = s.N.Walk(b.Blockid, false)
	} else {
		perr = s.N.State.Play(b.Blockid)
	}
	s.Stats["blockattempt.via-"+via]++
	op := s.log(Op{Kind: "blockattempt", Arg: fmt.Sprintf("%s,%s,bad=%d/%d", cl, via, bad, len(b.Transactions)), Result: fmt.Sprint(perr)})
	s.Stats["blockattempt.played"]++
	s.Stats["blockattempt."+cl]++
	if perr == nil {
		before.world.Drop()
		return op, []Problem{{Sig: "block|admitted-inadmissible|" + cl,
			Detail: fmt.Sprintf(via+" accepted block %x whose transaction #%d (%x) is inadmissible at its turn: %s", b.Blockid, bad, b.Transactions[bad].Txid, why)}}
	}
	ps := s.compareSnap(before, "play:blockattempt")
	if len(ps) > 0 && os.Getenv("VERIF_DEBUG") != "" {
		for k := range before.obs.M {
			if strings.HasPrefix(k, "pool:") {
				id, _ := hex.DecodeString(k[5:])
				x, err := s.N.Ledger.QueryTransaction(id)
				if err == nil {
					hb, _ := s.N.Ledger.QueryBlockHeader(x.Blockid)
					fmt.Fprintf(os.Stderr, "debug: pool tx %s is in ledger block %x (junk=%v) inTrunk=%v height=%d; stateTip=%x\n", k[5:13], x.Blockid[:4], string(x.Blockid) == string(b.Blockid), hb.GetInTrunk(), hb.GetHeight(), s.N.StateTip()[:4])
				}
			}
		}
		for i, x := range b.Transactions {
			fmt.Fprintf(os.Stderr, "debug: junk tx %d = %x\n", i, x.Txid[:4])
		}
	}
	return op, ps
}
