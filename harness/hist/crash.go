package hist

import (
	"fmt"

	"verif/gen"
	sn "verif/simnode"
)

// Truncate performs what the miner does before mining on an older block: walk the state to
// the target (a main-chain block), then truncate the ledger to it.
func (s *SUT) Truncate(i int) Op {
	// the engine's own rollback step (miner.truncateForMiner: State.Walk, then Ledger.Truncate)
	err := s.N.TruncateForMiner(s.T.Blocks[i].ID)
	if string(s.N.StateTip()) == string(s.T.Blocks[i].ID) {
		for _, j := range s.T.Path(i) {
			s.Applied[j] = true
		}
	}
	if err != nil {
		return s.log(Op{Kind: "truncate", Block: i, Result: "FAIL(" + err.Error() + ")"})
	}
	for _, b := range s.T.Blocks {
		if b.Height > s.T.Blocks[i].Height {
			delete(s.Confirmed, b.Idx)
		}
	}
	return s.log(Op{Kind: "truncate", Block: i, Result: "ok"})
}

// WrapCrashed builds a SUT view around a node opened on a crash image: what is confirmed
// is read from the ledger itself.
func WrapCrashed(n *sn.Node, t *gen.Tree) *SUT {
	s := &SUT{N: n, T: t, Confirmed: map[int]bool{}, Applied: map[int]bool{}, Stats: map[string]int{}}
	for _, b := range t.Blocks {
		if n.Ledger.ExistBlock(b.ID) {
			s.Confirmed[b.Idx] = true
		}
	}
	return s
}

// LedgerSelfAudit checks the ledger's own invariants (C04) without any history: the main
// chain is the unique path tip -> root, flags / links / height index agree with it, no
// stored block is higher than the tip, every stored block's parent is stored.
func LedgerSelfAudit(s *SUT) []Problem {
	l := s.N.Ledger
	var ps []Problem
	add := func(class, f string, a ...interface{}) {
		if len(ps) < 8 {
			ps = append(ps, Problem{Sig: "ledger-self|" + class, Detail: fmt.Sprintf(f, a...)})
		}
	}
	m := l.GetMeta()
	tipIdx, ok := s.T.ByID[string(m.TipBlockid)]
	if !ok {
		add("meta", "tip %x is not a block that was ever offered", m.TipBlockid)
		return ps
	}
	if string(m.RootBlockid) != string(s.T.Blocks[0].ID) {
		add("meta", "root changed")
	}
	if m.TrunkHeight != s.T.Blocks[tipIdx].Height {
		add("meta", "trunk height %d but tip block height %d", m.TrunkHeight, s.T.Blocks[tipIdx].Height)
	}
	onMain := map[int]bool{}
	path := s.T.Path(tipIdx)
	for pos, j := range path {
		onMain[j] = true
		b := s.T.Blocks[j]
		h, err := l.QueryBlockHeader(b.ID)
		if err != nil {
			add("existence", "main-chain block %d missing: %v", j, err)
			continue
		}
		if !h.InTrunk {
			add("trunk-flag", "main-chain block %d has InTrunk=false", j)
		}
		want := ""
		if pos+1 < len(path) {
			want = string(s.T.Blocks[path[pos+1]].ID)
		}
		if string(h.NextHash) != want {
			add("next-link", "main-chain block %d NextHash=%x want %x", j, h.NextHash, want)
		}
		if bh, err := l.QueryBlockByHeight(b.Height); err != nil || string(bh.Blockid) != string(b.ID) {
			add("height-index", "QueryBlockByHeight(%d) does not name main-chain block %d (%v)", b.Height, j, err)
		}
		if q, err := l.QueryBlock(b.ID); err != nil {
			add("body", "main-chain block %d has no readable body: %v", j, err)
		} else if b.Block != nil && len(q.Transactions) != len(b.Block.Transactions) {
			add("body", "main-chain block %d has %d transactions, want %d", j, len(q.Transactions), len(b.Block.Transactions))
		}
		if b.Block != nil {
			for _, x := range b.Block.Transactions {
				if !l.IsTxInTrunk(x.Txid) {
					add("tx-map", "transaction %x of main-chain block %d is not in trunk", x.Txid[:4], j)
				}
			}
		}
	}
	if _, err := l.QueryBlockByHeight(m.TrunkHeight + 1); err == nil {
		add("height-index", "height index has an entry above the tip")
	}
	for _, b := range s.T.Blocks {
		if onMain[b.Idx] || !l.ExistBlock(b.ID) {
			continue
		}
		h, err := l.QueryBlockHeader(b.ID)
		if err != nil {
			add("existence", "stored block %d unreadable: %v", b.Idx, err)
			continue
		}
		if h.InTrunk {
			add("trunk-flag", "side block %d has InTrunk=true", b.Idx)
		}
		if b.Height > m.TrunkHeight {
			add("tip-not-maximal", "stored block %d (h=%d) is higher than the tip (h=%d)", b.Idx, b.Height, m.TrunkHeight)
		}
		if !l.ExistBlock(s.T.Blocks[b.Parent].ID) {
			add("existence", "stored block %d has no stored parent", b.Idx)
		}
		if _, err := l.QueryBlock(b.ID); err != nil {
			add("body", "side block %d has no readable body: %v", b.Idx, err)
		}
	}
	return ps
}
