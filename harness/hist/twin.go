package hist

import (
	"fmt"
	"strings"

	sn "verif/simnode"
)

// LedgerObs is the ledger half of the comparison vector: what the ledger answers about
// every block of the tree and every transaction in those blocks.
func LedgerObs(n *sn.Node, s *SUT) *sn.Obs {
	o := &sn.Obs{M: map[string]string{}}
	l := n.Ledger
	m := l.GetMeta()
	o.M["meta"] = fmt.Sprintf("%x/%x/%d", m.RootBlockid, m.TipBlockid, m.TrunkHeight)
	for _, b := range s.T.Blocks {
		id := b.ID
		key := fmt.Sprintf("blk%d", b.Idx)
		for pass := 0; pass < 2; pass++ {
			q, err := l.QueryBlock(id)
			if err != nil {
				o.M[key+".q"] = "ERR " + err.Error()
			} else {
				o.M[key+fmt.Sprintf(".q%d", pass)] = fmt.Sprintf("trunk=%v next=%x h=%d ntx=%d", q.InTrunk, q.NextHash, q.Height, len(q.Transactions))
			}
		}
		h, err := l.QueryBlockHeader(id)
		if err != nil {
			o.M[key+".h"] = "ERR " + err.Error()
		} else {
			o.M[key+".h"] = fmt.Sprintf("trunk=%v next=%x h=%d", h.InTrunk, h.NextHash, h.Height)
		}
		o.M[key+".exist"] = fmt.Sprint(l.ExistBlock(id))
		if b.Block != nil {
			for _, x := range b.Block.Transactions {
				has, _ := l.HasTransaction(x.Txid)
				blk := ""
				if t, err := l.QueryTransaction(x.Txid); err == nil {
					blk = sn.Short(t.Blockid)
				}
				o.M["tx:"+sn.Short(x.Txid)] = fmt.Sprintf("has=%v trunk=%v blk=%s", has, l.IsTxInTrunk(x.Txid), blk)
			}
		}
	}
	for h := int64(0); h <= m.TrunkHeight+1; h++ {
		b, err := l.QueryBlockByHeight(h)
		if err != nil {
			o.M[fmt.Sprintf("height%d", h)] = "ERR " + err.Error()
		} else {
			o.M[fmt.Sprintf("height%d", h)] = sn.Short(b.Blockid)
		}
	}
	tips, err := l.GetBranchInfo(m.RootBlockid, 0)
	ts := []string{}
	for _, t := range tips {
		ts = append(ts, sn.Short([]byte(t)))
	}
	sortStrings(ts)
	o.M["branches"] = fmt.Sprintf("%v %v", ts, err)
	return o
}

// TwinSelect: include SelectUtxos answers in the live-vs-twin vector. Checks that leave
// temporary selection locks behind on purpose (C12) switch it off: those locks live in
// memory only and are explicitly allowed to differ.
var TwinSelect = true

// FullObs = state vector (with SelectUtxos) + ledger vector.
func FullObs(n *sn.Node, s *SUT) *sn.Obs {
	o := sn.ObserveOpt(n, sn.ObsOpt{Select: TwinSelect, Txids: s.knownTxids()})
	for k, v := range LedgerObs(n, s).M {
		o.M["L:"+k] = v
	}
	return o
}

func (s *SUT) knownTxids() [][]byte {
	var out [][]byte
	for _, b := range s.T.Blocks {
		if b.Block == nil || !s.Confirmed[b.Idx] {
			continue
		}
		for _, x := range b.Block.Transactions {
			out = append(out, x.Txid)
		}
	}
	return out
}

// TwinAuditor: at every quiescent moment the running instances answer exactly like
// instances freshly reopened on a copy of the same data.
func TwinAuditor(s *SUT, op Op) []Problem {
	tw, err := s.N.Twin()
	if err != nil {
		return []Problem{{Sig: "twin|cannot-reopen", Detail: "reopening on the same data failed: " + err.Error()}}
	}
	defer tw.Drop()
	live := FullObs(s.N, s)
	cold := FullObs(tw, s)
	s.Stats["twin.compared"]++
	if d := live.Diff(cold); len(d) > 0 {
		return []Problem{{Sig: "twin|after-" + op.Kind + "|" + diffClass(d),
			Detail: fmt.Sprintf("live vs reopened after %s: %s", op.String(), strings.Join(head(d, 8), " ;; "))}}
	}
	return nil
}
