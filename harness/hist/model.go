package hist

import (
	"fmt"
	"math/big"
	"sort"
	"strings"

	"github.com/xuperchain/xupercore/bcs/ledger/xledger/state/utxo"
	pb "github.com/xuperchain/xupercore/bcs/ledger/xledger/xldgpb"

	"verif/refmodel"
	sn "verif/simnode"
)

// ModelAt returns the reference-model state after genesis..block i of the tree (cached).
// A block whose transactions the model finds inadmissible yields an error: generated
// blocks are accepted by a fresh node, so that is a disagreement between the
// implementation's admission rules and the statement.
func (s *SUT) ModelAt(i int) (*refmodel.State, error) {
	if s.models == nil {
		s.models = map[int]*refmodel.State{}
	}
	if m, ok := s.models[i]; ok {
		return m, nil
	}
	var m *refmodel.State
	b := s.T.Blocks[i]
	if i == 0 {
		m = refmodel.NewState()
		m.Apply(s.T.RootTx, "genesis")
	} else {
		pm, err := s.ModelAt(b.Parent)
		if err != nil {
			return nil, err
		}
		m = pm.Copy()
		for _, x := range b.Block.Transactions {
			// the frozen test uses the ledger height at execution time, which is at least
			// the block's own height when the block is played
			if err := m.Check(x, b.Height); err != nil {
				return nil, fmt.Errorf("block %d tx %x accepted by a fresh node but inadmissible by the statement: %v", i, x.Txid, err)
			}
			m.Apply(x, string(b.Block.Proposer))
		}
	}
	s.models[i] = m
	return m, nil
}

// ModelAuditor is the second, implementation-independent oracle: the raw content of the
// state database (unspent outputs, key versions, total) and the balance queries must equal
// what the statement-level model computes for chain(tip) + the SUT's pool.
func ModelAuditor(s *SUT, op Op) []Problem {
	tip := s.Tip()
	if tip < 0 {
		return []Problem{{Sig: "model|tip-unknown", Detail: "state tip is not a block of the tree"}}
	}
	base, err := s.ModelAt(tip)
	if err != nil {
		return []Problem{{Sig: "model|fresh-node-accepted-inadmissible-tx", Detail: err.Error()}}
	}
	pool, _ := s.N.State.GetUnconfirmedTx(false)
	h := s.N.LedgerHeight()
	m, bad := applyPool(base, pool, h)
	if bad != nil {
		kind := "other"
		sig := ""
		if in, ok := bad.(*poolErr); ok {
			kind = in.Reason.Kind
			// narrow precondition of the known PlayAndRepost finding: a pool transaction that read
			// key K stays in the pool after a Play whose block confirmed a writer of K that had
			// been admitted to the pool AFTER the reader (the "known in the pool" exception of
			// processUnconfirmTxs)
			if op.Kind == "play" && kind == "stale-key" && len(in.Reason.Current) > 64 && s.poolBeforePlay[in.Reason.Current[:64]] {
				sig = "model|pool-stale-reader-kept-after-play|writer-was-in-pool"
			}
		}
		if sig == "" {
			sig = "model|pool-not-conflict-free|" + kind + "|after-" + op.Kind
		}
		return []Problem{{Sig: sig, Detail: fmt.Sprintf(
			"no sequential order makes the %d pool transactions admissible on chain state at block %d: %v", len(pool), tip, bad)}}
	}
	var ps []Problem
	diff := []string{}
	// raw U table
	db := s.N.State.GetLDB()
	seen := map[string]bool{}
	sumU := new(big.Int)
	it := db.NewIteratorWithPrefix([]byte("U"))
	for it.Next() {
		k := string(it.Key())[1:]
		item := &utxo.UtxoItem{}
		if err := item.Loads(it.Value()); err != nil {
			diff = append(diff, "U:"+k+": undecodable")
			continue
		}
		seen[k] = true
		sumU.Add(sumU, item.Amount)
		c, ok := m.U[k]
		if !ok {
			diff = append(diff, fmt.Sprintf("U:%s: present (%s) but spent/unknown in model", k, item.Amount))
		} else if c.Amount.Cmp(item.Amount) != 0 || c.Frozen != item.FrozenHeight {
			diff = append(diff, fmt.Sprintf("U:%s: %s/%d vs model %s/%d", k, item.Amount, item.FrozenHeight, c.Amount, c.Frozen))
		}
	}
	it.Release()
	for k, c := range m.U {
		if !seen[k] {
			diff = append(diff, fmt.Sprintf("U:%s: missing, model has %s", k, c.Amount))
		}
	}
	// key versions
	zu := map[string]string{}
	it = db.NewIteratorWithPrefix([]byte("ZU"))
	for it.Next() {
		zu[string(it.Key())[2:]] = string(it.Value())
	}
	it.Release()
	rd := s.N.State.CreateXMReader()
	for k, kv := range m.KV {
		if kv.Deleted {
			if v, ok := zu[k]; ok {
				diff = append(diff, fmt.Sprintf("ZU:%s: live row %s for a deleted key", k, v))
			}
		} else if zu[k] != kv.Version {
			diff = append(diff, fmt.Sprintf("ZU:%s: %s vs model %s", k, zu[k], kv.Version))
		}
		i := strings.Index(k, "/")
		vd, err := rd.Get(k[:i], []byte(k[i+1:]))
		if err != nil {
			diff = append(diff, fmt.Sprintf("get:%s: error %v", k, err))
		} else if got := refmodel.Version(vd.GetRefTxid(), vd.GetRefOffset()); got != kv.Version {
			diff = append(diff, fmt.Sprintf("get:%s: version %s vs model %s", k, got, kv.Version))
		}
	}
	for k, v := range zu {
		if _, ok := m.KV[k]; !ok {
			diff = append(diff, fmt.Sprintf("ZU:%s: row %s for a key the model never saw written", k, v))
		}
	}
	// conservation (C02)
	total := s.N.State.GetTotal()
	if total.Cmp(m.Total) != 0 {
		diff = append(diff, fmt.Sprintf("total: reported %s, coinbase outputs of the applied chain sum to %s", total, m.Total))
	}
	if x := new(big.Int).Add(sumU, m.PendingFee); x.Cmp(total) != 0 {
		diff = append(diff, fmt.Sprintf("conservation: sum(U)=%s + pending fees %s != reported total %s", sumU, m.PendingFee, total))
	}
	owners := map[string]bool{}
	for _, c := range m.U {
		owners[c.Owner] = true
	}
	for _, k := range sn.Keys() {
		owners[k.Address] = true
	}
	for o := range owners {
		b, err := s.N.State.GetBalance(o)
		if err != nil || b.Cmp(m.Balance(o)) != 0 {
			diff = append(diff, fmt.Sprintf("bal:%s: %v (err %v) vs model %s", o, b, err, m.Balance(o)))
		}
	}
	s.Stats["model.compared"]++
	s.Stats["model.coins"] += len(m.U)
	if len(diff) > 0 {
		sort.Strings(diff)
		ps = append(ps, Problem{Sig: "model|" + diffClass(diff), Detail: fmt.Sprintf("SUT vs statement model at block %d (+%d pool txs): %s",
			tip, len(pool), strings.Join(head(diff, 8), " ;; "))})
	}
	return ps
}

// applyPool finds an order in which every pool transaction is admissible (admission order
// first, then - for small pools - any permutation).
func applyPool(base *refmodel.State, pool []*pb.Transaction, h int64) (*refmodel.State, error) {
	ord := append([]*pb.Transaction(nil), pool...)
	sort.SliceStable(ord, func(i, j int) bool { return ord[i].ReceivedTimestamp < ord[j].ReceivedTimestamp })
	try := func(o []*pb.Transaction) (*refmodel.State, error) {
		m := base.Copy()
		for _, x := range o {
			if err := m.Check(x, h); err != nil {
				pe := &poolErr{Txid: x.Txid}
				if in, ok := err.(*refmodel.Inadmissible); ok {
					pe.Reason = *in
				}
				return nil, pe
			}
			m.Apply(x, "")
		}
		return m, nil
	}
	m, err := try(ord)
	if err == nil {
		return m, nil
	}
	if len(pool) <= 7 {
		idx := make([]int, len(pool))
		for i := range idx {
			idx[i] = i
		}
		var found *refmodel.State
		permute(idx, 0, func(p []int) bool {
			o := make([]*pb.Transaction, len(p))
			for i, j := range p {
				o[i] = pool[j]
			}
			if m2, e2 := try(o); e2 == nil {
				found = m2
				return true
			}
			return false
		})
		if found != nil {
			return found, nil
		}
	}
	return nil, err
}

func decodeItem(b []byte) *utxo.UtxoItem {
	it := &utxo.UtxoItem{}
	if err := it.Loads(b); err != nil {
		return nil
	}
	return it
}

type poolErr struct {
	Txid   []byte
	Reason refmodel.Inadmissible
}

func (e *poolErr) Error() string { return fmt.Sprintf("tx %x: %s", e.Txid, e.Reason.Why) }
