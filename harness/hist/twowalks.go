package hist

import (
	"fmt"
	"math/rand"
	"sync"

	"verif/memkv"
	sn "verif/simnode"
)

// TwoWalks runs two non-pruning walks (to stored blocks a and b) at the same time on the SUT and
// compares the outcome - each walk's verdict, the block the state ends on, the irreversible
// height - with the outcomes of the two one-after-the-other orders, obtained on twins of the
// SUT's data. Whatever the interleaving, the result has to be one of the two.
func (s *SUT) TwoWalks(rng *rand.Rand, a, b int) (Op, []Problem) {
	type outcome struct {
		okA, okB bool
		tip      string
		irr      int64
	}
	idA, idB := s.T.Blocks[a].ID, s.T.Blocks[b].ID
	seq := func(first, second []byte, firstIsA bool) (outcome, error) {
		tw, err := s.N.Twin()
		if err != nil {
			return outcome{}, err
		}
		defer tw.Drop()
		e1 := tw.Walk(first, false)
		e2 := tw.Walk(second, false)
		o := outcome{tip: string(tw.StateTip()), irr: tw.State.GetMeta().IrreversibleBlockHeight}
		if firstIsA {
			o.okA, o.okB = e1 == nil, e2 == nil
		} else {
			o.okB, o.okA = e1 == nil, e2 == nil
		}
		return o, nil
	}
	oAB, err := seq(idA, idB, true)
	if err != nil {
		return Op{}, nil
	}
	oBA, err := seq(idB, idA, false)
	if err != nil {
		return Op{}, nil
	}
	memkv.SetJitter(rng.Int63(), 3) // storage latency keeps one walk inside its critical section while the other arrives
	var wg sync.WaitGroup
	var eA, eB error
	start := make(chan struct{})
	wg.Add(2)
	go func() { defer wg.Done(); <-start; eA = s.N.State.Walk(idA, false) }()
	go func() { defer wg.Done(); <-start; eB = s.N.State.Walk(idB, false) }()
	err = s.N.WithRecovery(func() error { close(start); wg.Wait(); return nil })
	memkv.SetJitter(0, 0)
	got := outcome{okA: eA == nil, okB: eB == nil, tip: string(s.N.StateTip()), irr: s.N.State.GetMeta().IrreversibleBlockHeight}
	if tip := s.Tip(); tip >= 0 {
		for _, j := range s.T.Path(tip) {
			s.Applied[j] = true
		}
	}
	op := s.log(Op{Kind: "twowalks", Block: a, Arg: fmt.Sprintf(",%d", b), Result: fmt.Sprintf("a=%v b=%v tip=%d irr=%d", got.okA, got.okB, s.Tip(), got.irr)})
	s.Stats["twowalks"]++
	if oAB != oBA {
		s.Stats["twowalks.order-matters"]++
	}
	if got != oAB && got != oBA {
		desc := func(o outcome) string {
			t := -1
			if i, ok := s.T.ByID[o.tip]; ok {
				t = i
			}
			return fmt.Sprintf("{walk(%d) ok=%v, walk(%d) ok=%v, state on block %d, irreversible height %d}", a, o.okA, b, o.okB, t, o.irr)
		}
		return op, []Problem{{Sig: "concurrent-walks|outcome-of-no-sequential-order",
			Detail: fmt.Sprintf("two walks at the same time ended as %s; one after the other they end as %s or %s", desc(got), desc(oAB), desc(oBA))}}
	}
	return op, nil
}

var _ = sn.K
