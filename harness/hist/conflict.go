package hist

import (
	"fmt"
	"math/big"
	"math/rand"

	pb "github.com/xuperchain/xupercore/bcs/ledger/xledger/xldgpb"
	"github.com/xuperchain/xupercore/protos"

	"verif/gen"
	sn "verif/simnode"
)

// ConflictFamilies are the conflict / dependency shapes of C03's quantifier.
var ConflictFamilies = []string{"double-spend", "kv-ww", "kv-rw", "kv-wr", "kv-rr", "chain-out-of-order", "diamond", "stale-after-write"}

type labelled struct {
	tx    *pb.Transaction
	label string
}

func (s *SUT) transfer(rng *rand.Rand, from *sn.Key, ins []*protos.TxInput, total *big.Int, to string) *pb.Transaction {
	s.hn++
	x, err := sn.BuildTx(sn.TxSpec{Initiator: from.Address, Signers: []*sn.Key{from}, Inputs: ins,
		Outputs: []sn.Out{{To: to, Amount: total}}, Nonce: fmt.Sprintf("c%d-%d", s.hn, rng.Intn(1<<30)), Timestamp: int64(7000 + s.hn)})
	if err != nil {
		return nil
	}
	return x
}

func (s *SUT) kvTx(rng *rand.Rand, p *sn.ProgBuilder) *pb.Transaction {
	k := sn.K(rng.Intn(6))
	res, err := s.N.PreExec([]*protos.InvokeRequest{sn.VerifReq(sn.VerifContract, p.String())}, k.Address, []string{k.Address})
	if err != nil {
		return nil
	}
	s.hn++
	x, err := sn.BuildTx(sn.TxSpec{Initiator: k.Address, Signers: []*sn.Key{k}, Nonce: fmt.Sprintf("k%d-%d", s.hn, rng.Intn(1<<30)),
		Timestamp: int64(7000 + s.hn), InExt: res.Inputs, OutExt: res.Outputs, Requests: res.Requests})
	if err != nil {
		return nil
	}
	return x
}

// Family builds the transactions of one conflict family on the SUT's current state. All of
// them are pre-executed / assembled BEFORE any is submitted, so that they cite the same
// versions; the order of the returned list is the submission order.
func (s *SUT) Family(rng *rand.Rand, fam string) []*pb.Transaction {
	pick := func() (*sn.Key, []*protos.TxInput, *big.Int) {
		for try := 0; try < 8; try++ {
			k := sn.K(rng.Intn(6))
			b, err := s.N.State.GetBalance(k.Address)
			if err != nil || b.Sign() <= 0 {
				continue
			}
			ins, _, tot, err := s.N.State.SelectUtxos(k.Address, big.NewInt(int64(1+rng.Intn(50))), false, false)
			if err == nil && len(ins) > 0 {
				return k, ins, tot
			}
		}
		return nil, nil, nil
	}
	b := gen.Buckets[rng.Intn(len(gen.Buckets))]
	k := []byte(gen.KeyNames[rng.Intn(len(gen.KeyNames))])
	val := func() []byte { return []byte(fmt.Sprintf("c%d", rng.Intn(10000))) }
	switch fam {
	case "double-spend":
		from, ins, tot := pick()
		if from == nil {
			return nil
		}
		return []*pb.Transaction{s.transfer(rng, from, ins, tot, sn.K(rng.Intn(6)).Address), s.transfer(rng, from, ins, tot, sn.K(rng.Intn(6)).Address)}
	case "kv-ww":
		return []*pb.Transaction{s.kvTx(rng, (&sn.ProgBuilder{}).Put(b, k, val())), s.kvTx(rng, (&sn.ProgBuilder{}).Put(b, k, val()))}
	case "kv-rw": // reader first, then the overwriter: both fine
		return []*pb.Transaction{s.kvTx(rng, (&sn.ProgBuilder{}).Get(b, k)), s.kvTx(rng, (&sn.ProgBuilder{}).Put(b, k, val()))}
	case "kv-wr": // overwriter first, then a reader of the old version: the reader is stale
		w := s.kvTx(rng, (&sn.ProgBuilder{}).Put(b, k, val()))
		r := s.kvTx(rng, (&sn.ProgBuilder{}).Get(b, k))
		return []*pb.Transaction{w, r}
	case "kv-rr":
		return []*pb.Transaction{s.kvTx(rng, (&sn.ProgBuilder{}).Get(b, k)), s.kvTx(rng, (&sn.ProgBuilder{}).Get(b, k).Scan(b, []byte("a"), []byte("g"), -1))}
	case "chain-out-of-order":
		from, ins, tot := pick()
		if from == nil {
			return nil
		}
		mid := sn.K(rng.Intn(6))
		t1 := s.transfer(rng, from, ins, tot, mid.Address)
		if t1 == nil {
			return nil
		}
		in2 := []*protos.TxInput{{RefTxid: t1.Txid, RefOffset: 0, FromAddr: []byte(mid.Address), Amount: tot.Bytes()}}
		t2 := s.transfer(rng, mid, in2, tot, sn.K(rng.Intn(6)).Address)
		return []*pb.Transaction{t2, t1, t2}
	case "diamond":
		from, ins, tot := pick()
		if from == nil || tot.Cmp(big.NewInt(2)) < 0 {
			return nil
		}
		a, c := sn.K(rng.Intn(6)), sn.K(rng.Intn(6))
		half := new(big.Int).Div(tot, big.NewInt(2))
		rest := new(big.Int).Sub(tot, half)
		s.hn++
		root, err := sn.BuildTx(sn.TxSpec{Initiator: from.Address, Signers: []*sn.Key{from}, Inputs: ins,
			Outputs: []sn.Out{{To: a.Address, Amount: half}, {To: c.Address, Amount: rest}}, Nonce: fmt.Sprintf("d%d", s.hn), Timestamp: int64(7000 + s.hn)})
		if err != nil {
			return nil
		}
		l := s.transfer(rng, a, []*protos.TxInput{{RefTxid: root.Txid, RefOffset: 0, FromAddr: []byte(a.Address), Amount: half.Bytes()}}, half, from.Address)
		r := s.transfer(rng, c, []*protos.TxInput{{RefTxid: root.Txid, RefOffset: 1, FromAddr: []byte(c.Address), Amount: rest.Bytes()}}, rest, from.Address)
		if l == nil || r == nil {
			return nil
		}
		// join: spends both branches (from receives both)
		join := s.transfer(rng, from, []*protos.TxInput{
			{RefTxid: l.Txid, RefOffset: 0, FromAddr: []byte(from.Address), Amount: half.Bytes()},
			{RefTxid: r.Txid, RefOffset: 0, FromAddr: []byte(from.Address), Amount: rest.Bytes()}}, tot, sn.K(rng.Intn(6)).Address)
		return []*pb.Transaction{root, l, r, join}
	case "stale-after-write":
		// W1 writes K; then R (assembled after W1 is in the pool) reads W1's version: current;
		// W2 assembled before W1 cites the old version: stale
		w2 := s.kvTx(rng, (&sn.ProgBuilder{}).Put(b, k, val()).Get(b, k))
		w1 := s.kvTx(rng, (&sn.ProgBuilder{}).Put(b, k, val()))
		return []*pb.Transaction{w1, nil, w2} // nil = "assemble a dependent reader now" (handled by caller)
	}
	return nil
}

// AttemptFamily submits a family one by one through DoTx (or VerifyTx+DoTx when viaVerify)
// comparing each result with the model's prediction in both directions.
func (s *SUT) AttemptFamily(rng *rand.Rand, fam string, viaVerify bool) (Op, []Problem) {
	xs := s.Family(rng, fam)
	if xs == nil {
		return Op{}, nil
	}
	var ps []Problem
	res := ""
	b := gen.Buckets[0]
	for i, x := range xs {
		if x == nil && fam == "stale-after-write" && i == 1 {
			// dependent reader assembled on the live state (sees the pool): must be admissible
			x = s.kvTx(rng, (&sn.ProgBuilder{}).Scan(b, []byte("a"), []byte("g"), -1).Scan(gen.Buckets[1], []byte("a"), []byte("g"), -1))
		}
		if x == nil {
			continue
		}
		adm, why, err := s.Predict(x)
		if err != nil {
			ps = append(ps, Problem{Sig: "admission|model-unavailable", Detail: err.Error()})
			break
		}
		var derr error
		c := sn.CloneTx(x)
		if viaVerify {
			ok, verr := s.N.State.VerifyTx(c)
			if verr != nil || !ok {
				derr = fmt.Errorf("verify: %v", verr)
			}
		}
		if derr == nil {
			derr = s.N.State.DoTx(c)
		}
		if derr == nil {
			res += "admitted,"
			s.Stats["family.admitted"]++
		} else {
			res += "refused(" + derr.Error() + "),"
			s.Stats["family.refused"]++
		}
		lbl := fmt.Sprintf("%s#%d", fam, i)
		if derr == nil && !adm {
			ps = append(ps, Problem{Sig: "admission|admitted-inadmissible|" + lbl,
				Detail: fmt.Sprintf("tx %x (%s) admitted although: %s", x.Txid, lbl, why)})
		}
		if derr != nil && adm && !sn.IsAlreadyPending(derr) && !sn.IsAlreadyConfirmed(derr) {
			ps = append(ps, Problem{Sig: "admission|refused-admissible|" + lbl,
				Detail: fmt.Sprintf("tx %x (%s) refused (%v) although every input is current and it is well formed", x.Txid, lbl, derr)})
		}
		if len(ps) > 0 {
			break
		}
	}
	s.Stats["family."+fam]++
	via := ""
	if viaVerify {
		via = ",verify"
	}
	return s.log(Op{Kind: "family", Arg: fam + via, Result: res}), ps
}

// SubmitProg pre-executes a $verif program on the live state (pool included), signs it with a
// random key and submits it (VerifyTx + DoTx); returns the submission result ("ok" or the refusal).
func (s *SUT) SubmitProg(rng *rand.Rand, p *sn.ProgBuilder) string {
	x := s.kvTx(rng, p)
	if x == nil {
		return "preexec-failed"
	}
	return s.SubmitTx(x)
}
