package hist

import (
	"fmt"
	"github.com/xuperchain/xupercore/protos"
	"math/big"
	"math/rand"
	"strings"

	pb "github.com/xuperchain/xupercore/bcs/ledger/xledger/xldgpb"

	"verif/gen"
	"verif/memkv"
	sn "verif/simnode"
)

// snapshot of everything a failed operation must leave untouched
type snap struct {
	world *memkv.World
	obs   *sn.Obs
}

func (s *SUT) snap() snap {
	return snap{world: s.N.World.Clone(), obs: FullObs(s.N, s)}
}

func (s *SUT) compareSnap(before snap, what string) []Problem {
	defer before.world.Drop()
	var ps []Problem
	word := "a failed"
	if what == "walk:no-block-moved" {
		word = "a successful walk that moved no block,"
	}
	if eq, why := before.world.Equal(s.N.World); !eq {
		ps = append(ps, Problem{Sig: "failed-op-trace|" + what + "|persisted", Detail: word + " operation changed stored data: " + why})
	}
	after := FullObs(s.N, s)
	if d := before.obs.Diff(after); len(d) > 0 {
		ps = append(ps, Problem{Sig: "failed-op-trace|" + what + "|" + diffClass(d),
			Detail: fmt.Sprintf("answers changed by %s %s: %s", word, what, strings.Join(head(d, 8), " ;; "))})
	}
	s.Stats["failed."+what]++
	return ps
}

// junkBlock builds a block on the state tip that the ledger stores but the state machine
// must refuse: kind = "bad-first" | "award+bad" | "good+bad".
func (s *SUT) junkBlock(rng *rand.Rand, kind string) (*pb.InternalBlock, string) {
	tip := s.Tip()
	if tip < 0 {
		return nil, ""
	}
	classes := []string{"missing-input", "out-more", "frozen-input", "dup-input", "cite-more", "pool-conflict+bad-signature", "pool-conflict+bad-signature"}
	cl := classes[rng.Intn(len(classes))]
	var bad []*pb.Transaction
	if cl == "pool-conflict+bad-signature" {
		// a transaction that spends the input of a POOL transaction (so that Play first rolls the
		// pool transaction back as conflicting) and whose signature does not verify (so that the
		// block is then refused by verification, before anything is executed)
		pool, _ := s.N.State.GetUnconfirmedTx(false)
		for _, p := range pool {
			if len(p.TxInputs) == 0 || p.Coinbase {
				continue
			}
			in := *p.TxInputs[0]
			k := sn.KeyByAddr(string(in.FromAddr))
			if k == nil {
				continue
			}
			s.hn++
			q, err := sn.BuildTx(sn.TxSpec{Initiator: k.Address, Signers: []*sn.Key{k}, Inputs: []*protos.TxInput{&in},
				Outputs: []sn.Out{{To: sn.K(rng.Intn(6)).Address, Amount: new(big.Int).SetBytes(in.Amount)}}, Nonce: fmt.Sprintf("pc%d", s.hn), Timestamp: int64(5000 + s.hn)})
			if err != nil || len(q.InitiatorSigns) == 0 {
				continue
			}
			sg := q.InitiatorSigns[0].Sign
			sg[len(sg)/2] ^= 0x40
			for _, a := range q.AuthRequireSigns {
				a.Sign = sg
			}
			q, _ = sn.Wire(q)
			bad = []*pb.Transaction{q}
			break
		}
		if bad == nil {
			cl = "missing-input"
		}
	}
	if bad == nil {
		bad = s.Hostile(rng, cl)
	}
	if len(bad) == 0 || bad[0] == nil {
		return nil, ""
	}
	var txs []*pb.Transaction
	if kind == "good+bad" {
		a, err := s.T.Author(tip)
		if err != nil {
			return nil, ""
		}
		for i := 0; i < 3; i++ {
			x, _, err := s.T.GenTx(rng, a)
			if err != nil || x == nil {
				continue
			}
			if ok, _ := a.State.VerifyTx(x); !ok {
				continue
			}
			if a.State.DoTx(sn.CloneTx(x)) == nil {
				txs = append(txs, x)
			}
		}
		a.Drop()
		if len(txs) == 0 {
			return nil, ""
		}
	}
	txs = append(txs, bad[0])
	s.hn++
	b, err := s.N.FormatBlock(s.T.Blocks[tip].ID, s.T.Blocks[tip].Height+1, sn.K(rng.Intn(3)), int64(900000+s.hn), txs, kind != "bad-first")
	if err != nil {
		return nil, ""
	}
	return b, cl
}

// FailPlay: confirm a junk block, then Play it: must fail and leave no trace.
func (s *SUT) FailPlay(rng *rand.Rand) (Op, []Problem) {
	kinds := []string{"bad-first", "award+bad", "good+bad"}
	kind := kinds[rng.Intn(len(kinds))]
	b, cl := s.junkBlock(rng, kind)
	if b == nil {
		return Op{}, nil
	}
	if st := s.N.Confirm(b); !st.Succ {
		return s.log(Op{Kind: "failplay", Arg: kind, Result: "confirm refused"}), nil
	}
	s.junk = append(s.junk, b.Blockid)
	before := s.snap()
	err := s.N.State.Play(b.Blockid)
	op := s.log(Op{Kind: "failplay", Arg: kind + "/" + cl, Result: fmt.Sprint(err)})
	if err == nil {
		before.world.Drop()
		return op, []Problem{{Sig: "junk-block-played|" + cl, Detail: "a block containing an inadmissible transaction (" + cl + ") was played successfully"}}
	}
	return op, s.compareSnap(before, "play:"+kind)
}

// FailWalk: walk to a junk block: the walk must fail; the state must be at a stored block
// in its canonical state (checked by the other auditors).
func (s *SUT) FailWalk(rng *rand.Rand) (Op, []Problem) {
	// walks that touch no block at all: to a block the ledger does not hold (fails after the pool
	// was rolled back) and to the block the state already names (succeeds). Neither may change a
	// single answer or stored byte - the pending transactions included.
	if r := rng.Intn(4); (r == 0 || len(s.junk) == 0) && s.Tip() >= 0 {
		if rng.Intn(2) == 0 {
			// pending writers of ONE key, each citing the version its predecessor wrote: the pool
			// roll-back of the walk leaves and re-enters them in order
			b := gen.Buckets[rng.Intn(len(gen.Buckets))]
			k := []byte(gen.KeyNames[rng.Intn(len(gen.KeyNames))])
			for i, n := 0, 2+rng.Intn(2); i < n; i++ {
				if x := s.kvTx(rng, (&sn.ProgBuilder{}).Get(b, k).Put(b, k, []byte(fmt.Sprintf("w%d-%d", s.hn, i)))); x != nil {
					if s.SubmitTx(x) == "ok" {
						s.Stats["walk.no-block.chained-writers-pending"]++
					}
				}
			}
		}
		before := s.snap()
		if rng.Intn(2) == 0 {
			id := make([]byte, 32)
			rng.Read(id)
			err := s.N.Walk(id, false)
			op := s.log(Op{Kind: "failwalk", Arg: "unknown-target", Result: fmt.Sprint(err)})
			if err == nil {
				before.world.Drop()
				return op, []Problem{{Sig: "unknown-block-walked", Detail: "walk to a block the ledger does not hold succeeded"}}
			}
			s.Stats["failed.walk.unknown-target"]++
			return op, s.compareSnap(before, "walk:unknown-target")
		}
		err := s.N.Walk(s.N.StateTip(), false)
		op := s.log(Op{Kind: "noopwalk", Result: fmt.Sprint(err)})
		if err != nil {
			before.world.Drop()
			return op, []Problem{{Sig: "walk-to-own-block-failed", Detail: "walk to the block the state already names failed: " + err.Error()}}
		}
		s.Stats["walk.noop"]++
		return op, s.compareSnap(before, "walk:no-block-moved")
	}
	if len(s.junk) == 0 {
		return Op{}, nil
	}
	id := s.junk[rng.Intn(len(s.junk))]
	if !s.N.Ledger.ExistBlock(id) {
		return Op{}, nil
	}
	// when the junk block sits directly on the state's block the walk has exactly one step, the
	// one that fails: nothing may change, the pending transactions included (a walk first rolls
	// the whole pool back). Longer walks may legitimately stop at an intermediate block.
	direct := false
	if jb, qerr := s.N.Ledger.QueryBlock(id); qerr == nil && string(jb.PreHash) == string(s.N.StateTip()) {
		direct = true
	}
	var before snap
	if direct {
		before = s.snap()
	}
	err := s.N.Walk(id, false)
	op := s.log(Op{Kind: "failwalk", Result: fmt.Sprint(err)})
	s.Stats["failed.walk"]++
	if err == nil {
		if direct {
			before.world.Drop()
		}
		return op, []Problem{{Sig: "junk-block-walked", Detail: "walk to a block containing an inadmissible transaction succeeded"}}
	}
	if direct {
		s.Stats["failed.walk.direct"]++
		return op, s.compareSnap(before, "walk:direct")
	}
	return op, nil
}

// FailConfirm offers blocks the ledger must refuse.
func (s *SUT) FailConfirm(rng *rand.Rand) (Op, []Problem) {
	kinds := []string{"unknown-parent", "second-genesis", "two-coinbase", "dup-tx"}
	kind := kinds[rng.Intn(len(kinds))]
	lt := s.LedgerTip()
	if lt < 0 {
		return Op{}, nil // the ledger tip is a junk block: a child of a tree block would be a side block
	}
	s.hn++
	var blk *pb.InternalBlock
	isRoot := false
	switch kind {
	case "unknown-parent":
		b, err := s.N.FormatBlock([]byte(fmt.Sprintf("no-such-parent-%d", s.hn)), 5, sn.K(0), int64(800000+s.hn), nil, true)
		if err != nil {
			return Op{}, nil
		}
		blk = b
	case "second-genesis":
		rb, err := s.N.Ledger.QueryBlock(s.N.Root())
		if err != nil {
			return Op{}, nil
		}
		blk = sn.CloneBlock(rb)
		isRoot = true
	case "two-coinbase":
		extra := sn.AwardTx(sn.K(1).Address, s.N.Ledger.GenesisBlock.CalcAward(1), int64(800000+s.hn))
		b, err := s.N.FormatBlock(s.T.Blocks[lt].ID, s.T.Blocks[lt].Height+1, sn.K(0), int64(800000+s.hn), []*pb.Transaction{extra}, true)
		if err != nil {
			return Op{}, nil
		}
		blk = b
	case "dup-tx":
		// a block extending the ledger tip that repeats a transaction of the main chain
		var cand *pb.Transaction
		for _, j := range s.T.Path(lt) {
			if s.T.Blocks[j].Block == nil {
				continue
			}
			for _, x := range s.T.Blocks[j].Block.Transactions {
				if !x.Coinbase {
					cand = x
				}
			}
		}
		if cand == nil {
			return Op{}, nil
		}
		b, err := s.N.FormatBlock(s.T.Blocks[lt].ID, s.T.Blocks[lt].Height+1, sn.K(0), int64(800000+s.hn), []*pb.Transaction{cand}, true)
		if err != nil {
			return Op{}, nil
		}
		blk = b
	}
	before := s.snap()
	st := s.N.Ledger.ConfirmBlock(sn.CloneBlock(blk), isRoot)
	op := s.log(Op{Kind: "failconfirm", Arg: kind, Result: fmt.Sprintf("%v/%v", st.Succ, st.Error)})
	if st.Succ {
		before.world.Drop()
		return op, []Problem{{Sig: "invalid-block-stored|" + kind, Detail: "the ledger stored a block it must refuse: " + kind}}
	}
	return op, s.compareSnap(before, "confirm:"+kind)
}

// FailDoTx submits an inadmissible transaction; it must be refused without trace.
func (s *SUT) FailDoTx(rng *rand.Rand) (Op, []Problem) {
	classes := []string{"dup-input", "cite-more", "cite-less", "out-more", "out-less", "coinbase-flag", "missing-input", "wrong-owner", "frozen-input", "coinbase-with-inputs", "stale-key+transfer", "stale-key+transfer"}
	cl := classes[rng.Intn(len(classes))]
	xs := s.Hostile(rng, cl)
	if len(xs) == 0 || xs[0] == nil {
		return Op{}, nil
	}
	before := s.snap()
	err := s.N.State.DoTx(sn.CloneTx(xs[0]))
	op := s.log(Op{Kind: "faildotx", Arg: cl, Result: fmt.Sprint(err)})
	if err == nil {
		before.world.Drop()
		return op, []Problem{{Sig: "admission|admitted-inadmissible|" + cl, Detail: "inadmissible transaction admitted: " + cl}}
	}
	return op, s.compareSnap(before, "dotx")
}

// FaultOp performs a normally successful operation while the k-th storage write it issues
// fails. The operation must report failure; for everything but Walk nothing may change.
func (s *SUT) FaultOp(rng *rand.Rand) (Op, []Problem) {
	tip := s.Tip()
	if tip < 0 {
		return Op{}, nil
	}
	type cand struct {
		kind string
		blk  int
		tx   *pb.Transaction
	}
	var cs []cand
	for _, b := range s.T.Blocks {
		if b.Idx == 0 {
			continue
		}
		if !s.Confirmed[b.Idx] && s.Confirmed[b.Parent] {
			cs = append(cs, cand{kind: "confirm", blk: b.Idx})
			if s.LedgerTip() >= 0 {
				cs = append(cs, cand{kind: "receive", blk: b.Idx}) // the engine's path for peer blocks
			}
		}
		if s.Confirmed[b.Idx] && b.Parent == tip && !s.PlayHazard(b.Idx) {
			cs = append(cs, cand{kind: "play", blk: b.Idx})
		}
		if s.Confirmed[b.Idx] && b.Idx != tip {
			cs = append(cs, cand{kind: "walk", blk: b.Idx})
		}
		if b.Parent == tip {
			for _, x := range b.Block.Transactions {
				if !x.Coinbase {
					cs = append(cs, cand{kind: "dotx", blk: b.Idx, tx: x})
					break
				}
			}
		}
	}
	for _, b := range s.T.Blocks {
		if b.Idx > 0 && !s.Confirmed[b.Idx] && b.Parent == tip && s.LedgerTip() == tip && s.poolWithin(b.Idx) {
			cs = append(cs, cand{kind: "mine", blk: b.Idx})
			cs = append(cs, cand{kind: "mine", blk: b.Idx}) // twice: the producer path deserves weight
		}
	}
	if len(cs) == 0 {
		return Op{}, nil
	}
	c := cs[rng.Intn(len(cs))]
	if c.kind == "mine" {
		return s.faultMine(c.blk)
	}
	s.LedgerTipBefore = s.LedgerTip()
	run := func(n *sn.Node) error {
		switch c.kind {
		case "confirm":
			if st := n.Confirm(s.T.Blocks[c.blk].Block); !st.Succ {
				return fmt.Errorf("confirm failed: %v", st.Error)
			}
			return nil
		case "play":
			return n.State.Play(s.T.Blocks[c.blk].ID)
		case "walk":
			return n.Walk(s.T.Blocks[c.blk].ID, false)
		case "receive":
			return n.ProcBlock(s.T.Blocks[c.blk].Block)
		default:
			x := sn.CloneTx(c.tx)
			x.Blockid = nil
			return n.State.DoTx(x)
		}
	}
	// dry run on a copy to learn how many writes the operation issues
	dry, err := sn.OpenOn(s.N.World.Clone(), s.T.Opts.Cfg)
	if err != nil {
		return Op{}, nil
	}
	dry.World.ArmFail(0)
	derr := run(dry)
	n := dry.World.Attempts()
	dry.Drop()
	if derr != nil || n == 0 {
		return Op{}, nil // not a successful operation from here (e.g. tx already in the pool)
	}
	k := 1 + rng.Intn(n)
	before := s.snap()
	s.N.World.ArmFail(k)
	oerr := run(s.N)
	s.N.World.ArmFail(0)
	op := s.log(Op{Kind: "fault", Block: c.blk, Arg: fmt.Sprintf(",%s,write %d/%d", c.kind, k, n), Result: fmt.Sprint(oerr)})
	s.Stats["fault."+c.kind]++
	if oerr == nil && c.kind == "walk" {
		// Walk's own writes: the pool roll-back batch + one batch per undone / redone block. Later
		// writes belong to the asynchronous re-admission of pool transactions, whose failure
		// only drops that transaction.
		lca := tip
		for !s.T.IsAncestor(lca, c.blk) {
			lca = s.T.Blocks[lca].Parent
		}
		sync := 1 + int(s.T.Blocks[tip].Height-s.T.Blocks[lca].Height) + int(s.T.Blocks[c.blk].Height-s.T.Blocks[lca].Height)
		if k > sync {
			before.world.Drop()
			s.Stats["fault.walk.in-recovery"]++
			for _, j := range s.T.Path(c.blk) {
				s.Applied[j] = true
			}
			return op, nil
		}
	}
	if c.kind == "receive" {
		// a composite of several successful-or-failing steps (pending store, ledger confirmation,
		// walk of the state, asynchronous pool re-admission): completed steps legitimately persist
		// and a failure inside the re-admission is not reported; canon + twin auditors judge the result
		before.world.Drop()
		if s.N.Ledger.ExistBlock(s.T.Blocks[c.blk].ID) && !s.Confirmed[c.blk] {
			s.Confirmed[c.blk] = true
			s.Arrival = append(s.Arrival, c.blk)
		}
		if t := s.Tip(); t >= 0 {
			for _, j := range s.T.Path(t) {
				s.Applied[j] = true
			}
		}
		return op, nil
	}
	if oerr == nil {
		before.world.Drop()
		return op, []Problem{{Sig: "write-error-swallowed|" + c.kind, Detail: fmt.Sprintf("%s reported success although storage write %d of %d failed", c.kind, k, n)}}
	}
	if c.kind == "walk" {
		before.world.Drop()
		return op, nil // completed steps legitimately persist; canon + twin auditors judge the result
	}
	return op, s.compareSnap(before, "fault:"+c.kind)
}

// faultMine: the producer path with the state write of PlayForMiner failing. Pool
// admission and the ledger confirmation happen first (without fault); then nothing the
// failed PlayForMiner touched may remain.
func (s *SUT) faultMine(i int) (Op, []Problem) {
	b := s.T.Blocks[i]
	inPool := map[string]bool{}
	pool, _ := s.N.State.GetUnconfirmedTx(false)
	for _, x := range pool {
		inPool[string(x.Txid)] = true
	}
	for _, x := range b.Block.Transactions {
		if x.Coinbase || inPool[string(x.Txid)] {
			continue
		}
		if r := s.SubmitTx(x); r != "ok" {
			return s.log(Op{Kind: "fault", Block: i, Arg: ",mine", Result: "skipped(" + r + ")"}), nil
		}
	}
	st := s.N.Confirm(b.Block)
	if !st.Succ {
		return s.log(Op{Kind: "fault", Block: i, Arg: ",mine", Result: "FAIL(confirm)"}), []Problem{{Sig: "legal-op-failed|confirm", Detail: "confirm of own block failed"}}
	}
	s.Confirmed[i] = true
	s.Arrival = append(s.Arrival, i)
	if st.Orphan {
		return s.log(Op{Kind: "fault", Block: i, Arg: ",mine", Result: "branch"}), nil
	}
	before := s.snap()
	s.N.World.ArmFail(1)
	err := s.N.State.PlayForMiner(b.ID)
	s.N.World.ArmFail(0)
	op := s.log(Op{Kind: "fault", Block: i, Arg: ",mine,write 1/1", Result: fmt.Sprint(err)})
	s.Stats["fault.mine"]++
	if err == nil {
		before.world.Drop()
		return op, []Problem{{Sig: "write-error-swallowed|mine", Detail: "PlayForMiner reported success although its storage write failed"}}
	}
	return op, s.compareSnap(before, "fault:mine")
}
