package hist

import (
	"encoding/json"
	"fmt"
	"io/ioutil"
	"math/rand"
	"runtime/debug"
	"strings"

	"verif/ev"
	"verif/gen"
	sn "verif/simnode"
)

// MustSucceed flags operations of an all-legal history that reported failure.
func MustSucceed(op Op) []Problem {
	if strings.HasPrefix(op.Result, "FAIL") {
		return []Problem{{Sig: "legal-op-failed|" + op.Kind, Detail: "legal operation failed: " + op.String()}}
	}
	return nil
}

// RunHistories generates nh histories and audits each operation. extra (optional) is an
// additional per-op auditor defined by the calling check.
func RunHistories(r *ev.Run, nh int, o gen.Opts, so StepOpts, minOps, maxOps int, auds []Auditor, extra Auditor) {
	RunHistoriesX(r, nh, o, so, minOps, maxOps, auds, extra, nil)
}

// Inject may perform harness-specific operations before a regular step (hostile attempts,
// fault injection ...) and return problems.
type Inject func(s *SUT, rng *rand.Rand) []Problem

// RunHistoriesX is RunHistories with an injection hook.
func RunHistoriesX(r *ev.Run, nh int, o gen.Opts, so StepOpts, minOps, maxOps int, auds []Auditor, extra Auditor, inj Inject) {
	only := -1
	if r.Replay != "" {
		// replay: re-run exactly the history named by the witness file
		var w struct {
			Seed    int64 `json:"seed"`
			Witness struct {
				History int `json:"history"`
			} `json:"witness"`
		}
		buf, err := ioutil.ReadFile(r.Replay)
		if err != nil || json.Unmarshal(buf, &w) != nil {
			r.Inconclusive("cannot read replay file " + r.Replay)
			return
		}
		r.Seed = w.Seed
		only = w.Witness.History
		Verbose = true
	}
	for h := 0; h < nh; h++ {
		if only >= 0 && h != only {
			continue
		}
		rng := rand.New(rand.NewSource(r.Seed*1000003 + int64(h)))
		runOne(r, h, rng, o, so, minOps, maxOps, auds, extra, inj)
	}
}

// NonTrivial, when set by a check, replaces the default rule for what counts as a
// non-trivial history.
var NonTrivial func(s *SUT) bool

// Verbose makes violations carry the tail of the node's captured log.
var Verbose = false

func runOne(r *ev.Run, h int, rng *rand.Rand, o gen.Opts, so StepOpts, minOps, maxOps int, auds []Auditor, extra Auditor, inj Inject) {
	var s *SUT
	defer func() {
		if p := recover(); p != nil {
			if inc, ok := p.(sn.Inconclusive); ok {
				r.Inconclusive(fmt.Sprintf("history %d: %s", h, inc.Why))
				return
			}
			var log []string
			if s != nil {
				log = s.OpLog()
			}
			r.Violation("panic|"+firstLine(fmt.Sprint(p)), fmt.Sprintf("panic in history %d: %v\n%s", h, p, debug.Stack()),
				map[string]interface{}{"history": h, "ops": log})
		}
	}()
	t, err := gen.Generate(rng, o)
	if err != nil {
		// the generator replays each block on a fresh node; a refusal there means a block
		// assembled from admitted transactions is not valid on a replica
		r.Violation("generator|fresh-replay-failed", err.Error(), map[string]interface{}{"history": h})
		return
	}
	defer t.Drop()
	s, err = NewSUT(t)
	if err != nil {
		r.Inconclusive("cannot start SUT: " + err.Error())
		return
	}
	defer func() { s.N.Drop() }()
	nops := minOps + rng.Intn(maxOps-minOps+1)
	bad := false
	for i := 0; i < nops && !bad; i++ {
		var ps []Problem
		if inj != nil {
			ps = append(ps, inj(s, rng)...)
		}
		if len(ps) > 0 {
			for _, p := range ps {
				r.Violation(p.Sig, p.Detail+"\nops: "+strings.Join(s.OpLog(), " "), map[string]interface{}{
					"history": h, "seed": r.Seed, "tree": t.Shape(), "ops": s.OpLog()})
			}
			break
		}
		op := s.Step(rng, so)
		if extra != nil {
			ps = append(ps, extra(s, op)...)
		}
		if len(ps) == 0 {
			for _, a := range auds {
				ps = append(ps, a(s, op)...)
				if len(ps) > 0 {
					break
				}
			}
		}
		for _, p := range ps {
			if Verbose {
				p.Detail += "\nlog tail:\n" + strings.Join(s.N.Log.Tail(200), "\n")
			}
			r.Violation(p.Sig, p.Detail+"\nops: "+strings.Join(s.OpLog(), " "), map[string]interface{}{
				"history": h, "seed": r.Seed, "tree": t.Shape(), "ops": s.OpLog()})
			bad = true // taint control: abandon the history at its first violation
		}
	}
	shape := t.Shape() + "|" + opShape(s.Log)
	injected := 0
	for _, k := range []string{"attempt", "family", "failplay", "failwalk", "failconfirm", "faildotx", "fault", "crash"} {
		injected += s.Stats["op."+k]
	}
	nt := s.Stats["walk.undo"] > 0 && (inj == nil || injected > 0)
	if NonTrivial != nil {
		nt = NonTrivial(s)
	}
	r.Case(shape, nt)
	for k, v := range s.Stats {
		r.Count(k, v)
	}
	r.Count("blocks.generated", len(t.Blocks)-1)
	for _, b := range t.Blocks {
		for _, k := range b.Kinds {
			for _, part := range strings.Split(k, "+") {
				if i := strings.Index(part, ":"); i > 0 {
					r.Count("txkind."+part[:i], 1)
					part = part[i+1:]
				}
				r.Count("txkind."+part, 1)
			}
		}
	}
	if h < 3 {
		r.Sample(map[string]interface{}{"history": h, "tree": t.Shape(), "ops": s.OpLog()})
	}
}

func opShape(log []Op) string {
	var sb strings.Builder
	for _, o := range log {
		fmt.Fprintf(&sb, "%s%d%s;", o.Kind[:1], o.Block, o.Arg)
	}
	return sb.String()
}

func firstLine(s string) string {
	if i := strings.Index(s, "\n"); i >= 0 {
		s = s[:i]
	}
	if len(s) > 120 {
		s = s[:120]
	}
	return s
}
