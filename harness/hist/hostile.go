package hist

import (
	"fmt"
	"math/big"
	"math/rand"
	"verif/gen"

	pb "github.com/xuperchain/xupercore/bcs/ledger/xledger/xldgpb"
	"github.com/xuperchain/xupercore/protos"

	sn "verif/simnode"
)

// HostileClasses lists the malformed-transaction families (each is derived from an honest,
// currently valid transfer and re-signed, so only the ledger rules can object).
var HostileClasses = []string{"dup-input", "cite-more", "cite-less", "out-more", "out-less", "coinbase-flag", "missing-input",
	"wrong-owner", "marked-out-more", "frozen-input", "same-input-two-txs", "stale-key", "leading-zero-out", "coinbase-with-inputs", "stale-key+transfer"}

// Hostile derives a hostile variant of class cl from the SUT's current state. It returns
// nil when the state offers no material for that class.
func (s *SUT) Hostile(rng *rand.Rand, cl string) []*pb.Transaction {
	a := s.N
	var from *sn.Key
	var ins []*protos.TxInput
	var total *big.Int
	for try := 0; try < 8 && from == nil; try++ {
		k := sn.K(rng.Intn(6))
		b, err := a.State.GetBalance(k.Address)
		if err != nil || b.Sign() <= 0 {
			continue
		}
		need := big.NewInt(int64(1 + rng.Intn(100)))
		i, _, t, err := a.State.SelectUtxos(k.Address, need, false, false)
		if err != nil || len(i) == 0 {
			continue
		}
		from, ins, total = k, i, t
	}
	if from == nil {
		return nil
	}
	s.hn++
	mk := func(inputs []*protos.TxInput, outs []sn.Out, tweak func(*pb.Transaction)) *pb.Transaction {
		spec := sn.TxSpec{Initiator: from.Address, Signers: []*sn.Key{from}, Inputs: inputs, Outputs: outs,
			Nonce: fmt.Sprintf("h%d-%d", s.hn, rng.Intn(1<<30)), Timestamp: int64(5000 + s.hn)}
		x, err := sn.BuildTx(spec)
		if err != nil {
			return nil
		}
		if tweak != nil {
			tweak(x)
			if err := sn.SignTx(x, []*sn.Key{from}, false); err != nil {
				return nil
			}
			x, _ = sn.Wire(x)
		}
		return x
	}
	to := sn.K(rng.Intn(6)).Address
	cp := func(in *protos.TxInput) *protos.TxInput { c := *in; return &c }
	switch cl {
	case "dup-input":
		d := append(append([]*protos.TxInput{}, ins...), cp(ins[0]))
		sum := new(big.Int).Add(total, new(big.Int).SetBytes(ins[0].Amount))
		return []*pb.Transaction{mk(d, []sn.Out{{To: to, Amount: sum}}, nil)}
	case "cite-more":
		d := []*protos.TxInput{cp(ins[0])}
		real := new(big.Int).SetBytes(ins[0].Amount)
		more := new(big.Int).Add(real, big.NewInt(1000))
		d[0].Amount = more.Bytes()
		return []*pb.Transaction{mk(d, []sn.Out{{To: to, Amount: more}}, nil)}
	case "cite-less":
		d := []*protos.TxInput{cp(ins[0])}
		real := new(big.Int).SetBytes(ins[0].Amount)
		if real.Cmp(big.NewInt(2)) < 0 {
			return nil
		}
		less := new(big.Int).Sub(real, big.NewInt(1))
		d[0].Amount = less.Bytes()
		return []*pb.Transaction{mk(d, []sn.Out{{To: to, Amount: less}}, nil)}
	case "out-more":
		return []*pb.Transaction{mk(ins, []sn.Out{{To: to, Amount: new(big.Int).Add(total, big.NewInt(7))}}, nil)}
	case "out-less":
		if total.Cmp(big.NewInt(2)) < 0 {
			return nil
		}
		return []*pb.Transaction{mk(ins, []sn.Out{{To: to, Amount: new(big.Int).Sub(total, big.NewInt(1))}}, nil)}
	case "coinbase-flag":
		return []*pb.Transaction{mk(nil, []sn.Out{{To: to, Amount: big.NewInt(1000)}}, func(x *pb.Transaction) { x.Coinbase = true })}
	case "coinbase-with-inputs":
		return []*pb.Transaction{mk(ins, []sn.Out{{To: to, Amount: new(big.Int).Add(total, big.NewInt(1000))}}, func(x *pb.Transaction) { x.Coinbase = true })}
	case "missing-input":
		d := []*protos.TxInput{cp(ins[0])}
		d[0].RefTxid = append([]byte{}, d[0].RefTxid...)
		d[0].RefTxid[0] ^= 0xff
		return []*pb.Transaction{mk(d, []sn.Out{{To: to, Amount: new(big.Int).SetBytes(d[0].Amount)}}, nil)}
	case "wrong-owner":
		// cite somebody else's output as one's own
		var other *sn.Key
		for _, k := range sn.Keys()[:6] {
			if k != from {
				if b, _ := a.State.GetBalance(k.Address); b != nil && b.Sign() > 0 {
					other = k
					break
				}
			}
		}
		if other == nil {
			return nil
		}
		oi, _, _, err := a.State.SelectUtxos(other.Address, big.NewInt(1), false, false)
		if err != nil || len(oi) == 0 {
			return nil
		}
		d := []*protos.TxInput{cp(oi[0])}
		d[0].FromAddr = []byte(from.Address)
		return []*pb.Transaction{mk(d, []sn.Out{{To: to, Amount: new(big.Int).SetBytes(d[0].Amount)}}, nil)}
	case "marked-out-more":
		return []*pb.Transaction{mk(ins, []sn.Out{{To: to, Amount: new(big.Int).Add(total, big.NewInt(500))}},
			func(x *pb.Transaction) { x.ModifyBlock = &pb.ModifyBlock{Marked: true} })}
	case "frozen-input":
		// find a frozen output of anybody
		for _, k := range sn.Keys()[:6] {
			fz, _ := a.State.GetFrozenBalance(k.Address)
			if fz == nil || fz.Sign() == 0 {
				continue
			}
			db := a.State.GetLDB()
			it := db.NewIteratorWithPrefix([]byte("U" + k.Address + "_"))
			for it.Next() {
				var txid []byte
				var off int32
				key := string(it.Key())
				rest := key[len("U"+k.Address+"_"):]
				if _, err := fmt.Sscanf(rest, "%x_%d", &txid, &off); err != nil {
					continue
				}
				item := decodeItem(it.Value())
				if item == nil || (item.FrozenHeight != -1 && item.FrozenHeight < 1000000) {
					continue
				}
				it.Release()
				in := &protos.TxInput{RefTxid: txid, RefOffset: off, FromAddr: []byte(k.Address), Amount: item.Amount.Bytes(), FrozenHeight: item.FrozenHeight}
				spec := sn.TxSpec{Initiator: k.Address, Signers: []*sn.Key{k}, Inputs: []*protos.TxInput{in},
					Outputs: []sn.Out{{To: to, Amount: item.Amount}}, Nonce: fmt.Sprintf("hf%d", s.hn), Timestamp: int64(5000 + s.hn)}
				x, err := sn.BuildTx(spec)
				if err != nil {
					return nil
				}
				return []*pb.Transaction{x}
			}
			it.Release()
		}
		return nil
	case "same-input-two-txs":
		x1 := mk(ins, []sn.Out{{To: to, Amount: total}}, nil)
		x2 := mk(ins, []sn.Out{{To: sn.K(rng.Intn(6)).Address, Amount: total}}, nil)
		return []*pb.Transaction{x1, x2}
	case "stale-key+transfer":
		// a token transfer that also calls a contract; its read set is current when it is assembled
		// and superseded by a pool transaction admitted before it is submitted: the token part is
		// fine, the key part is stale
		b := gen.Buckets[rng.Intn(len(gen.Buckets))]
		k := []byte(gen.KeyNames[rng.Intn(len(gen.KeyNames))])
		p := (&sn.ProgBuilder{}).Get(b, k).Put(b, k, []byte(fmt.Sprintf("st%d", s.hn)))
		res, err := a.PreExec([]*protos.InvokeRequest{sn.VerifReq(sn.VerifContract, p.String())}, from.Address, []string{from.Address})
		if err != nil {
			return nil
		}
		x, err := sn.BuildTx(sn.TxSpec{Initiator: from.Address, Signers: []*sn.Key{from}, Inputs: ins, Outputs: []sn.Out{{To: to, Amount: total}},
			InExt: res.Inputs, OutExt: res.Outputs, Requests: res.Requests, Nonce: fmt.Sprintf("hs%d-%d", s.hn, rng.Intn(1<<30)), Timestamp: int64(5000 + s.hn)})
		if err != nil {
			return nil
		}
		w := s.kvTx(rng, (&sn.ProgBuilder{}).Put(b, k, []byte(fmt.Sprintf("sw%d", s.hn))))
		if w == nil || s.SubmitTx(w) != "ok" {
			return nil
		}
		return []*pb.Transaction{x}
	case "leading-zero-out":
		raw := append([]byte{0, 0}, total.Bytes()...)
		return []*pb.Transaction{mk(ins, []sn.Out{{To: to, Raw: raw}}, nil)}
	}
	return nil
}

// Predict says whether the statement-level model admits x on chain(tip) + current pool.
func (s *SUT) Predict(x *pb.Transaction) (admissible bool, why string, err error) {
	tip := s.Tip()
	if tip < 0 {
		return false, "", fmt.Errorf("tip unknown")
	}
	base, err := s.ModelAt(tip)
	if err != nil {
		return false, "", err
	}
	pool, _ := s.N.State.GetUnconfirmedTx(false)
	m, perr := applyPool(base, pool, s.N.LedgerHeight())
	if perr != nil {
		return false, "", fmt.Errorf("pool not explainable: %v", perr)
	}
	if x.Coinbase {
		return false, "coinbase transactions are created by block producers only", nil
	}
	if e := m.Check(x, s.N.LedgerHeight()); e != nil {
		return false, e.Error(), nil
	}
	return true, "", nil
}

// Attempt submits hostile / honest transactions directly through State.DoTx (the public
// API that is the only guard under concurrency) and compares with the prediction.
// direction: "sound" flags admitted-but-inadmissible only; "both" also flags refusals of
// admissible transactions.
func (s *SUT) Attempt(xs []*pb.Transaction, cl string, direction string) (Op, []Problem) {
	var ps []Problem
	res := ""
	for _, x := range xs {
		if x == nil {
			continue
		}
		adm, why, err := s.Predict(x)
		if err != nil {
			ps = append(ps, Problem{Sig: "admission|model-unavailable", Detail: err.Error()})
			break
		}
		derr := s.N.State.DoTx(sn.CloneTx(x))
		if derr == nil {
			res += "admitted,"
			s.Stats["attempt.admitted"]++
		} else {
			res += "refused(" + derr.Error() + "),"
			s.Stats["attempt.refused"]++
		}
		if derr == nil && !adm {
			ps = append(ps, Problem{Sig: "admission|admitted-inadmissible|" + cl,
				Detail: fmt.Sprintf("DoTx admitted tx %x of class %s although: %s", x.Txid, cl, why)})
		}
		if derr != nil && adm && direction == "both" {
			ps = append(ps, Problem{Sig: "admission|refused-admissible|" + cl,
				Detail: fmt.Sprintf("DoTx refused tx %x of class %s (%v) although every input is current", x.Txid, cl, derr)})
		}
	}
	s.Stats["attempt."+cl]++
	return s.log(Op{Kind: "attempt", Arg: cl, Result: res}), ps
}
