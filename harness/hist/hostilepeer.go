package hist

// A node that is behind fetches the ancestors of a received tip from its peers (GET_BLOCK). A
// hostile peer answers with a forgery of the requested ancestor: its header, id and signature
// around another body; another (valid) block than the one asked for; the right block with a lying
// height field; nothing. Whatever it serves: the ledger never holds a body its id does not commit
// to; and once honest answers are available again the node synchronises - a refused forgery must
// not stay in the way (the pending table is keyed by block id and persistent).

import (
	"fmt"
	"math/rand"
	"strings"

	pb "github.com/xuperchain/xupercore/bcs/ledger/xledger/xldgpb"
	"github.com/xuperchain/xupercore/kernel/engines/xuperos/xpb"

	"math/big"

	"github.com/xuperchain/xupercore/protos"

	"verif/ev"
	sn "verif/simnode"
)

func hpOne() *big.Int { return big.NewInt(1) }

func hpSameOutputs(a, b []*protos.TxOutput) bool {
	if len(a) != len(b) {
		return false
	}
	for i := range a {
		if string(a[i].ToAddr) != string(b[i].ToAddr) || string(a[i].Amount) != string(b[i].Amount) {
			return false
		}
	}
	return true
}

// HostilePeerRounds runs the scenario; mode "integrity" judges what the ledger stores (C08), mode
// "no-trace" judges that the refused sync leaves nothing behind that a later sync can notice (C05):
// the node's answers are unchanged by the failed attempt, and a twin of the node taken before the
// hostile answer and the node itself get the same verdict and end in the same state when the tip
// arrives again with honest answers.
func HostilePeerRounds(r *ev.Run, mode string) {
	defer func() {
		if p := recover(); p != nil {
			if inc, ok := p.(sn.Inconclusive); ok {
				r.Inconclusive(inc.Why)
				return
			}
			r.Violation("engine|panic|hostile-peer", fmt.Sprintf("the engine's sync path panicked on a hostile peer's answer: %v", p), nil)
		}
	}()
	kinds := []string{"body-forged", "other-valid-block-served", "height-field-lies", "nothing-served", "body-forged-then-restart"}
	rounds := r.N(10, 100)
	for round := 0; round < rounds; round++ {
		rng := rand.New(rand.NewSource(r.Seed*5407 + int64(round)))
		kind := kinds[round%len(kinds)]
		honest, err := sn.NewNode(sn.DefaultConfig())
		if err != nil {
			r.Inconclusive("hostile peer part: " + err.Error())
			return
		}
		victim, err := sn.NewNode(sn.DefaultConfig())
		if err != nil {
			honest.Drop()
			r.Inconclusive("hostile peer part: " + err.Error())
			return
		}
		var cleanNode *sn.Node
		done := func() {
			honest.Drop()
			victim.Drop()
			if cleanNode != nil {
				cleanNode.Drop()
			}
		}
		// the honest chain: 4..6 blocks with payments
		n := 4 + rng.Intn(3)
		var chain []*pb.InternalBlock
		for i := 0; i < n; i++ {
			for c := 0; c < 1+rng.Intn(2); c++ {
				from, to := sn.K(rng.Intn(4)), sn.K(rng.Intn(4))
				ins, _, tot, err := honest.State.SelectUtxos(from.Address, hpOne(), false, false)
				if err != nil {
					continue
				}
				x, err := sn.BuildTx(sn.TxSpec{Initiator: from.Address, Signers: []*sn.Key{from}, Inputs: ins, Outputs: []sn.Out{{To: to.Address, Amount: tot}}, Nonce: fmt.Sprintf("hp%d-%d-%d", round, i, c), Timestamp: int64(100 + i)})
				if err == nil {
					honest.SubmitTx(x)
				}
			}
			b, err := honest.PackBlock(sn.K(0), int64(5000+10*i))
			if err == nil {
				err = honest.ConfirmForMiner(b)
			}
			if err != nil {
				done()
				r.Inconclusive("hostile peer part: the honest node cannot produce: " + err.Error())
				return
			}
			chain = append(chain, sn.WireBlock(b))
		}
		tip := chain[len(chain)-1]
		target := 1 + rng.Intn(len(chain)-2) // index of the ancestor the hostile answer concerns (not the tip, not the first)
		thief := sn.K(4)
		served := 0
		net := &sn.SimNet{Self: "victim", Peers: []*sn.Node{honest}}
		net.Tamper = func(id []byte, info *xpb.BlockInfo) *xpb.BlockInfo {
			if string(id) != string(chain[target].Blockid) || info.Block == nil {
				return info
			}
			served++
			switch strings.TrimSuffix(kind, "-then-restart") {
			case "body-forged":
				info.Block.Transactions[0] = sn.AwardTx(thief.Address, honest.Ledger.GenesisBlock.CalcAward(info.Block.Height), info.Block.Timestamp)
			case "other-valid-block-served":
				info.Block = sn.CloneBlock(chain[target-1])
			case "height-field-lies":
				info.Block.Height += 3
			case "nothing-served":
				info.Block = nil
			}
			return info
		}
		victim.Net = net
		auditLedger := func(moment string) bool {
			for _, hb := range chain {
				if !victim.Ledger.ExistBlock(hb.Blockid) {
					continue
				}
				sb, err := victim.Ledger.QueryBlock(hb.Blockid)
				if err != nil {
					r.Violation("engine|stored-block-unreadable|hostile-peer", fmt.Sprintf("%s (%s): stored block %x cannot be read: %v", moment, kind, hb.Blockid, err), nil)
					return false
				}
				same := len(sb.Transactions) == len(hb.Transactions) && sb.Height == hb.Height
				for i := 0; same && i < len(sb.Transactions); i++ {
					same = string(sb.Transactions[i].Txid) == string(hb.Transactions[i].Txid) && hpSameOutputs(sb.Transactions[i].TxOutputs, hb.Transactions[i].TxOutputs)
				}
				if ok, verr := victim.Ledger.VerifyBlock(sn.CloneBlock(sb), "hp"); !ok || verr != nil || !same {
					r.Violation("engine|forged-body-confirmed|hostile-peer|"+kind, fmt.Sprintf("%s: the ledger holds block %x (height %d) which is not the block its id commits to (hostile answer: %s)", moment, hb.Blockid, sb.Height, kind),
						map[string]interface{}{"hostile_answer": kind, "moment": moment})
					return false
				}
			}
			return true
		}
		// a node that never sees the hostile answer
		clean, cerr := victim.Twin()
		if cerr != nil {
			done()
			r.Inconclusive(cerr.Error())
			return
		}
		cleanNode = clean
		clean.Net = &sn.SimNet{Self: "clean", Peers: []*sn.Node{honest}}
		before := sn.ObserveOpt(victim, sn.ObsOpt{})
		heightBefore := victim.Ledger.GetMeta().TrunkHeight
		// 1. the tip arrives, the ancestors come from the hostile peer
		err1 := victim.ProcBlock(tip)
		r.Count("hostile-peer.syncs-attempted", 1)
		if !auditLedger("sync with a hostile answer for the ancestor at height " + fmt.Sprint(chain[target].Height)) {
			done()
			return
		}
		if mode == "no-trace" && err1 != nil && victim.Ledger.GetMeta().TrunkHeight > heightBefore {
			// the honest ancestors below the hostile answer were accepted on the way (each its own
			// accepted block): only the later-sync differential below judges this attempt
			r.Count("hostile-peer.refused-syncs-with-accepted-ancestors", 1)
		} else if mode == "no-trace" && err1 != nil {
			if d := before.Diff(sn.ObserveOpt(victim, sn.ObsOpt{})); len(d) > 0 {
				if len(d) > 5 {
					d = d[:5]
				}
				r.Violation("failed-op-trace|procblock:hostile-answer|answers", fmt.Sprintf("a sync refused because of a peer's answer (%s) changed the node's answers: %s", kind, strings.Join(d, " ;; ")), map[string]interface{}{"hostile_answer": kind})
				done()
				return
			}
			r.Count("hostile-peer.refused-syncs-compared", 1)
		}
		if err1 == nil && victim.Ledger.ExistBlock(tip.Blockid) {
			r.Count("hostile-peer.synced-despite-the-answer", 1) // e.g. the lying height field of a fetched copy is of no consequence when the stored block is the honest one
		}
		if served == 0 {
			r.Count("hostile-peer.answer-not-requested", 1)
		}
		if strings.HasSuffix(kind, "-then-restart") {
			if err := victim.Reopen(); err != nil {
				done()
				r.Inconclusive(err.Error())
				return
			}
		}
		// 2. honest answers again: the same tip (or the next one) must get the node synchronised
		net.Tamper = nil
		var err2 error
		for attempt := 0; attempt < 2 && !victim.Ledger.ExistBlock(tip.Blockid); attempt++ {
			err2 = victim.ProcBlock(tip)
		}
		if !auditLedger("sync after honest answers are available again") {
			done()
			return
		}
		r.Case("hostile-peer|"+kind, true)
		var errClean error
		for attempt := 0; attempt < 2 && !clean.Ledger.ExistBlock(tip.Blockid); attempt++ {
			errClean = clean.ProcBlock(tip)
		}
		cleanSynced := clean.Ledger.ExistBlock(tip.Blockid) && string(clean.StateTip()) == string(tip.Blockid)
		synced := victim.Ledger.ExistBlock(tip.Blockid) && string(victim.StateTip()) == string(tip.Blockid)
		if !cleanSynced {
			r.Inconclusive(fmt.Sprintf("hostile peer part: a node that never saw a hostile answer cannot synchronise either: %v", errClean))
			done()
			return
		}
		if !synced {
			if mode == "no-trace" {
				r.Violation("failed-op-trace|procblock:hostile-answer|later-sync-refused|"+strings.TrimSuffix(kind, "-then-restart"),
					fmt.Sprintf("a peer answered the request for the ancestor at height %d with %s and the sync was refused (%v); now that every peer answers honestly the same tip is still refused (%v, ledger height %d of %d) while a twin of the node that never saw the hostile answer synchronises: the refused block left a trace (the pending table is keyed by block id and persistent); log %v",
						chain[target].Height, kind, err1, err2, victim.Ledger.GetMeta().TrunkHeight, tip.Height, victim.Log.Tail(4)),
					map[string]interface{}{"hostile_answer": kind})
				done()
				return
			}
			r.Count("hostile-peer.later-sync-refused(judged by C05)", 1)
			done()
			continue
		}
		if d := sn.ObserveOpt(honest, sn.ObsOpt{}).Diff(sn.ObserveOpt(victim, sn.ObsOpt{})); len(d) > 0 {
			if len(d) > 5 {
				d = d[:5]
			}
			r.Violation("engine|synced-state-differs|hostile-peer|"+mode, fmt.Sprintf("after synchronising (%s earlier) the node answers differently from the honest peer: %s", kind, strings.Join(d, " ;; ")), nil)
			done()
			return
		}
		r.Count("hostile-peer.rounds", 1)
		done()
	}
	r.Floor("hostile-peer.rounds", 5)
}
