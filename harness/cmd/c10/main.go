// C10: sandbox semantics — read-your-writes, exact range scans, sound replayable read/write set.
//
// Programs of Get / Put / Del / Select / Transfer / AddEvent / Flush / RWSet are executed on
// sandbox.NewXModelCache (the object contract.Manager.NewStateSandbox returns) in lock-step
// with an overlay-map model; afterwards the read / write sets are audited and the same
// program is re-run over sandbox.XMReaderFromRWSet(rwset) alone (what verification does).
package main

import (
	"fmt"
	"hash/fnv"
	"math/rand"
	"os"
	"runtime"
	"sort"
	"sync"

	"github.com/xuperchain/xupercore/kernel/ledger"

	"verif/ev"
	sn "verif/simnode"
)

type witness struct {
	Phase   string            `json:"phase"`
	Backing map[string]string `json:"backing_state"`
	Program []string          `json:"program"`
	Answers []string          `json:"sandbox_answers"`
	order   int
	sig     string
	detail  string
}

type collector struct {
	mu    sync.Mutex
	best  map[string]*witness // per signature: the smallest witness (fewest ops, then first in case order)
	count map[string]int
}

func (c *collector) add(w *witness) {
	c.mu.Lock()
	defer c.mu.Unlock()
	c.count[w.sig]++
	b := c.best[w.sig]
	if b == nil || len(w.Program) < len(b.Program) || (len(w.Program) == len(b.Program) && w.order < b.order) {
		c.best[w.sig] = w
	}
}

func mix(seed int64, idx int) int64 {
	h := fnv.New64a()
	fmt.Fprintf(h, "c10/%d/%d", seed, idx)
	return int64(h.Sum64() >> 1)
}

// hashShape: 8 raw bytes per shape (the thorough tier keeps > 20 million of them)
func hashShape(s string) string {
	h := fnv.New64a()
	h.Write([]byte(s))
	return string(h.Sum(nil))
}

type job struct {
	phase      string
	order      int
	reader     ledger.XMReader
	bk         *backingDesc
	prog       []Op
	softNilEnd bool
	// executions over a moving backing
	moving bool
	probe  bool
	mvSeed int64
	u      *universe
	strict bool
}

func answers(prog []Op, obs []*Obs) []string {
	var out []string
	for i, o := range obs {
		name := "flush (end of execution)"
		if i < len(prog) {
			name = prog[i].String()
		}
		out = append(out, name+"  =>  "+o.brief())
	}
	return out
}

var sampleQuota = map[string]int{"exhaustive": 2, "random-mem": 2, "real-xmodel": 1, "nilend-probe": 1, "moving-mem": 1}

func main() {
	r := ev.Start("C10", "exploration",
		"programs of Get/Put/Del/Select(any bounds, early stop, two open iterators, writes while open)/Transfer/AddEvent/Flush/RWSet run on sandbox.NewXModelCache in lock-step with an "+
			"overlay-map oracle, then RW-set audit, then replay over XMReaderFromRWSet(rwset) alone. Part 1 (exhaustive): every program of <= 4 ops over a 13-op alphabet (get/put/del of 3 keys, "+
			"4 scans; thorough tier: <= 5 ops, plus open-iterator / next-1) x every backing state of the 3 keys (never-written/live/deleted)^3 on an in-memory versioned reader. Part 2: random programs (1-40 ops, 1-3 buckets + $transient) over random "+
			"in-memory backing states. Part 3: random programs over the REAL xmodel of simnode nodes with committed create/overwrite/delete/re-create transactions (confirmed and pending). "+
			"Part 4 (probe): nil-upper-bound scans over the real xmodel, pre-execution vs replay. Per real node a few programs are also run as a $verif kernel contract through contract.Manager/PreExec "+
			"and must agree with the directly driven sandbox. Part 2b (moving backing): random programs over an in-memory backing to which the harness commits overwrites / deletes / re-creations / creations (new versions) BETWEEN the sandbox calls "+
			"(Get = current state, iterator = snapshot at Select, as the real xmodel): a key read or written answers from the version first seen (repeatable reads), a key not yet seen from any version current between the first Select covering it and the call, "+
			"the read set must name the version the answers came from, and the replay over the read set must reproduce everything (including moves of a key ahead of an open iterator and creation of a key the execution looked up and found absent); "+
			"only phantom moves (creation of an unseen key that a scan of this execution has covered; deletion of an unseen key that an open iterator still holds as live), for which no key/version read set can keep the replay clause, are confined to a counting probe. case = (backing state, program); distinct = up to the unique ids written; "+
			"non-trivial = the program made at least one observation (Get answer / scan item / scan end) that depended on a preceding write of the execution or on a key present in the backing state")
	defer sn.CleanupScratch()

	col := &collector{best: map[string]*witness{}, count: map[string]int{}}
	jobs := make(chan func(func(job)), 256) // batches of cases; each batch generates its cases inside the worker
	var wg sync.WaitGroup
	workers := runtime.NumCPU()
	if workers > 16 {
		workers = 16
	}
	var sampleMu sync.Mutex
	sampled := map[string]int{}
	for w := 0; w < workers; w++ {
		wg.Add(1)
		go func() {
			defer wg.Done()
			lc := map[string]int{}
			for gen := range jobs {
				gen(func(j job) {
					var res *caseResult
					if j.moving {
						res = runMoving(j.mvSeed, j.u, j.bk, j.strict, j.prog, j.probe)
					} else {
						res = runCase(j.reader, j.bk, j.prog, j.softNilEnd)
					}
					for k, v := range res.extra {
						lc[k] += v
					}
					f := res.f
					nontrivial := res.observed > 0 && (f.writes+f.dels > 0 || res.fromBk > 0 || res.scanItems > 0)
					r.Case(hashShape(j.phase+"/"+shapeOf(j.bk.ID, j.prog)), nontrivial)
					lc["programs."+j.phase]++
					lc["ops"] += len(j.prog)
					lc["answers.judged"] += res.observed
					lc["answers.served-from-backing-state"] += res.fromBk
					lc["scan.items-judged"] += res.scanItems
					lc["ops.get"] += f.reads
					lc["ops.put"] += f.writes
					lc["ops.del"] += f.dels
					lc["ops.select"] += f.scans
					lc["ops.transfer"] += f.transfers
					for name, on := range map[string]bool{"two-iterators-open": f.twoIters, "write-while-iterator-open-same-bucket": f.writeWhileOpen,
						"early-stop": f.earlyStop, "nil-lower-bound": f.nilLo, "nil-upper-bound": f.nilHi, "empty-bound": f.emptyBound,
						"inverted-range": f.inverted, "empty-key": f.emptyKey, "transient-write": f.transientWrite, "transient-read": f.transientRead, "mid-execution-rwset": f.midRWSet,
						"scan-over-key-deleted-in-this-execution": f.scanOverExecDel, "scan-over-looked-up-absent-key": f.scanOverLookedAbsent,
						"scan-over-key-deleted-in-backing-state": f.scanOverBkDel, "scan-over-key-overwritten-in-this-execution": f.scanOverOverwritten} {
						if on {
							lc["feature."+name]++
						}
					}
					if res.prob != nil && res.taint != "" && !raiseMovingHazards {
						// probe: the execution contains a move that the unchanged code is known not to handle; counted, not judged
						lc["moving-probe.tainted-executions-violating."+res.taint+"."+res.prob.Sig]++
						return
					}
					if res.prob != nil {
						lc["violating-programs"]++
						lc["violations-by-part."+j.phase+"."+res.prob.Sig]++
						w := &witness{Phase: j.phase, Backing: j.bk.describe(), Program: progLines(j.prog), Answers: answers(j.prog, res.obs),
							order: j.order, sig: res.prob.Sig, detail: res.prob.Detail}
						if j.moving {
							w.Program, w.Answers = res.lines, res.ansLines
						}
						col.add(w)
						return
					}
					if j.moving && res.taint != "" {
						lc["moving-probe.tainted-executions-without-symptom"]++
					}
					lc["replays.compared"]++
					lc["rset.entries"] += res.rsetSize
					lc["wset.entries"] += res.wsetSize
					lc["rset.lookahead-extras"] += res.lookahead
					lc["rset.unrelated-extras"] += res.unrelated
					if j.softNilEnd {
						lc["nilend-probe.scans-missing-live-keys-in-pre-execution"] += res.nilEndMiss
					}
					sampleMu.Lock()
					if sampled[j.phase] < sampleQuota[j.phase] && len(j.bk.M) > 0 && res.observed >= 2 && len(j.prog) >= 3 && len(j.prog) <= 8 && (f.writes+f.dels > 0) && f.scans > 0 {
						sampled[j.phase]++
						if j.moving {
							r.Sample(map[string]interface{}{"phase": j.phase, "backing_state": j.bk.describe(), "program": res.lines, "sandbox_answers": res.ansLines})
						} else {
							r.Sample(map[string]interface{}{"phase": j.phase, "backing_state": j.bk.describe(), "program": progLines(j.prog), "sandbox_answers": answers(j.prog, res.obs)})
						}
					}
					sampleMu.Unlock()
				})
			}
			for k, v := range lc {
				r.Count(k, v)
			}
		}()
	}
	submitted := 0
	perBacking := 0

	// ---- part 1: exhaustive ----
	alpha := exAlphabet(!r.Quick())
	maxLen := r.N(4, 5)
	nBack := 0
	for code := 0; code < 27; code++ {
		d := &backingDesc{ID: fmt.Sprintf("ex%02d", code), M: map[string]map[string]bkEntry{}}
		c := code
		for i, k := range exKeys {
			switch c % 3 {
			case 1:
				d.set(exBucket, k, bkEntry{Kind: bkLive, Val: []byte(fmt.Sprintf("s%d", i+1)), Txid: []byte(fmt.Sprintf("tx%d", i+1)), Off: int32(i)})
			case 2:
				d.set(exBucket, k, bkEntry{Kind: bkDeleted, Txid: []byte(fmt.Sprintf("tx%d", i+1)), Off: int32(i)})
			}
			c /= 3
		}
		rd := &memReader{d: d, strict: true}
		nBack++
		base := code * 1000000
		for n := 1; n <= maxLen; n++ {
			total := ipow(len(alpha), n)
			if code == 0 {
				perBacking += total
			}
			for lo := 0; lo < total; lo += 4000 {
				lo, hi, n, base := lo, lo+4000, n, base
				if hi > total {
					hi = total
				}
				jobs <- func(emit func(job)) {
					for idx := lo; idx < hi; idx++ {
						emit(job{phase: "exhaustive", order: base + idx, reader: rd, bk: d, prog: exProgram(alpha, n, idx)})
					}
				}
				submitted += hi - lo
			}
			base += total
		}
	}
	fmt.Fprintf(os.Stderr, "c10: exhaustive part submitted (%d cases)\n", submitted)

	// ---- part 2: random programs over random in-memory backing states ----
	nMem := r.N(120000, 1500000)
	for lo := 0; lo < nMem; lo += 1000 {
		lo, hi := lo, lo+1000
		if hi > nMem {
			hi = nMem
		}
		jobs <- func(emit func(job)) {
			for i := lo; i < hi; i++ {
				rg := rand.New(rand.NewSource(mix(r.Seed, i)))
				u := genUniverse(rg)
				d := genMemBacking(rg, u, fmt.Sprintf("mem%d", i))
				rd := &memReader{d: d, strict: rg.Intn(2) == 0}
				prog := genProgram(rg, u, genOpts{maxOps: 40, nilHi: true, inverted: rg.Intn(12) == 0, transfers: true})
				emit(job{phase: "random-mem", order: 100000000 + i, reader: rd, bk: d, prog: prog})
			}
		}
		submitted += hi - lo
	}
	fmt.Fprintf(os.Stderr, "c10: random-mem part submitted (%d cases)\n", submitted)

	// ---- part 2b: random programs over a MOVING in-memory backing (the harness commits writes / deletes / re-creations between the calls) ----
	for _, part := range []struct {
		phase string
		n     int
		probe bool
		base  int
	}{{"moving-mem", r.N(40000, 600000), false, 1 << 26}, {"moving-probe", r.N(4000, 40000), true, 1<<26 + 1<<25}} {
		part := part
		for lo := 0; lo < part.n; lo += 1000 {
			lo, hi := lo, lo+1000
			if hi > part.n {
				hi = part.n
			}
			jobs <- func(emit func(job)) {
				for i := lo; i < hi; i++ {
					rg := rand.New(rand.NewSource(mix(r.Seed, part.base+i)))
					u := genUniverse(rg)
					d := genMemBacking(rg, u, fmt.Sprintf("%s%d", part.phase, i))
					strict := rg.Intn(2) == 0
					prog := stripForMoving(genProgram(rg, u, genOpts{maxOps: 30, nilHi: true}))
					emit(job{phase: part.phase, order: 150000000 + part.base + i, bk: d, prog: prog, moving: true, probe: part.probe, mvSeed: rg.Int63(), u: u, strict: strict})
				}
			}
			submitted += hi - lo
		}
	}
	fmt.Fprintf(os.Stderr, "c10: moving-backing parts submitted (%d cases)\n", submitted)

	// ---- part 3 + 4: the real xmodel ----
	nNodes := r.N(6, 24)
	perNode := r.N(6000, 40000)
	probePerNode := r.N(1500, 10000)
	for ni := 0; ni < nNodes; ni++ {
		rg := rand.New(rand.NewSource(mix(r.Seed, 1<<30+ni)))
		rb, err := buildReal(rg, fmt.Sprintf("real%d", ni))
		if err != nil {
			r.Inconclusive("real backing " + fmt.Sprint(ni) + " could not be set up: " + err.Error())
			continue
		}
		r.Count("real.nodes", 1)
		r.Count("real.setup-transactions", rb.txs)
		r.Count("real.setup-blocks", rb.blocks)
		r.Count("real.setup.keys-recreated-after-delete", rb.recreated)
		r.Count("real.setup.keys-overwritten", rb.overwritten)
		r.Count("real.setup.live-keys-deleted", rb.deletedLive)
		r.Count("real.setup.never-written-keys-deleted", rb.deletedNever)
		pend, _ := rb.node.State.GetUnconfirmedTx(false)
		if len(pend) > 0 {
			r.Count("real.nodes-with-pending-writes", 1)
		}
		for _, b := range rb.u.Buckets {
			for _, k := range rb.u.Keys[b] {
				switch e := rb.desc.get(b, k); e.Kind {
				case bkLive:
					r.Count("real.keys-live", 1)
				case bkDeleted:
					r.Count("real.keys-deleted", 1)
				default:
					r.Count("real.keys-never-written", 1)
				}
			}
		}
		ni := ni
		for i := 0; i < r.N(60, 600); i++ {
			pg := rand.New(rand.NewSource(mix(r.Seed, 1<<27+ni*1000003+i)))
			prog := genE2EProgram(pg, rb.u)
			if ok, why := e2e(rb, prog); !ok {
				r.Count("e2e.disagreements", 1)
				if r.Counter("e2e.disagreements") == 1 {
					r.Inconclusive("driving the sandbox directly and through contract.Manager + $verif kernel contract disagree: " + why)
				}
			} else {
				r.Count("e2e.programs-agreeing-with-contract-path", 1)
			}
		}
		for lo := 0; lo < perNode; lo += 500 {
			lo, hi := lo, lo+500
			if hi > perNode {
				hi = perNode
			}
			jobs <- func(emit func(job)) {
				for i := lo; i < hi; i++ {
					pg := rand.New(rand.NewSource(mix(r.Seed, 1<<29+ni*1000003+i)))
					prog := genProgram(pg, rb.u, genOpts{maxOps: 30, nilHi: false, inverted: pg.Intn(12) == 0, transfers: true})
					emit(job{phase: "real-xmodel", order: 200000000 + ni*1000000 + i, reader: rb.reader, bk: rb.desc, prog: prog})
				}
			}
		}
		live := map[string][]string{}
		for _, b := range rb.u.Buckets {
			live[b] = rb.desc.liveKeys(b)
		}
		for lo := 0; lo < probePerNode; lo += 500 {
			lo, hi := lo, lo+500
			if hi > probePerNode {
				hi = probePerNode
			}
			jobs <- func(emit func(job)) {
				for i := lo; i < hi; i++ {
					pg := rand.New(rand.NewSource(mix(r.Seed, 1<<28+ni*1000003+i)))
					prog := genProgram(pg, rb.u, genOpts{maxOps: 8, nilHi: true, hiNilAlways: true, onlyKeys: live})
					emit(job{phase: "nilend-probe", order: 300000000 + ni*1000000 + i, reader: rb.reader, bk: rb.desc, prog: prog, softNilEnd: true})
				}
			}
		}
	}
	close(jobs)
	wg.Wait()

	// ---- verdicts ----
	sigs := make([]string, 0, len(col.best))
	for s := range col.best {
		sigs = append(sigs, s)
	}
	sort.Strings(sigs)
	for _, s := range sigs {
		w := col.best[s]
		r.Count("violations."+s, col.count[s])
		r.Violation(s, w.detail, w)
	}
	r.Extra("exhaustive_part", map[string]interface{}{"alphabet": progLines(alpha), "max_ops": maxLen, "backing_states": nBack,
		"programs_per_backing_state": perBacking})
	r.Exhaustive(true)
	r.Assume("the in-memory reader of parts 1-2 follows xmodel's conventions (never-written key = empty version, deleted key = version with the delete marker that Select does not list, " +
		"nil upper bound = end of bucket as documented by the sandbox's own MemXModel); part 3 uses the real xmodel")
	r.Assume("the oracle's view of a real node's state is derived from the committed transactions (version = txid + output offset) and cross-checked against reader.Get at set-up")
	r.Assume("for a key written WHILE an iterator is open the oracle accepts the state at Select time or any later one; for all other keys scans are judged exactly")
	r.Assume("token side: a static first-fit utxo reader; xmodel.MarshalMessages is trusted to compare the transient outputs of Flush")
	r.Assume("driving sandbox.NewXModelCache directly observes what a contract observes: cross-checked per node by running programs as a $verif kernel contract through contract.Manager / PreExec (answers, read set, write set must agree)")
	r.Assume("phantoms (keys absent from a scanned range) are not expected in the read set; the statement's read set is keys Get-ed and keys yielded")
	r.Assume("moving backing: the state changes only BETWEEN sandbox calls (never inside one); Get reads the current state, a backing iterator is a snapshot of keys and versions taken at Select (leveldb iterator + immutable versions, as xmodel); " +
		"absence of a key from a scan does not enter the read set (phantoms), so in the judged part an unseen key that a Select of the execution has covered is not made live, and an unseen key that an open iterator still holds as live ahead of its position is not deleted (a scan that shows the absence and a read that shows the key cannot be reconciled by any key/version read set); " +
		"those two moves are made in the moving-probe part, whose violating executions are counted (moving-probe.tainted-executions-violating.*) and raised only with C10_RAISE_MOVING_HAZARDS=1. Every other move is judged, " +
		"including a move of a key ahead of an open iterator and the creation of a key the execution has looked up and found absent")
	for _, fl := range []struct {
		c string
		n int64
	}{{"programs.exhaustive", 800000}, {"programs.random-mem", 10000}, {"programs.real-xmodel", 4000}, {"programs.nilend-probe", 1000},
		{"replays.compared", 20000}, {"answers.served-from-backing-state", 10000}, {"scan.items-judged", 10000},
		{"feature.two-iterators-open", 200}, {"feature.write-while-iterator-open-same-bucket", 200}, {"feature.early-stop", 1000},
		{"feature.nil-lower-bound", 1000}, {"feature.nil-upper-bound", 1000}, {"feature.empty-bound", 200}, {"feature.inverted-range", 100}, {"feature.empty-key", 100},
		{"feature.transient-write", 500}, {"feature.transient-read", 100}, {"ops.transfer", 500}, {"feature.mid-execution-rwset", 200},
		{"feature.scan-over-key-deleted-in-this-execution", 1000}, {"feature.scan-over-looked-up-absent-key", 1000},
		{"feature.scan-over-key-deleted-in-backing-state", 1000}, {"feature.scan-over-key-overwritten-in-this-execution", 1000},
		{"rset.lookahead-extras", 100}, {"real.nodes", 1}, {"real.keys-deleted", 1}, {"real.keys-live", 1}, {"real.setup.keys-recreated-after-delete", 1}, {"real.setup.keys-overwritten", 1}, {"real.setup.live-keys-deleted", 1}, {"e2e.programs-agreeing-with-contract-path", 100},
		{"programs.moving-mem", 10000}, {"programs.moving-probe", 1000}, {"moving.moves", 20000}, {"moving.moves-of-a-key-the-execution-has-seen", 10000}, {"moving.moves-of-a-key-not-yet-seen", 5000},
		{"moving.moves.overwrite-live-key", 5000}, {"moving.moves.delete-live-key", 5000}, {"moving.moves.re-create-deleted-key", 2000}, {"moving.moves.create-never-written-key", 500},
		{"moving.select-covers-key-moved-after-it-was-read", 2000}, {"moving.get-answered-from-a-version-the-backing-has-since-replaced", 500},
		{"moving.scan-item-answered-from-a-version-the-backing-has-since-replaced", 500}, {"moving.rset-entries-at-a-replaced-version", 10000},
		{"moving.moves.key-ahead-of-open-iterator", 2000}, {"moving.open-iterator-passes-key-moved-since-its-select", 500},
		{"moving.moves.looked-up-absent-key-becomes-live", 5000}, {"moving.select-covers-looked-up-absent-key-the-backing-has-since-created", 1000}} {
		r.Floor(fl.c, fl.n)
	}
	r.Finish()
}
