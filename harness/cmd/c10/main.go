// C10: sandbox semantics — read-your-writes, exact range scans, sound replayable read/write set.
//
// Programs of Get / Put / Del / Select / Transfer / AddEvent / Flush / RWSet are executed on
// sandbox.NewXModelCache (the object contract.Manager.NewStateSandbox returns) in lock-step
// with an overlay-map model; afterwards the read / write sets are audited and the same
// program is re-run over sandbox.XMReaderFromRWSet(rwset) alone (what verification does).
package main

import (
	"fmt"
	"hash/fnv"
	"math/rand"
	"os"
	"runtime"
	"sort"
	"sync"

	"github.com/xuperchain/xupercore/kernel/ledger"

	"verif/ev"
	sn "verif/simnode"
)

type witness struct {
	Phase   string            `json:"phase"`
	Backing map[string]string `json:"backing_state"`
	Program []string          `json:"program"`
	Answers []string          `json:"sandbox_answers"`
	order   int
	sig     string
	detail  string
}

type collector struct {
	mu    sync.Mutex
	best  map[string]*witness // per signature: the smallest witness (fewest ops, then first in case order)
	count map[string]int
}

func (c *collector) add(w *witness) {
	c.mu.Lock()
	defer c.mu.Unlock()
	c.count[w.sig]++
	b := c.best[w.sig]
	if b == nil || len(w.Program) < len(b.Program) || (len(w.Program) == len(b.Program) && w.order < b.order) {
		c.best[w.sig] = w
	}
}

func mix(seed int64, idx int) int64 {
	h := fnv.New64a()
	fmt.Fprintf(h, "c10/%d/%d", seed, idx)
	return int64(h.Sum64() >> 1)
}

func hashShape(s string) string {
	h := fnv.New64a()
	h.Write([]byte(s))
	return fmt.Sprintf("%016x", h.Sum64())
}

type job struct {
	phase     string
	order     int
	reader    ledger.XMReader
	bk        *backingDesc
	prog      []Op
	skipScans bool
}

func answers(prog []Op, obs []*Obs) []string {
	var out []string
	for i, o := range obs {
		name := "flush (end of execution)"
		if i < len(prog) {
			name = prog[i].String()
		}
		out = append(out, name+"  =>  "+o.brief())
	}
	return out
}

func main() {
	r := ev.Start("C10", "exploration",
		"programs of Get/Put/Del/Select(any bounds, early stop, two open iterators, writes while open)/Transfer/AddEvent/Flush/RWSet run on sandbox.NewXModelCache in lock-step with an "+
			"overlay-map oracle, then RW-set audit, then replay over XMReaderFromRWSet(rwset) alone. Part 1 (exhaustive): every program of <= 4 ops over a 13-op alphabet (get/put/del of 3 keys, "+
			"4 scans) x every backing state of the 3 keys (never-written/live/deleted)^3 on an in-memory versioned reader. Part 2: random programs (1-40 ops, 1-3 buckets + $transient) over random "+
			"in-memory backing states. Part 3: random programs over the REAL xmodel of simnode nodes with committed create/overwrite/delete/re-create transactions (confirmed and pending). "+
			"Part 4 (probe): nil-upper-bound scans over the real xmodel, pre-execution vs replay. case = (backing state, program); distinct = up to the unique ids written; "+
			"non-trivial = the program made at least one observation (Get answer / scan item / scan end) that depended on a preceding write of the execution or on a key present in the backing state")
	defer sn.CleanupScratch()

	col := &collector{best: map[string]*witness{}, count: map[string]int{}}
	jobs := make(chan job, 1024)
	var wg sync.WaitGroup
	workers := runtime.NumCPU()
	if workers > 16 {
		workers = 16
	}
	var sampleMu sync.Mutex
	sampled := map[string]int{}
	for w := 0; w < workers; w++ {
		wg.Add(1)
		go func() {
			defer wg.Done()
			lc := map[string]int{}
			for j := range jobs {
				res := runCase(j.reader, j.bk, j.prog, j.skipScans)
				f := res.f
				nontrivial := res.observed > 0 && (f.writes+f.dels > 0 || res.fromBk > 0 || res.scanItems > 0)
				r.Case(hashShape(j.phase+"/"+shapeOf(j.bk.ID, j.prog)), nontrivial)
				lc["programs."+j.phase]++
				lc["ops"] += len(j.prog)
				lc["answers.judged"] += res.observed
				lc["answers.served-from-backing-state"] += res.fromBk
				lc["scan.items-judged"] += res.scanItems
				lc["ops.get"] += f.reads
				lc["ops.put"] += f.writes
				lc["ops.del"] += f.dels
				lc["ops.select"] += f.scans
				lc["ops.transfer"] += f.transfers
				for name, on := range map[string]bool{"two-iterators-open": f.twoIters, "write-while-iterator-open-same-bucket": f.writeWhileOpen,
					"early-stop": f.earlyStop, "nil-lower-bound": f.nilLo, "nil-upper-bound": f.nilHi, "empty-bound": f.emptyBound,
					"inverted-range": f.inverted, "transient-write": f.transientWrite, "transient-read": f.transientRead, "mid-execution-rwset": f.midRWSet,
					"scan-over-key-deleted-in-this-execution": f.scanOverExecDel, "scan-over-looked-up-absent-key": f.scanOverLookedAbsent,
					"scan-over-key-deleted-in-backing-state": f.scanOverBkDel, "scan-over-key-overwritten-in-this-execution": f.scanOverOverwritten} {
					if on {
						lc["feature."+name]++
					}
				}
				if res.prob != nil {
					lc["violating-programs"]++
					col.add(&witness{Phase: j.phase, Backing: j.bk.describe(), Program: progLines(j.prog), Answers: answers(j.prog, res.obs),
						order: j.order, sig: res.prob.Sig, detail: res.prob.Detail})
					continue
				}
				lc["replays.compared"]++
				lc["rset.entries"] += res.rsetSize
				lc["wset.entries"] += res.wsetSize
				lc["rset.lookahead-extras"] += res.lookahead
				lc["rset.unrelated-extras"] += res.unrelated
				if j.skipScans {
					lc["nilend-probe.scans-missing-live-keys-in-pre-execution"] += res.nilEndMiss
				}
				sampleMu.Lock()
				if sampled[j.phase] < 2 && res.observed >= 2 && len(j.prog) >= 3 && len(j.prog) <= 8 && (f.writes+f.dels > 0) && f.scans > 0 {
					sampled[j.phase]++
					r.Sample(map[string]interface{}{"phase": j.phase, "backing_state": j.bk.describe(), "program": progLines(j.prog), "sandbox_answers": answers(j.prog, res.obs)})
				}
				sampleMu.Unlock()
			}
			for k, v := range lc {
				r.Count(k, v)
			}
		}()
	}
	order := 0
	submit := func(j job) {
		order++
		j.order = order
		jobs <- j
	}

	// ---- part 1: exhaustive ----
	alpha := exAlphabet()
	maxLen := 4
	nBack := 0
	for code := 0; code < 27; code++ {
		d := &backingDesc{ID: fmt.Sprintf("ex%02d", code), M: map[string]map[string]bkEntry{}}
		c := code
		for i, k := range exKeys {
			switch c % 3 {
			case 1:
				d.set(exBucket, k, bkEntry{Kind: bkLive, Val: []byte(fmt.Sprintf("s%d", i+1)), Txid: []byte(fmt.Sprintf("tx%d", i+1)), Off: int32(i)})
			case 2:
				d.set(exBucket, k, bkEntry{Kind: bkDeleted, Txid: []byte(fmt.Sprintf("tx%d", i+1)), Off: int32(i)})
			}
			c /= 3
		}
		rd := &memReader{d: d, strict: true}
		nBack++
		for n := 1; n <= maxLen; n++ {
			total := ipow(len(alpha), n)
			for idx := 0; idx < total; idx++ {
				submit(job{phase: "exhaustive", reader: rd, bk: d, prog: exProgram(alpha, n, idx)})
			}
		}
	}
	fmt.Fprintf(os.Stderr, "c10: exhaustive part submitted (%d cases)\n", order)

	// ---- part 2: random programs over random in-memory backing states ----
	nMem := r.N(60000, 3000000)
	for i := 0; i < nMem; i++ {
		rg := rand.New(rand.NewSource(mix(r.Seed, i)))
		u := genUniverse(rg)
		d := genMemBacking(rg, u, fmt.Sprintf("mem%d", i))
		rd := &memReader{d: d, strict: rg.Intn(2) == 0}
		prog := genProgram(rg, u, genOpts{maxOps: 40, nilHi: true, inverted: rg.Intn(12) == 0, transfers: true})
		submit(job{phase: "random-mem", reader: rd, bk: d, prog: prog})
	}
	fmt.Fprintf(os.Stderr, "c10: random-mem part submitted (%d cases)\n", order)

	// ---- part 3 + 4: the real xmodel ----
	nNodes := r.N(4, 24)
	perNode := r.N(4000, 60000)
	probePerNode := r.N(1500, 20000)
	for ni := 0; ni < nNodes; ni++ {
		rg := rand.New(rand.NewSource(mix(r.Seed, 1<<30+ni)))
		rb, err := buildReal(rg, fmt.Sprintf("real%d", ni))
		if err != nil {
			r.Inconclusive("real backing " + fmt.Sprint(ni) + " could not be set up: " + err.Error())
			continue
		}
		r.Count("real.nodes", 1)
		r.Count("real.setup-transactions", rb.txs)
		r.Count("real.setup-blocks", rb.blocks)
		pend, _ := rb.node.State.GetUnconfirmedTx(false)
		if len(pend) > 0 {
			r.Count("real.nodes-with-pending-writes", 1)
		}
		for _, b := range rb.u.Buckets {
			for _, k := range rb.u.Keys[b] {
				switch e := rb.desc.get(b, k); e.Kind {
				case bkLive:
					r.Count("real.keys-live", 1)
				case bkDeleted:
					r.Count("real.keys-deleted", 1)
				default:
					r.Count("real.keys-never-written", 1)
				}
			}
		}
		for i := 0; i < perNode; i++ {
			pg := rand.New(rand.NewSource(mix(r.Seed, 1<<29+ni*1000003+i)))
			prog := genProgram(pg, rb.u, genOpts{maxOps: 30, nilHi: false, inverted: pg.Intn(12) == 0, transfers: true})
			submit(job{phase: "real-xmodel", reader: rb.reader, bk: rb.desc, prog: prog})
		}
		live := map[string][]string{}
		for _, b := range rb.u.Buckets {
			live[b] = rb.desc.liveKeys(b)
		}
		for i := 0; i < probePerNode; i++ {
			pg := rand.New(rand.NewSource(mix(r.Seed, 1<<28+ni*1000003+i)))
			prog := genProgram(pg, rb.u, genOpts{maxOps: 8, nilHi: true, hiNilAlways: true, onlyKeys: live})
			submit(job{phase: "nilend-probe", reader: rb.reader, bk: rb.desc, prog: prog, skipScans: true})
		}
	}
	close(jobs)
	wg.Wait()

	// ---- verdicts ----
	sigs := make([]string, 0, len(col.best))
	for s := range col.best {
		sigs = append(sigs, s)
	}
	sort.Strings(sigs)
	for _, s := range sigs {
		w := col.best[s]
		r.Count("violations."+s, col.count[s])
		r.Violation(s, w.detail, w)
	}
	r.Extra("exhaustive_part", map[string]interface{}{"alphabet": progLines(alpha), "max_ops": maxLen, "backing_states": nBack,
		"programs_per_backing_state": ipow(len(alpha), 1) + ipow(len(alpha), 2) + ipow(len(alpha), 3) + ipow(len(alpha), 4)})
	r.Exhaustive(true)
	r.Assume("the in-memory reader of parts 1-2 follows xmodel's conventions (never-written key = empty version, deleted key = version with the delete marker that Select does not list, " +
		"nil upper bound = end of bucket as documented by the sandbox's own MemXModel); part 3 uses the real xmodel")
	r.Assume("the oracle's view of a real node's state is derived from the committed transactions (version = txid + output offset) and cross-checked against reader.Get at set-up")
	r.Assume("for a key written WHILE an iterator is open the oracle accepts the state at Select time or any later one; for all other keys scans are judged exactly")
	r.Assume("token side: a static first-fit utxo reader; xmodel.MarshalMessages is trusted to compare the transient outputs of Flush")
	r.Assume("phantoms (keys absent from a scanned range) are not expected in the read set; the statement's read set is keys Get-ed and keys yielded")
	for _, fl := range []struct {
		c string
		n int64
	}{{"programs.exhaustive", 800000}, {"programs.random-mem", 10000}, {"programs.real-xmodel", 4000}, {"programs.nilend-probe", 1000},
		{"replays.compared", 20000}, {"answers.served-from-backing-state", 10000}, {"scan.items-judged", 10000},
		{"feature.two-iterators-open", 200}, {"feature.write-while-iterator-open-same-bucket", 200}, {"feature.early-stop", 1000},
		{"feature.nil-lower-bound", 1000}, {"feature.nil-upper-bound", 1000}, {"feature.empty-bound", 200}, {"feature.inverted-range", 100},
		{"feature.transient-write", 500}, {"feature.transient-read", 100}, {"ops.transfer", 500}, {"feature.mid-execution-rwset", 200},
		{"feature.scan-over-key-deleted-in-this-execution", 1000}, {"feature.scan-over-looked-up-absent-key", 1000},
		{"feature.scan-over-key-deleted-in-backing-state", 1000}, {"feature.scan-over-key-overwritten-in-this-execution", 1000},
		{"rset.lookahead-extras", 100}, {"real.nodes", 1}, {"real.keys-deleted", 1}, {"real.keys-live", 1}} {
		r.Floor(fl.c, fl.n)
	}
	r.Finish()
}
