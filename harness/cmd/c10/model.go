package main

import (
	"bytes"
	"fmt"
	"sort"

	"github.com/golang/protobuf/proto"
	"github.com/xuperchain/xupercore/bcs/ledger/xledger/state/xmodel"
	"github.com/xuperchain/xupercore/kernel/contract"
	"github.com/xuperchain/xupercore/protos"
)

// ---------------------------------------------------------------------------------------
// The oracle: an overlay map over the backing description, written from the statement.
//
//   Get      latest Put / Del of this execution, else the backing state
//   scan     exactly the live keys of [lo, hi) in key order (see rangeHas for nil / empty
//            bounds). While an iterator is open, writes may interleave with Next calls; for a
//            key WRITTEN WHILE THE ITERATOR WAS OPEN the oracle accepts both the state at
//            open time and any later state (iterators buffer look-ahead elements); for every
//            other key the answer is exact.
//   read set every key answered from the backing state (Get, scan item) and every
//            non-transient written key, each with the backing's version and value
//   write set the final value per written key (delete = marker)
// ---------------------------------------------------------------------------------------

type problem struct {
	Sig    string
	Detail string
}

type bkey struct{ b, k string }

type ovEntry struct {
	del bool
	val []byte
}

type histEnt struct {
	t    int
	live bool
	val  []byte
}

type rng struct {
	b      string
	lo, hi string
	hiNil  bool
}

type itState struct {
	b       string
	lo, hi  string
	hiNil   bool
	open    int // time of Select
	hasLast bool
	last    string
	done    bool
	items   int
}

type model struct {
	bk *backingDesc
	// nil-end probe over the real backing: a nil-upper-bound scan that lacks live keys is only
	// counted (nilEndMiss); everything else about scans is judged as usual
	softNilEnd bool
	nilEndMiss int

	ov       map[bkey]*ovEntry
	hist     map[bkey][]histEnt
	needRead map[bkey]string // key -> why it must be in the read set
	looked   map[bkey]bool   // keys on which the sandbox had to consult the backing (Get / forced read of Put, Del)
	ranges   []rng
	iters    [3]*itState
	now      int

	emptyKey map[string]bool // buckets on which this execution passed the empty key (a nil slice) to Get / Put / Del

	utxoNext map[string]int
	ins      []*protos.TxInput
	outs     []*protos.TxOutput
	events   []*protos.ContractEvent

	f features
}

func newModel(bk *backingDesc) *model {
	return &model{bk: bk, ov: map[bkey]*ovEntry{}, hist: map[bkey][]histEnt{}, needRead: map[bkey]string{},
		looked: map[bkey]bool{}, utxoNext: map[string]int{}, emptyKey: map[string]bool{}}
}

// liveAt: state of a key at time t (0 = backing state, i+1 = after op i)
func (m *model) liveAt(k bkey, t int) (bool, []byte) {
	h := m.hist[k]
	for i := len(h) - 1; i >= 0; i-- {
		if h[i].t <= t {
			return h[i].live, h[i].val
		}
	}
	e := m.bk.get(k.b, k.k)
	if e.Kind == bkLive {
		return true, e.Val
	}
	return false, nil
}

func (m *model) cur(k bkey) (bool, []byte) { return m.liveAt(k, m.now+1) }

func (m *model) write(k bkey, del bool, val []byte) {
	m.ov[k] = &ovEntry{del: del, val: val}
	m.hist[k] = append(m.hist[k], histEnt{t: m.now + 1, live: !del, val: val})
	if k.b != transientBucket {
		m.needRead[k] = "written"
		m.looked[k] = true
	}
}

// universe of keys of a bucket the model knows about, sorted
func (m *model) keysOf(b string) []string {
	set := map[string]bool{}
	for k := range m.bk.M[b] {
		set[k] = true
	}
	for k := range m.ov {
		if k.b == b {
			set[k.k] = true
		}
	}
	out := make([]string, 0, len(set))
	for k := range set {
		out = append(out, k)
	}
	sort.Strings(out)
	return out
}

// rangeHas: membership in [lo, hi); nil / empty lo = from the first key; nil hi = to the end
// of the bucket; a non-nil empty hi is the empty range.
func rangeHas(k, lo, hi string, hiNil bool) bool {
	if k < lo {
		return false
	}
	return hiNil || k < hi
}

func degenerate(lo, hi string, hiNil bool) bool { return !hiNil && lo > hi }

// windowStates lists the states key k had between time t0 and t1 (inclusive)
func (m *model) windowStates(k bkey, t0, t1 int) []histEnt {
	l, v := m.liveAt(k, t0)
	out := []histEnt{{t: t0, live: l, val: v}}
	for _, h := range m.hist[k] {
		if h.t > t0 && h.t <= t1 {
			out = append(out, h)
		}
	}
	return out
}

func (m *model) couldBeLiveWith(k bkey, v []byte, t0, t1 int) (live bool, withVal bool) {
	for _, s := range m.windowStates(k, t0, t1) {
		if s.live {
			live = true
			if bytes.Equal(s.val, v) {
				withVal = true
			}
		}
	}
	return
}

func (m *model) couldBeAbsent(k bkey, t0, t1 int) bool {
	for _, s := range m.windowStates(k, t0, t1) {
		if !s.live {
			return true
		}
	}
	return false
}

// ---- per-op judgement -------------------------------------------------------------------

type kv struct {
	K string
	V []byte
}

// Obs is what one op returned.
type Obs struct {
	Err     string
	Present bool
	Val     []byte
	Items   []kv
	End     bool // the iterator reported exhaustion
	IterErr string
	Panic   string
	RW      *contract.RWSet
}

func (o *Obs) brief() string {
	if o.Panic != "" {
		return "PANIC " + o.Panic
	}
	s := ""
	if o.Err != "" {
		s += "err(" + o.Err + ") "
	}
	if o.Present {
		s += fmt.Sprintf("val=%q ", o.Val)
	}
	if o.Items != nil || o.End {
		s += "items["
		for _, it := range o.Items {
			s += fmt.Sprintf("%q=%q ", it.K, it.V)
		}
		s += "]"
		if o.End {
			s += " end"
		}
	}
	if o.IterErr != "" {
		s += " itererr(" + o.IterErr + ")"
	}
	return s
}

func (m *model) step(i int, op Op, obs *Obs) *problem {
	m.now = i
	if obs.Panic != "" {
		what := "op"
		switch op.Kind {
		case opScan, opOpen:
			what = "select"
			if degenerate(op.Lo, op.Hi, op.HiNil) {
				what = "select-inverted-range"
			}
		case opNext:
			what = "next"
		}
		return &problem{"sandbox|panic|" + what, fmt.Sprintf("op %d %s panicked: %s", i, op, obs.Panic)}
	}
	if (op.Kind == opGet || op.Kind == opPut || op.Kind == opDel) && op.Key == "" {
		m.emptyKey[op.B] = true
		m.f.emptyKey = true
	}
	switch op.Kind {
	case opGet:
		m.f.reads++
		k := bkey{op.B, op.Key}
		if op.B == transientBucket {
			m.f.transientRead = true
		}
		live, val := m.cur(k)
		if _, inOv := m.ov[k]; !inOv {
			m.needRead[k] = "get"
			m.looked[k] = true
		}
		if live != obs.Present || (live && !bytes.Equal(val, obs.Val)) {
			sig := "sandbox|get-wrong-answer|"
			if _, inOv := m.ov[k]; inOv {
				sig += "key-written-in-this-execution"
			} else {
				sig += "key-from-backing-state"
			}
			return &problem{sig, fmt.Sprintf("op %d %s: sandbox says present=%v %q err=%q, oracle says present=%v %q", i, op, obs.Present, obs.Val, obs.Err, live, val)}
		}
	case opPut, opDel:
		if op.Kind == opPut {
			m.f.writes++
		} else {
			m.f.dels++
		}
		if op.B == transientBucket {
			m.f.transientWrite = true
		}
		for _, it := range m.iters {
			if it != nil && !it.done && it.b == op.B {
				m.f.writeWhileOpen = true
			}
		}
		if obs.Err != "" {
			return &problem{"sandbox|write-refused", fmt.Sprintf("op %d %s returned error %q", i, op, obs.Err)}
		}
		if op.Kind == opPut {
			m.write(bkey{op.B, op.Key}, false, op.val())
		} else {
			m.write(bkey{op.B, op.Key}, true, nil)
		}
	case opScan, opOpen:
		m.f.scans++
		if op.LoNil {
			m.f.nilLo = true
		}
		if op.HiNil {
			m.f.nilHi = true
		}
		if (!op.LoNil && op.Lo == "") || (!op.HiNil && op.Hi == "") {
			m.f.emptyBound = true
		}
		slot := op.Slot
		if op.Kind == opScan {
			slot = 2
		}
		deg := degenerate(op.Lo, op.Hi, op.HiNil)
		if deg {
			m.f.inverted = true
		}
		if obs.Err != "" {
			m.iters[slot] = nil
			if deg {
				return nil // refusing an inverted range is fine
			}
			return &problem{"sandbox|select-refused-valid-range", fmt.Sprintf("op %d %s returned error %q", i, op, obs.Err)}
		}
		it := &itState{b: op.B, lo: op.Lo, hi: op.Hi, hiNil: op.HiNil, open: i}
		m.iters[slot] = it
		if !deg {
			m.noteScanned(it)
		}
		m.ranges = append(m.ranges, rng{op.B, op.Lo, op.Hi, op.HiNil})
		if op.Kind == opScan {
			if op.N >= 0 {
				m.f.earlyStop = true
			}
			p := m.judgeItems(i, op, it, obs)
			m.iters[slot] = nil
			return p
		}
		if m.iters[0] != nil && m.iters[1] != nil && !m.iters[0].done && !m.iters[1].done {
			m.f.twoIters = true
		}
	case opNext:
		it := m.iters[op.Slot]
		if it == nil {
			return nil
		}
		return m.judgeItems(i, op, it, obs)
	case opClose:
		m.iters[op.Slot] = nil
	case opTransfer:
		m.f.transfers++
		wantOK := false
		var sel []*protos.TxInput
		var total int64
		if op.Amt > 0 {
			pool := utxoPools[op.From]
			j := m.utxoNext[op.From]
			for ; j < len(pool) && total < op.Amt; j++ {
				sel = append(sel, utxoInput(op.From, j))
				total += pool[j]
			}
			if total >= op.Amt {
				wantOK = true
				m.utxoNext[op.From] = j
			}
		}
		if wantOK != (obs.Err == "") {
			return &problem{"sandbox|transfer-wrong-outcome", fmt.Sprintf("op %d %s: sandbox err=%q, oracle expects success=%v", i, op, obs.Err, wantOK)}
		}
		if wantOK {
			m.ins = append(m.ins, sel...)
			m.outs = append(m.outs, &protos.TxOutput{Amount: bigBytes(op.Amt), ToAddr: []byte(op.To)})
			if total > op.Amt {
				m.outs = append(m.outs, &protos.TxOutput{Amount: bigBytes(total - op.Amt), ToAddr: []byte(op.From)})
			}
		}
	case opEvent:
		m.events = append(m.events, eventOf(op.Val))
	case opFlush:
		if obs.Err != "" {
			return &problem{"sandbox|flush-error", fmt.Sprintf("op %d flush returned %q", i, obs.Err)}
		}
		m.flush()
	case opRWSet:
		m.f.midRWSet = true
		return m.judgeRWSet(obs.RW, fmt.Sprintf("RWSet() taken after op %d", i))
	}
	return nil
}

// noteScanned records which corner cases lie inside a freshly selected range.
func (m *model) noteScanned(it *itState) {
	for _, k := range m.keysOf(it.b) {
		if !rangeHas(k, it.lo, it.hi, it.hiNil) {
			continue
		}
		ov := m.ov[bkey{it.b, k}]
		be := m.bk.get(it.b, k)
		switch {
		case ov != nil && ov.del:
			m.f.scanOverExecDel = true
		case ov != nil && be.Kind == bkLive:
			m.f.scanOverOverwritten = true
		case ov == nil && be.Kind == bkDeleted:
			m.f.scanOverBkDel = true
		}
	}
	for k := range m.looked {
		if k.b == it.b && m.ov[k] == nil && m.bk.get(k.b, k.k).Kind == bkNever && rangeHas(k.k, it.lo, it.hi, it.hiNil) {
			m.f.scanOverLookedAbsent = true
		}
	}
}

func eventOf(name string) *protos.ContractEvent {
	return &protos.ContractEvent{Contract: "c10", Name: name, Body: []byte("body-" + name)}
}

func (m *model) flush() {
	if len(m.ins) > 0 {
		buf, _ := xmodel.MarshalMessages(m.ins)
		m.write(bkey{transientBucket, "ContractUtxo.Inputs"}, false, buf)
	}
	if len(m.outs) > 0 {
		buf, _ := xmodel.MarshalMessages(m.outs)
		m.write(bkey{transientBucket, "ContractUtxo.Outputs"}, false, buf)
	}
	if len(m.events) > 0 {
		buf, _ := xmodel.MarshalMessages(m.events)
		m.write(bkey{transientBucket, "contractEvent"}, false, buf)
	}
}

// generic scan symptoms; when the scanned bucket holds the empty key they are reported under
// one signature of their own (the merge orders a nil key last instead of first)
var genericScanSig = map[string]bool{"sandbox|scan-misses-live-key": true, "sandbox|scan-out-of-order": true, "sandbox|scan-wrong-value": true,
	"sandbox|scan-yields-non-live-key": true, "sandbox|replay-differs|scan|items": true}

const emptyKeySig = "sandbox|scan-wrong|empty-key-in-scanned-bucket"

func (m *model) judgeItems(i int, op Op, it *itState, obs *Obs) *problem {
	p := m.judgeItems1(i, op, it, obs)
	if p != nil && m.emptyKey[it.b] && genericScanSig[p.Sig] {
		p.Sig = emptyKeySig
		p.Detail += " [the execution used the empty key, passed as a nil slice, in this bucket]"
	}
	return p
}

// judgeItems1 checks the items one Next batch yielded (and the exhaustion report).
func (m *model) judgeItems1(i int, op Op, it *itState, obs *Obs) *problem {
	if obs.IterErr != "" {
		return &problem{"sandbox|iterator-error", fmt.Sprintf("op %d %s: iterator error %q", i, op, obs.IterErr)}
	}
	ctx := func() string {
		return fmt.Sprintf("op %d %s over %s[%s,%s) opened at op %d yielded %s", i, op, it.b, bnd(it.lo, false), bnd(it.hi, it.hiNil), it.open, obs.brief())
	}
	keys := m.keysOf(it.b)
	// keys that must have been yielded between two positions
	missing := func(after string, hasAfter bool, before string, hasBefore bool) (string, bool) {
		for _, k := range keys {
			if hasAfter && k <= after {
				continue
			}
			if hasBefore && k >= before {
				break
			}
			if !rangeHas(k, it.lo, it.hi, it.hiNil) {
				continue
			}
			if !m.couldBeAbsent(bkey{it.b, k}, it.open, i) {
				return k, true
			}
		}
		return "", false
	}
	for _, item := range obs.Items {
		k := bkey{it.b, item.K}
		if it.done {
			return &problem{"sandbox|scan-continues-after-end", ctx()}
		}
		if it.hasLast && item.K <= it.last {
			return &problem{"sandbox|scan-out-of-order", ctx() + fmt.Sprintf(": %q after %q", item.K, it.last)}
		}
		if degenerate(it.lo, it.hi, it.hiNil) || !rangeHas(item.K, it.lo, it.hi, it.hiNil) {
			return &problem{"sandbox|scan-yields-key-outside-range", ctx() + fmt.Sprintf(": key %q", item.K)}
		}
		if mk, bad := missing(it.last, it.hasLast, item.K, true); bad && m.softNilEnd && it.hiNil {
			m.nilEndMiss++
		} else if bad {
			return &problem{"sandbox|scan-misses-live-key", ctx() + fmt.Sprintf(": live key %q was skipped", mk)}
		}
		live, withVal := m.couldBeLiveWith(k, item.V, it.open, i)
		if !withVal {
			be := m.bk.get(k.b, k.k)
			execDeleted, execWritten := false, false
			for _, h := range m.hist[k] {
				if h.t <= i {
					execWritten = true
					if !h.live {
						execDeleted = true
					}
				}
			}
			switch {
			case string(item.V) == delMarker && execDeleted:
				return &problem{"sandbox|scan-yields-key-deleted-in-same-execution", ctx() + fmt.Sprintf(": key %q was deleted by this execution and is yielded with the delete marker as value", item.K)}
			case string(item.V) == delMarker && !execWritten && be.Kind == bkDeleted:
				return &problem{"sandbox|scan-yields-key-deleted-in-backing-state", ctx() + fmt.Sprintf(": key %q is deleted in the backing state and is yielded with the delete marker as value", item.K)}
			case len(item.V) == 0 && be.Kind == bkNever && m.looked[k]:
				return &problem{"sandbox|scan-yields-absent-key-that-was-looked-up", ctx() + fmt.Sprintf(": key %q was never written (backing: never-written; this execution looked it up and found it absent) and is yielded with an empty value", item.K)}
			case live:
				_, want := m.cur(k)
				return &problem{"sandbox|scan-wrong-value", ctx() + fmt.Sprintf(": key %q yielded with %q, oracle has %q", item.K, item.V, want)}
			default:
				return &problem{"sandbox|scan-yields-non-live-key", ctx() + fmt.Sprintf(": key %q (value %q) is not live", item.K, item.V)}
			}
		}
		if _, inOv := m.ov[k]; !inOv {
			m.needRead[k] = "scan item"
		} else if be := m.bk.get(k.b, k.k); be.Kind == bkLive && bytes.Equal(be.Val, item.V) {
			// written while the iterator was open and the backing value was served
			m.needRead[k] = "scan item"
		}
		it.hasLast, it.last = true, item.K
		it.items++
	}
	if obs.End {
		if degenerate(it.lo, it.hi, it.hiNil) {
			it.done = true
			return nil
		}
		if mk, bad := missing(it.last, it.hasLast, "", false); bad && m.softNilEnd && it.hiNil {
			m.nilEndMiss++
		} else if bad && !it.done {
			return &problem{"sandbox|scan-misses-live-key", ctx() + fmt.Sprintf(": iterator ended but live key %q was not yielded", mk)}
		}
		it.done = true
	}
	return nil
}

// judgeRWSet audits a read / write set against the model's current state.
func (m *model) judgeRWSet(rw *contract.RWSet, when string) *problem {
	if rw == nil {
		return &problem{"sandbox|rwset-nil", when}
	}
	rset := map[bkey]bool{}
	for _, vd := range rw.RSet {
		if vd == nil || vd.PureData == nil {
			return &problem{"sandbox|read-set-malformed-entry", when}
		}
		k := bkey{vd.PureData.Bucket, string(vd.PureData.Key)}
		if rset[k] {
			return &problem{"sandbox|read-set-duplicate-key", fmt.Sprintf("%s: %s/%q twice", when, k.b, k.k)}
		}
		rset[k] = true
		want := vdOf(k.b, k.k, m.bk.get(k.b, k.k))
		if !bytes.Equal(vd.RefTxid, want.RefTxid) || vd.RefOffset != want.RefOffset {
			return &problem{"sandbox|read-set-wrong-version", fmt.Sprintf("%s: %s/%q recorded with version %x_%d, the backing state has %x_%d",
				when, k.b, k.k, vd.RefTxid, vd.RefOffset, want.RefTxid, want.RefOffset)}
		}
		if !bytes.Equal(vd.PureData.Value, want.PureData.Value) {
			return &problem{"sandbox|read-set-wrong-value", fmt.Sprintf("%s: %s/%q recorded with value %q, the backing state has %q",
				when, k.b, k.k, vd.PureData.Value, want.PureData.Value)}
		}
	}
	need := make([]bkey, 0, len(m.needRead))
	for k := range m.needRead {
		need = append(need, k)
	}
	sort.Slice(need, func(a, b int) bool {
		if need[a].b != need[b].b {
			return need[a].b < need[b].b
		}
		return need[a].k < need[b].k
	})
	for _, k := range need {
		if !rset[k] {
			why := m.needRead[k]
			sig := "sandbox|read-set-misses-key|" + map[string]string{"get": "read-by-get", "scan item": "yielded-by-scan", "written": "written-key"}[why]
			return &problem{sig, fmt.Sprintf("%s: %s/%q (%s) is not in the read set %s", when, k.b, k.k, why, rsetText(rw))}
		}
	}
	wset := map[bkey][]byte{}
	for _, pd := range rw.WSet {
		if pd == nil {
			return &problem{"sandbox|write-set-malformed-entry", when}
		}
		k := bkey{pd.Bucket, string(pd.Key)}
		if _, dup := wset[k]; dup {
			return &problem{"sandbox|write-set-duplicate-key", fmt.Sprintf("%s: %s/%q twice", when, k.b, k.k)}
		}
		wset[k] = pd.Value
		ov := m.ov[k]
		if ov == nil {
			return &problem{"sandbox|write-set-has-unwritten-key", fmt.Sprintf("%s: %s/%q = %q was never written", when, k.b, k.k, pd.Value)}
		}
		want := ov.val
		if ov.del {
			want = []byte(delMarker)
		}
		if !bytes.Equal(want, pd.Value) {
			if k.b == transientBucket && (k.k == "ContractUtxo.Inputs" || k.k == "ContractUtxo.Outputs" || k.k == "contractEvent") {
				return &problem{"sandbox|flush-wrong-transient-output", fmt.Sprintf("%s: %s = %x, oracle %x", when, k.k, pd.Value, want)}
			}
			return &problem{"sandbox|write-set-wrong-final-value", fmt.Sprintf("%s: %s/%q = %q, final value written was %q", when, k.b, k.k, pd.Value, want)}
		}
		if k.b != transientBucket && !rset[k] {
			return &problem{"sandbox|write-set-key-not-in-read-set", fmt.Sprintf("%s: %s/%q written but not read", when, k.b, k.k)}
		}
	}
	for k := range m.ov {
		if _, ok := wset[k]; !ok {
			return &problem{"sandbox|write-set-misses-written-key", fmt.Sprintf("%s: %s/%q was written but is not in the write set", when, k.b, k.k)}
		}
	}
	return nil
}

// classifyExtras counts read-set entries that no Get / write / scan item requires.
func (m *model) classifyExtras(rw *contract.RWSet) (lookahead, unrelated int) {
	for _, vd := range rw.RSet {
		k := bkey{vd.PureData.Bucket, string(vd.PureData.Key)}
		if _, ok := m.needRead[k]; ok {
			continue
		}
		in := false
		for _, r := range m.ranges {
			if r.b == k.b && rangeHas(k.k, r.lo, r.hi, r.hiNil) {
				in = true
				break
			}
		}
		if in {
			lookahead++
		} else {
			unrelated++
		}
	}
	return
}

func (m *model) judgeUTXO(u *contract.UTXORWSet) *problem {
	if u == nil {
		return &problem{"sandbox|utxo-rwset-nil", ""}
	}
	if len(u.Rset) != len(m.ins) || len(u.WSet) != len(m.outs) {
		return &problem{"sandbox|utxo-rwset-wrong", fmt.Sprintf("%d inputs / %d outputs, oracle %d / %d", len(u.Rset), len(u.WSet), len(m.ins), len(m.outs))}
	}
	for i := range u.Rset {
		if !proto.Equal(u.Rset[i], m.ins[i]) {
			return &problem{"sandbox|utxo-rwset-wrong", fmt.Sprintf("input %d: %v, oracle %v", i, u.Rset[i], m.ins[i])}
		}
	}
	for i := range u.WSet {
		if !proto.Equal(u.WSet[i], m.outs[i]) {
			return &problem{"sandbox|utxo-rwset-wrong", fmt.Sprintf("output %d: %v, oracle %v", i, u.WSet[i], m.outs[i])}
		}
	}
	return nil
}

func rsetText(rw *contract.RWSet) string {
	s := "{"
	for _, vd := range rw.RSet {
		s += fmt.Sprintf("%s/%q@%x_%d ", vd.PureData.Bucket, vd.PureData.Key, vd.RefTxid, vd.RefOffset)
	}
	return s + "}"
}

func wsetText(rw *contract.RWSet) string {
	s := "{"
	for _, pd := range rw.WSet {
		s += fmt.Sprintf("%s/%q=%q ", pd.Bucket, pd.Key, pd.Value)
	}
	return s + "}"
}
