package main

import (
	"bytes"
	"fmt"
	"math/big"
	"runtime/debug"
	"strings"

	"github.com/golang/protobuf/proto"
	"github.com/xuperchain/xupercore/kernel/contract"
	"github.com/xuperchain/xupercore/kernel/contract/sandbox"
	"github.com/xuperchain/xupercore/kernel/ledger"
)

func bigBytes(v int64) []byte { return big.NewInt(v).Bytes() }

// executor drives one sandbox through a program, one op at a time.
type executor struct {
	sb    contract.StateSandbox
	iters [3]contract.Iterator
	ended [3]bool
}

func newExecutor(reader ledger.XMReader, utxo contract.UtxoReader) *executor {
	// the object contract.Manager.NewStateSandbox returns
	return &executor{sb: sandbox.NewXModelCache(&contract.SandboxConfig{XMReader: reader, UTXOReader: utxo})}
}

func errText(err error) string {
	if err == nil {
		return ""
	}
	if s := err.Error(); s != "" {
		return s
	}
	return "error"
}

func trimStack(s string) string {
	var keep []string
	for _, ln := range strings.Split(s, "\n") {
		if strings.Contains(ln, "xupercore") || strings.Contains(ln, "/repo/") || strings.Contains(ln, "wt-c10") {
			keep = append(keep, strings.TrimSpace(ln))
		}
		if len(keep) >= 8 {
			break
		}
	}
	return strings.Join(keep, " <- ")
}

func (e *executor) pull(slot int, n int, obs *Obs) {
	it := e.iters[slot]
	if it == nil || e.ended[slot] {
		return
	}
	obs.Items = []kv{}
	for n < 0 || len(obs.Items) < n {
		if !it.Next() {
			obs.End = true
			e.ended[slot] = true
			break
		}
		obs.Items = append(obs.Items, kv{K: string(it.Key()), V: append([]byte{}, it.Value()...)})
		if len(obs.Items) > 1000 {
			obs.IterErr = "iterator does not terminate"
			return
		}
	}
	obs.IterErr = errText(it.Error())
}

func (e *executor) do(op Op) (obs *Obs) {
	obs = &Obs{}
	defer func() {
		if r := recover(); r != nil {
			obs.Panic = fmt.Sprintf("%v @ %s", r, trimStack(string(debug.Stack())))
		}
	}()
	switch op.Kind {
	case opGet:
		v, err := e.sb.Get(op.B, op.key())
		obs.Err = errText(err)
		if err == nil {
			obs.Present, obs.Val = true, append([]byte{}, v...)
		}
	case opPut:
		obs.Err = errText(e.sb.Put(op.B, op.key(), op.val()))
	case opDel:
		obs.Err = errText(e.sb.Del(op.B, op.key()))
	case opScan, opOpen:
		slot := op.Slot
		if op.Kind == opScan {
			slot = 2
		}
		e.iters[slot], e.ended[slot] = nil, false
		it, err := e.sb.Select(op.B, op.lo(), op.hi())
		obs.Err = errText(err)
		if err != nil {
			return
		}
		if it == nil {
			obs.Err = "nil iterator without error"
			return
		}
		e.iters[slot] = it
		if op.Kind == opScan {
			e.pull(slot, op.N, obs)
			it.Close()
			e.iters[slot] = nil
		}
	case opNext:
		e.pull(op.Slot, op.N, obs)
	case opClose:
		if it := e.iters[op.Slot]; it != nil {
			it.Close()
			e.iters[op.Slot] = nil
		}
	case opTransfer:
		obs.Err = errText(e.sb.Transfer(op.From, op.To, big.NewInt(op.Amt)))
	case opEvent:
		e.sb.AddEvent(eventOf(op.Val))
	case opFlush:
		obs.Err = errText(e.sb.Flush())
	case opRWSet:
		obs.RW = e.sb.RWSet()
	}
	return
}

func (e *executor) closeAll() {
	defer func() { recover() }()
	for i, it := range e.iters {
		if it != nil {
			it.Close()
			e.iters[i] = nil
		}
	}
}

// caseResult is what running one program produced.
type caseResult struct {
	prob       *problem
	obs        []*Obs
	f          features
	lookahead  int
	unrelated  int
	rsetSize   int
	wsetSize   int
	observed   int  // Get answers + scan items + scan ends judged
	replayed   bool // the replay over the read set was carried out and compared
	nilEndMiss int  // probe: nil-end scans whose pre-execution answer lacked a live key
	scanItems  int
	fromBk     int // answers served from the backing state (Get of unwritten key, scan items read)
	// executions over a moving backing (moving.go)
	extra    map[string]int // counters of the moving part
	taint    string         // probe: the execution contains a move the unchanged code is known not to handle
	lines    []string       // program with the backing moves interleaved
	ansLines []string
}

func obsEqual(a, b *Obs) (bool, string) {
	if (a.Err == "") != (b.Err == "") {
		return false, "error-ness"
	}
	if a.Present != b.Present || !bytes.Equal(a.Val, b.Val) {
		return false, "value"
	}
	if len(a.Items) != len(b.Items) || a.End != b.End {
		return false, "items"
	}
	for i := range a.Items {
		if a.Items[i].K != b.Items[i].K || !bytes.Equal(a.Items[i].V, b.Items[i].V) {
			return false, "items"
		}
	}
	return true, ""
}

// runCase: lock-step execution with the oracle, RW-set audit, replay over the read set.
func runCase(reader ledger.XMReader, bk *backingDesc, prog []Op, softNilEnd bool) *caseResult {
	res := &caseResult{}
	m := newModel(bk)
	m.softNilEnd = softNilEnd
	ex := newExecutor(reader, newFakeUtxo())
	full := append(append([]Op{}, prog...), Op{Kind: opFlush})
	for i, op := range full {
		obs := ex.do(op)
		res.obs = append(res.obs, obs)
		if p := m.step(i, op, obs); p != nil {
			res.prob = p
			res.f = m.f
			ex.closeAll()
			return res
		}
		switch op.Kind {
		case opGet:
			res.observed++
			if _, inOv := m.ov[bkey{op.B, op.Key}]; !inOv {
				res.fromBk++
			}
		case opScan, opNext:
			res.observed += len(obs.Items)
			res.scanItems += len(obs.Items)
			if obs.End {
				res.observed++
			}
		}
	}
	ex.closeAll()
	res.f = m.f
	res.nilEndMiss = m.nilEndMiss
	m.now = len(full)
	var rw *contract.RWSet
	var u *contract.UTXORWSet
	if p := guard(func() { rw = ex.sb.RWSet(); u = ex.sb.UTXORWSet() }); p != "" {
		res.prob = &problem{"sandbox|panic|rwset", p}
		return res
	}
	if p := m.judgeRWSet(rw, "final RWSet()"); p != nil {
		res.prob = p
		return res
	}
	if p := m.judgeUTXO(u); p != nil {
		res.prob = p
		return res
	}
	res.lookahead, res.unrelated = m.classifyExtras(rw)
	res.rsetSize, res.wsetSize = len(rw.RSet), len(rw.WSet)

	replayCheck(res, full, rw, u, m.emptyKey, bk.Real)
	return res
}

// replayCheck re-runs the same calls over the read set alone (what verification does) and compares
// every result, the write set, the token side and the versions the replay read.
func replayCheck(res *caseResult, full []Op, rw *contract.RWSet, u *contract.UTXORWSet, emptyKey map[string]bool, real bool) *caseResult {
	ex2 := newExecutor(sandbox.XMReaderFromRWSet(rw), sandbox.NewUTXOReaderFromInput(u.Rset))
	rsetKind := map[bkey]bkKind{}
	for _, vd := range rw.RSet {
		k := bkey{vd.PureData.Bucket, string(vd.PureData.Key)}
		switch {
		case vd.RefTxid == nil && vd.RefOffset == 0:
			rsetKind[k] = bkNever
		case string(vd.PureData.Value) == delMarker:
			rsetKind[k] = bkDeleted
		default:
			rsetKind[k] = bkLive
		}
	}
	for i, op := range full {
		if op.Kind == opRWSet {
			continue
		}
		obs := ex2.do(op)
		if obs.Panic != "" {
			res.prob = &problem{"sandbox|panic|replay", fmt.Sprintf("replay of op %d %s panicked: %s", i, op, obs.Panic)}
			ex2.closeAll()
			return res
		}
		if ok, what := obsEqual(res.obs[i], obs); !ok {
			sig := "sandbox|replay-differs|" + map[opKind]string{opGet: "get", opPut: "put", opDel: "del", opScan: "scan", opOpen: "select",
				opNext: "scan", opTransfer: "transfer", opFlush: "flush"}[op.Kind] + "|" + what
			detail := fmt.Sprintf("op %d %s: pre-execution returned %s, replay over the read set %s returned %s", i, op, res.obs[i].brief(), rsetText(rw), obs.brief())
			if what == "items" {
				// which key makes the difference?
				dk, extraInReplay := firstDiff(res.obs[i].Items, obs.Items)
				b := op.B
				if op.Kind == opNext {
					b = iterBucket(full, i, op.Slot)
				}
				kind, inR := rsetKind[bkey{b, dk}]
				switch {
				case extraInReplay && inR && kind == bkNever:
					sig = "sandbox|scan-yields-absent-key-that-was-looked-up"
					detail += fmt.Sprintf(": in the replay the scan yields key %q, which is in the read set only as a never-written key (looked up and found absent)", dk)
				case emptyKey[b]:
					sig = emptyKeySig
					detail += " [the execution used the empty key, passed as a nil slice, in this bucket]"
				case real && scanHiNil(full, i, op) && inR && kind == bkLive:
					sig = "sandbox|select-nil-end|backing-vs-replay-disagree"
					detail += fmt.Sprintf(": key %q is live in the backing state; xmodel.Select(bucket, start, nil) lists nothing, the replay reader lists up to the end of the bucket", dk)
				}
			}
			res.prob = &problem{sig, detail}
			ex2.closeAll()
			return res
		}
	}
	ex2.closeAll()
	var rw2 *contract.RWSet
	var u2 *contract.UTXORWSet
	if p := guard(func() { rw2 = ex2.sb.RWSet(); u2 = ex2.sb.UTXORWSet() }); p != "" {
		res.prob = &problem{"sandbox|panic|replay", p}
		return res
	}
	if !sameWSet(rw, rw2) {
		res.prob = &problem{"sandbox|replay-differs|write-set", fmt.Sprintf("pre-execution write set %s, replay write set %s", wsetText(rw), wsetText(rw2))}
		return res
	}
	if len(u.Rset) != len(u2.Rset) || len(u.WSet) != len(u2.WSet) {
		res.prob = &problem{"sandbox|replay-differs|utxo", fmt.Sprintf("pre-execution %d/%d utxo inputs/outputs, replay %d/%d", len(u.Rset), len(u.WSet), len(u2.Rset), len(u2.WSet))}
		return res
	}
	for i := range u.Rset {
		if !proto.Equal(u.Rset[i], u2.Rset[i]) {
			res.prob = &problem{"sandbox|replay-differs|utxo", fmt.Sprintf("utxo input %d differs", i)}
			return res
		}
	}
	for i := range u.WSet {
		if !proto.Equal(u.WSet[i], u2.WSet[i]) {
			res.prob = &problem{"sandbox|replay-differs|utxo", fmt.Sprintf("utxo output %d differs", i)}
			return res
		}
	}
	// the replay must not have needed anything beyond the read set it was given
	have := map[bkey]*ledger.VersionedData{}
	for _, vd := range rw.RSet {
		have[bkey{vd.PureData.Bucket, string(vd.PureData.Key)}] = vd
	}
	for _, vd := range rw2.RSet {
		k := bkey{vd.PureData.Bucket, string(vd.PureData.Key)}
		o := have[k]
		if o == nil {
			res.prob = &problem{"sandbox|replay-reads-key-outside-read-set", fmt.Sprintf("%s/%q", k.b, k.k)}
			return res
		}
		if !bytes.Equal(o.RefTxid, vd.RefTxid) || o.RefOffset != vd.RefOffset || !bytes.Equal(o.PureData.Value, vd.PureData.Value) {
			res.prob = &problem{"sandbox|replay-sees-other-version", fmt.Sprintf("%s/%q: pre-execution read %x_%d %q, the replay read %x_%d %q", k.b, k.k,
				o.RefTxid, o.RefOffset, o.PureData.Value, vd.RefTxid, vd.RefOffset, vd.PureData.Value)}
			return res
		}
	}
	res.replayed = true
	return res
}

func guard(f func()) (p string) {
	defer func() {
		if r := recover(); r != nil {
			p = fmt.Sprintf("%v @ %s", r, trimStack(string(debug.Stack())))
		}
	}()
	f()
	return ""
}

func firstDiff(a, b []kv) (key string, extraInB bool) {
	i := 0
	for i < len(a) && i < len(b) && a[i].K == b[i].K && bytes.Equal(a[i].V, b[i].V) {
		i++
	}
	switch {
	case i < len(a) && i < len(b):
		if b[i].K <= a[i].K {
			return b[i].K, b[i].K < a[i].K
		}
		return a[i].K, false
	case i < len(b):
		return b[i].K, true
	case i < len(a):
		return a[i].K, false
	}
	return "", false
}

func iterBucket(p []Op, upto int, slot int) string {
	for i := upto; i >= 0; i-- {
		if p[i].Kind == opOpen && p[i].Slot == slot {
			return p[i].B
		}
	}
	return ""
}

func scanHiNil(p []Op, i int, op Op) bool {
	if op.Kind == opScan {
		return op.HiNil
	}
	for j := i; j >= 0; j-- {
		if p[j].Kind == opOpen && p[j].Slot == op.Slot {
			return p[j].HiNil
		}
	}
	return false
}

func sameWSet(a, b *contract.RWSet) bool {
	if len(a.WSet) != len(b.WSet) {
		return false
	}
	m := map[bkey][]byte{}
	for _, pd := range a.WSet {
		m[bkey{pd.Bucket, string(pd.Key)}] = pd.Value
	}
	for _, pd := range b.WSet {
		v, ok := m[bkey{pd.Bucket, string(pd.Key)}]
		if !ok || !bytes.Equal(v, pd.Value) {
			return false
		}
	}
	return true
}
