package main

import (
	"fmt"
	"math/rand"
	"strings"
)

// ---------------------------------------------------------------------------------------
// programs: sequences of sandbox calls
// ---------------------------------------------------------------------------------------

type opKind int

const (
	opGet opKind = iota
	opPut
	opDel
	opScan  // Select + up to N x Next + Close in one step (N < 0: until exhausted)
	opOpen  // Select into iterator slot
	opNext  // up to N x Next on a slot (N < 0: until exhausted)
	opClose // Close a slot
	opTransfer
	opEvent
	opFlush
	opRWSet // take RWSet() in the middle of the execution and audit it
)

// Op is one call. Keys / values / bounds are byte strings held in Go strings; the *Nil
// flags say that a nil slice is passed instead.
type Op struct {
	Kind   opKind
	B      string // bucket
	Key    string
	Val    string
	ValNil bool
	Lo, Hi string
	LoNil  bool
	HiNil  bool
	Slot   int
	N      int
	From   string
	To     string
	Amt    int64
}

func bnd(s string, isNil bool) string {
	if isNil {
		return "nil"
	}
	return fmt.Sprintf("%q", s)
}

func (o Op) String() string {
	switch o.Kind {
	case opGet:
		return fmt.Sprintf("get %s %q", o.B, o.Key)
	case opPut:
		return fmt.Sprintf("put %s %q %s", o.B, o.Key, bnd(o.Val, o.ValNil))
	case opDel:
		return fmt.Sprintf("del %s %q", o.B, o.Key)
	case opScan:
		return fmt.Sprintf("scan %s [%s,%s) n=%d", o.B, bnd(o.Lo, o.LoNil), bnd(o.Hi, o.HiNil), o.N)
	case opOpen:
		return fmt.Sprintf("open#%d %s [%s,%s)", o.Slot, o.B, bnd(o.Lo, o.LoNil), bnd(o.Hi, o.HiNil))
	case opNext:
		return fmt.Sprintf("next#%d n=%d", o.Slot, o.N)
	case opClose:
		return fmt.Sprintf("close#%d", o.Slot)
	case opTransfer:
		return fmt.Sprintf("transfer %s->%s %d", o.From, o.To, o.Amt)
	case opEvent:
		return fmt.Sprintf("event %q", o.Val)
	case opFlush:
		return "flush"
	case opRWSet:
		return "rwset"
	}
	return "?"
}

func progLines(p []Op) []string {
	out := make([]string, len(p))
	for i, o := range p {
		out[i] = o.String()
	}
	return out
}

func progText(p []Op) string { return strings.Join(progLines(p), "; ") }

// key: the empty key is passed as a nil slice (what an empty protobuf bytes field decodes to)
func (o Op) key() []byte {
	if o.Key == "" {
		return nil
	}
	return []byte(o.Key)
}

func (o Op) lo() []byte {
	if o.LoNil {
		return nil
	}
	return []byte(o.Lo)
}
func (o Op) hi() []byte {
	if o.HiNil {
		return nil
	}
	return []byte(o.Hi)
}
func (o Op) val() []byte {
	if o.ValNil {
		return nil
	}
	return []byte(o.Val)
}

// opFeatures are the coarse mechanisms a program exercises (for coverage floors).
type features struct {
	reads, writes, dels, scans, transfers   int
	twoIters, writeWhileOpen, earlyStop     bool
	nilLo, nilHi, emptyBound, inverted      bool
	transientWrite, transientRead, midRWSet bool
	emptyKey                                bool
	// preconditions of the scan corner cases: a scanned range contained such a key
	scanOverExecDel, scanOverLookedAbsent, scanOverBkDel, scanOverOverwritten bool
}

// ---------------------------------------------------------------------------------------
// exhaustive space: <= 4 ops (thorough: <= 5) over 3 keys of one bucket
// ---------------------------------------------------------------------------------------

const exBucket = "b"

var exKeys = []string{"k1", "k2", "k3"}

// exAlphabet returns the op alphabet of the exhaustive part; values of puts are made
// unique per program position when the program is instantiated.
func exAlphabet(withIterator bool) []Op {
	var a []Op
	for _, k := range exKeys {
		a = append(a, Op{Kind: opGet, B: exBucket, Key: k})
	}
	for _, k := range exKeys {
		a = append(a, Op{Kind: opPut, B: exBucket, Key: k, Val: "w<position>"})
	}
	for _, k := range exKeys {
		a = append(a, Op{Kind: opDel, B: exBucket, Key: k})
	}
	a = append(a,
		Op{Kind: opScan, B: exBucket, LoNil: true, HiNil: true, N: -1}, // whole bucket
		Op{Kind: opScan, B: exBucket, Lo: "k1", Hi: "k3", N: -1},       // [k1,k3)
		Op{Kind: opScan, B: exBucket, LoNil: true, HiNil: true, N: 1},  // early stop after one item
		Op{Kind: opScan, B: exBucket, Lo: "k2", HiNil: true, N: -1},    // [k2, end)
	)
	if withIterator { // thorough tier: an iterator that stays open across other ops
		a = append(a, Op{Kind: opOpen, B: exBucket, Slot: 0, LoNil: true, HiNil: true}, Op{Kind: opNext, Slot: 0, N: 1})
	}
	return a
}

// exProgram decodes program number idx of length n over the alphabet.
func exProgram(alpha []Op, n int, idx int) []Op {
	p := make([]Op, n)
	for i := n - 1; i >= 0; i-- {
		p[i] = alpha[idx%len(alpha)]
		idx /= len(alpha)
		if p[i].Kind == opPut {
			p[i].Val = fmt.Sprintf("w%d", i)
		}
	}
	return p
}

func ipow(a, b int) int {
	r := 1
	for i := 0; i < b; i++ {
		r *= a
	}
	return r
}

// ---------------------------------------------------------------------------------------
// random programs
// ---------------------------------------------------------------------------------------

// universe of one random case: buckets and, per bucket, the keys programs talk about
type universe struct {
	Buckets []string
	Keys    map[string][]string
}

// all candidate keys; chosen so that range bounds fall on, just before and just after keys
// and that byte 0x00 / 0xff / the bucket separator occur
var keyPool = []string{"a", "a\x00", "ab", "b", "b/", "b0", "b\xff", "c", "ca", "d", "\xff", "k/1", ""}

var bucketPool = []string{"b", "b0", "c"} // "b/" + x < "b0" <= "b0/" + y: adjacent in the raw key space

var addrPool = []string{"A", "B", "C"}

type genOpts struct {
	maxOps      int
	nilHi       bool                // allow nil upper bounds
	onlyKeys    map[string][]string // if set, Get/Put/Del only touch these keys (per bucket)
	inverted    bool
	transfers   bool
	hiNilAlways bool
}

func pick(rng *rand.Rand, s []string) string { return s[rng.Intn(len(s))] }

func genBound(rng *rand.Rand, keys []string, upper bool, allowNil bool) (string, bool) {
	x := rng.Intn(100)
	switch {
	case x < 14:
		if allowNil {
			return "", true
		}
		if upper {
			return "\xff\xff", false
		}
		return "", false
	case x < 20:
		if upper {
			if x < 17 {
				return "\xff\xff", false
			}
			return "", false // empty non-nil upper bound: the empty range
		}
		return "", false
	case x < 60:
		return pick(rng, keys), false
	case x < 75:
		return pick(rng, keys) + "\x00", false // just after a key
	case x < 85:
		k := pick(rng, keys)
		if k == "" {
			return "", false
		}
		return k[:len(k)-1], false // a prefix (just before)
	case x < 92:
		return pick(rng, keyPool), false
	default:
		if upper {
			return "\xff\xff", false
		}
		return "", allowNil
	}
}

func genProgram(rng *rand.Rand, u *universe, o genOpts) []Op {
	n := 1 + rng.Intn(o.maxOps)
	if rng.Intn(4) == 0 {
		n = 1 + rng.Intn(6)
	}
	var p []Op
	open := [2]bool{}
	openB := [2]string{}
	valSeq := 0
	withTransient := rng.Intn(3) == 0
	for len(p) < n {
		b := pick(rng, u.Buckets)
		transient := false
		if withTransient && rng.Intn(6) == 0 {
			b = transientBucket
			transient = true
		}
		keys := u.Keys[b]
		if transient {
			keys = transientKeys
		}
		rwKeys := keys
		if o.onlyKeys != nil && !transient {
			rwKeys = o.onlyKeys[b]
			if len(rwKeys) == 0 {
				continue
			}
		}
		x := rng.Intn(100)
		switch {
		case x < 20:
			p = append(p, Op{Kind: opGet, B: b, Key: pick(rng, rwKeys)})
		case x < 40:
			valSeq++
			op := Op{Kind: opPut, B: b, Key: pick(rng, rwKeys), Val: fmt.Sprintf("w%d", valSeq)}
			switch rng.Intn(12) {
			case 0:
				op.Val = ""
			case 1:
				op.Val, op.ValNil = "", true
			}
			p = append(p, op)
		case x < 53:
			p = append(p, Op{Kind: opDel, B: b, Key: pick(rng, rwKeys)})
		case x < 71:
			op := Op{Kind: opScan, B: b, N: -1}
			op.Lo, op.LoNil = genBound(rng, keys, false, true)
			op.Hi, op.HiNil = genBound(rng, keys, true, o.nilHi)
			if o.hiNilAlways {
				op.Hi, op.HiNil = "", true
			}
			if !o.inverted && !op.HiNil && op.Lo > op.Hi {
				op.Lo, op.Hi = op.Hi, op.Lo
			}
			if rng.Intn(3) == 0 {
				op.N = rng.Intn(4)
			}
			p = append(p, op)
		case x < 78:
			s := rng.Intn(2)
			if open[s] {
				p = append(p, Op{Kind: opClose, Slot: s})
				open[s] = false
				break
			}
			op := Op{Kind: opOpen, B: b, Slot: s}
			op.Lo, op.LoNil = genBound(rng, keys, false, true)
			op.Hi, op.HiNil = genBound(rng, keys, true, o.nilHi)
			if o.hiNilAlways {
				op.Hi, op.HiNil = "", true
			}
			if !op.HiNil && op.Lo > op.Hi { // iterators that stay open are kept on valid ranges
				op.Lo, op.Hi = op.Hi, op.Lo
			}
			if rng.Intn(3) > 0 { // mostly wide, so that there is something to interleave with
				op.Lo, op.LoNil = "", true
				if o.nilHi {
					op.Hi, op.HiNil = "", true
				} else {
					op.Hi, op.HiNil = "\xff\xff", false
				}
			}
			open[s], openB[s] = true, b
			p = append(p, op)
		case x < 88:
			s := rng.Intn(2)
			if !open[s] {
				s = 1 - s
			}
			if !open[s] {
				continue
			}
			k := 1 + rng.Intn(2)
			if rng.Intn(5) == 0 {
				k = -1
			}
			p = append(p, Op{Kind: opNext, Slot: s, N: k})
		case x < 93:
			if !o.transfers {
				continue
			}
			amts := []int64{0, 1, 5, 45, 50, 60, 95, 100, 1000}
			p = append(p, Op{Kind: opTransfer, From: pick(rng, addrPool), To: pick(rng, addrPool), Amt: amts[rng.Intn(len(amts))]})
		case x < 95:
			valSeq++
			p = append(p, Op{Kind: opEvent, Val: fmt.Sprintf("e%d", valSeq)})
		case x < 97:
			p = append(p, Op{Kind: opFlush})
		default:
			p = append(p, Op{Kind: opRWSet})
		}
	}
	_ = openB
	return p
}

const transientBucket = "$transient"

var transientKeys = []string{"t1", "t2", "ContractUtxo.Inputs", "contractEvent"}

// shapeOf abstracts a program from the concrete values it writes (they are unique ids).
func shapeOf(backingID string, p []Op) string {
	var sb strings.Builder
	sb.WriteString(backingID)
	for _, o := range p {
		sb.WriteByte('|')
		if o.Kind == opPut {
			c := "v"
			if o.ValNil {
				c = "nil"
			} else if o.Val == "" {
				c = "empty"
			}
			fmt.Fprintf(&sb, "put %s %q %s", o.B, o.Key, c)
		} else if o.Kind == opEvent {
			sb.WriteString("event")
		} else {
			sb.WriteString(o.String())
		}
	}
	return sb.String()
}
