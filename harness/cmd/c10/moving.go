package main

// Executions over a MOVING backing state.
//
// Pre-execution reads the live state of the node without any lock (State.CreateXMReader), so
// blocks confirmed and transactions admitted while a contract runs change the state between
// two sandbox calls of one execution. In this part the harness applies committed writes /
// deletes / re-creations (new versions) to an in-memory backing BETWEEN the calls of a random
// program. The backing follows the real xmodel: Get answers from the current state, an
// iterator is a snapshot (keys and versions) taken at Select time.
//
// Rules enforced (from the statement; where it is silent the most permissive reading is taken):
//
//	(a) a key the execution has written answers with its latest write; a key it has read answers
//	    from the version first seen, whatever the backing did since (repeatable reads: Get after
//	    Get, Select after Get, Get after Select agree). For a key NOT yet seen any version that was
//	    current between the first Select whose range covered it (iterators buffer look-ahead
//	    elements into the read set) and the call is accepted; absence from a scan does not pin a
//	    version (phantoms are not part of the read set).
//	(b) the read set names, for every key, a version of that key that existed, and for a key
//	    with judged answers the very version those answers came from.
//	(c) replay: the same calls over XMReaderFromRWSet(rwset) alone reproduce every result, the
//	    write set and the versions read (shared with the other parts: replayCheck).
//
// Two kinds of move are NOT made in the judged part because no key/version read set can keep (c)
// for them (phantoms, see movHazard): they are made in the "moving-probe" part, which only counts.
// The two kinds of moves the code did not handle before 7b4c0ba (a key ahead of an open iterator;
// a looked-up absent key that becomes live) are made and judged like every other move.

import (
	"bytes"
	"errors"
	"fmt"
	"math/rand"
	"os"
	"sort"

	"github.com/xuperchain/xupercore/kernel/contract"
	"github.com/xuperchain/xupercore/kernel/ledger"
)

// raiseMovingHazards: report violations of probe executions that contain a phantom move as
// violations instead of counting them (development aid: shows what the phantom allowance hides).
var raiseMovingHazards = os.Getenv("C10_RAISE_MOVING_HAZARDS") != ""

const (
	hazardPhantom = "scanned-absent-key-becomes-live"
	hazardVanish  = "unseen-key-held-live-by-open-iterator-becomes-absent"
)

const sigOtherVersion = "sandbox|moving-state|read-set-names-another-version-than-the-one-served"

type mvVersion struct {
	t int // the version is current from op index t on (0 = initial state)
	e bkEntry
}

// movBacking is a versioned in-memory ledger.XMReader whose state the harness changes between
// sandbox calls. It keeps the whole timeline of every key.
type movBacking struct {
	cur    map[bkey]bkEntry
	tl     map[bkey][]mvVersion
	strict bool // inverted range: error (MemXModel) or empty iterator (real xmodel)
}

func newMovBacking(d *backingDesc, strict bool) *movBacking {
	mb := &movBacking{cur: map[bkey]bkEntry{}, tl: map[bkey][]mvVersion{}, strict: strict}
	for b, m := range d.M {
		for k, e := range m {
			mb.cur[bkey{b, k}] = e
			mb.tl[bkey{b, k}] = []mvVersion{{0, e}}
		}
	}
	return mb
}

var neverTimeline = []mvVersion{{0, bkEntry{}}}

func (mb *movBacking) timeline(k bkey) []mvVersion {
	if tl := mb.tl[k]; tl != nil {
		return tl
	}
	return neverTimeline
}

func (mb *movBacking) apply(k bkey, e bkEntry, t int) {
	if mb.tl[k] == nil {
		mb.tl[k] = []mvVersion{{0, bkEntry{}}}
	}
	mb.tl[k] = append(mb.tl[k], mvVersion{t, e})
	mb.cur[k] = e
}

// window: indices of the versions of k that were current at some time in [lo, hi]
func (mb *movBacking) window(k bkey, lo, hi int) []int {
	tl := mb.timeline(k)
	first := 0
	for i, v := range tl {
		if v.t <= lo {
			first = i
		}
	}
	out := []int{first}
	for i := first + 1; i < len(tl); i++ {
		if tl[i].t <= hi {
			out = append(out, i)
		}
	}
	return out
}

func (mb *movBacking) Get(bucket string, key []byte) (*ledger.VersionedData, error) {
	return vdOf(bucket, string(key), mb.cur[bkey{bucket, string(key)}]), nil
}

func (mb *movBacking) Select(bucket string, start, end []byte) (ledger.XMIterator, error) {
	if end != nil && bytes.Compare(start, end) > 0 {
		if mb.strict {
			return nil, errors.New("bad select range")
		}
		return &snapIter{}, nil
	}
	var keys []string
	for k, e := range mb.cur {
		if k.b == bucket && e.Kind == bkLive && bytes.Compare([]byte(k.k), start) >= 0 && (end == nil || bytes.Compare([]byte(k.k), end) < 0) {
			keys = append(keys, k.k)
		}
	}
	sort.Strings(keys)
	it := &snapIter{}
	for _, k := range keys { // the snapshot: keys AND versions as of now
		it.items = append(it.items, vdOf(bucket, k, mb.cur[bkey{bucket, k}]))
	}
	return it, nil
}

type snapIter struct {
	items  []*ledger.VersionedData
	pos    int
	cur    *ledger.VersionedData
	closed bool
}

func (it *snapIter) Next() bool {
	if it.closed || it.pos >= len(it.items) {
		it.cur = nil
		return false
	}
	it.cur = it.items[it.pos]
	it.pos++
	return true
}
func (it *snapIter) Key() []byte {
	if it.cur == nil {
		return nil
	}
	return it.cur.PureData.Key
}
func (it *snapIter) Value() *ledger.VersionedData { return it.cur }
func (it *snapIter) Error() error                 { return nil }
func (it *snapIter) Close()                       { it.closed = true; it.cur = nil }

func entryText(e bkEntry) string {
	switch e.Kind {
	case bkLive:
		return fmt.Sprintf("live %q @%s_%d", e.Val, e.Txid, e.Off)
	case bkDeleted:
		return fmt.Sprintf("deleted @%s_%d", e.Txid, e.Off)
	}
	return "never written"
}

// ---------------------------------------------------------------------------------------
// the oracle for executions over a moving backing
// ---------------------------------------------------------------------------------------

type mmodel struct {
	bk *movBacking
	u  *universe

	ov       map[bkey]*ovEntry
	hist     map[bkey][]histEnt
	cand     map[bkey][]int // versions (indices into the key's timeline) the answers so far can have come from; nil = key not seen
	pinnedAt map[bkey]int   // op index at which the key was first seen
	cover    map[bkey]int   // op index of the first Select whose range covered the key
	needRead map[bkey]string
	ranges   []rng
	iters    [3]*itState
	now      int

	f     features
	cnt   map[string]int
	taint string // probe part: a phantom move was made

	aheadMoved    map[bkey]int // key moved while ahead of an open iterator that had not seen it -> op index of the move
	absentNowLive map[bkey]int // key looked up and found absent, since made live by the backing
}

func newMModel(bk *movBacking, u *universe) *mmodel {
	return &mmodel{bk: bk, u: u, ov: map[bkey]*ovEntry{}, hist: map[bkey][]histEnt{}, cand: map[bkey][]int{}, pinnedAt: map[bkey]int{},
		cover: map[bkey]int{}, needRead: map[bkey]string{}, cnt: map[string]int{}, aheadMoved: map[bkey]int{}, absentNowLive: map[bkey]int{}}
}

func (m *mmodel) keysOf(b string) []string {
	set := map[string]bool{}
	for _, k := range m.u.Keys[b] {
		set[k] = true
	}
	for k := range m.bk.tl {
		if k.b == b {
			set[k.k] = true
		}
	}
	for k := range m.ov {
		if k.b == b {
			set[k.k] = true
		}
	}
	out := make([]string, 0, len(set))
	for k := range set {
		out = append(out, k)
	}
	sort.Strings(out)
	return out
}

// backCands: the backing versions an answer about k at op i may come from
func (m *mmodel) backCands(k bkey, i int) []int {
	if c := m.cand[k]; c != nil {
		return c
	}
	lo := i
	if c, ok := m.cover[k]; ok && c < lo {
		lo = c
	}
	return m.bk.window(k, lo, i)
}

// pin: the answer just judged (what = "get" / "scan-item" / "" for the unjudged read a write forces) came from one of the versions c
func (m *mmodel) pin(k bkey, c []int, i int, what string) {
	if m.cand[k] == nil {
		m.pinnedAt[k] = i
	}
	m.cand[k] = c
	// coverage: the answer came from a version that is no longer the current one
	tl := m.bk.timeline(k)
	if what != "" && len(c) > 0 && c[len(c)-1] < len(tl)-1 {
		m.cnt["moving."+what+"-answered-from-a-version-the-backing-has-since-replaced"]++
	}
}

func (m *mmodel) write(k bkey, del bool, val []byte) {
	m.ov[k] = &ovEntry{del: del, val: val}
	m.hist[k] = append(m.hist[k], histEnt{t: m.now + 1, live: !del, val: val})
	if k.b != transientBucket {
		m.needRead[k] = "written"
	}
}

// scanStates: what key k may show to an iterator opened at op t0 and consumed up to op i: the
// states its own writes gave it (the one at open time and every later one), and, when it had not
// been written at open time, the backing versions
func (m *mmodel) scanStates(k bkey, t0, i int) (exec []histEnt, back []int) {
	var base *histEnt
	for j := range m.hist[k] {
		h := m.hist[k][j]
		if h.t <= t0 {
			base = &m.hist[k][j]
		} else if h.t <= i {
			exec = append(exec, h)
		}
	}
	if base != nil {
		exec = append([]histEnt{*base}, exec...)
	} else {
		back = m.backCands(k, i)
		if at, seen := m.pinnedAt[k]; seen && at > t0 {
			// first seen only after this Select: the iterator may hold any version since the Select
			for _, vi := range m.bk.window(k, t0, i) {
				in := false
				for _, x := range back {
					in = in || x == vi
				}
				if !in {
					back = append(append([]int{}, back...), vi)
				}
			}
		}
	}
	return
}

func (m *mmodel) couldBeAbsent(k bkey, t0, i int) bool {
	exec, back := m.scanStates(k, t0, i)
	for _, s := range exec {
		if !s.live {
			return true
		}
	}
	tl := m.bk.timeline(k)
	for _, vi := range back {
		if tl[vi].e.Kind != bkLive {
			return true
		}
	}
	return false
}

// otherVersionHas: some version of k outside the candidates is live with value v
func (m *mmodel) otherVersionHas(k bkey, v []byte) (string, bool) {
	for _, ver := range m.bk.timeline(k) {
		if ver.e.Kind == bkLive && bytes.Equal(ver.e.Val, v) {
			return entryText(ver.e), true
		}
	}
	return "", false
}

func (m *mmodel) candText(k bkey) string {
	tl := m.bk.timeline(k)
	s := ""
	for _, vi := range m.cand[k] {
		if s != "" {
			s += " or "
		}
		s += entryText(tl[vi].e)
	}
	return s
}

func (m *mmodel) step(i int, op Op, obs *Obs) *problem {
	m.now = i
	if obs.Panic != "" {
		return &problem{"sandbox|panic|moving-state", fmt.Sprintf("op %d %s panicked: %s", i, op, obs.Panic)}
	}
	switch op.Kind {
	case opGet:
		m.f.reads++
		k := bkey{op.B, op.Key}
		if op.B == transientBucket {
			m.f.transientRead = true
		}
		if ov := m.ov[k]; ov != nil {
			if !ov.del != obs.Present || (!ov.del && !bytes.Equal(ov.val, obs.Val)) {
				return &problem{"sandbox|get-wrong-answer|key-written-in-this-execution", fmt.Sprintf("op %d %s: sandbox says present=%v %q err=%q, the latest write of this execution says present=%v %q",
					i, op, obs.Present, obs.Val, obs.Err, !ov.del, ov.val)}
			}
			return nil
		}
		tl := m.bk.timeline(k)
		var ok []int
		for _, vi := range m.backCands(k, i) {
			e := tl[vi].e
			if (e.Kind == bkLive) == obs.Present && (!obs.Present || bytes.Equal(e.Val, obs.Val)) {
				ok = append(ok, vi)
			}
		}
		if len(ok) == 0 {
			if m.cand[k] != nil {
				return &problem{"sandbox|moving-state|non-repeatable-read|get-after-read", fmt.Sprintf("op %d %s: sandbox says present=%v %q err=%q, but this execution first saw the key at op %d as %s (backing now: %s)",
					i, op, obs.Present, obs.Val, obs.Err, m.pinnedAt[k], m.candText(k), entryText(m.bk.cur[k]))}
			}
			return &problem{"sandbox|get-wrong-answer|key-from-backing-state", fmt.Sprintf("op %d %s: sandbox says present=%v %q err=%q, the backing has %s",
				i, op, obs.Present, obs.Val, obs.Err, entryText(m.bk.cur[k]))}
		}
		m.pin(k, ok, i, "get")
		m.needRead[k] = "get"
	case opPut, opDel:
		if op.Kind == opPut {
			m.f.writes++
		} else {
			m.f.dels++
		}
		k := bkey{op.B, op.Key}
		if op.B == transientBucket {
			m.f.transientWrite = true
		}
		for _, it := range m.iters {
			if it != nil && !it.done && it.b == op.B {
				m.f.writeWhileOpen = true
			}
		}
		if obs.Err != "" {
			return &problem{"sandbox|write-refused", fmt.Sprintf("op %d %s returned error %q", i, op, obs.Err)}
		}
		if op.B != transientBucket && m.cand[k] == nil {
			// the forced read of a write: the key enters the read set now, no answer narrows the version
			m.pin(k, m.backCands(k, i), i, "")
		}
		if op.Kind == opPut {
			m.write(k, false, op.val())
		} else {
			m.write(k, true, nil)
		}
	case opScan, opOpen:
		m.f.scans++
		if op.LoNil {
			m.f.nilLo = true
		}
		if op.HiNil {
			m.f.nilHi = true
		}
		if (!op.LoNil && op.Lo == "") || (!op.HiNil && op.Hi == "") {
			m.f.emptyBound = true
		}
		slot := op.Slot
		if op.Kind == opScan {
			slot = 2
		}
		deg := degenerate(op.Lo, op.Hi, op.HiNil)
		if deg {
			m.f.inverted = true
		}
		if obs.Err != "" {
			m.iters[slot] = nil
			if deg {
				return nil
			}
			return &problem{"sandbox|select-refused-valid-range", fmt.Sprintf("op %d %s returned error %q", i, op, obs.Err)}
		}
		it := &itState{b: op.B, lo: op.Lo, hi: op.Hi, hiNil: op.HiNil, open: i}
		m.iters[slot] = it
		if !deg {
			for _, ks := range m.keysOf(op.B) {
				if !rangeHas(ks, it.lo, it.hi, it.hiNil) {
					continue
				}
				k := bkey{op.B, ks}
				if _, ok := m.cover[k]; !ok {
					m.cover[k] = i
				}
				if _, yes := m.absentNowLive[k]; yes && m.bk.cur[k].Kind == bkLive {
					m.cnt["moving.select-covers-looked-up-absent-key-the-backing-has-since-created"]++
				}
				if c := m.cand[k]; c != nil && m.ov[k] == nil {
					if tl := m.bk.timeline(k); c[len(c)-1] < len(tl)-1 {
						// THE mechanism of this part: a scan covers a key whose backing version has been replaced since the execution read it
						m.cnt["moving.select-covers-key-moved-after-it-was-read"]++
					}
				}
			}
			m.ranges = append(m.ranges, rng{op.B, op.Lo, op.Hi, op.HiNil})
		}
		if op.Kind == opScan {
			if op.N >= 0 {
				m.f.earlyStop = true
			}
			p := m.judgeItems(i, op, it, obs)
			m.iters[slot] = nil
			return p
		}
		if m.iters[0] != nil && m.iters[1] != nil && !m.iters[0].done && !m.iters[1].done {
			m.f.twoIters = true
		}
	case opNext:
		it := m.iters[op.Slot]
		if it == nil {
			return nil
		}
		return m.judgeItems(i, op, it, obs)
	case opClose:
		m.iters[op.Slot] = nil
	case opFlush:
		if obs.Err != "" {
			return &problem{"sandbox|flush-error", fmt.Sprintf("op %d flush returned %q", i, obs.Err)}
		}
	case opRWSet:
		m.f.midRWSet = true
		return m.judgeRWSet(obs.RW, fmt.Sprintf("RWSet() taken after op %d", i))
	}
	return nil
}

func (m *mmodel) judgeItems(i int, op Op, it *itState, obs *Obs) *problem {
	if obs.IterErr != "" {
		return &problem{"sandbox|iterator-error", fmt.Sprintf("op %d %s: iterator error %q", i, op, obs.IterErr)}
	}
	ctx := func() string {
		return fmt.Sprintf("op %d %s over %s[%s,%s) opened at op %d yielded %s", i, op, it.b, bnd(it.lo, false), bnd(it.hi, it.hiNil), it.open, obs.brief())
	}
	keys := m.keysOf(it.b)
	missing := func(after string, hasAfter bool, before string, hasBefore bool) (string, bool) {
		for _, k := range keys {
			if hasAfter && k <= after {
				continue
			}
			if hasBefore && k >= before {
				break
			}
			if !rangeHas(k, it.lo, it.hi, it.hiNil) {
				continue
			}
			if !m.couldBeAbsent(bkey{it.b, k}, it.open, i) {
				return k, true
			}
		}
		return "", false
	}
	defer func(hadLast bool, last string) {
		// coverage: the iterator went past (yielded or skipped) a key that was moved after its Select
		for k, t := range m.aheadMoved {
			if k.b != it.b || t <= it.open || !rangeHas(k.k, it.lo, it.hi, it.hiNil) || (hadLast && k.k <= last) {
				continue
			}
			if it.done || (it.hasLast && k.k <= it.last) {
				m.cnt["moving.open-iterator-passes-key-moved-since-its-select"]++
			}
		}
	}(it.hasLast, it.last)
	for _, item := range obs.Items {
		k := bkey{it.b, item.K}
		if it.done {
			return &problem{"sandbox|scan-continues-after-end", ctx()}
		}
		if it.hasLast && item.K <= it.last {
			return &problem{"sandbox|scan-out-of-order", ctx() + fmt.Sprintf(": %q after %q", item.K, it.last)}
		}
		if degenerate(it.lo, it.hi, it.hiNil) || !rangeHas(item.K, it.lo, it.hi, it.hiNil) {
			return &problem{"sandbox|scan-yields-key-outside-range", ctx() + fmt.Sprintf(": key %q", item.K)}
		}
		if mk, bad := missing(it.last, it.hasLast, item.K, true); bad {
			return &problem{"sandbox|scan-misses-live-key", ctx() + fmt.Sprintf(": live key %q was skipped", mk)}
		}
		exec, back := m.scanStates(k, it.open, i)
		matched := false
		for _, s := range exec {
			if s.live && bytes.Equal(s.val, item.V) {
				matched = true
			}
		}
		if !matched {
			tl := m.bk.timeline(k)
			var ok []int
			for _, vi := range back {
				if e := tl[vi].e; e.Kind == bkLive && bytes.Equal(e.Val, item.V) {
					ok = append(ok, vi)
				}
			}
			if len(ok) == 0 {
				if m.cand[k] != nil && len(exec) == 0 {
					if other, yes := m.otherVersionHas(k, item.V); yes {
						return &problem{"sandbox|moving-state|non-repeatable-read|scan-after-read", ctx() + fmt.Sprintf(": key %q is yielded from the backing version %s, but this execution first saw the key at op %d as %s",
							item.K, other, m.pinnedAt[k], m.candText(k))}
					}
				}
				if string(item.V) == delMarker {
					return &problem{"sandbox|scan-yields-non-live-key", ctx() + fmt.Sprintf(": key %q is yielded with the delete marker as value", item.K)}
				}
				live := false
				for _, s := range exec {
					live = live || s.live
				}
				for _, vi := range back {
					live = live || tl[vi].e.Kind == bkLive
				}
				if live {
					return &problem{"sandbox|scan-wrong-value", ctx() + fmt.Sprintf(": key %q yielded with %q; backing now %s, seen by this execution as: %s", item.K, item.V, entryText(m.bk.cur[k]), m.candText(k))}
				}
				return &problem{"sandbox|scan-yields-non-live-key", ctx() + fmt.Sprintf(": key %q (value %q) is not live; backing now %s, seen by this execution as: %s", item.K, item.V, entryText(m.bk.cur[k]), m.candText(k))}
			}
			if c := m.cand[k]; c != nil { // (an iterator opened before the key was first seen may serve another version: it does not re-pin)
				var both []int
				for _, vi := range ok {
					for _, x := range c {
						if x == vi {
							both = append(both, vi)
						}
					}
				}
				ok = both
			}
			if len(ok) > 0 {
				m.pin(k, ok, i, "scan-item")
			}
			if _, has := m.needRead[k]; !has || m.ov[k] == nil {
				m.needRead[k] = "scan item"
			}
		}
		it.hasLast, it.last = true, item.K
		it.items++
	}
	if obs.End {
		if degenerate(it.lo, it.hi, it.hiNil) {
			it.done = true
			return nil
		}
		if mk, bad := missing(it.last, it.hasLast, "", false); bad && !it.done {
			return &problem{"sandbox|scan-misses-live-key", ctx() + fmt.Sprintf(": iterator ended but live key %q was not yielded", mk)}
		}
		it.done = true
	}
	return nil
}

// versionIndex: which version of the key's timeline a read-set entry names (-1: none)
func (m *mmodel) versionIndex(k bkey, vd *ledger.VersionedData) int {
	for i, ver := range m.bk.timeline(k) {
		want := vdOf(k.b, k.k, ver.e)
		if bytes.Equal(vd.RefTxid, want.RefTxid) && vd.RefOffset == want.RefOffset && bytes.Equal(vd.PureData.Value, want.PureData.Value) {
			return i
		}
	}
	return -1
}

func (m *mmodel) judgeRWSet(rw *contract.RWSet, when string) *problem {
	if rw == nil {
		return &problem{"sandbox|rwset-nil", when}
	}
	rset := map[bkey]bool{}
	for _, vd := range rw.RSet {
		if vd == nil || vd.PureData == nil {
			return &problem{"sandbox|read-set-malformed-entry", when}
		}
		k := bkey{vd.PureData.Bucket, string(vd.PureData.Key)}
		if rset[k] {
			return &problem{"sandbox|read-set-duplicate-key", fmt.Sprintf("%s: %s/%q twice", when, k.b, k.k)}
		}
		rset[k] = true
		vi := m.versionIndex(k, vd)
		if vi < 0 {
			return &problem{"sandbox|read-set-wrong-version", fmt.Sprintf("%s: %s/%q recorded with version %s_%d value %q, which the key never had (backing now: %s)",
				when, k.b, k.k, vd.RefTxid, vd.RefOffset, vd.PureData.Value, entryText(m.bk.cur[k]))}
		}
		tl := m.bk.timeline(k)
		if c := m.cand[k]; c != nil {
			in := false
			for _, x := range c {
				in = in || x == vi
			}
			if !in {
				return &problem{sigOtherVersion, fmt.Sprintf("%s: %s/%q is recorded as %s, but the answers of this execution about the key (first at op %d) came from %s",
					when, k.b, k.k, entryText(tl[vi].e), m.pinnedAt[k], m.candText(k))}
			}
		} else {
			// a look-ahead element: any version since the first scan that covered the key
			lo := 0
			if c, ok := m.cover[k]; ok {
				lo = c
			}
			in := false
			for _, x := range m.bk.window(k, lo, m.now) {
				in = in || x == vi
			}
			if !in {
				return &problem{"sandbox|moving-state|read-set-names-version-older-than-any-call", fmt.Sprintf("%s: %s/%q is recorded as %s, which was replaced before the first call that could have read the key",
					when, k.b, k.k, entryText(tl[vi].e))}
			}
		}
		if vi < len(tl)-1 {
			m.cnt["moving.rset-entries-at-a-replaced-version"]++
		}
	}
	need := make([]bkey, 0, len(m.needRead))
	for k := range m.needRead {
		need = append(need, k)
	}
	sort.Slice(need, func(a, b int) bool {
		if need[a].b != need[b].b {
			return need[a].b < need[b].b
		}
		return need[a].k < need[b].k
	})
	for _, k := range need {
		if !rset[k] {
			why := m.needRead[k]
			sig := "sandbox|read-set-misses-key|" + map[string]string{"get": "read-by-get", "scan item": "yielded-by-scan", "written": "written-key"}[why]
			return &problem{sig, fmt.Sprintf("%s: %s/%q (%s) is not in the read set %s", when, k.b, k.k, why, rsetText(rw))}
		}
	}
	wset := map[bkey][]byte{}
	for _, pd := range rw.WSet {
		if pd == nil {
			return &problem{"sandbox|write-set-malformed-entry", when}
		}
		k := bkey{pd.Bucket, string(pd.Key)}
		if _, dup := wset[k]; dup {
			return &problem{"sandbox|write-set-duplicate-key", fmt.Sprintf("%s: %s/%q twice", when, k.b, k.k)}
		}
		wset[k] = pd.Value
		ov := m.ov[k]
		if ov == nil {
			return &problem{"sandbox|write-set-has-unwritten-key", fmt.Sprintf("%s: %s/%q = %q was never written", when, k.b, k.k, pd.Value)}
		}
		want := ov.val
		if ov.del {
			want = []byte(delMarker)
		}
		if !bytes.Equal(want, pd.Value) {
			return &problem{"sandbox|write-set-wrong-final-value", fmt.Sprintf("%s: %s/%q = %q, final value written was %q", when, k.b, k.k, pd.Value, want)}
		}
		if k.b != transientBucket && !rset[k] {
			return &problem{"sandbox|write-set-key-not-in-read-set", fmt.Sprintf("%s: %s/%q written but not read", when, k.b, k.k)}
		}
	}
	for k := range m.ov {
		if _, ok := wset[k]; !ok {
			return &problem{"sandbox|write-set-misses-written-key", fmt.Sprintf("%s: %s/%q was written but is not in the write set", when, k.b, k.k)}
		}
	}
	return nil
}

// ---------------------------------------------------------------------------------------
// moves
// ---------------------------------------------------------------------------------------

// movHazard classifies a move by the structural precondition that makes it delicate:
//
//	looked-up-absent-key-becomes-live: the execution looked a key up and found it absent; the
//	    backing creates it; a later Select lists it. JUDGED: the key must stay absent for this
//	    execution (before 7b4c0ba the scan yielded it while the read set said absent).
//	key-ahead-of-open-iterator: the backing changes a key that an open iterator has not reached
//	    yet and the execution had not seen before the Select. JUDGED: the read set must name the
//	    version the scan serves (before 7b4c0ba the scan served the snapshot's value and the read
//	    set got the version current when the element was fetched).
//	scanned-absent-key-becomes-live: a Select of the execution covered the key while it was absent
//	    or before it was reached (absence from a scan is not in the read set - a phantom, see the
//	    assumptions); the backing creates it and the execution reads it afterwards: the replay's
//	    first scan yields it. No key/version read set can keep the replay clause here: made only in
//	    the counting probe.
//	unseen-key-held-live-by-open-iterator-becomes-absent: the mirror image: the backing deletes a
//	    key the execution has not seen while an open iterator, which has not reached it, still holds
//	    it as live in its snapshot; a second Select then shows its absence (not in the read set), the
//	    older iterator later serves and records it as live: the replay's second scan yields it. Same
//	    class (the absence shown by a scan cannot be recorded): counting probe only.
//
// "" = none of these.
func (m *mmodel) movHazard(k bkey, becomesLive, becomesAbsent bool) string {
	if c := m.cand[k]; c != nil && becomesLive {
		tl := m.bk.timeline(k)
		for _, vi := range c {
			if tl[vi].e.Kind != bkLive {
				return "looked-up-absent-key-becomes-live"
			}
		}
	} else if _, scanned := m.cover[k]; c == nil && becomesLive && scanned {
		return hazardPhantom
	}
	for s := 0; s < 2; s++ {
		it := m.iters[s]
		if it == nil || it.done || it.b != k.b || degenerate(it.lo, it.hi, it.hiNil) || !rangeHas(k.k, it.lo, it.hi, it.hiNil) {
			continue
		}
		if it.hasLast && k.k <= it.last {
			continue // the iterator is past it
		}
		if at, seen := m.pinnedAt[k]; seen && at < it.open {
			continue // in the read cache before the Select: the cached version is served and kept
		}
		if becomesAbsent && m.cand[k] == nil {
			return hazardVanish
		}
		return "key-ahead-of-open-iterator"
	}
	return ""
}

// planMoves changes the backing before op i. probe = make phantom moves too (and taint the execution).
func (m *mmodel) planMoves(rg *rand.Rand, i int, probe bool, seq *int) []string {
	if rg.Intn(100) >= 40 {
		return nil
	}
	var lines []string
	for n := 1 + rg.Intn(2); n > 0; n-- {
		b := pick(rg, m.u.Buckets)
		keys := m.u.Keys[b]
		if rg.Intn(10) < 6 { // prefer keys the execution has seen
			var seen []string
			for _, k := range keys {
				if m.cand[bkey{b, k}] != nil {
					seen = append(seen, k)
				}
			}
			if len(seen) > 0 {
				keys = seen
			}
		}
		k := bkey{b, pick(rg, keys)}
		cur := m.bk.cur[k]
		*seq++
		e := bkEntry{Txid: []byte(fmt.Sprintf("mv%03d", *seq)), Off: int32(rg.Intn(3))}
		kind := ""
		x := rg.Intn(10)
		switch {
		case cur.Kind == bkLive && x < 6:
			e.Kind, e.Val, kind = bkLive, []byte(fmt.Sprintf("m%d", *seq)), "overwrite-live-key"
		case cur.Kind == bkLive:
			e.Kind, kind = bkDeleted, "delete-live-key"
		case cur.Kind == bkDeleted && x < 6:
			e.Kind, e.Val, kind = bkLive, []byte(fmt.Sprintf("m%d", *seq)), "re-create-deleted-key"
		case cur.Kind == bkDeleted:
			e.Kind, kind = bkDeleted, "delete-deleted-key-again"
		case x < 6:
			e.Kind, e.Val, kind = bkLive, []byte(fmt.Sprintf("m%d", *seq)), "create-never-written-key"
		default:
			e.Kind, kind = bkDeleted, "delete-never-written-key"
		}
		switch hz := m.movHazard(k, cur.Kind != bkLive && e.Kind == bkLive, cur.Kind == bkLive && e.Kind != bkLive); hz {
		case "":
		case hazardPhantom, hazardVanish:
			if !probe {
				m.cnt["moving.moves-not-made."+hz]++
				continue
			}
			if m.taint == "" {
				m.taint = hz
			}
			m.cnt["moving-probe.hazard-moves."+hz]++
		case "key-ahead-of-open-iterator":
			m.cnt["moving.moves."+hz]++
			m.aheadMoved[k] = i
		default:
			m.cnt["moving.moves."+hz]++
			m.absentNowLive[k] = i
		}
		m.cnt["moving.moves"]++
		m.cnt["moving.moves."+kind]++
		if m.cand[k] != nil {
			m.cnt["moving.moves-of-a-key-the-execution-has-seen"]++
			if m.ov[k] != nil {
				m.cnt["moving.moves-of-a-key-the-execution-has-written"]++
			}
		} else {
			m.cnt["moving.moves-of-a-key-not-yet-seen"]++
		}
		m.bk.apply(k, e, i)
		lines = append(lines, fmt.Sprintf("   BACKING MOVES before op %d: %s/%q := %s  (%s)", i, k.b, k.k, entryText(e), kind))
	}
	return lines
}

// stripForMoving drops the token / event ops (they do not touch the key space)
func stripForMoving(p []Op) []Op {
	var out []Op
	for _, o := range p {
		if o.Kind != opTransfer && o.Kind != opEvent {
			out = append(out, o)
		}
	}
	if len(out) == 0 {
		out = append(out, Op{Kind: opFlush})
	}
	return out
}

// runMoving: one execution over a moving backing; lock-step oracle, read/write set audit, replay.
func runMoving(mvSeed int64, u *universe, d *backingDesc, strict bool, prog []Op, probe bool) *caseResult {
	res := &caseResult{extra: map[string]int{}}
	rg := rand.New(rand.NewSource(mvSeed))
	bk := newMovBacking(d, strict)
	m := newMModel(bk, u)
	ex := newExecutor(bk, newFakeUtxo())
	full := append(append([]Op{}, prog...), Op{Kind: opFlush})
	seq := 0
	finish := func(p *problem) *caseResult {
		res.prob = p
		res.f = m.f
		for k, v := range m.cnt {
			res.extra[k] = v
		}
		if m.taint != "" {
			res.taint = m.taint
		}
		return res
	}
	for i, op := range full {
		if i > 0 {
			for _, ln := range m.planMoves(rg, i, probe, &seq) {
				res.lines = append(res.lines, ln)
				res.ansLines = append(res.ansLines, ln)
			}
		}
		obs := ex.do(op)
		res.obs = append(res.obs, obs)
		res.lines = append(res.lines, op.String())
		res.ansLines = append(res.ansLines, op.String()+"  =>  "+obs.brief())
		if p := m.step(i, op, obs); p != nil {
			ex.closeAll()
			return finish(p)
		}
		switch op.Kind {
		case opGet:
			res.observed++
			if m.ov[bkey{op.B, op.Key}] == nil {
				res.fromBk++
			}
		case opScan, opNext:
			res.observed += len(obs.Items)
			res.scanItems += len(obs.Items)
			if obs.End {
				res.observed++
			}
		}
	}
	ex.closeAll()
	m.now = len(full)
	var rw *contract.RWSet
	var ut *contract.UTXORWSet
	if p := guard(func() { rw = ex.sb.RWSet(); ut = ex.sb.UTXORWSet() }); p != "" {
		return finish(&problem{"sandbox|panic|rwset", p})
	}
	if p := m.judgeRWSet(rw, "final RWSet()"); p != nil {
		if p.Sig == sigOtherVersion {
			// say what the wrong version does to verification: the replay over this read set
			rr := replayCheck(&caseResult{obs: res.obs}, full, rw, ut, map[string]bool{}, false)
			if rr.prob != nil {
				p.Detail += "; REPLAY over this read set: [" + rr.prob.Sig + "] " + rr.prob.Detail
			} else {
				p.Detail += "; (the replay over this read set happens to reproduce the results)"
			}
		}
		return finish(p)
	}
	for _, vd := range rw.RSet {
		if _, ok := m.needRead[bkey{vd.PureData.Bucket, string(vd.PureData.Key)}]; !ok {
			res.lookahead++
		}
	}
	res.rsetSize, res.wsetSize = len(rw.RSet), len(rw.WSet)
	finish(nil)
	replayCheck(res, full, rw, ut, map[string]bool{}, false)
	if res.prob != nil && res.prob.Sig != "" {
		res.prob.Detail += " [moving backing state: see the BACKING MOVES lines of the program]"
	}
	return res
}
