package main

import (
	"bytes"
	"errors"
	"fmt"
	"math/big"
	"math/rand"
	"sort"
	"strings"
	"sync/atomic"

	"github.com/xuperchain/xupercore/kernel/ledger"
	"github.com/xuperchain/xupercore/protos"

	sn "verif/simnode"
)

const delMarker = "\x00"

// ---------------------------------------------------------------------------------------
// what the oracle knows about a backing state
// ---------------------------------------------------------------------------------------

type bkKind int

const (
	bkNever bkKind = iota
	bkLive
	bkDeleted
)

type bkEntry struct {
	Kind bkKind
	Val  []byte // value of a live key (may be empty)
	Txid []byte // version: writing transaction ...
	Off  int32  // ... and output offset
}

type backingDesc struct {
	ID   string
	Real bool
	M    map[string]map[string]bkEntry // bucket -> key -> entry; never-written keys are absent
}

func (d *backingDesc) get(b, k string) bkEntry {
	if m := d.M[b]; m != nil {
		return m[k] // zero value = bkNever
	}
	return bkEntry{}
}

func (d *backingDesc) set(b, k string, e bkEntry) {
	if d.M[b] == nil {
		d.M[b] = map[string]bkEntry{}
	}
	d.M[b][k] = e
}

func (d *backingDesc) describe() map[string]string {
	out := map[string]string{}
	for b, m := range d.M {
		for k, e := range m {
			s := "never"
			switch e.Kind {
			case bkLive:
				s = fmt.Sprintf("live %q @%s_%d", e.Val, e.Txid, e.Off)
			case bkDeleted:
				s = fmt.Sprintf("deleted @%s_%d", e.Txid, e.Off)
			}
			if d.Real && e.Kind != bkNever {
				s = fmt.Sprintf("%s (txid %x..)", s[:bytes.IndexByte([]byte(s), '@')], e.Txid[:4])
			}
			out[fmt.Sprintf("%s/%q", b, k)] = s
		}
	}
	return out
}

func (d *backingDesc) liveKeys(b string) []string {
	var out []string
	for k, e := range d.M[b] {
		if e.Kind == bkLive {
			out = append(out, k)
		}
	}
	sort.Strings(out)
	return out
}

// ---------------------------------------------------------------------------------------
// backing (a): a versioned in-memory ledger.XMReader with xmodel's conventions:
//   never-written key  -> VersionedData with nil RefTxid / offset 0 / nil value
//   deleted key        -> the deleting version, value = delete marker; NOT listed by Select
//   Select             -> live keys of [start, end) in key order; nil / empty start = from the
//                         first key; nil end = up to the end of the bucket (the convention the
//                         sandbox documents for its own caches)
// Every call returns fresh objects, so nothing a sandbox does can leak into another case.
// ---------------------------------------------------------------------------------------

type memReader struct {
	d       *backingDesc
	strict  bool // inverted range: true = error (like MemXModel), false = empty iterator (like the real xmodel)
	gets    int64
	selects int64
	yielded int64
}

func (m *memReader) Get(bucket string, key []byte) (*ledger.VersionedData, error) {
	atomic.AddInt64(&m.gets, 1)
	e := m.d.get(bucket, string(key))
	return vdOf(bucket, string(key), e), nil
}

func vdOf(bucket, key string, e bkEntry) *ledger.VersionedData {
	vd := &ledger.VersionedData{PureData: &ledger.PureData{Bucket: bucket, Key: []byte(key)}}
	switch e.Kind {
	case bkLive:
		vd.RefTxid = append([]byte{}, e.Txid...)
		vd.RefOffset = e.Off
		vd.PureData.Value = append([]byte{}, e.Val...)
	case bkDeleted:
		vd.RefTxid = append([]byte{}, e.Txid...)
		vd.RefOffset = e.Off
		vd.PureData.Value = []byte(delMarker)
	}
	return vd
}

func (m *memReader) Select(bucket string, start, end []byte) (ledger.XMIterator, error) {
	atomic.AddInt64(&m.selects, 1)
	if end != nil && bytes.Compare(start, end) > 0 {
		if m.strict {
			return nil, errors.New("bad select range")
		}
		return &memIter{m: m, bucket: bucket}, nil
	}
	var keys []string
	for _, k := range m.d.liveKeys(bucket) {
		if bytes.Compare([]byte(k), start) >= 0 && (end == nil || bytes.Compare([]byte(k), end) < 0) {
			keys = append(keys, k)
		}
	}
	return &memIter{m: m, bucket: bucket, keys: keys}, nil
}

type memIter struct {
	m      *memReader
	bucket string
	keys   []string
	pos    int // number of Next calls that returned true
	cur    *ledger.VersionedData
	closed bool
}

func (it *memIter) Next() bool {
	if it.closed || it.pos >= len(it.keys) {
		it.cur = nil
		return false
	}
	k := it.keys[it.pos]
	it.pos++
	it.cur = vdOf(it.bucket, k, it.m.d.get(it.bucket, k))
	atomic.AddInt64(&it.m.yielded, 1)
	return true
}
func (it *memIter) Key() []byte {
	if it.cur == nil {
		return nil
	}
	return it.cur.PureData.Key
}
func (it *memIter) Value() *ledger.VersionedData { return it.cur }
func (it *memIter) Error() error                 { return nil }
func (it *memIter) Close()                       { it.closed = true; it.cur = nil }

// ---------------------------------------------------------------------------------------
// token side: a static utxo reader (first-fit in pool order, like UtxoVM.SelectUtxos)
// ---------------------------------------------------------------------------------------

var utxoPools = map[string][]int64{"A": {50, 40, 5}, "B": {100}, "C": {}}

type fakeUtxo struct {
	next map[string]int
}

func newFakeUtxo() *fakeUtxo { return &fakeUtxo{next: map[string]int{}} }

func utxoInput(from string, idx int) *protos.TxInput {
	return &protos.TxInput{RefTxid: []byte("utxo-" + from), RefOffset: int32(idx), FromAddr: []byte(from),
		Amount: big.NewInt(utxoPools[from][idx]).Bytes()}
}

func (f *fakeUtxo) SelectUtxo(from string, amount *big.Int, lock bool, excludeUnconfirmed bool) ([]*protos.TxInput, [][]byte, *big.Int, error) {
	pool := utxoPools[from]
	sum := new(big.Int)
	var ins []*protos.TxInput
	i := f.next[from]
	for ; i < len(pool) && sum.Cmp(amount) < 0; i++ {
		ins = append(ins, utxoInput(from, i))
		sum.Add(sum, big.NewInt(pool[i]))
	}
	if sum.Cmp(amount) < 0 {
		return nil, nil, nil, errors.New("not enough utxo")
	}
	f.next[from] = i
	return ins, nil, sum, nil
}

// ---------------------------------------------------------------------------------------
// random backing states for (a)
// ---------------------------------------------------------------------------------------

func genUniverse(rng *rand.Rand) *universe {
	u := &universe{Keys: map[string][]string{}}
	nb := 1 + rng.Intn(3)
	perm := rng.Perm(len(bucketPool))
	for i := 0; i < nb; i++ {
		u.Buckets = append(u.Buckets, bucketPool[perm[i]])
	}
	sort.Strings(u.Buckets)
	for _, b := range u.Buckets {
		nk := 3 + rng.Intn(4)
		kp := rng.Perm(len(keyPool) - 1)
		for i := 0; i < nk; i++ {
			u.Keys[b] = append(u.Keys[b], keyPool[kp[i]])
		}
		if rng.Intn(20) == 0 {
			u.Keys[b] = append(u.Keys[b], "") // the empty key (last of keyPool), rarely
		}
		sort.Strings(u.Keys[b])
	}
	return u
}

func genMemBacking(rng *rand.Rand, u *universe, id string) *backingDesc {
	d := &backingDesc{ID: id, M: map[string]map[string]bkEntry{}}
	ver := 0
	for _, b := range u.Buckets {
		for _, k := range u.Keys[b] {
			ver++
			tx := []byte(fmt.Sprintf("tx%02d", ver))
			switch x := rng.Intn(10); {
			case x < 5: // (no live key with an empty value: xmodel refuses transactions that write one)
				d.set(b, k, bkEntry{Kind: bkLive, Val: []byte(fmt.Sprintf("s%d", ver)), Txid: tx, Off: int32(rng.Intn(3))})
			case x < 8:
				d.set(b, k, bkEntry{Kind: bkDeleted, Txid: tx, Off: int32(rng.Intn(3))})
			}
		}
	}
	return d
}

// ---------------------------------------------------------------------------------------
// backing (b): the real xmodel of a simnode node after a few committed $verif transactions
// ---------------------------------------------------------------------------------------

type realBacking struct {
	node   *sn.Node
	desc   *backingDesc
	u      *universe
	reader ledger.XMReader
	txs    int
	blocks int
	// how the keys got their present state
	recreated, overwritten, deletedLive, deletedNever int
}

// buildReal creates a node, commits rounds of put / delete programs (some confirmed in
// blocks, the last round possibly left pending) and derives the oracle's view from the
// committed transactions themselves: version of a key = (txid, index in TxOutputsExt) of
// the last transaction that wrote it. The view is cross-checked against reader.Get.
func buildReal(rng *rand.Rand, id string) (*realBacking, error) {
	n, err := sn.NewNode(sn.DefaultConfig())
	if err != nil {
		return nil, err
	}
	u := &universe{Keys: map[string][]string{}}
	u.Buckets = append([]string{}, bucketPool...)
	for _, b := range u.Buckets {
		nk := 5 + rng.Intn(4)
		kp := rng.Perm(len(keyPool) - 1) // (not the empty key)
		for i := 0; i < nk; i++ {
			u.Keys[b] = append(u.Keys[b], keyPool[kp[i]])
		}
		sort.Strings(u.Keys[b])
	}
	rb := &realBacking{node: n, u: u, desc: &backingDesc{ID: id, Real: true, M: map[string]map[string]bkEntry{}}}
	seq := 0
	commit := func(p *sn.ProgBuilder) error {
		seq++
		who := sn.K(1 + seq%3)
		res, err := n.PreExec([]*protos.InvokeRequest{sn.VerifReq(sn.VerifContract, p.String())}, who.Address, []string{who.Address})
		if err != nil {
			return fmt.Errorf("setup preexec: %v", err)
		}
		tx, err := sn.BuildTx(sn.TxSpec{Initiator: who.Address, Signers: []*sn.Key{who}, InExt: res.Inputs, OutExt: res.Outputs,
			Requests: res.Requests, Nonce: fmt.Sprintf("c10-%d", seq), Timestamp: int64(seq)})
		if err != nil {
			return err
		}
		ok, err := n.State.VerifyTx(tx)
		if !ok || err != nil {
			return fmt.Errorf("setup verify: %v %v", ok, err)
		}
		if err := n.State.DoTx(tx); err != nil {
			return fmt.Errorf("setup dotx: %v", err)
		}
		rb.txs++
		for i, o := range tx.TxOutputsExt {
			if o.Bucket == transientBucket {
				continue
			}
			e := bkEntry{Kind: bkLive, Val: append([]byte{}, o.Value...), Txid: append([]byte{}, tx.Txid...), Off: int32(i)}
			prev := rb.desc.get(o.Bucket, string(o.Key)).Kind
			if string(o.Value) == delMarker {
				e.Kind, e.Val = bkDeleted, nil
				if prev == bkLive {
					rb.deletedLive++
				} else if prev == bkNever {
					rb.deletedNever++
				}
			} else if prev == bkDeleted {
				rb.recreated++
			} else if prev == bkLive {
				rb.overwritten++
			}
			rb.desc.set(o.Bucket, string(o.Key), e)
		}
		return nil
	}
	block := func() error {
		b, err := n.PackBlock(sn.K(0), int64(1000+rb.blocks))
		if err != nil {
			return fmt.Errorf("setup pack: %v", err)
		}
		if err := n.ConfirmForMiner(b); err != nil {
			return fmt.Errorf("setup confirm: %v", err)
		}
		rb.blocks++
		return nil
	}
	vs := 0
	rounds := 3 + rng.Intn(2)
	for r := 0; r < rounds; r++ {
		ntx := 1 + rng.Intn(2)
		for t := 0; t < ntx; t++ {
			p := &sn.ProgBuilder{}
			for _, b := range u.Buckets {
				for _, k := range u.Keys[b] {
					cur := rb.desc.get(b, k)
					x := rng.Intn(100)
					switch {
					case r == 0 && x < 65, r > 0 && cur.Kind == bkDeleted && x < 35, r > 0 && cur.Kind == bkLive && x < 20, r > 0 && cur.Kind == bkNever && x < 15:
						vs++
						v := []byte(fmt.Sprintf("s%d", vs)) // (xmodel refuses transactions that write an empty value)
						p.Put(b, []byte(k), v)
					case r > 0 && cur.Kind == bkLive && x < 50, r > 0 && cur.Kind == bkNever && x < 22:
						p.Del(b, []byte(k))
					}
				}
			}
			if p.Len() == 0 {
				continue
			}
			if err := commit(p); err != nil {
				return nil, err
			}
		}
		if r < rounds-1 || rng.Intn(2) == 0 {
			if err := block(); err != nil {
				return nil, err
			}
		}
	}
	rb.reader = n.State.CreateXMReader()
	// cross-check the derived view with the reader (harness assumption, not the property)
	for _, b := range u.Buckets {
		for _, k := range u.Keys[b] {
			vd, err := rb.reader.Get(b, []byte(k))
			if err != nil {
				return nil, fmt.Errorf("setup cross-check get %s/%q: %v", b, k, err)
			}
			e := rb.desc.get(b, k)
			want := vdOf(b, k, e)
			if !bytes.Equal(vd.RefTxid, want.RefTxid) || vd.RefOffset != want.RefOffset || !bytes.Equal(vd.PureData.Value, want.PureData.Value) {
				return nil, fmt.Errorf("setup cross-check %s/%q: reader has %x_%d %q, derived view has %x_%d %q", b, k,
					vd.RefTxid, vd.RefOffset, vd.PureData.Value, want.RefTxid, want.RefOffset, want.PureData.Value)
			}
		}
	}
	return rb, nil
}

// ---------------------------------------------------------------------------------------
// end-to-end cross-check of the driving method: the same program, run as a $verif kernel
// contract through contract.Manager / kernel context / PreExec of the node, must give the
// answers and the read / write set the directly driven sandbox gives. A disagreement means the
// harness does not observe what contracts observe (reported as inconclusive, not a violation).
// ---------------------------------------------------------------------------------------

func encF(b []byte) string {
	if len(b) == 0 {
		return "_"
	}
	return fmt.Sprintf("%x", b)
}

func normBody(s string) string {
	s = strings.ReplaceAll(s, "=-,", "=_,")
	return strings.ReplaceAll(s, ":-;", ":_;")
}

// e2e runs prog (get / put / del / scan only, valid ranges, non-empty values) both ways.
func e2e(rb *realBacking, prog []Op) (ok bool, why string) {
	pb := &sn.ProgBuilder{}
	for _, op := range prog {
		switch op.Kind {
		case opGet:
			pb.Get(op.B, []byte(op.Key))
		case opPut:
			pb.Put(op.B, []byte(op.Key), op.val())
		case opDel:
			pb.Del(op.B, []byte(op.Key))
		case opScan:
			pb.Scan(op.B, op.lo(), op.hi(), op.N)
		}
	}
	who := sn.K(1)
	res, err := rb.node.PreExec([]*protos.InvokeRequest{sn.VerifReq(sn.VerifContract, pb.String())}, who.Address, []string{who.Address})
	if err != nil {
		return false, "PreExec: " + err.Error()
	}
	ex := newExecutor(rb.reader, newFakeUtxo())
	var body strings.Builder
	for _, op := range prog {
		obs := ex.do(op)
		if obs.Panic != "" {
			return false, "direct run panicked: " + obs.Panic
		}
		switch op.Kind {
		case opGet:
			if obs.Err != "" {
				fmt.Fprintf(&body, "get:%s:%s:ERR(%s);", op.B, encF([]byte(op.Key)), obs.Err)
			} else {
				fmt.Fprintf(&body, "get:%s:%s:%s;", op.B, encF([]byte(op.Key)), encF(obs.Val))
			}
		case opScan:
			if obs.Err != "" {
				fmt.Fprintf(&body, "scan:ERR(%s);", obs.Err)
				break
			}
			body.WriteString("scan:")
			for _, it := range obs.Items {
				fmt.Fprintf(&body, "%s=%s,", encF([]byte(it.K)), encF(it.V))
			}
			body.WriteString(";")
		}
	}
	ex.do(Op{Kind: opFlush})
	if got, want := normBody(string(res.Responses[len(res.Responses)-1].Body)), normBody(body.String()); got != want {
		return false, fmt.Sprintf("contract path answered %s, direct path %s for %s", got, want, progText(prog))
	}
	rw := ex.sb.RWSet()
	if len(rw.RSet) != len(res.Inputs) || len(rw.WSet) != len(res.Outputs) {
		return false, fmt.Sprintf("RW set sizes differ: contract path %d/%d, direct %d/%d for %s", len(res.Inputs), len(res.Outputs), len(rw.RSet), len(rw.WSet), progText(prog))
	}
	for i, in := range res.Inputs {
		vd := rw.RSet[i]
		if in.Bucket != vd.PureData.Bucket || !bytes.Equal(in.Key, vd.PureData.Key) || !bytes.Equal(in.RefTxid, vd.RefTxid) || in.RefOffset != vd.RefOffset {
			return false, fmt.Sprintf("read set entry %d differs for %s", i, progText(prog))
		}
	}
	for i, out := range res.Outputs {
		pd := rw.WSet[i]
		if out.Bucket != pd.Bucket || !bytes.Equal(out.Key, pd.Key) || !bytes.Equal(out.Value, pd.Value) {
			return false, fmt.Sprintf("write set entry %d differs for %s", i, progText(prog))
		}
	}
	return true, ""
}

func genE2EProgram(rng *rand.Rand, u *universe) []Op {
	n := 2 + rng.Intn(8)
	var p []Op
	for i := 0; i < n; i++ {
		b := pick(rng, u.Buckets)
		keys := u.Keys[b]
		switch x := rng.Intn(10); {
		case x < 3:
			p = append(p, Op{Kind: opGet, B: b, Key: pick(rng, keys)})
		case x < 5:
			p = append(p, Op{Kind: opPut, B: b, Key: pick(rng, keys), Val: fmt.Sprintf("w%d", i)})
		case x < 7:
			p = append(p, Op{Kind: opDel, B: b, Key: pick(rng, keys)})
		default:
			op := Op{Kind: opScan, B: b, N: -1}
			op.Lo, op.LoNil = genBound(rng, keys, false, true)
			op.Hi, op.HiNil = genBound(rng, keys, true, false)
			if op.Lo > op.Hi {
				op.Lo, op.Hi = op.Hi, op.Lo
			}
			if rng.Intn(3) == 0 {
				op.N = rng.Intn(3)
			}
			p = append(p, op)
		}
	}
	return p
}
