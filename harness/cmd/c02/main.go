// C02: token conservation.
package main

import (
	"math/rand"

	"verif/ev"
	"verif/gen"
	"verif/hist"
	sn "verif/simnode"
)

func main() {
	r := ev.Start("C02", "exploration",
		"random block trees x random op sequences (as C01) with hostile transaction attempts interleaved (duplicate input, cited amount != real, sums differ both ways, "+
			"coinbase flag via DoTx, coinbase with inputs, missing input, wrong owner, Marked flag, frozen input, same input twice, leading-zero encodings); after every op the raw UTXO table, "+
			"reported total, balances and pending fees are compared with a statement-level UTXO model of chain(tip)+pool; a case = one history; non-trivial = it contained an undo and a hostile attempt")
	defer sn.CleanupScratch()
	nh := r.N(200, 5000)
	o := gen.DefaultOpts()
	so := hist.StepOpts{Reopen: true, Pool: true, Mine: true, Engine: true}
	hist.RunHistoriesX(r, nh, o, so, 10, 40, []hist.Auditor{hist.ModelAuditor}, func(s *hist.SUT, op hist.Op) []hist.Problem {
		return hist.MustSucceed(op)
	}, func(s *hist.SUT, rng *rand.Rand) []hist.Problem {
		// now and then a peer's block that the state machine must refuse (junk transaction, or a
		// conflict with the pool + a bad signature): a state after a refusal is a reachable state
		if rng.Intn(12) == 0 {
			if op, _ := s.FailPlay(rng); op.Kind != "" {
				return hist.ModelAuditor(s, hist.Op{})
			}
			return nil
		}
		// one time in four: a hostile attempt instead of a normal step
		if rng.Intn(4) != 0 {
			return nil
		}
		cl := hist.HostileClasses[rng.Intn(len(hist.HostileClasses))]
		xs := s.Hostile(rng, cl)
		if xs == nil {
			return nil
		}
		_, ps := s.Attempt(xs, cl, "sound")
		if len(ps) == 0 {
			ps = hist.ModelAuditor(s, hist.Op{})
		}
		return ps
	})
	r.Floor("model.compared", 1000)
	r.Floor("walk.undo", 20)
	r.Floor("attempt.admitted", 20)
	r.Floor("attempt.refused", 50)
	for _, cl := range []string{"dup-input", "cite-more", "out-more", "out-less", "coinbase-flag", "missing-input", "marked-out-more", "same-input-two-txs", "leading-zero-out"} {
		r.Floor("attempt."+cl, 5)
	}
	r.Floor("txkind.big", 10)
	r.Floor("txkind.fee", 20)
	r.Floor("txkind.zero", 10)
	r.Assume("amounts are compared as big integers; the model knows nothing about signatures (C07) and contract re-execution (C09)")
	r.Finish()
}
