package main

// The enumerated boxes of part A.

import (
	"fmt"
	"sort"
)

var weightVals = []int64{0, 300, 500, 1000}
var acceptVals = []int64{500, 1000, 1500}

// rules given to the nested account B (k = key ids, a = id of A)
func bRules(u *Universe) []*MRule {
	k := u.K
	return []*MRule{
		thr(1000, int64(k[0]), 1000),
		thr(1000, int64(k[0]), 500, int64(k[1]), 500),
		thr(1000, int64(k[0]), 300, int64(k[1]), 300, int64(k[2]), 500),
		ksets([]int{k[0], k[1]}, []int{k[3]}),
		thr(1000, int64(k[2]), 1000, int64(u.A), 1000), // B lists A: a cycle of accounts
		ksets([]int{k[2]}),
	}
}

// thresholdRules: every weight assignment over members x every accept value.
func thresholdRules(members []int, weights, accepts []int64) []*MRule {
	var out []*MRule
	n := len(members)
	idx := make([]int, n)
	for {
		for _, a := range accepts {
			r := &MRule{Kind: 1, Accept: a}
			for i, m := range members {
				r.W[m] = weights[idx[i]]
				r.Listed |= 1 << uint(m)
			}
			out = append(out, r)
		}
		i := 0
		for ; i < n; i++ {
			idx[i]++
			if idx[i] < len(weights) {
				break
			}
			idx[i] = 0
		}
		if i == n {
			break
		}
	}
	return out
}

// keysetRules: every choice of <= maxSets distinct sets among the subsets (size <= maxSize,
// the empty set included) of members.
func keysetRules(members []int, maxSets, maxSize int) []*MRule {
	var subsets []uint32
	for m := 0; m < 1<<uint(len(members)); m++ {
		var mask uint32
		c := 0
		for i, id := range members {
			if m&(1<<uint(i)) != 0 {
				mask |= 1 << uint(id)
				c++
			}
		}
		if c <= maxSize {
			subsets = append(subsets, mask)
		}
	}
	var out []*MRule
	var cur []uint32
	var rec func(start int)
	rec = func(start int) {
		out = append(out, &MRule{Kind: 2, Sets: append([]uint32(nil), cur...)})
		if len(cur) == maxSets {
			return
		}
		for i := start; i < len(subsets); i++ {
			cur = append(cur, subsets[i])
			rec(i + 1)
			cur = cur[:len(cur)-1]
		}
	}
	rec(0)
	return out
}

func ruleClass(r *MRule, nested []int) string {
	if r == nil {
		return "none"
	}
	switch r.Kind {
	case 1:
		pos := 0
		for i := 0; i < maxN; i++ {
			if r.W[i] > 0 {
				pos++
			}
		}
		nm := 0
		for _, a := range nested {
			if r.W[a] != 0 {
				nm++
			}
		}
		return fmt.Sprintf("thr>=%d|positive-weights=%d|nested-members=%d", r.Accept, pos, nm)
	case 2:
		var sz []int
		nm := 0
		for _, m := range r.Sets {
			c := 0
			for i := 0; i < maxN; i++ {
				if m&(1<<uint(i)) != 0 {
					c++
				}
			}
			sz = append(sz, c)
			for _, a := range nested {
				if m&(1<<uint(a)) != 0 {
					nm++
				}
			}
		}
		sort.Ints(sz)
		return fmt.Sprintf("ks|sizes=%v|nested-members=%d", sz, nm)
	}
	return fmt.Sprintf("kind%d", r.Kind)
}

func mkURI(u *Universe, cat string, core bool, ids ...int) URI {
	s, p := u.uri(ids...)
	return URI{S: s, P: p, Cat: cat, Core: core}
}

// accountURIs: signer URIs offered to IdentifyAccount(A, ...).
func accountURIs(u *Universe) []URI {
	k := u.K
	return []URI{
		mkURI(u, cDirect, true, u.A, k[0]), mkURI(u, cDirect, true, u.A, k[1]), mkURI(u, cDirect, true, u.A, k[2]), mkURI(u, cDirect, true, u.A, k[3]),
		mkURI(u, cNested, true, u.A, u.B, k[0]), mkURI(u, cNested, true, u.A, u.B, k[1]), mkURI(u, cNested, true, u.A, u.B, k[2]), mkURI(u, cNested, true, u.A, u.B, k[3]),
		mkURI(u, cOther, true, u.B, k[0]),
		mkURI(u, cBare, true, k[0]),
		// confusion candidates
		mkURI(u, cOther, false, u.B, k[1]),
		mkURI(u, cOther, false, u.B, u.A, k[0]),
		mkURI(u, cBare, false, k[1]),
		mkURI(u, cNameBefore, false, u.A, k[0], k[1]),
		mkURI(u, cNameBefore, false, u.A, k[1], k[0]),
		mkURI(u, cNameBefore, false, u.A, k[2], k[4]),
		mkURI(u, cNameBefore, false, u.A, u.B, k[0], k[4]),
		mkURI(u, cNameBefore, false, u.A, u.LLong, k[0]),
		mkURI(u, cNameBefore, false, u.A, u.B, u.A, k[0], k[4]), // four names below the root
		mkURI(u, cNameBefore, false, u.A, u.B, u.A, k[1], k[4]),
		mkURI(u, cLookalike, false, u.LLong, k[0]),
		mkURI(u, cLookalike, false, u.LChain, k[0]),
		mkURI(u, cLookalike, false, u.LShort, k[0]),
		mkURI(u, cLookalike, false, u.LNoChain, k[0]),
		mkURI(u, cNoRule, false, u.A, u.None, k[0]),
		mkURI(u, cMalformed, false, u.A, u.Empty, k[0]),
		mkURI(u, cDeep, false, u.A, u.A, k[0]),
		mkURI(u, cDeep, false, u.A, u.B, u.A, k[0]),
		mkURI(u, cOutsider, false, u.A, k[4]),
	}
}

// methodURIs: signer URIs offered to CheckContractMethodPerm(..., contract, method).
func methodURIs(u *Universe) []URI {
	k := u.K
	return []URI{
		mkURI(u, cDirect, true, k[0]), mkURI(u, cDirect, true, k[1]), mkURI(u, cDirect, true, k[2]),
		mkURI(u, cNested, true, u.A, k[0]), mkURI(u, cNested, true, u.A, k[1]), mkURI(u, cNested, true, u.A, k[2]),
		mkURI(u, cNested, true, u.B, k[0]), mkURI(u, cNested, true, u.B, k[1]), mkURI(u, cNested, true, u.B, k[2]),
		mkURI(u, cNested, true, u.A, u.B, k[0]),
		// confusion candidates
		mkURI(u, cNested, false, u.A, u.B, k[1]),
		mkURI(u, cNameBefore, false, k[0], k[1]),
		mkURI(u, cNameBefore, false, k[1], k[4]),
		mkURI(u, cNameBefore, false, u.A, k[0], k[4]),
		mkURI(u, cNameBefore, false, u.A, u.B, k[0], k[4]), // four names below the root
		mkURI(u, cNameBefore, false, u.A, u.B, k[1], k[4]),
		mkURI(u, cNameBefore, false, u.LLong, k[0]),
		mkURI(u, cNoRule, false, u.None, k[0]),
		mkURI(u, cNoRule, false, u.LChain, k[0]),
		mkURI(u, cMalformed, false, u.Empty, k[0]),
		mkURI(u, cMalformed, false, u.A, u.Empty, k[0]),
		mkURI(u, cOutsider, false, k[4]),
	}
}

func coreOnly(us []URI) []URI {
	var out []URI
	for _, x := range us {
		if x.Core {
			out = append(out, x)
		}
	}
	return out
}

func catOnly(us []URI, cats ...string) []URI {
	var out []URI
	for _, x := range us {
		for _, c := range cats {
			if x.Cat == c && x.Core {
				out = append(out, x)
			}
		}
	}
	return out
}

// accountConfigs: rules for A x rules for B.
func accountConfigs(u *Universe, aRules []*MRule, bs []*MRule) []*Config {
	var out []*Config
	for _, b := range bs {
		for _, a := range aRules {
			out = append(out, &Config{Acct: map[int]*MRule{u.A: a, u.B: b}, Class: ruleClass(a, []int{u.B}) + "|B:" + ruleClass(b, []int{u.A})})
		}
	}
	return out
}

// account rule pairs used under a method rule
func acctPairs(u *Universe) [][2]*MRule {
	k := u.K
	return [][2]*MRule{
		{thr(1000, int64(k[0]), 1000), thr(1000, int64(k[1]), 1000)},
		{thr(1000, int64(k[0]), 500, int64(k[1]), 500), ksets([]int{k[0], k[2]})},
		{ksets([]int{k[0]}, []int{k[1], k[2]}), thr(500, int64(k[0]), 300, int64(k[1]), 300, int64(k[2]), 300)},
		{thr(1000, int64(u.B), 1000, int64(k[2]), 500), thr(1000, int64(k[0]), 1000)}, // A is satisfied through B
	}
}

func methodConfigs(u *Universe, mRules []*MRule, pairs [][2]*MRule) []*Config {
	var out []*Config
	for _, p := range pairs {
		for _, m := range mRules {
			out = append(out, &Config{Acct: map[int]*MRule{u.A: p[0], u.B: p[1]}, Method: m,
				Class: ruleClass(m, []int{u.A, u.B})})
		}
	}
	return out
}
