package main

// The null-key-set probe runs in a child process: evaluating such a rule can kill the node
// in a background goroutine (State.Walk -> recoverUnconfirmedTx), which no recover() of the
// harness can catch.

import (
	"bufio"
	"context"
	"fmt"
	"os"
	"os/exec"
	"strings"
	"time"

	"github.com/xuperchain/xupercore/protos"

	"verif/ev"
	sn "verif/simnode"
)

const childFlag = "-c11-null-key-set-child"

func nullSetACL() string {
	return fmt.Sprintf(`{"pm":{"rule":2},"akSets":{"sets":{"s0":{"aks":[%q]},"snil":null}}}`, sn.K(0).Address)
}

// childMain: stages are appended to the result file before they are attempted.
func childMain(out string) {
	f, err := os.OpenFile(out, os.O_CREATE|os.O_WRONLY|os.O_APPEND, 0644)
	if err != nil {
		os.Exit(3)
	}
	say := func(format string, a ...interface{}) {
		fmt.Fprintf(f, format+"\n", a...)
		f.Sync()
	}
	sn.InitLogs()
	defer sn.CleanupScratch()
	b, err := newWorld(0)
	if err != nil {
		say("harness-error set-up: %v", err)
		return
	}
	ini := sn.K(6)
	create := func(digits string) bool {
		tx, err := b.contractTx([]*protos.InvokeRequest{aclReq("NewAccount", map[string][]byte{"account_name": []byte(digits), "acl": []byte(nullSetACL())})}, ini.Address, nil)
		if err != nil {
			say("refused-at-preexec %v", err)
			return false
		}
		x, err := b.sign(tx, ini, "", nil)
		if err != nil {
			say("harness-error sign: %v", err)
			return false
		}
		ok, verr, pn := b.verify(x)
		if pn != "" {
			say("panic-in-VerifyTx-of-NewAccount %s", pn)
			return false
		}
		if !ok {
			say("refused-at-VerifyTx %v", verr)
			return false
		}
		if err := b.n.State.DoTx(sn.CloneTx(x)); err != nil {
			say("refused-at-DoTx %v", err)
			return false
		}
		return true
	}
	// 1. miner path: no background goroutine
	if !create("4444444444444444") {
		return
	}
	say("admitted NewAccount with a null key set")
	pool, _ := b.n.State.GetUnconfirmedTx(false)
	b.height++
	b.ts += 10
	blk, err := b.n.FormatBlock(b.n.StateTip(), b.height, sn.K(0), b.ts, pool, true)
	if err != nil {
		say("harness-error format: %v", err)
		return
	}
	if err := b.n.ConfirmForMiner(sn.CloneBlock(blk)); err != nil {
		say("harness-error confirm-for-miner: %v", err)
		return
	}
	say("confirmed (miner path)")
	name := acctName("4444444444444444")
	newRule := []byte(fmt.Sprintf(`{"pm":{"rule":1,"acceptValue":1.0},"aksWeight":{%q:1.0}}`, sn.K(7).Address))
	auth := []entry{{URI: name + "/" + sn.K(1).Address, Key: sn.K(1)}}
	tx, err := b.contractTx([]*protos.InvokeRequest{aclReq("SetAccountAcl", map[string][]byte{"account_name": []byte(name), "acl": newRule})}, ini.Address, uris(auth))
	if err != nil {
		say("harness-error preexec SetAccountAcl: %v", err)
		return
	}
	x, err := b.sign(tx, ini, "", auth)
	if err != nil {
		say("harness-error sign: %v", err)
		return
	}
	ok, verr, pn := b.verify(x)
	if pn != "" {
		say("panic-in-VerifyTx %s", pn)
	} else {
		say("VerifyTx ok=%v err=%v", ok, verr)
	}
	// 2. sync path: the block arrives while the transaction is in the pool; Walk re-verifies the pool in a goroutine
	if !create("5555555555555555") {
		return
	}
	pool, _ = b.n.State.GetUnconfirmedTx(false)
	b.height++
	b.ts += 10
	blk, err = b.n.FormatBlock(b.n.StateTip(), b.height, sn.K(0), b.ts, pool, true)
	if err != nil {
		say("harness-error format: %v", err)
		return
	}
	if st := b.n.Confirm(blk); !st.Succ {
		say("harness-error confirm: %v", st.Error)
		return
	}
	say("walking to a block that confirms a pooled NewAccount with a null key set")
	if err := b.n.Walk(blk.Blockid, false); err != nil {
		say("walk-error %v", err)
		return
	}
	say("walk survived")
}

func nullSetProbe(r *ev.Run) {
	dir, err := os.MkdirTemp("", "c11-child-")
	if err != nil {
		r.Inconclusive("null-key-set probe: no scratch directory")
		return
	}
	defer os.RemoveAll(dir)
	out := dir + "/stages"
	ctx, cancel := context.WithTimeout(context.Background(), 180*time.Second) // watch-dog only
	defer cancel()
	cmd := exec.CommandContext(ctx, os.Args[0], childFlag, out)
	cmd.Env = append(os.Environ(), "VERIF_KEEP_STDOUT=")
	var stderr strings.Builder
	cmd.Stderr = &stderr
	runErr := cmd.Run()
	if ctx.Err() != nil {
		r.Inconclusive("null-key-set probe: child did not finish within the watch-dog time")
		return
	}
	var stages []string
	if f, err := os.Open(out); err == nil {
		sc := bufio.NewScanner(f)
		for sc.Scan() {
			stages = append(stages, sc.Text())
		}
		f.Close()
	}
	r.Count("B.null-key-set.child-runs", 1)
	r.Case("B|null-key-set-rule|NewAccount+confirm+SetAccountAcl+sync", true)
	joined := strings.Join(stages, " | ")
	for _, s := range stages {
		if strings.HasPrefix(s, "harness-error") {
			r.Inconclusive("null-key-set probe: " + s)
			return
		}
	}
	if len(stages) == 0 {
		r.Inconclusive("null-key-set probe: child produced no stage report: " + clipS(stderr.String(), 300))
		return
	}
	if strings.HasPrefix(stages[0], "refused-at") {
		r.Count("B.null-key-set.refused-at-NewAccount", 1)
		nullSetAdmissible = false
		return
	}
	r.Count("B.null-key-set.rule-admitted-on-chain", 1)
	crashed := runErr != nil
	panicked := strings.Contains(joined, "panic-in-VerifyTx")
	if crashed || panicked {
		head := stderr.String()
		if i := strings.Index(head, "goroutine "); i >= 0 {
			j := i + 1200
			if j > len(head) {
				j = len(head)
			}
			head = head[:j]
		}
		what := "State.VerifyTx of a SetAccountAcl for that account panics"
		if crashed {
			what += "; a node that holds the NewAccount transaction in its pool and walks to a block confirming it dies in recoverUnconfirmedTx (background goroutine, process exit)"
		}
		report("end-to-end", "acl|panic-during-evaluation|rule-lists-a-null-key-set",
			fmt.Sprintf("$acl.NewAccount admits the rule %s; after it is confirmed, %s. stages: %s", nullSetACL(), what, joined),
			map[string]interface{}{"acl_json": nullSetACL(), "stages": stages, "child_exit": fmt.Sprint(runErr), "child_stderr_head": clipS(head, 1500)})
		return
	}
	if strings.Contains(joined, "VerifyTx ok=true") {
		report("end-to-end", "tx|accepted-without-satisfying-confirmed-rule|op=SetAccountAcl|rule-lists-a-null-key-set",
			"SetAccountAcl accepted for an account whose key-set rule [{k1}, null] is not satisfied by the signer k2; stages: "+joined,
			map[string]interface{}{"acl_json": nullSetACL(), "stages": stages})
	}
}

func clipS(s string, n int) string {
	if len(s) > n {
		return s[:n]
	}
	return s
}
