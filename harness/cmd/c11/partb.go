package main

import "verif/ev"

func partB(r *ev.Run)       {}
func partBFloors(r *ev.Run) {}
