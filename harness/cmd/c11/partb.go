package main

// Part B: end to end on a node. Accounts are created with $acl.NewAccount and confirmed;
// then every guarded operation is attempted with every subset of a menu of signer entries
// and State.VerifyTx is compared with the model evaluated on the rules CONFIRMED at the tip.

import (
	"fmt"
	"math/big"
	"os"
	"runtime"
	"sort"
	"strings"
	"sync"
	"sync/atomic"

	"github.com/xuperchain/xupercore/bcs/ledger/xledger/state/utxo/txhash"
	pb "github.com/xuperchain/xupercore/bcs/ledger/xledger/xldgpb"
	aclu "github.com/xuperchain/xupercore/kernel/permission/acl/utils"
	"github.com/xuperchain/xupercore/protos"

	"verif/ev"
	sn "verif/simnode"
)

func acctName(digits string) string { return "XC" + digits + "@" + sn.BCName }

const (
	digitsA = "1111111111111111"
	digitsB = "2222222222222222"
	digitsC = "3333333333333333" // the "other" account
	contOwn = "cont.own"         // contract owned by A (mapping confirmed in set-up)
	contNew = "cont.new"         // contract name without a mapping
	guarded = sn.VerifContract2  // contract whose method `run` gets a method rule
)

// ---- operations ----
const (
	opSetAccountAcl = "SetAccountAcl"
	opSetMethodAcl  = "SetMethodAcl"
	opRawPutAccount = "raw-put-XCAccount"
	opRawDelAccount = "raw-del-XCAccount"
	opRawPutMethod  = "raw-put-XCContract"
	opRawPutMapping = "raw-put-XCContract2Account(new contract -> account)"
	opSpend         = "spend-account-output"
	opCallGuarded   = "call-method-with-rule"
	opTakeover      = "raw-put-XCContract2Account(existing contract -> other account)"
)

var acctOps = []string{opSetAccountAcl, opSetMethodAcl, opRawPutAccount, opRawDelAccount, opRawPutMethod, opRawPutMapping, opSpend}

type entry struct {
	URI  string
	Key  *sn.Key // key that really signs
	Cat  string
	Path []int8
	Bad  bool // signature made by another key than the URI names
}

type bworld struct {
	n       *sn.Node
	u       *Names
	w       *World // model: rules CONFIRMED at the tip
	nonce   int
	height  int64
	ts      int64
	A, B, C int
	k       [8]int
	sym     map[int]string
}

func (b *bworld) symPath(p []int8) string {
	parts := make([]string, len(p))
	for i, id := range p {
		parts[i] = b.sym[int(id)]
	}
	return strings.Join(parts, "/")
}

func (b *bworld) nn() string { b.nonce++; return fmt.Sprintf("c11-%d", b.nonce) }

// sign assembles the transaction: the initiator signs as initiator, every auth entry is signed by its key.
func (b *bworld) sign(tx *pb.Transaction, init *sn.Key, initAcct string, auth []entry) (*pb.Transaction, error) {
	nonce := b.nn()
	b.ts++
	return signTx(tx, init, initAcct, auth, nonce, b.ts)
}

// signTx is sign with the nonce and the timestamp given by the caller (no shared state: the
// concurrent parts sign on several goroutines).
func signTx(tx *pb.Transaction, init *sn.Key, initAcct string, auth []entry, nonce string, ts int64) (*pb.Transaction, error) {
	tx.Version = 3
	tx.Initiator = init.Address
	if initAcct != "" {
		tx.Initiator = initAcct
	}
	tx.Nonce = nonce
	tx.Timestamp = ts
	tx.AuthRequire = nil
	for _, e := range auth {
		tx.AuthRequire = append(tx.AuthRequire, e.URI)
	}
	digest, err := txhash.MakeTxDigestHash(tx)
	if err != nil {
		return nil, err
	}
	c := sn.Crypto()
	mk := func(k *sn.Key) (*protos.SignatureInfo, error) {
		sig, err := c.SignECDSA(k.Priv, digest)
		if err != nil {
			return nil, err
		}
		return &protos.SignatureInfo{PublicKey: k.PubJSON, Sign: sig}, nil
	}
	si, err := mk(init)
	if err != nil {
		return nil, err
	}
	tx.InitiatorSigns = []*protos.SignatureInfo{si}
	tx.AuthRequireSigns = nil
	for _, e := range auth {
		si, err := mk(e.Key)
		if err != nil {
			return nil, err
		}
		tx.AuthRequireSigns = append(tx.AuthRequireSigns, si)
	}
	tx.Txid, err = txhash.MakeTransactionID(tx)
	if err != nil {
		return nil, err
	}
	return sn.Wire(tx)
}

func (b *bworld) verify(tx *pb.Transaction) (ok bool, err error, panicked string) {
	defer func() {
		if p := recover(); p != nil {
			panicked = fmt.Sprint(p)
		}
	}()
	ok, err = b.n.State.VerifyTx(tx)
	return
}

func (b *bworld) admit(tx *pb.Transaction, what string) error {
	ok, err, pn := b.verify(tx)
	if pn != "" {
		return fmt.Errorf("%s: VerifyTx panicked: %s", what, pn)
	}
	if !ok || err != nil {
		return fmt.Errorf("%s: VerifyTx refused a set-up transaction: %v %v", what, err, b.n.Log.Tail(3))
	}
	if err := b.n.State.DoTx(sn.CloneTx(tx)); err != nil {
		return fmt.Errorf("%s: DoTx: %v", what, err)
	}
	return nil
}

func (b *bworld) mine() error {
	pool, err := b.n.State.GetUnconfirmedTx(false)
	if err != nil {
		return err
	}
	b.height++
	b.ts += 10
	blk, err := b.n.FormatBlock(b.n.StateTip(), b.height, sn.K(0), b.ts, pool, true)
	if err != nil {
		return err
	}
	if st := b.n.Confirm(blk); !st.Succ {
		return fmt.Errorf("confirm: %v", st.Error)
	}
	if err := b.n.Walk(blk.Blockid, false); err != nil {
		return fmt.Errorf("walk: %v %v", err, b.n.Log.Tail(3))
	}
	if p, _ := b.n.State.GetUnconfirmedTx(false); len(p) != 0 {
		return fmt.Errorf("%d transactions left in the pool after mining", len(p))
	}
	return nil
}

func aclReq(method string, args map[string][]byte) *protos.InvokeRequest {
	return &protos.InvokeRequest{ModuleName: "xkernel", ContractName: "$acl", MethodName: method, Args: args}
}

// contractTx pre-executes the requests and returns the unsigned transaction body.
func (b *bworld) contractTx(reqs []*protos.InvokeRequest, initiator string, auth []string) (*pb.Transaction, error) {
	res, err := b.n.PreExec(reqs, initiator, auth)
	if err != nil {
		return nil, err
	}
	return &pb.Transaction{TxInputsExt: res.Inputs, TxOutputsExt: res.Outputs, ContractRequests: res.Requests}, nil
}

func (b *bworld) transferTx(from string, to string, amt int64) (*pb.Transaction, error) {
	ins, _, total, err := b.n.State.SelectUtxos(from, big.NewInt(amt), false, false)
	if err != nil {
		return nil, err
	}
	tx := &pb.Transaction{TxInputs: ins}
	tx.TxOutputs = append(tx.TxOutputs, &protos.TxOutput{ToAddr: []byte(to), Amount: big.NewInt(amt).Bytes()})
	if rest := new(big.Int).Sub(total, big.NewInt(amt)); rest.Sign() > 0 {
		tx.TxOutputs = append(tx.TxOutputs, &protos.TxOutput{ToAddr: []byte(from), Amount: rest.Bytes()})
	}
	return tx, nil
}

// the rules of part B (k1..k4 = keys 0..3, B = nested account)
func bAcctRules(k [8]int, B int) []*MRule {
	return []*MRule{
		thr(1000, int64(k[0]), 1000),
		thr(1000, int64(k[0]), 500, int64(k[1]), 500),
		thr(1000, int64(k[0]), 300, int64(k[1]), 300, int64(k[2]), 500),
		thr(1000, int64(k[0]), 500, int64(B), 500),
		ksets([]int{k[0], k[1]}, []int{k[2]}),
		ksets([]int{k[0], B}),
		thr(1500, int64(k[0]), 1000, int64(k[1]), 500, int64(k[2]), 500),
		thr(1000, int64(k[0]), 500, int64(k[1]), 500, int64(k[2]), 500),
		ksets([]int{k[1]}, []int{k[0], k[2]}),
		thr(1000, int64(B), 1000),
		thr(800, int64(k[0]), 100, int64(k[1]), 700, int64(k[2]), 300, int64(k[3]), 400), // #10: decimal boundary probe only
	}
}

func usesNested(r *MRule, B int) bool {
	if r.Kind == 1 {
		return r.W[B] != 0
	}
	for _, m := range r.Sets {
		if m&(1<<uint(B)) != 0 {
			return true
		}
	}
	return false
}

// newWorld: node + accounts A (rule ri), B, C confirmed; A funded; contOwn -> A confirmed.
func newWorld(ri int) (*bworld, error) {
	n, err := sn.NewNode(sn.DefaultConfig())
	if err != nil {
		return nil, err
	}
	b := &bworld{n: n, u: NewNames(), ts: 1000, sym: map[int]string{}}
	for i := 0; i < 8; i++ {
		b.k[i] = b.u.ID(sn.K(i).Address)
		b.sym[b.k[i]] = fmt.Sprintf("k%d", i+1)
	}
	b.A = b.u.ID(acctName(digitsA))
	b.B = b.u.ID(acctName(digitsB))
	b.C = b.u.ID(acctName(digitsC))
	b.sym[b.A], b.sym[b.B], b.sym[b.C] = "A", "B", "C"
	rules := bAcctRules(b.k, b.B)
	b.w = &World{N: b.u}
	b.w.Rules[b.A] = rules[ri]
	b.w.Rules[b.B] = thr(1000, int64(b.k[2]), 500, int64(b.k[3]), 500)
	b.w.Rules[b.C] = thr(1000, int64(b.k[0]), 1000)
	ini := sn.K(6)
	for _, a := range []struct {
		digits string
		id     int
	}{{digitsB, b.B}, {digitsA, b.A}, {digitsC, b.C}} {
		tx, err := b.contractTx([]*protos.InvokeRequest{aclReq("NewAccount", map[string][]byte{"account_name": []byte(a.digits),
			"acl": []byte(b.w.Rules[a.id].JSON(b.u))})}, ini.Address, nil)
		if err != nil {
			return nil, fmt.Errorf("preexec NewAccount: %v", err)
		}
		x, err := b.sign(tx, ini, "", nil)
		if err != nil {
			return nil, err
		}
		if err := b.admit(x, "NewAccount"); err != nil {
			return nil, err
		}
	}
	// funding: three outputs for A
	tx, err := b.transferTx(sn.K(0).Address, sn.K(0).Address, 1)
	if err != nil {
		return nil, err
	}
	tx.TxOutputs = append([]*protos.TxOutput{
		{ToAddr: []byte(acctName(digitsA)), Amount: big.NewInt(100).Bytes()},
		{ToAddr: []byte(acctName(digitsA)), Amount: big.NewInt(200).Bytes()},
	}, tx.TxOutputs...)
	// fix the change
	var inSum big.Int
	for _, in := range tx.TxInputs {
		inSum.Add(&inSum, new(big.Int).SetBytes(in.Amount))
	}
	tx.TxOutputs = tx.TxOutputs[:2]
	tx.TxOutputs = append(tx.TxOutputs, &protos.TxOutput{ToAddr: []byte(sn.K(0).Address), Amount: new(big.Int).Sub(&inSum, big.NewInt(300)).Bytes()})
	x, err := b.sign(tx, sn.K(0), "", nil)
	if err != nil {
		return nil, err
	}
	if err := b.admit(x, "fund account"); err != nil {
		return nil, err
	}
	if err := b.mine(); err != nil {
		return nil, err
	}
	// contract -> account mapping, signed by everybody who could matter
	all := b.fullAuth()
	p := (&sn.ProgBuilder{}).Put(aclu.GetContract2AccountBucket(), []byte(contOwn), []byte(acctName(digitsA)))
	tx, err = b.contractTx([]*protos.InvokeRequest{sn.VerifReq(sn.VerifContract, p.String())}, ini.Address, uris(all))
	if err != nil {
		return nil, err
	}
	x, err = b.sign(tx, ini, "", all)
	if err != nil {
		return nil, err
	}
	if err := b.admit(x, "map contract to account"); err != nil {
		return nil, err
	}
	if err := b.mine(); err != nil {
		return nil, err
	}
	return b, nil
}

func uris(es []entry) []string {
	var o []string
	for _, e := range es {
		o = append(o, e.URI)
	}
	return o
}

func (b *bworld) ent(cat string, signer int, bad bool, ids ...int) entry {
	parts := make([]string, len(ids))
	p := make([]int8, len(ids))
	for i, id := range ids {
		parts[i] = b.u.list[id]
		p[i] = int8(id)
	}
	return entry{URI: strings.Join(parts, "/"), Key: sn.K(signer), Cat: cat, Path: p, Bad: bad}
}

// fullAuth satisfies every rule of part B for account A.
func (b *bworld) fullAuth() []entry {
	return []entry{b.ent(cDirect, 0, false, b.A, b.k[0]), b.ent(cDirect, 1, false, b.A, b.k[1]), b.ent(cDirect, 2, false, b.A, b.k[2]), b.ent(cDirect, 3, false, b.A, b.k[3]),
		b.ent(cNested, 2, false, b.A, b.B, b.k[2]), b.ent(cNested, 3, false, b.A, b.B, b.k[3])}
}

const cBadSig = "entry-signed-by-another-key"
const cRepeat = "repeated-entry"

// menu: the signer entries whose subsets are enumerated for account operations.
func (b *bworld) menu() []entry {
	la := b.u.ID("XC" + digitsA + "@" + sn.BCName + "2")
	b.sym[la] = "A+chainsuffix"
	return []entry{
		b.ent(cDirect, 0, false, b.A, b.k[0]),
		b.ent(cDirect, 1, false, b.A, b.k[1]),
		b.ent(cDirect, 2, false, b.A, b.k[2]),
		b.ent(cNested, 2, false, b.A, b.B, b.k[2]),
		b.ent(cNested, 3, false, b.A, b.B, b.k[3]),
		b.ent(cOther, 0, false, b.C, b.k[0]),
		b.ent(cBare, 1, false, b.k[1]),
		b.ent(cNameBefore, 5, false, b.A, b.k[0], b.k[5]),
		b.ent(cLookalike, 0, false, la, b.k[0]),
		b.ent(cDirect, 3, false, b.A, b.k[3]),
		b.ent(cBadSig, 1, true, b.A, b.k[0]), // URI names k1, signature and public key are k2's
		b.ent(cNameBefore, 5, false, b.A, b.B, b.k[2], b.k[5]),
		b.ent(cRepeat, 0, false, b.A, b.k[0]), // the first entry once more
	}
}

// methodMenu: entries for the method-rule protected call.
func (b *bworld) methodMenu() []entry {
	return []entry{
		b.ent(cDirect, 0, false, b.k[0]),
		b.ent(cDirect, 1, false, b.k[1]),
		b.ent(cNested, 0, false, b.A, b.k[0]),
		b.ent(cNested, 1, false, b.A, b.k[1]),
		b.ent(cNested, 2, false, b.A, b.B, b.k[2]),
		b.ent(cNested, 3, false, b.A, b.B, b.k[3]),
		b.ent(cNameBefore, 5, false, b.k[0], b.k[5]),
		b.ent(cNameBefore, 5, false, b.A, b.k[0], b.k[5]),
		b.ent(cOther, 0, false, b.C, b.k[0]),
		b.ent(cOutsider, 4, false, b.k[4]),
	}
}

// subsets of {0..n-1} of size <= max, as index lists
func subsets(n, max int) [][]int {
	var out [][]int
	for m := 0; m < 1<<uint(n); m++ {
		var s []int
		for i := 0; i < n; i++ {
			if m&(1<<uint(i)) != 0 {
				s = append(s, i)
			}
		}
		if len(s) <= max {
			out = append(out, s)
		}
	}
	return out
}

type bFinding struct {
	sig, detail string
	witness     map[string]interface{}
	ord         int64
}

type bAgg struct {
	mu       sync.Mutex
	findings map[string]bFinding
	incon    []string
}

func (a *bAgg) add(f bFinding) {
	a.mu.Lock()
	if o, ok := a.findings[f.sig]; !ok || f.ord < o.ord {
		a.findings[f.sig] = f
	}
	a.mu.Unlock()
}

// body builds the unsigned transaction of an operation (fresh for every case: cheap and
// keeps cases independent).
func (b *bworld) body(op string, auth []string) (*pb.Transaction, error) {
	ini := sn.K(6).Address
	A := acctName(digitsA)
	newRule := []byte(fmt.Sprintf(`{"pm":{"rule":1,"acceptValue":1.0},"aksWeight":{%q:1.0}}`, sn.K(7).Address))
	switch op {
	case opSetAccountAcl:
		return b.contractTx([]*protos.InvokeRequest{aclReq("SetAccountAcl", map[string][]byte{"account_name": []byte(A), "acl": newRule})}, ini, auth)
	case opSetMethodAcl:
		return b.contractTx([]*protos.InvokeRequest{aclReq("SetMethodAcl", map[string][]byte{"contract_name": []byte(contOwn), "method_name": []byte("m"), "acl": newRule})}, ini, auth)
	case opRawPutAccount:
		p := (&sn.ProgBuilder{}).Put(aclu.GetAccountBucket(), []byte(A), newRule)
		return b.contractTx([]*protos.InvokeRequest{sn.VerifReq(sn.VerifContract, p.String())}, ini, auth)
	case opRawDelAccount:
		p := (&sn.ProgBuilder{}).Del(aclu.GetAccountBucket(), []byte(A))
		return b.contractTx([]*protos.InvokeRequest{sn.VerifReq(sn.VerifContract, p.String())}, ini, auth)
	case opRawPutMethod:
		p := (&sn.ProgBuilder{}).Put(aclu.GetContractBucket(), []byte(aclu.MakeContractMethodKey(contOwn, "m")), newRule)
		return b.contractTx([]*protos.InvokeRequest{sn.VerifReq(sn.VerifContract, p.String())}, ini, auth)
	case opRawPutMapping:
		p := (&sn.ProgBuilder{}).Put(aclu.GetContract2AccountBucket(), []byte(contNew), []byte(A))
		return b.contractTx([]*protos.InvokeRequest{sn.VerifReq(sn.VerifContract, p.String())}, ini, auth)
	case opTakeover:
		p := (&sn.ProgBuilder{}).Put(aclu.GetContract2AccountBucket(), []byte(contOwn), []byte(acctName(digitsC)))
		return b.contractTx([]*protos.InvokeRequest{sn.VerifReq(sn.VerifContract, p.String())}, ini, auth)
	case opSpend:
		return b.transferTx(A, sn.K(1).Address, 50)
	case opCallGuarded:
		p := (&sn.ProgBuilder{}).Put("vb0", []byte("x"), []byte("1"))
		return b.contractTx([]*protos.InvokeRequest{sn.VerifReq(guarded, p.String())}, ini, auth)
	}
	return nil, fmt.Errorf("unknown op %s", op)
}

// oraclePaths: the signer URIs the model is given. An entry whose own signature is by another
// key still names a verified signer when that key has a valid signature elsewhere in the
// transaction (every signature covers the whole auth_require list).
func (b *bworld) oraclePaths(auth []entry) (paths [][]int8, hasBad bool) {
	verified := map[int8]bool{}
	for _, e := range auth {
		if !e.Bad {
			verified[e.Path[len(e.Path)-1]] = true
		}
	}
	for _, e := range auth {
		if e.Bad {
			hasBad = true
			if !verified[e.Path[len(e.Path)-1]] {
				continue
			}
		}
		paths = append(paths, e.Path)
	}
	return
}

func (b *bworld) want(auth []entry, method *MRule) int {
	paths, hasBad := b.oraclePaths(auth)
	var want int
	if method != nil {
		// the initiator is a verified signer of the call
		want = b.w.OracleMethod(method, append([][]int8{{int8(b.k[6])}}, paths...))
	} else {
		want = b.w.OracleAccount(b.A, paths)
	}
	if hasBad && want == MustAccept {
		want = Unspec // refusing a transaction that carries an invalid signature is always right
	}
	return want
}

// attempt builds, signs and verifies one variant.
func (b *bworld) attempt(op string, auth []entry) (ok bool, verr error, pn string, err error) {
	tx, err := b.body(op, uris(auth))
	if err != nil {
		return false, nil, "", fmt.Errorf("%s: building the transaction failed: %v %v", op, err, b.n.Log.Tail(2))
	}
	x, err := b.sign(tx, sn.K(6), "", auth)
	if err != nil {
		return false, nil, "", err
	}
	ok, verr, pn = b.verify(x)
	return ok, verr, pn, nil
}

func (b *bworld) traceOf(auth []entry, method *MRule) string {
	paths, _ := b.oraclePaths(auth)
	if method != nil {
		return traceString(b.w, paths, 0)
	}
	var ps [][]int8
	var bare uint32
	for _, p := range paths {
		if len(p) == 1 {
			bare |= 1 << uint(p[0])
			continue
		}
		if int(p[0]) != b.A {
			continue
		}
		ps = append(ps, p[1:])
	}
	return traceString(b.w, ps, bare)
}

// expl: a minimal disagreeing signer subset that has been diagnosed already
type expl struct {
	s    []int
	want int
}

func subsetOf(a, b []int) bool { // a ⊆ b, both sorted
	j := 0
	for _, x := range a {
		for j < len(b) && b[j] < x {
			j++
		}
		if j >= len(b) || b[j] != x {
			return false
		}
	}
	return true
}

// sweep runs one operation with every given subset of the menu and compares with the oracle.
func (b *bworld) sweep(r *ev.Run, agg *bAgg, ri int, op, phase string, menu []entry, subs [][]int, ordBase int64, method *MRule, live *World, inherited []expl) ([]expl, error) {
	pick := func(s []int) []entry {
		var auth []entry
		for _, i := range s {
			auth = append(auth, menu[i])
		}
		return auth
	}
	type badCase struct {
		s    []int
		want int
		ok   bool
		verr error
		pn   string
	}
	var bads []badCase
	symr := func(i int) string { return b.sym[i] }
	for si, s := range subs {
		auth := pick(s)
		ok, verr, pn, err := b.attempt(op, auth)
		if err != nil {
			return nil, fmt.Errorf("phase %s: %v", phase, err)
		}
		want := b.want(auth, method)
		cats := map[string]bool{}
		for _, e := range auth {
			cats[e.Cat] = true
		}
		var cl []string
		for c := range cats {
			cl = append(cl, c)
		}
		sort.Strings(cl)
		shape := fmt.Sprintf("B|%s|rule#%d|%s|%s|%s", op, ri, phase, strings.Join(cl, "+"), verdictName(want))
		nontrivial := len(auth) > 0 && (len(cl) > 1 || cl[0] != cDirect)
		r.Case(shape, nontrivial)
		r.Count("B.transactions-verified", 1)
		r.Count("B.op."+op, 1)
		r.Count("B.phase."+phase, 1)
		r.Count("B.oracle."+verdictName(want), 1)
		if ok {
			r.Count("B.node.accepted", 1)
		} else {
			r.Count("B.node.refused", 1)
		}
		for c := range cats {
			r.Count("B.cases-with."+c, 1)
		}
		if phase != "base" {
			r.Count("B.phase."+phase+"."+verdictName(want), 1)
		}
		if pn != "" || (want == MustReject && ok) || (want == MustAccept && !ok) {
			bads = append(bads, badCase{s, want, ok, verr, pn})
			continue
		}
		if si%97 == 0 && len(auth) >= 2 {
			r.Sample(map[string]interface{}{"part": "B", "op": op, "phase": phase, "rule(A)": b.w.Rules[b.A].Describe(symr),
				"auth_require": b.symAuth(auth), "node": map[bool]string{true: "accept", false: "refuse"}[ok], "oracle": verdictName(want)})
		}
	}
	if len(bads) == 0 {
		return inherited, nil
	}
	r.Count("B.disagreements", len(bads))
	// smallest first; a case containing an already explained minimal witness of the same direction is attributed to it
	sort.SliceStable(bads, func(i, j int) bool { return len(bads[i].s) < len(bads[j].s) })
	// in a pending phase the confirmed rules are those of the previous phase: what was explained there is not reported again
	explained := append([]expl(nil), inherited...)
next:
	for bi, bc := range bads {
		for _, e := range explained {
			if e.want == bc.want && subsetOf(e.s, bc.s) {
				continue next
			}
		}
		min := append([]int(nil), bc.s...)
		ok, verr, pn := bc.ok, bc.verr, bc.pn
		if pn == "" {
			for changed := true; changed; {
				changed = false
				for i := range min {
					t := append(append([]int(nil), min[:i]...), min[i+1:]...)
					ok2, verr2, pn2, err := b.attempt(op, pick(t))
					if err != nil {
						return nil, err
					}
					w2 := b.want(pick(t), method)
					if pn2 == "" && w2 == bc.want && ((w2 == MustReject && ok2) || (w2 == MustAccept && !ok2)) {
						min, ok, verr = t, ok2, verr2
						changed = true
						break
					}
				}
			}
		}
		explained = append(explained, expl{min, bc.want})
		auth := pick(min)
		var sig string
		// a change that is only pending: does the node's answer follow the UNCONFIRMED rules?
		ph := ""
		if live != nil && pn == "" {
			conf := b.w
			b.w = live
			wl := b.want(auth, method)
			b.w = conf
			if (ok && wl != MustReject) || (!ok && wl != MustAccept) {
				ph = "|decided-by-the-unconfirmed-rule-change"
			}
		}
		switch {
		case pn != "":
			sig = "tx|panic-in-VerifyTx|op=" + op
		case bc.want == MustReject:
			full := b.traceOf(auth, method)
			off := map[string]bool{}
			for i := range auth {
				rest := append(append([]entry{}, auth[:i]...), auth[i+1:]...)
				if b.traceOf(rest, method) == full {
					off[auth[i].Cat] = true
				}
			}
			var os []string
			for c := range off {
				os = append(os, c)
			}
			sort.Strings(os)
			if len(os) > 0 {
				// the defect part A sees in the evaluation, confirmed end to end
				sig = "acl|accepts-unsatisfied-rule|counted=" + strings.Join(os, ",")
				r.Count("B.end-to-end-confirmation-of."+sig, 1)
			} else {
				sig = "tx|accepted-without-satisfying-confirmed-rule|op=" + op + ph
			}
		default:
			sig = "tx|refused-although-confirmed-rule-satisfied|op=" + op + ph
		}
		agg.add(bFinding{sig: sig, ord: ordBase + int64(bi),
			detail: fmt.Sprintf("rule(A)=%s rule(B)=%s rule(C)=%s confirmed at the tip; %s in phase %q with auth_require %v (initiator: outsider key): VerifyTx=%v err=%v panic=%q; statement: %s",
				b.w.Rules[b.A].Describe(symr), b.w.Rules[b.B].Describe(symr), b.w.Rules[b.C].Describe(symr), op, phase, b.symAuth(auth), ok, verr, pn, verdictName(bc.want)),
			witness: map[string]interface{}{"operation": op, "phase": phase, "rule(A) confirmed": b.w.Rules[b.A].JSON(b.u), "rule(B) confirmed": b.w.Rules[b.B].JSON(b.u),
				"rule(C) confirmed": b.w.Rules[b.C].JSON(b.u), "A": acctName(digitsA), "B": acctName(digitsB), "C": acctName(digitsC),
				"initiator": sn.K(6).Address, "auth_require": uris(auth), "auth_require_symbolic": b.symAuth(auth), "VerifyTx": ok, "error": fmt.Sprint(verr),
				"panic": pn, "oracle": verdictName(bc.want), "method_rule": method.Describe(symr)}})
	}
	return explained, nil
}

func (b *bworld) symAuth(auth []entry) []string {
	var o []string
	for _, e := range auth {
		s := b.symPath(e.Path)
		if e.Bad {
			s += "(signature-and-public-key-of-" + b.sym[b.u.ID(e.Key.Address)] + ")"
		}
		o = append(o, s)
	}
	return o
}

// setAcl submits a correctly authorised SetAccountAcl for account acct (A or B) and leaves it in the pool.
func (b *bworld) setAcl(acct int, rule *MRule) error {
	all := b.fullAuth()
	if acct == b.B {
		all = []entry{b.ent(cDirect, 2, false, b.B, b.k[2]), b.ent(cDirect, 3, false, b.B, b.k[3])}
	}
	tx, err := b.contractTx([]*protos.InvokeRequest{aclReq("SetAccountAcl", map[string][]byte{"account_name": []byte(b.u.list[acct]),
		"acl": []byte(rule.JSON(b.u))})}, sn.K(6).Address, uris(all))
	if err != nil {
		return err
	}
	x, err := b.sign(tx, sn.K(6), "", all)
	if err != nil {
		return err
	}
	return b.admit(x, "authorised SetAccountAcl")
}

type bJob struct {
	ri int
	op string
}

func partB(r *ev.Run) {
	quick := r.Quick()
	maxFull, maxPhase := 3, 3
	if !quick {
		maxFull, maxPhase = 13, 5
	}
	agg := &bAgg{findings: map[string]bFinding{}}
	var jobs []bJob
	ruleIdx := []int{0, 1, 2, 3, 4, 5, 9}
	if !quick {
		ruleIdx = []int{0, 1, 2, 3, 4, 5, 6, 7, 8, 9}
	}
	for _, ri := range ruleIdx {
		for _, op := range acctOps {
			jobs = append(jobs, bJob{ri, op})
		}
	}
	jobs = append(jobs, bJob{1, opCallGuarded}, bJob{3, opCallGuarded}, bJob{0, opTakeover}, bJob{1, "initiator"}, bJob{10, "decimal-boundary"})
	var next int64 = -1
	var wg sync.WaitGroup
	workers := runtime.NumCPU()
	if workers > len(jobs) {
		workers = len(jobs)
	}
	for wk := 0; wk < workers; wk++ {
		wg.Add(1)
		go func() {
			defer wg.Done()
			for {
				ji := int(atomic.AddInt64(&next, 1))
				if ji >= len(jobs) {
					return
				}
				j := jobs[ji]
				func() {
					defer func() {
						if p := recover(); p != nil {
							if inc, ok := p.(sn.Inconclusive); ok {
								agg.mu.Lock()
								agg.incon = append(agg.incon, fmt.Sprintf("part B job %v: %s", j, inc.Why))
								agg.mu.Unlock()
								return
							}
							panic(p)
						}
					}()
					if err := runJob(r, agg, j, int64(ji)<<32, maxFull, maxPhase); err != nil {
						agg.mu.Lock()
						agg.incon = append(agg.incon, fmt.Sprintf("part B job rule#%d %s: harness could not drive the node: %v", j.ri, j.op, err))
						agg.mu.Unlock()
					}
				}()
			}
		}()
	}
	wg.Wait()
	// the same disagreement on every guarded account operation is one defect (of the evaluation or of a
	// step shared by all guards), not seven
	groups := map[string][]string{}
	for sg := range agg.findings {
		for _, op := range acctOps {
			if strings.Contains(sg, "|op="+op) {
				k := strings.Replace(sg, "|op="+op, "|op=*", 1)
				groups[k] = append(groups[k], sg)
			}
		}
	}
	for k, members := range groups {
		if len(members) < len(acctOps) {
			continue
		}
		sort.Strings(members)
		best := agg.findings[members[0]]
		for _, m := range members {
			if agg.findings[m].ord < best.ord {
				best = agg.findings[m]
			}
			delete(agg.findings, m)
		}
		best.sig = strings.Replace(k, "|op=*", "|op=every-guarded-account-operation", 1)
		agg.findings[best.sig] = best
	}
	var sigs []string
	for s := range agg.findings {
		sigs = append(sigs, s)
	}
	sort.Strings(sigs)
	for _, s := range sigs {
		f := agg.findings[s]
		report("end-to-end", f.sig, f.detail, f.witness)
	}
	sort.Strings(agg.incon)
	for _, s := range agg.incon {
		r.Inconclusive(s)
	}
	fmt.Fprintf(os.Stderr, "c11: part B: %d transactions verified, %d finding signatures, %d inconclusive jobs\n", r.Counter("B.transactions-verified"), len(sigs), len(agg.incon))
}

func runJob(r *ev.Run, agg *bAgg, j bJob, ord int64, maxFull, maxPhase int) error {
	b, err := newWorld(j.ri)
	if err != nil {
		return fmt.Errorf("set-up: %v", err)
	}
	defer b.n.Drop()
	r.Count("B.worlds", 1)
	switch j.op {
	case opCallGuarded:
		return jobMethod(r, agg, b, j, ord, maxFull)
	case opTakeover:
		return jobTakeover(r, agg, b, j)
	case "initiator":
		return jobInitiator(r, agg, b, j)
	case "decimal-boundary":
		return jobDecimal(r, agg, b)
	}
	menu := b.menu()
	full := subsets(len(menu), maxFull)
	part := subsets(len(menu), maxPhase)
	liveWith := func(acct int, rule *MRule) *World {
		l := &World{N: b.u}
		l.Rules = b.w.Rules
		l.Rules[acct] = rule
		return l
	}
	known, err := b.sweep(r, agg, j.ri, j.op, "base", menu, full, ord, nil, nil, nil)
	if err != nil {
		return err
	}
	// pending / confirmed change of the NESTED account's rule
	if usesNested(b.w.Rules[b.A], b.B) {
		nb := thr(1000, int64(b.k[2]), 1000)
		if err := b.setAcl(b.B, nb); err != nil {
			return err
		}
		if _, err := b.sweep(r, agg, j.ri, j.op, "nested-rule-change-pending", menu, part, ord+1<<20, nil, liveWith(b.B, nb), known); err != nil {
			return err
		}
		if err := b.mine(); err != nil {
			return err
		}
		b.w.Rules[b.B] = nb
		if known, err = b.sweep(r, agg, j.ri, j.op, "nested-rule-change-confirmed", menu, part, ord+2<<20, nil, nil, nil); err != nil {
			return err
		}
	}
	// pending / confirmed change of the account's own rule
	na := thr(1000, int64(b.k[3]), 1000)
	if err := b.setAcl(b.A, na); err != nil {
		return err
	}
	if _, err := b.sweep(r, agg, j.ri, j.op, "rule-change-pending", menu, part, ord+3<<20, nil, liveWith(b.A, na), known); err != nil {
		return err
	}
	if err := b.mine(); err != nil {
		return err
	}
	b.w.Rules[b.A] = na
	_, err = b.sweep(r, agg, j.ri, j.op, "rule-change-confirmed", menu, part, ord+4<<20, nil, nil, nil)
	return err
}

// jobMethod: a method rule set through SetMethodAcl guards $verif2.run.
func jobMethod(r *ev.Run, agg *bAgg, b *bworld, j bJob, ord int64, maxFull int) error {
	ini := sn.K(6)
	all := b.fullAuth()
	// $verif2 is owned by A
	p := (&sn.ProgBuilder{}).Put(aclu.GetContract2AccountBucket(), []byte(guarded), []byte(acctName(digitsA)))
	tx, err := b.contractTx([]*protos.InvokeRequest{sn.VerifReq(sn.VerifContract, p.String())}, ini.Address, uris(all))
	if err != nil {
		return err
	}
	x, err := b.sign(tx, ini, "", all)
	if err != nil {
		return err
	}
	if err := b.admit(x, "map guarded contract"); err != nil {
		return err
	}
	if err := b.mine(); err != nil {
		return err
	}
	m := thr(1000, int64(b.k[0]), 500, int64(b.k[1]), 500, int64(b.A), 1000)
	if j.ri == 3 {
		m = ksets([]int{b.k[0], b.k[1]}, []int{b.A})
	}
	menu := b.methodMenu()
	subs := subsets(len(menu), maxFull+1)
	// before the rule exists everybody may call: not part of the statement; count only
	setTx, err := b.contractTx([]*protos.InvokeRequest{aclReq("SetMethodAcl", map[string][]byte{"contract_name": []byte(guarded), "method_name": []byte(sn.VerifMethod),
		"acl": []byte(m.JSON(b.u))})}, ini.Address, uris(all))
	if err != nil {
		return err
	}
	x, err = b.sign(setTx, ini, "", all)
	if err != nil {
		return err
	}
	if err := b.admit(x, "SetMethodAcl"); err != nil {
		return err
	}
	// pending: the method has NO confirmed rule yet -> outside the statement, only observed
	free := 0
	for _, s := range subsets(len(menu), 1) {
		var auth []entry
		for _, i := range s {
			auth = append(auth, menu[i])
		}
		tx, err := b.body(opCallGuarded, uris(auth))
		if err != nil {
			return err
		}
		x, err := b.sign(tx, ini, "", auth)
		if err != nil {
			return err
		}
		if ok, _, _ := b.verify(x); ok {
			free++
		}
	}
	r.Count("B.observed.calls-accepted-while-first-method-rule-is-only-pending", free)
	if err := b.mine(); err != nil {
		return err
	}
	_, err = b.sweep(r, agg, j.ri, opCallGuarded, "base", menu, subs, ord, m, nil, nil)
	return err
}

// jobTakeover: observation only (the statement does not speak about the mapping bucket):
// who may re-point an existing contract at another account?
func jobTakeover(r *ev.Run, agg *bAgg, b *bworld, j bJob) error {
	ini := sn.K(6)
	try := func(auth []entry) (bool, error) {
		tx, err := b.body(opTakeover, uris(auth))
		if err != nil {
			return false, err
		}
		x, err := b.sign(tx, ini, "", auth)
		if err != nil {
			return false, err
		}
		ok, _, pn := b.verify(x)
		if pn != "" {
			return false, fmt.Errorf("panic: %s", pn)
		}
		return ok, nil
	}
	onlyNew, err := try([]entry{b.ent(cDirect, 0, false, b.C, b.k[0])}) // satisfies C (new owner), not A... A rule#0 is k1 too but under A/
	if err != nil {
		return err
	}
	onlyOld, err := try([]entry{b.ent(cDirect, 0, false, b.A, b.k[0])})
	if err != nil {
		return err
	}
	nobody, err := try(nil)
	if err != nil {
		return err
	}
	r.Count("B.observed.remap-existing-contract.accepted-with-NEW-owner-signers-only", b2i(onlyNew))
	r.Count("B.observed.remap-existing-contract.accepted-with-OLD-owner-signers-only", b2i(onlyOld))
	r.Count("B.observed.remap-existing-contract.accepted-without-signers", b2i(nobody))
	r.Count("B.observed.remap-existing-contract.probes", 3)
	// mapping value that is no account name at all
	p := (&sn.ProgBuilder{}).Put(aclu.GetContract2AccountBucket(), []byte(contOwn), []byte(sn.K(5).Address))
	tx, err := b.contractTx([]*protos.InvokeRequest{sn.VerifReq(sn.VerifContract, p.String())}, ini.Address, nil)
	if err != nil {
		return err
	}
	x, err := b.sign(tx, ini, "", nil)
	if err != nil {
		return err
	}
	ok, _, _ := b.verify(x)
	r.Count("B.observed.remap-existing-contract-to-a-plain-address.accepted-without-signers", b2i(ok))
	return nil
}

func b2i(b bool) int {
	if b {
		return 1
	}
	return 0
}

// jobInitiator: the initiator's own signature. Only the sandwich is enforced.
func jobInitiator(r *ev.Run, agg *bAgg, b *bworld, j bJob) error {
	// rule#1: k1:0.5 + k2:0.5 >= 1
	type probe struct {
		name     string
		init     *sn.Key
		initAcct string
		auth     []entry
	}
	A := acctName(digitsA)
	probes := []probe{
		{"initiator k1 (member) bare, auth [A/k2]", sn.K(0), "", []entry{b.ent(cDirect, 1, false, b.A, b.k[1])}},
		{"initiator k1 (member) bare, auth [A/k1,A/k2]", sn.K(0), "", []entry{b.ent(cDirect, 0, false, b.A, b.k[0]), b.ent(cDirect, 1, false, b.A, b.k[1])}},
		{"initiator k1 (member) bare, auth []", sn.K(0), "", nil},
		{"initiator = account A signed by k1, auth [A/k2]", sn.K(0), A, []entry{b.ent(cDirect, 1, false, b.A, b.k[1])}},
		{"initiator = account A signed by k1, auth []", sn.K(0), A, nil},
		{"initiator = account A signed by k7 (outsider), auth [A/k1,A/k2]", sn.K(6), A, []entry{b.ent(cDirect, 0, false, b.A, b.k[0]), b.ent(cDirect, 1, false, b.A, b.k[1])}},
	}
	for _, op := range []string{opSetAccountAcl, opSpend} {
		for pi, p := range probes {
			tx, err := b.body(op, uris(p.auth))
			if err != nil {
				return err
			}
			x, err := b.sign(tx, p.init, p.initAcct, p.auth)
			if err != nil {
				return err
			}
			ok, verr, pn := b.verify(x)
			var paths [][]int8
			for _, e := range p.auth {
				paths = append(paths, e.Path)
			}
			lo := b.w.OracleAccount(b.A, paths)
			// liberal: the initiator's key counts as if it had signed for A
			hi := b.w.OracleAccount(b.A, append(append([][]int8{}, paths...), []int8{int8(b.A), int8(b.u.ID(p.init.Address))}))
			r.Case(fmt.Sprintf("B|initiator|%s|%d", op, pi), true)
			r.Count("B.initiator-probes", 1)
			r.Count("B.transactions-verified", 1)
			switch {
			case pn != "":
				agg.add(bFinding{sig: "tx|panic-in-VerifyTx", detail: p.name + ": " + pn})
			case ok && hi == MustReject:
				agg.add(bFinding{sig: "tx|accepted-without-satisfying-confirmed-rule|op=" + op + "|initiator-probe",
					detail:  fmt.Sprintf("%s: %s accepted although rule %s is not satisfied even counting the initiator", p.name, op, b.w.Rules[b.A].Describe(func(i int) string { return b.sym[i] })),
					witness: map[string]interface{}{"probe": p.name, "op": op}})
			case !ok && lo == MustAccept && p.initAcct == "":
				agg.add(bFinding{sig: "tx|refused-although-confirmed-rule-satisfied|op=" + op + "|initiator-probe",
					detail: fmt.Sprintf("%s: %s refused (%v) although auth_require alone satisfies the rule", p.name, op, verr), witness: map[string]interface{}{"probe": p.name, "op": op}})
			case lo != hi:
				r.Count("B.initiator-own-signature-decides(unspecified)."+map[bool]string{true: "node-counts-it", false: "node-ignores-it"}[ok], 1)
			}
		}
	}
	return nil
}

// jobDecimal: the decimal-boundary behaviour of threshold rules, through a rule written as JSON on chain.
func jobDecimal(r *ev.Run, agg *bAgg, b *bworld) error {
	symr := func(i int) string { return b.sym[i] }
	rule := b.w.Rules[b.A]
	e := []entry{b.ent(cDirect, 0, false, b.A, b.k[0]), b.ent(cDirect, 1, false, b.A, b.k[1]), b.ent(cDirect, 2, false, b.A, b.k[2]), b.ent(cDirect, 3, false, b.A, b.k[3])}
	for _, set := range [][]int{{0, 2, 3}, {0, 1}, {1, 2}, {2, 3}, {0, 3}} {
		var acc, rej [][]string
		var sum int64
		for _, i := range set {
			sum += rule.W[b.k[i]]
		}
		var ferr error
		perm(set, func(p []int) {
			var auth []entry
			for _, i := range p {
				auth = append(auth, e[i])
			}
			ok, _, pn, err := b.attempt(opSetAccountAcl, auth)
			if err != nil || pn != "" {
				ferr = fmt.Errorf("decimal probe: %v %s", err, pn)
				return
			}
			r.Count("B.transactions-verified", 1)
			r.Count("B.decimal-boundary.transactions", 1)
			if ok {
				acc = append(acc, b.symAuth(auth))
			} else {
				rej = append(rej, b.symAuth(auth))
			}
		})
		if ferr != nil {
			return ferr
		}
		r.Case(fmt.Sprintf("B|decimal-boundary|%v", set), true)
		w := map[string]interface{}{"rule(A) confirmed": rule.JSON(b.u), "A": acctName(digitsA), "operation": opSetAccountAcl, "accepted_auth_require_orders": acc, "refused_auth_require_orders": rej}
		switch {
		case len(acc) > 0 && len(rej) > 0:
			agg.add(bFinding{sig: "acl|threshold|answer-depends-on-signer-order", ord: 1,
				detail: fmt.Sprintf("rule(A)=%s confirmed; SetAccountAcl with auth_require %v: VerifyTx accepts, with the same entries in order %v it refuses", rule.Describe(symr), acc[0], rej[0]), witness: w})
		case sum >= rule.Accept && len(acc) == 0:
			agg.add(bFinding{sig: "acl|threshold|decimal-weights-adding-up-to-threshold-rejected", ord: 1,
				detail: fmt.Sprintf("rule(A)=%s confirmed; SetAccountAcl with auth_require %v (weights add up to the threshold as written) is refused in every order", rule.Describe(symr), rej[0]), witness: w})
		case sum < rule.Accept && len(rej) == 0:
			agg.add(bFinding{sig: "tx|accepted-without-satisfying-confirmed-rule|op=" + opSetAccountAcl + "|decimal-boundary", ord: 1,
				detail: fmt.Sprintf("rule(A)=%s confirmed; auth_require %v accepted below the threshold", rule.Describe(symr), acc[0]), witness: w})
		}
	}
	return nil
}

func partBFloors(r *ev.Run) {
	r.Floor("B.churn.lookups", 1000)
	r.Floor("B.churn.walks", 100)
	r.Floor("B.decimal-boundary.transactions", 10)
	r.Floor("B.transactions-verified", 5000)
	r.Floor("B.oracle.must-accept", 500)
	r.Floor("B.oracle.must-reject", 2000)
	for _, op := range append(append([]string{}, acctOps...), opCallGuarded) {
		r.Floor("B.op."+op, 100)
	}
	for _, ph := range []string{"rule-change-pending", "rule-change-confirmed", "nested-rule-change-pending", "nested-rule-change-confirmed"} {
		r.Floor("B.phase."+ph+".must-accept", 20)
		r.Floor("B.phase."+ph+".must-reject", 20)
	}
	for _, c := range []string{cDirect, cNested, cOther, cBare, cNameBefore, cLookalike, cBadSig, cRepeat} {
		r.Floor("B.cases-with."+c, 100)
	}
	r.Floor("B.node.accepted", 500)
	r.Floor("B.node.refused", 2000)
	r.Floor("B.observed.remap-existing-contract.probes", 3)
	r.Floor("B.initiator-probes", 10)
}
