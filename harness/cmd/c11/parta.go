package main

// Part A: aclu.IdentifyAccount / aclu.CheckContractMethodPerm driven directly with a stub
// AclManager over an exhaustively enumerated small universe.

import (
	"fmt"
	"os"
	"runtime"
	"sort"
	"strings"
	"sync"
	"sync/atomic"
	"time"

	aclu "github.com/xuperchain/xupercore/kernel/permission/acl/utils"
	pb "github.com/xuperchain/xupercore/protos"

	"verif/ev"
	sn "verif/simnode"
)

// ---------------------------------------------------------------------------------------------
// universe

const (
	acctA     = "XC1111111111111111@xuper"
	acctB     = "XC2222222222222222@xuper"
	acctNone  = "XC9999999999999999@xuper"  // account-format name without a rule
	laLong    = "XC11111111111111111@xuper" // 17 digits: not an account name at all
	laChain   = "XC1111111111111111@xuper2" // the root is a proper prefix of it
	laShort   = "XC1111111111111111@xupe"   // it is a proper prefix of the root
	laNoChain = "XC1111111111111111"
	ctrName   = "counter"
	mthName   = "increase"
)

type Universe struct {
	N                     *Names
	K                     [6]int // k1..k6 (k5, k6 are never members in the exhaustive boxes)
	A, B, None            int
	LLong, LChain, LShort int
	LNoChain, Empty       int
	sym                   map[int]string
	uriSym                map[string]string
}

func NewUniverse() *Universe {
	u := &Universe{N: NewNames(), sym: map[int]string{}}
	for i := 0; i < 6; i++ {
		addr := sn.K(i).Address
		if strings.HasPrefix(addr, "XC") || strings.Contains(addr, "/") {
			panic("test address looks like an account")
		}
		u.K[i] = u.N.ID(addr)
		u.sym[u.K[i]] = fmt.Sprintf("k%d", i+1)
	}
	reg := func(s, sym string) int { id := u.N.ID(s); u.sym[id] = sym; return id }
	u.A = reg(acctA, "A")
	u.B = reg(acctB, "B")
	u.None = reg(acctNone, "NOACCT")
	u.LLong = reg(laLong, "A+digit")
	u.LChain = reg(laChain, "A+chainsuffix")
	u.LShort = reg(laShort, "A-chainprefix")
	u.LNoChain = reg(laNoChain, "A-nochain")
	u.Empty = reg("", "")
	return u
}

func (u *Universe) Sym(i int) string { return u.sym[i] }

// uri builds a URI string and its parsed path from symbolic ids.
func (u *Universe) uri(ids ...int) (string, []int8) {
	parts := make([]string, len(ids))
	p := make([]int8, len(ids))
	for i, id := range ids {
		parts[i] = u.N.list[id]
		p[i] = int8(id)
	}
	return strings.Join(parts, "/"), p
}

func (u *Universe) symURI(p []int8) string {
	parts := make([]string, len(p))
	for i, id := range p {
		parts[i] = u.sym[int(id)]
	}
	return strings.Join(parts, "/")
}

// URI categories (structural role of a signer URI relative to the evaluated rule)
const (
	cDirect     = "direct-signer"
	cNested     = "signer-of-nested-account"
	cOther      = "signer-of-other-account"
	cBare       = "bare-key-offered-to-account-rule"
	cNameBefore = "unverified-name-before-the-signing-key"
	cLookalike  = "lookalike-of-root-account"
	cNoRule     = "ruleless-account-in-path"
	cMalformed  = "empty-path-component"
	cDeep       = "self-or-depth-3-nesting"
	cOutsider   = "direct-signer-not-in-any-rule"
)

type URI struct {
	S    string
	P    []int8
	Cat  string
	Core bool
}

// ---------------------------------------------------------------------------------------------
// stub manager

type stubMgr struct {
	acct map[string]*pb.Acl
	meth map[string]*pb.Acl
}

func (s *stubMgr) GetAccountACL(n string) (*pb.Acl, error) { return s.acct[n], nil }
func (s *stubMgr) GetContractMethodACL(c, m string) (*pb.Acl, error) {
	return s.meth[c+"\x01"+m], nil
}
func (s *stubMgr) GetAccountAddresses(string) ([]string, error) { return nil, nil }

// Config: one assignment of rules.
type Config struct {
	Acct   map[int]*MRule
	Method *MRule // nil in account-root boxes
	Class  string // coarse class for shapes
}

func (c *Config) world(u *Universe) *World {
	w := &World{N: u.N}
	for id, r := range c.Acct {
		w.Rules[id] = r
	}
	return w
}

func (c *Config) stub(u *Universe) *stubMgr {
	s := &stubMgr{acct: map[string]*pb.Acl{}, meth: map[string]*pb.Acl{}}
	for id, r := range c.Acct {
		s.acct[u.N.list[id]] = r.Acl(u.N)
	}
	if c.Method != nil {
		s.meth[ctrName+"\x01"+mthName] = c.Method.Acl(u.N)
	}
	return s
}

func (c *Config) describe(u *Universe) map[string]string {
	m := map[string]string{}
	for id, r := range c.Acct {
		m["rule("+u.sym[id]+")"] = r.Describe(u.Sym)
	}
	if c.Method != nil {
		m["rule(method)"] = c.Method.Describe(u.Sym)
	}
	return m
}

// impl results
const (
	iReject = 0
	iAccept = 1
	iError  = 2
	iPanic  = 3
)

type Box struct {
	Name    string
	U       *Universe
	Root    int // account id, -1 = method root
	URIs    []URI
	MaxLen  int
	Ordered bool // enumerate sequences instead of multisets
	Configs []*Config
	Mono    bool

	lists [][]uint8        // enumerated signer lists (indices into URIs)
	index map[string]int32 // key(list) -> position (multisets only)
	lcat  []int32          // category-multiset id per list
	lnt   []bool           // list is non-trivial
	cats  []string
}

func key(l []uint8) string { return string(l) }

func (b *Box) enumerate() {
	n := len(b.URIs)
	var cur []uint8
	var rec func(start int)
	rec = func(start int) {
		b.lists = append(b.lists, append([]uint8(nil), cur...))
		if len(cur) == b.MaxLen {
			return
		}
		s := start
		if b.Ordered {
			s = 0
		}
		for i := s; i < n; i++ {
			cur = append(cur, uint8(i))
			rec(i)
			cur = cur[:len(cur)-1]
		}
	}
	rec(0)
	b.index = map[string]int32{}
	catID := map[string]int32{}
	for i, l := range b.lists {
		if !b.Ordered {
			b.index[key(l)] = int32(i)
		}
		cs := make([]string, 0, len(l))
		dup := false
		nt := false
		for j, x := range l {
			cs = append(cs, b.URIs[x].Cat)
			if b.URIs[x].Cat != cDirect {
				nt = true
			}
			for _, y := range l[:j] {
				if y == x {
					dup = true
				}
			}
		}
		sort.Strings(cs)
		s := strings.Join(cs, "+")
		if dup {
			s += "+REPEATED-ENTRY"
			nt = true
		}
		id, ok := catID[s]
		if !ok {
			id = int32(len(b.cats))
			catID[s] = id
			b.cats = append(b.cats, s)
		}
		b.lcat = append(b.lcat, id)
		b.lnt = append(b.lnt, nt)
	}
}

func (b *Box) call(s *stubMgr, uris []string) (res int, errText string) {
	defer func() {
		if p := recover(); p != nil {
			res = iPanic
			errText = fmt.Sprint(p)
		}
	}()
	var ok bool
	var err error
	if b.Root >= 0 {
		ok, err = aclu.IdentifyAccount(s, b.U.N.list[b.Root], uris)
	} else {
		ok, err = aclu.CheckContractMethodPerm(s, uris, ctrName, mthName)
	}
	switch {
	case ok:
		return iAccept, ""
	case err != nil:
		return iError, err.Error()
	}
	return iReject, ""
}

func (b *Box) oracle(w *World, c *Config, paths [][]int8) int {
	if b.Root >= 0 {
		return w.OracleAccount(b.Root, paths)
	}
	return w.OracleMethod(c.Method, paths)
}

func (b *Box) rootRule(c *Config) *MRule {
	if b.Root >= 0 {
		return c.Acct[b.Root]
	}
	return c.Method
}

func (b *Box) materialise(l []uint8) ([]string, [][]int8) {
	us := make([]string, len(l))
	ps := make([][]int8, len(l))
	for i, x := range l {
		us[i] = b.URIs[x].S
		ps[i] = b.URIs[x].P
	}
	return us, ps
}

// trace: the supporter sets of every account node the model visits (liberal reading), as a
// canonical string; two lists with the same trace are indistinguishable for the model.
func (b *Box) trace(w *World, c *Config, l []uint8) string {
	_, ps := b.materialise(l)
	var paths [][]int8
	var bare uint32
	for _, p := range ps {
		if hasEmpty(w, p) {
			continue
		}
		if b.Root >= 0 {
			if len(p) == 1 {
				bare |= 1 << uint(p[0])
				continue
			}
			if int(p[0]) != b.Root {
				continue
			}
			paths = append(paths, p[1:])
		} else {
			paths = append(paths, p)
		}
	}
	return traceString(w, paths, bare)
}

func traceString(w *World, paths [][]int8, bare uint32) string {
	tr := map[string]uint32{}
	w.supporters(paths, bare, true, 0, tr, "")
	var ks []string
	for k, v := range tr {
		if v != 0 { // a node that gathers no supporter is the same as a node never visited
			ks = append(ks, fmt.Sprintf("%s=%x", k, v))
		}
	}
	sort.Strings(ks)
	return strings.Join(ks, ";")
}

func (b *Box) rootSupp(w *World, c *Config, l []uint8) uint32 {
	_, ps := b.materialise(l)
	var paths [][]int8
	var bare uint32
	for _, p := range ps {
		if hasEmpty(w, p) {
			continue
		}
		if b.Root >= 0 {
			if len(p) == 1 {
				bare |= 1 << uint(p[0])
				continue
			}
			if int(p[0]) != b.Root {
				continue
			}
			paths = append(paths, p[1:])
		} else {
			paths = append(paths, p)
		}
	}
	return w.supporters(paths, bare, true, 0, nil, "")
}

func without(l []uint8, i int) []uint8 {
	o := append([]uint8(nil), l[:i]...)
	return append(o, l[i+1:]...)
}

type finding struct {
	sig     string
	detail  string
	witness map[string]interface{}
}

// diagnose minimises a disagreement and derives its structural signature.
func (b *Box) diagnose(c *Config, l []uint8, impl int, errText string, want int) finding {
	w := c.world(b.U)
	s := c.stub(b.U)
	still := func(x []uint8) bool {
		us, ps := b.materialise(x)
		r, _ := b.call(s, us)
		o := b.oracle(w, c, ps)
		if want == MustReject {
			return o == MustReject && r == iAccept
		}
		return o == MustAccept && r != iAccept
	}
	min := append([]uint8(nil), l...)
	if impl == iPanic {
		return b.panicFinding(c, l, errText)
	}
	for changed := true; changed; {
		changed = false
		for i := range min {
			t := without(min, i)
			if still(t) {
				min = t
				changed = true
				break
			}
		}
	}
	us, ps := b.materialise(min)
	r, et := b.call(s, us)
	rootKind := "account-rule"
	if b.Root < 0 {
		rootKind = "method-rule"
	}
	var sig string
	if want == MustReject {
		// URIs the implementation needed although the model says they add no supporter
		full := b.trace(w, c, min)
		off := map[string]bool{}
		for i, x := range min {
			if b.trace(w, c, without(min, i)) == full {
				cat := b.URIs[x].Cat
				for j, y := range min {
					if j != i && y == x {
						cat = "repeated-entry"
					}
				}
				off[cat] = true
			}
		}
		var os []string
		for k := range off {
			os = append(os, k)
		}
		sort.Strings(os)
		if len(os) == 0 {
			os = []string{"none(all entries are genuine supporters, rule not reached)"}
		}
		sig = "acl|accepts-unsatisfied-rule|counted=" + strings.Join(os, ",")
	} else {
		cs := map[string]bool{}
		for _, x := range min {
			cs[b.URIs[x].Cat] = true
		}
		var os []string
		for k := range cs {
			os = append(os, k)
		}
		sort.Strings(os)
		rr := b.rootRule(c)
		kind := fmt.Sprintf("kind%d", rr.Kind)
		if rr.Kind == 1 {
			kind = "threshold"
			if rr.sum(b.rootSupp(w, c, min)) == rr.Accept {
				kind += "|sum==accept"
			} else {
				kind += "|sum>accept"
			}
		} else if rr.Kind == 2 {
			kind = "keysets"
		}
		sig = "acl|rejects-satisfied-rule|" + kind + "|signers=" + strings.Join(os, ",")
		if r == iError {
			sig += "|with-error"
		}
		// causal probe: does lowering every threshold by 0.001 turn the answer into accept?
		c2 := &Config{Acct: map[int]*MRule{}, Method: c.Method, Class: c.Class}
		lower := func(x *MRule) *MRule {
			if x == nil || x.Kind != 1 {
				return x
			}
			y := *x
			y.Accept--
			return &y
		}
		for id, x := range c.Acct {
			c2.Acct[id] = lower(x)
		}
		c2.Method = lower(c.Method)
		if r2, _ := b.call(c2.stub(b.U), us); r2 == iAccept && r != iAccept {
			sig = "acl|rejects-satisfied-rule|threshold-sum-exactly-at-accept-value"
		}
	}
	_ = rootKind
	var syms []string
	for _, p := range ps {
		syms = append(syms, b.U.symURI(p))
	}
	wit := map[string]interface{}{
		"box": b.Name, "root": rootKind, "rules": c.describe(b.U), "signer_uris": us, "signer_uris_symbolic": syms,
		"implementation": [...]string{"reject", "accept", "reject+error", "panic"}[r], "error": et, "oracle": verdictName(want),
		"names": map[string]string{"A": acctA, "B": acctB},
	}
	if b.Root >= 0 {
		wit["call"] = fmt.Sprintf("IdentifyAccount(stub, %q, signer_uris)", b.U.N.list[b.Root])
	} else {
		wit["call"] = fmt.Sprintf("CheckContractMethodPerm(stub, signer_uris, %q, %q)", ctrName, mthName)
	}
	jr := map[string]string{}
	for id, rl := range c.Acct {
		jr[b.U.N.list[id]] = rl.JSON(b.U.N)
	}
	if c.Method != nil {
		jr[ctrName+"."+mthName] = c.Method.JSON(b.U.N)
	}
	wit["rules_json"] = jr
	return finding{sig: sig, detail: fmt.Sprintf("%s: rules %v, signers %v: implementation %s, statement %s", b.Name, c.describe(b.U), syms,
		wit["implementation"], verdictName(want)), witness: wit}
}

type boxStats struct {
	evals, accept, reject, errs, mustAcc, mustRej, unspec, monoPairs, monoSkipped int64
	nontrivial, bad                                                               int64
	catSeen                                                                       map[string]int64
}

// Run evaluates every (config, list) pair of the box.
func (b *Box) Run(r *ev.Run) {
	t0 := time.Now() // progress output only
	b.enumerate()
	nl := len(b.lists)
	// successor table for monotonicity
	var succ [][]int32
	if b.Mono && !b.Ordered {
		succ = make([][]int32, nl)
		for i, l := range b.lists {
			if len(l) >= b.MaxLen {
				continue
			}
			row := make([]int32, len(b.URIs))
			for u := range b.URIs {
				t := append(append([]uint8(nil), l...), uint8(u))
				sort.Slice(t, func(a, c int) bool { return t[a] < t[c] })
				row[u] = b.index[key(t)]
			}
			succ[i] = row
		}
	}
	malformedList := make([]bool, nl)
	for i, l := range b.lists {
		for _, x := range l {
			if b.URIs[x].Cat == cMalformed || b.URIs[x].Cat == cNameBefore {
				malformedList[i] = true
			}
		}
	}
	classID := map[string]int{}
	var classes []string
	for _, c := range b.Configs {
		if _, ok := classID[c.Class]; !ok {
			classID[c.Class] = len(classes)
			classes = append(classes, c.Class)
		}
	}

	workers := runtime.NumCPU()
	var next int64 = -1
	var wg sync.WaitGroup
	var mu sync.Mutex
	total := boxStats{catSeen: map[string]int64{}}
	shapes := map[uint64]bool{}
	// disagreements are grouped by a cheap pre-signature; the smallest (config, list) of each
	// group is minimised and diagnosed after the sweep, so the outcome is deterministic
	type preSig struct {
		want, got int8
		lcat      int32
		kind      int8
		monoCat   string
	}
	type hit struct {
		ci, li, u int
		et        string
	}
	less := func(a, b hit) bool {
		if a.ci != b.ci {
			return a.ci < b.ci
		}
		if a.li != b.li {
			return a.li < b.li
		}
		return a.u < b.u
	}
	hits := map[preSig]hit{}

	for wk := 0; wk < workers; wk++ {
		wg.Add(1)
		go func() {
			defer wg.Done()
			st := boxStats{catSeen: map[string]int64{}}
			lshapes := map[uint64]bool{}
			lhits := map[preSig]hit{}
			note := func(k preSig, h hit) {
				if o, ok := lhits[k]; !ok || less(h, o) {
					lhits[k] = h
				}
			}
			res := make([]int8, nl)
			uris := make([]string, 0, 8)
			paths := make([][]int8, 0, 8)
			catCount := make([]int64, len(b.cats))
			for {
				ci := int(atomic.AddInt64(&next, 1))
				if ci >= len(b.Configs) {
					break
				}
				c := b.Configs[ci]
				w := c.world(b.U)
				s := c.stub(b.U)
				cid := uint64(classID[c.Class])
				rk := int8(0)
				if rr := b.rootRule(c); rr != nil {
					rk = int8(rr.Kind)
				}
				for li, l := range b.lists {
					uris = uris[:0]
					paths = paths[:0]
					for _, x := range l {
						uris = append(uris, b.URIs[x].S)
						paths = append(paths, b.URIs[x].P)
					}
					got, et := b.call(s, uris)
					want := b.oracle(w, c, paths)
					res[li] = int8(got)
					st.evals++
					catCount[b.lcat[li]]++
					switch got {
					case iAccept:
						st.accept++
					case iReject:
						st.reject++
					default:
						st.errs++
					}
					switch want {
					case MustAccept:
						st.mustAcc++
					case MustReject:
						st.mustRej++
					default:
						st.unspec++
					}
					if b.lnt[li] {
						st.nontrivial++
						lshapes[cid<<40|uint64(b.lcat[li])<<8|uint64(want)<<4|uint64(got)] = true
					}
					if got == iPanic || (want == MustReject && got == iAccept) || (want == MustAccept && got != iAccept) {
						st.bad++
						note(preSig{want: int8(want), got: int8(got), lcat: b.lcat[li], kind: rk}, hit{ci: ci, li: li, et: et})
					}
				}
				if succ != nil && b.rootRule(c) != nil && allNonNegative(c) {
					for li := range b.lists {
						if res[li] != iAccept || succ[li] == nil {
							continue
						}
						for u, t := range succ[li] {
							st.monoPairs++
							if res[t] == iAccept {
								continue
							}
							if malformedList[t] {
								st.monoSkipped++ // fail-closed on a syntactically broken URI: allowed
								continue
							}
							st.bad++
							note(preSig{got: res[t], monoCat: b.URIs[u].Cat}, hit{ci: ci, li: li, u: u})
						}
					}
				}
			}
			mu.Lock()
			total.evals += st.evals
			total.accept += st.accept
			total.reject += st.reject
			total.errs += st.errs
			total.mustAcc += st.mustAcc
			total.mustRej += st.mustRej
			total.unspec += st.unspec
			total.monoPairs += st.monoPairs
			total.monoSkipped += st.monoSkipped
			total.nontrivial += st.nontrivial
			total.bad += st.bad
			for i, n := range catCount {
				total.catSeen[b.cats[i]] += n
			}
			for k := range lshapes {
				shapes[k] = true
			}
			for k, h := range lhits {
				if o, ok := hits[k]; !ok || less(h, o) {
					hits[k] = h
				}
			}
			mu.Unlock()
		}()
	}
	wg.Wait()

	// diagnose one representative per group, in a fixed order
	var order []preSig
	for k := range hits {
		order = append(order, k)
	}
	sort.Slice(order, func(i, j int) bool { return less(hits[order[i]], hits[order[j]]) })
	var findings []finding
	seenSig := map[string]bool{}
	names := [...]string{"reject", "accept", "reject+error", "panic"}
	for _, k := range order {
		h := hits[k]
		c := b.Configs[h.ci]
		var f finding
		if k.monoCat != "" {
			t := succ[h.li][h.u]
			us, ps := b.materialise(b.lists[t])
			var syms []string
			for _, p := range ps {
				syms = append(syms, b.U.symURI(p))
			}
			f = finding{
				sig: "acl|non-monotone|added=" + k.monoCat,
				detail: fmt.Sprintf("%s: rules %v: signers %v accepted, but with %s added the answer is %s", b.Name, c.describe(b.U),
					b.symList(b.lists[h.li]), b.U.symURI(b.URIs[h.u].P), names[k.got]),
				witness: map[string]interface{}{"box": b.Name, "rules": c.describe(b.U), "accepted_signers": b.symList(b.lists[h.li]),
					"added": b.URIs[h.u].S, "superset_signers": us, "superset_symbolic": syms},
			}
		} else {
			f = b.diagnose(c, b.lists[h.li], int(k.got), h.et, int(k.want))
		}
		if !seenSig[f.sig] {
			seenSig[f.sig] = true
			findings = append(findings, f)
		}
	}
	atomic.AddInt64(&disagreements, total.bad)
	// one real case per box for the evidence file
	if len(b.Configs) > 0 && nl > 0 {
		c := b.Configs[len(b.Configs)*2/3]
		l := b.lists[nl*3/5]
		us, ps := b.materialise(l)
		got, _ := b.call(c.stub(b.U), us)
		r.Sample(map[string]interface{}{"part": "A", "box": b.Name, "rules": c.describe(b.U), "signers": b.symList(l),
			"implementation": names[got], "oracle": verdictName(b.oracle(c.world(b.U), c, ps))})
	}

	r.Evals(int(total.evals))
	p := "A." + b.Name + "."
	r.Count(p+"evaluations", int(total.evals))
	r.Count(p+"rule-configs", len(b.Configs))
	r.Count(p+"signer-lists", nl)
	r.Count(p+"impl.accept", int(total.accept))
	r.Count(p+"impl.reject", int(total.reject))
	r.Count(p+"impl.reject-with-error", int(total.errs))
	r.Count(p+"oracle.must-accept", int(total.mustAcc))
	r.Count(p+"oracle.must-reject", int(total.mustRej))
	r.Count(p+"oracle.unspecified", int(total.unspec))
	r.Count(p+"monotonicity.pairs", int(total.monoPairs))
	r.Count(p+"monotonicity.allowed-fail-closed-on-malformed-uri", int(total.monoSkipped))
	r.Count("A.evaluations", int(total.evals))
	r.Count("A.oracle.must-accept", int(total.mustAcc))
	r.Count("A.oracle.must-reject", int(total.mustRej))
	r.Count("A.oracle.unspecified", int(total.unspec))
	r.Count("A.monotonicity.pairs", int(total.monoPairs))
	r.Count("A.nontrivial-evaluations", int(total.nontrivial))
	// URI category coverage: lists containing the category
	perCat := map[string]int64{}
	for s, n := range total.catSeen {
		seen := map[string]bool{}
		for _, c := range strings.Split(s, "+") {
			if c == "" {
				c = "EMPTY-LIST"
			}
			if !seen[c] {
				seen[c] = true
				perCat[c] += n
			}
		}
	}
	for c, n := range perCat {
		r.Count("A.lists-with."+c, int(n))
	}
	for k := range shapes {
		cid := int(k >> 40)
		lc := int(k >> 8 & 0xffffffff)
		r.Shape(fmt.Sprintf("A|%s|%s|%s|%s|impl=%d", b.Name, classes[cid], b.cats[lc], verdictName(int(k>>4&0xf)), k&0xf))
	}
	sort.Slice(findings, func(i, j int) bool { return findings[i].sig < findings[j].sig })
	for _, f := range findings {
		report("evaluation", f.sig, f.detail, f.witness)
	}
	fmt.Fprintf(os.Stderr, "c11: box %-22s configs=%d lists=%d evaluations=%d disagreements(total so far)=%d shapes=%d %.1fs\n", b.Name, len(b.Configs), nl, total.evals,
		atomic.LoadInt64(&disagreements), len(shapes), time.Since(t0).Seconds())
}

var disagreements int64

// panicFinding: a crash is reported as observed (no re-evaluation: Go's random map order can
// make the same input crash or not, e.g. when a null key set is met before a satisfied one).
func (b *Box) panicFinding(c *Config, l []uint8, text string) finding {
	feature := "other"
	for _, rl := range c.Acct {
		if rl.NilSet {
			feature = "rule-lists-a-null-key-set"
		}
	}
	if c.Method != nil && c.Method.NilSet {
		feature = "rule-lists-a-null-key-set"
	}
	us, _ := b.materialise(l)
	jr := map[string]string{}
	for id, rl := range c.Acct {
		jr[b.U.N.list[id]] = rl.JSON(b.U.N)
	}
	return finding{sig: "acl|panic-during-evaluation|" + feature,
		detail:  fmt.Sprintf("%s: rules %v, signers %v: the evaluation panicked: %s", b.Name, c.describe(b.U), b.symList(l), text),
		witness: map[string]interface{}{"box": b.Name, "rules": c.describe(b.U), "rules_json": jr, "signer_uris": us, "panic": text}}
}

func (b *Box) symList(l []uint8) []string {
	var out []string
	for _, x := range l {
		out = append(out, b.U.symURI(b.URIs[x].P))
	}
	return out
}

func allNonNegative(c *Config) bool {
	for _, r := range c.Acct {
		if !r.nonNegative() {
			return false
		}
	}
	if c.Method != nil && !c.Method.nonNegative() {
		return false
	}
	return true
}
