package main

// Part B, pool churn: the on-chain rules are read through the tip snapshot, which starts at the
// newest version of the key - possibly written by a PENDING rule change - and walks back to the
// confirmed one. While the pending change comes and goes (every Walk rolls the pool back and
// re-admits it) that read can fail half way. Whatever happens to the read, an outsider must never
// be identified as the account: failing closed is fine, answering "no rule, everyone passes" is not.

import (
	"fmt"
	"sync"
	"sync/atomic"
	"verif/memkv"

	aclu "github.com/xuperchain/xupercore/kernel/permission/acl/utils"

	"verif/ev"
	sn "verif/simnode"
)

func jobChurn(r *ev.Run) {
	defer func() {
		if p := recover(); p != nil {
			if inc, ok := p.(sn.Inconclusive); ok {
				r.Inconclusive(inc.Why)
				return
			}
			report("tx", "acl|panic-during-evaluation|pool-churn", fmt.Sprintf("panic while rules are read during pool churn: %v", p), nil)
		}
	}()
	b, err := newWorld(0)
	if err != nil {
		r.Inconclusive("churn: " + err.Error())
		return
	}
	defer b.n.Drop()
	// an authorised change of A's rule stays pending in the pool
	if err := b.setAcl(b.A, thr(1000, int64(b.k[1]), 1000)); err != nil {
		r.Inconclusive("churn: cannot submit the pending rule change: " + err.Error())
		return
	}
	A := acctName(digitsA)
	outsider := A + "/" + sn.K(7).Address
	walks := r.N(600, 4000)
	// storage-latency jitter: a reader then really gets descheduled between the look-ups of one
	// rule read, where the pool roll-back / re-admission batches of the walks land
	memkv.SetJitter(r.Seed*77+5, 5)
	defer memkv.SetJitter(0, 0)
	var done int32
	var lookups, failed, accepted int64
	var first string
	var wg sync.WaitGroup
	for g := 0; g < 3; g++ {
		wg.Add(1)
		go func() {
			defer wg.Done()
			for atomic.LoadInt32(&done) == 0 {
				ok, err := aclu.IdentifyAccount(b.n.Acl, A, []string{outsider})
				atomic.AddInt64(&lookups, 1)
				if err != nil {
					atomic.AddInt64(&failed, 1)
				}
				if ok {
					if atomic.AddInt64(&accepted, 1) == 1 {
						first = fmt.Sprintf("lookup %d: IdentifyAccount(%s, [%s]) = true, err = %v", atomic.LoadInt64(&lookups), A, outsider, err)
					}
				}
			}
		}()
	}
	for i := 0; i < walks; i++ {
		if err := b.n.Walk(b.n.StateTip(), false); err != nil {
			break
		}
	}
	atomic.StoreInt32(&done, 1)
	wg.Wait()
	r.Count("B.churn.walks", walks)
	r.Count("B.churn.lookups", int(lookups))
	r.Count("B.churn.lookups-failed-closed", int(failed))
	r.Evals(int(lookups))
	r.Shape("B|churn|outsider-lookups-while-pending-rule-change-is-rolled-back-and-re-admitted")
	if accepted > 0 {
		report("tx", "acl|accepts-unsatisfied-rule|rule-read-failed-and-was-taken-for-no-rule",
			fmt.Sprintf("while a pending change of A's rule was rolled back and re-admitted %d times, an outsider was identified as A in %d of %d lookups; %s", walks, accepted, lookups, first),
			map[string]interface{}{"account": A, "signer": outsider, "accepted": accepted, "lookups": lookups})
	}
}
