package main

// Rule-evaluation model written from the statement of C11 (not from the implementation).
//
// A signer URI is a path c0/c1/.../ck whose LAST component ck is a key whose signature
// has been verified upstream ("verified signer"); the components before it say on whose
// behalf it signs: ck for account c(k-1), which acts for account c(k-2), ... The model:
//
//   supporters(X, paths) = { k        : a path [k] (the verified key itself) }
//                        ∪ { account Y: paths [Y, ...] exist, Y has a rule, and
//                                       satisfied(Y, the tails of those paths) }
//   satisfied(X, paths)  = rule(X) accepts supporters(X, paths)
//   threshold rule: Σ weight(m) over the DISTINCT supporters m  >=  accept   (exact decimal arithmetic)
//   key-set rule  : some listed set ⊆ supporters
//
// Names that appear in the middle of a path but are neither a verified key standing at the
// end of its own path nor an account with a rule contribute nothing; paths under another
// root account contribute nothing; a repeated URI is the same supporter.
//
// Where the statement leaves a choice, two readings are evaluated and the oracle only
// demands what BOTH give ("strict" and "liberal"):
//   u1  a bare verified key `k` offered to an ACCOUNT rule (no `account/` prefix): strict
//       ignores it, liberal counts it as a supporter of every account rule evaluated;
//   u2  an account-format name without a rule on chain in the middle of a path: strict
//       "not satisfied", liberal "satisfied" (anyone may create that account anyway);
//   u3  an EMPTY listed key set: strict "never satisfied", liberal "vacuously contained";
//   u4  a URI with an empty path component or with a name that is not account-shaped before
//       the signing key: it contributes nothing; strict rejects the whole list (fail closed),
//       liberal ignores just that URI.

import (
	"fmt"
	"sort"
	"strings"

	pb "github.com/xuperchain/xupercore/protos"
)

const maxN = 24

// name kinds (own syntactic reading of valid.go's description: XC + 16 digits [+ @chain])
const (
	kKey     = iota // an address
	kAcctFmt        // account-format name
	kJunk           // neither (e.g. XC + 17 digits): an unverified, malformed name
	kEmpty          // ""
)

type Names struct {
	list []string
	kind []int
	id   map[string]int
}

func NewNames() *Names { return &Names{id: map[string]int{}} }

func classify(s string) int {
	if s == "" {
		return kEmpty
	}
	if !strings.HasPrefix(s, "XC") {
		return kKey
	}
	body := s[2:]
	if i := strings.Index(body, "@"); i >= 0 {
		if i+1 >= len(body) { // empty chain name
			return kJunk
		}
		body = body[:i]
	}
	if len(body) != 16 {
		return kJunk
	}
	for _, c := range body {
		if c < '0' || c > '9' {
			return kJunk
		}
	}
	return kAcctFmt
}

func (n *Names) ID(s string) int {
	if i, ok := n.id[s]; ok {
		return i
	}
	if len(n.list) >= maxN {
		panic("too many names")
	}
	i := len(n.list)
	n.id[s] = i
	n.list = append(n.list, s)
	n.kind = append(n.kind, classify(s))
	return i
}

// MRule is a rule in exact arithmetic (weights in 1/1000).
type MRule struct {
	Kind   int // pb.PermissionRule value: 1 threshold, 2 key sets
	NoPm   bool
	W      [maxN]int64
	Listed uint32
	Accept int64
	Sets   []uint32 // bitmask of members per set; 0 = empty set
	NilSet bool     // a listed set is JSON null (degenerate-rule probes only)
	NoSets bool     // akSets absent
}

func (r *MRule) nonNegative() bool {
	for _, w := range r.W {
		if w < 0 {
			return false
		}
	}
	return true
}

func (r *MRule) accepts(supp uint32, liberal bool) bool {
	if r.NoPm {
		return false
	}
	switch r.Kind {
	case 1:
		var s int64
		for i := 0; i < maxN; i++ {
			if supp&(1<<uint(i)) != 0 {
				s += r.W[i]
			}
		}
		return s >= r.Accept
	case 2:
		for _, m := range r.Sets {
			if m == 0 {
				if liberal {
					return true
				}
				continue
			}
			if m&^supp == 0 {
				return true
			}
		}
		return false
	}
	return false
}

func (r *MRule) sum(supp uint32) int64 {
	var s int64
	for i := 0; i < maxN; i++ {
		if supp&(1<<uint(i)) != 0 {
			s += r.W[i]
		}
	}
	return s
}

// World: which accounts have which rule.
type World struct {
	N     *Names
	Rules [maxN]*MRule
}

func (w *World) sat(rule *MRule, paths [][]int8, bare uint32, liberal bool, depth int) bool {
	return rule.accepts(w.supporters(paths, bare, liberal, depth, nil, ""), liberal)
}

// supporters computes the supporter set of one rule node. When tr is non-nil the supporter
// set of every account node visited is recorded under its path (diagnostics only).
func (w *World) supporters(paths [][]int8, bare uint32, liberal bool, depth int, tr map[string]uint32, at string) uint32 {
	var supp, done uint32
	if depth > 8 {
		return 0
	}
	for i, p := range paths {
		c := p[0]
		if len(p) == 1 {
			if w.N.kind[c] == kKey {
				supp |= 1 << uint(c)
			}
			continue
		}
		bit := uint32(1) << uint(c)
		if done&bit != 0 {
			continue
		}
		done |= bit
		var sub [8][]int8
		n := 0
		for _, q := range paths[i:] {
			if len(q) > 1 && q[0] == c && n < len(sub) {
				sub[n] = q[1:]
				n++
			}
		}
		switch {
		case w.Rules[c] != nil:
			var s uint32
			if tr != nil {
				s = w.supporters(sub[:n], bare, liberal, depth+1, tr, at+"/"+w.N.list[c])
			} else {
				s = w.supporters(sub[:n], bare, liberal, depth+1, nil, "")
			}
			if w.Rules[c].accepts(s, liberal) {
				supp |= bit
			}
		case w.N.kind[c] == kAcctFmt:
			if liberal {
				supp |= bit
			}
		}
	}
	if liberal {
		supp |= bare
	}
	if tr != nil {
		tr[at] = supp
	}
	return supp
}

const (
	MustReject = 0
	MustAccept = 1
	Unspec     = 2
)

func verdictName(v int) string { return [...]string{"must-reject", "must-accept", "unspecified"}[v] }

func combine(strict, liberal bool) int {
	switch {
	case strict && liberal:
		return MustAccept
	case !strict && !liberal:
		return MustReject
	}
	return Unspec
}

// hasEmpty: the URI is syntactically broken — an empty component, or a name that is not even
// account-shaped (a key, XC + 17 digits ...) standing BEFORE the signing key. Such a name is
// never verified and contributes nothing; whether the rest of the list is still evaluated
// (liberal) or the whole list refused (strict, fail closed) is left open (u4).
func hasEmpty(w *World, p []int8) bool {
	for i, c := range p {
		if w.N.kind[c] == kEmpty {
			return true
		}
		if i < len(p)-1 && w.N.kind[c] != kAcctFmt {
			return true
		}
	}
	return false
}

// OracleAccount: what the statement demands of IdentifyAccount(root, list).
func (w *World) OracleAccount(root int, list [][]int8) int {
	rule := w.Rules[root]
	if rule == nil {
		return Unspec
	}
	var buf [8][]int8
	paths := buf[:0]
	var bare uint32
	malformed := false
	for _, p := range list {
		if hasEmpty(w, p) {
			malformed = true
			continue
		}
		if len(p) == 1 {
			if w.N.kind[p[0]] == kKey {
				bare |= 1 << uint(p[0])
			}
			continue
		}
		if int(p[0]) != root {
			continue
		}
		paths = append(paths, p[1:])
	}
	strict := !malformed && w.sat(rule, paths, 0, false, 0)
	liberal := w.sat(rule, paths, bare, true, 0)
	return combine(strict, liberal)
}

// OracleMethod: what the statement demands of CheckContractMethodPerm(list, contract, method).
func (w *World) OracleMethod(rule *MRule, list [][]int8) int {
	if rule == nil {
		return Unspec
	}
	var buf [8][]int8
	paths := buf[:0]
	malformed := false
	for _, p := range list {
		if hasEmpty(w, p) {
			malformed = true
			continue
		}
		paths = append(paths, p)
	}
	strict := !malformed && w.sat(rule, paths, 0, false, 0)
	liberal := w.sat(rule, paths, 0, true, 0)
	return combine(strict, liberal)
}

// ---- conversion to the on-chain representation ----

func milli(m int64) float64 { return float64(m) / 1000 }

// Acl renders the rule as the protobuf value the implementation evaluates.
func (r *MRule) Acl(n *Names) *pb.Acl {
	a := &pb.Acl{}
	if !r.NoPm {
		a.Pm = &pb.PermissionModel{Rule: pb.PermissionRule(r.Kind), AcceptValue: milli(r.Accept)}
	}
	if r.Listed != 0 {
		a.AksWeight = map[string]float64{}
		for i := 0; i < maxN; i++ {
			if r.Listed&(1<<uint(i)) != 0 {
				a.AksWeight[n.list[i]] = milli(r.W[i])
			}
		}
	}
	if r.Kind == 2 && !r.NoSets {
		a.AkSets = &pb.AkSets{Sets: map[string]*pb.AkSet{}}
		for si, m := range r.Sets {
			set := &pb.AkSet{}
			for i := 0; i < maxN; i++ {
				if m&(1<<uint(i)) != 0 {
					set.Aks = append(set.Aks, n.list[i])
				}
			}
			a.AkSets.Sets[fmt.Sprintf("s%d", si)] = set
		}
		if r.NilSet {
			a.AkSets.Sets["snil"] = nil
		}
	}
	return a
}

// JSON renders the rule as the JSON document users put on chain (decimal weights).
func (r *MRule) JSON(n *Names) string {
	dec := func(m int64) string {
		s := fmt.Sprintf("%d.%03d", m/1000, m%1000)
		if m < 0 {
			s = fmt.Sprintf("-%d.%03d", (-m)/1000, (-m)%1000)
		}
		s = strings.TrimRight(s, "0")
		if strings.HasSuffix(s, ".") {
			s += "0"
		}
		return s
	}
	var b strings.Builder
	fmt.Fprintf(&b, `{"pm":{"rule":%d,"acceptValue":%s}`, r.Kind, dec(r.Accept))
	if r.Kind == 1 {
		var ks []string
		for i := 0; i < maxN; i++ {
			if r.Listed&(1<<uint(i)) != 0 {
				ks = append(ks, fmt.Sprintf("%q:%s", n.list[i], dec(r.W[i])))
			}
		}
		sort.Strings(ks)
		fmt.Fprintf(&b, `,"aksWeight":{%s}`, strings.Join(ks, ","))
	}
	if r.Kind == 2 {
		var ss []string
		for si, m := range r.Sets {
			var ks []string
			for i := 0; i < maxN; i++ {
				if m&(1<<uint(i)) != 0 {
					ks = append(ks, fmt.Sprintf("%q", n.list[i]))
				}
			}
			ss = append(ss, fmt.Sprintf(`"s%d":{"aks":[%s]}`, si, strings.Join(ks, ",")))
		}
		if r.NilSet {
			ss = append(ss, `"snil":null`)
		}
		fmt.Fprintf(&b, `,"akSets":{"sets":{%s}}`, strings.Join(ss, ","))
	}
	b.WriteString("}")
	return b.String()
}

// Describe is a short human form with symbolic names.
func (r *MRule) Describe(sym func(int) string) string {
	if r == nil {
		return "none"
	}
	if r.NoPm {
		return "no-pm"
	}
	switch r.Kind {
	case 1:
		var ks []string
		for i := 0; i < maxN; i++ {
			if r.Listed&(1<<uint(i)) != 0 {
				ks = append(ks, fmt.Sprintf("%s:%g", sym(i), milli(r.W[i])))
			}
		}
		return fmt.Sprintf("threshold{%s}>=%g", strings.Join(ks, ","), milli(r.Accept))
	case 2:
		var ss []string
		for _, m := range r.Sets {
			var ks []string
			for i := 0; i < maxN; i++ {
				if m&(1<<uint(i)) != 0 {
					ks = append(ks, sym(i))
				}
			}
			ss = append(ss, "{"+strings.Join(ks, ",")+"}")
		}
		if r.NilSet {
			ss = append(ss, "null")
		}
		if r.NoSets {
			return "keysets(absent)"
		}
		return "keysets[" + strings.Join(ss, " ") + "]"
	}
	return fmt.Sprintf("rule-kind-%d", r.Kind)
}

func thr(accept int64, pairs ...int64) *MRule {
	r := &MRule{Kind: 1, Accept: accept}
	for i := 0; i+1 < len(pairs); i += 2 {
		r.W[pairs[i]] = pairs[i+1]
		r.Listed |= 1 << uint(pairs[i])
	}
	return r
}

func ksets(sets ...[]int) *MRule {
	r := &MRule{Kind: 2}
	for _, s := range sets {
		var m uint32
		for _, i := range s {
			m |= 1 << uint(i)
		}
		r.Sets = append(r.Sets, m)
	}
	return r
}
