package main

// Part A, small special boxes: decimal boundary / summation order, degenerate rules,
// negative weights.

import (
	"fmt"
	"os"

	"verif/ev"
)

// floatBox: threshold rules whose weights are decimal fractions; every ORDER of every
// subset of six direct signers. The statement speaks about a SET of signers and about
// weights reaching the threshold: the answer must not depend on the order of the signer
// list, and weights that add up to the threshold in the decimal notation users write on
// chain must reach it.
func floatBox(r *ev.Run, u *Universe) {
	type assign struct {
		w       [6]int64
		accepts []int64
	}
	steps := func(step, max int64) []int64 {
		var o []int64
		for a := step; a <= max; a += step {
			o = append(o, a)
		}
		return o
	}
	as := []assign{
		{[6]int64{100, 200, 300, 400, 600, 700}, steps(100, 2300)},
		{[6]int64{700, 100, 100, 100, 700, 300}, steps(100, 2000)},
		{[6]int64{300, 300, 300, 300, 300, 500}, []int64{500, 1000, 1500}},
		{[6]int64{50, 150, 250, 350, 100, 100}, steps(50, 1000)},
		{[6]int64{1100, 2200, 3300, 100, 200, 300}, steps(100, 7200)},
	}
	uris := make([]string, 6)
	for i := 0; i < 6; i++ {
		uris[i], _ = u.uri(u.A, u.K[i])
	}
	box := &Box{Name: "float", U: u, Root: u.A}
	var evals, sets, boundarySets, orderDep, missed, spurious int64
	type wit struct {
		rule           string
		json           string
		accOrder, rejO []string
	}
	var firstOrder, firstMiss, firstSpurious *wit
	for _, a := range as {
		for _, acc := range a.accepts {
			rule := &MRule{Kind: 1, Accept: acc}
			for i := 0; i < 6; i++ {
				rule.W[u.K[i]] = a.w[i]
				rule.Listed |= 1 << uint(u.K[i])
			}
			cfg := &Config{Acct: map[int]*MRule{u.A: rule}}
			s := cfg.stub(u)
			for mask := 0; mask < 64; mask++ {
				var members []int
				var sum int64
				for i := 0; i < 6; i++ {
					if mask&(1<<uint(i)) != 0 {
						members = append(members, i)
						sum += a.w[i]
					}
				}
				want := sum >= acc
				sets++
				if sum == acc {
					boundarySets++
				}
				var nAcc, nRej int
				var accO, rejO []string
				perm(members, func(p []int) {
					l := make([]string, len(p))
					for i, x := range p {
						l[i] = uris[x]
					}
					got, _ := box.call(s, l)
					evals++
					if got == iAccept {
						nAcc++
						if accO == nil {
							accO = symOrder(p)
						}
					} else {
						nRej++
						if rejO == nil {
							rejO = symOrder(p)
						}
					}
				})
				w := &wit{rule: rule.Describe(u.Sym), json: rule.JSON(u.N), accOrder: accO, rejO: rejO}
				switch {
				case nAcc > 0 && nRej > 0:
					orderDep++
					if firstOrder == nil {
						firstOrder = w
					}
				case want && nAcc == 0:
					missed++
					if firstMiss == nil {
						firstMiss = w
					}
				case !want && nRej == 0:
					spurious++
					if firstSpurious == nil {
						firstSpurious = w
					}
				}
			}
		}
	}
	r.Evals(int(evals))
	r.Count("A.float.evaluations", int(evals))
	r.Count("A.float.signer-sets", int(sets))
	r.Count("A.float.signer-sets-exactly-at-threshold", int(boundarySets))
	r.Count("A.float.sets-with-order-dependent-answer", int(orderDep))
	r.Count("A.float.sets-reaching-threshold-in-decimal-but-rejected-in-every-order", int(missed))
	r.Shape("A|float|orders-of-subsets-of-6-direct-signers")
	if firstOrder != nil {
		report("evaluation", "acl|threshold|answer-depends-on-signer-order",
			fmt.Sprintf("rule %s: signers in order %v are accepted, the same signers in order %v are rejected (float64 running sum); %d such signer sets",
				firstOrder.rule, firstOrder.accOrder, firstOrder.rejO, orderDep),
			map[string]interface{}{"rule": firstOrder.rule, "rule_json": firstOrder.json, "accepted_order": firstOrder.accOrder, "rejected_order": firstOrder.rejO,
				"call": "IdentifyAccount(stub, A, [A/k...])"})
	}
	if firstMiss != nil {
		report("evaluation", "acl|threshold|decimal-weights-adding-up-to-threshold-rejected",
			fmt.Sprintf("rule %s: signers %v have weights adding up to the threshold in decimal arithmetic, every order is rejected (float64 sum falls short); %d such signer sets",
				firstMiss.rule, firstMiss.rejO, missed),
			map[string]interface{}{"rule": firstMiss.rule, "rule_json": firstMiss.json, "signers": firstMiss.rejO, "call": "IdentifyAccount(stub, A, [A/k...])"})
	}
	if firstSpurious != nil {
		report("evaluation", "acl|accepts-unsatisfied-rule|counted=none(float sum exceeds decimal sum)",
			fmt.Sprintf("rule %s: signers %v accepted below the threshold", firstSpurious.rule, firstSpurious.accOrder),
			map[string]interface{}{"rule": firstSpurious.rule, "rule_json": firstSpurious.json, "signers": firstSpurious.accOrder})
	}
	fmt.Fprintf(os.Stderr, "c11: box float: evaluations=%d sets=%d order-dependent=%d decimal-miss=%d\n", evals, sets, orderDep, missed)
}

func symOrder(p []int) []string {
	o := make([]string, len(p))
	for i, x := range p {
		o[i] = fmt.Sprintf("A/k%d", x+1)
	}
	return o
}

func perm(a []int, f func([]int)) {
	b := append([]int(nil), a...)
	var rec func(i int)
	rec = func(i int) {
		if i >= len(b) {
			f(b)
			return
		}
		for j := i; j < len(b); j++ {
			b[i], b[j] = b[j], b[i]
			rec(i + 1)
			b[i], b[j] = b[j], b[i]
		}
	}
	rec(0)
}

// degenerateBox: rules outside the two implemented models, incomplete rules. The statement
// only demands that they are never ACCEPTED by signers that satisfy nothing, and that
// evaluating them does not crash the node.
func degenerateBox(u *Universe) *Box {
	k := u.K
	var rules []*MRule
	for _, kind := range []int{0, 3, 4, 5, 6, 99} {
		for _, acc := range []int64{0, 1000} {
			r := thr(acc, int64(k[0]), 1000, int64(k[1]), 1000)
			r.Kind = kind
			rules = append(rules, r)
		}
	}
	noPm := thr(1000, int64(k[0]), 1000)
	noPm.NoPm = true
	rules = append(rules, noPm)
	rules = append(rules, &MRule{Kind: 2, NoSets: true})
	rules = append(rules, &MRule{Kind: 2})
	if nullSetAdmissible {
		rules = append(rules, &MRule{Kind: 2, Sets: []uint32{1 << uint(k[0])}, NilSet: true})
		rules = append(rules, &MRule{Kind: 2, NilSet: true})
	}
	rules = append(rules, &MRule{Kind: 1, Accept: 1000}) // no weights at all
	rules = append(rules, &MRule{Kind: 1, Accept: 0})
	rules = append(rules, thr(0, int64(k[0]), 1000))
	rules = append(rules, thr(-1000, int64(k[0]), 1000))
	b := &Box{Name: "degenerate-rules", U: u, Root: u.A, MaxLen: 2, Mono: false}
	b.URIs = []URI{mkURI(u, cDirect, true, u.A, k[0]), mkURI(u, cDirect, true, u.A, k[1]), mkURI(u, cNested, true, u.A, u.B, k[0]), mkURI(u, cOutsider, true, u.A, k[4])}
	for i, r := range rules {
		b.Configs = append(b.Configs, &Config{Acct: map[int]*MRule{u.A: r, u.B: thr(1000, int64(k[0]), 1000)}, Class: fmt.Sprintf("degenerate#%d:%s", i, r.Describe(u.Sym))})
		// the same rule on the nested account, under a sane root
		b.Configs = append(b.Configs, &Config{Acct: map[int]*MRule{u.A: thr(1000, int64(u.B), 1000), u.B: r}, Class: fmt.Sprintf("degenerate-nested#%d:%s", i, r.Describe(u.Sym))})
	}
	return b
}

// nullSetAdmissible: may a rule that lists a JSON-null key set get on chain at all? Decided by
// the end-to-end probe (NewAccount); when the node refuses such rules the direct evaluation of
// one is not a legal input and is left out.
var nullSetAdmissible = true

func negativeBox(u *Universe) *Box {
	k := u.K
	members := []int{k[0], k[1], k[2], u.B}
	rules := thresholdRules(members, []int64{-500, 500, 1000}, []int64{500, 1000})
	b := &Box{Name: "negative-weights", U: u, Root: u.A, MaxLen: 4, Mono: false}
	b.URIs = []URI{mkURI(u, cDirect, true, u.A, k[0]), mkURI(u, cDirect, true, u.A, k[1]), mkURI(u, cDirect, true, u.A, k[2]),
		mkURI(u, cNested, true, u.A, u.B, k[0]), mkURI(u, cNested, true, u.A, u.B, k[1]), mkURI(u, cOther, true, u.B, k[0])}
	bs := bRules(u)[:2]
	b.Configs = accountConfigs(u, rules, bs)
	return b
}
