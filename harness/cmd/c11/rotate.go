package main

// Part B, concurrent part: verifications running NEXT TO the blocks that change the rule.
//
// State.VerifyTx runs without the state lock (Chain.SubmitTx and the p2p transaction handler call it
// that way), so on a live node verifications of operations of account A overlap the application of
// a block that changes A's rule. The statement speaks about "the rule currently in force on the
// confirmed chain": a verification that overlaps the block may be answered by either rule, but once
// the block has been applied every verification that STARTS afterwards must be answered by the rule
// confirmed at the new tip - whatever was being evaluated while the tip moved.
//
// Workload (child process: a Go runtime fatal error - concurrent map access, a memory fault - in the
// code under test cannot be recovered and must not take the whole check down): one node, account A
// governed by a single key; every block rotates the key (k1 -> k6 -> k1 ...), applied by the
// engine's paths in turn (Miner.ProcBlock; ledger confirm + State.Walk; the node's own block through
// the real miner). G goroutines keep verifying freshly built guarded operations of A (spend of A's
// funds, SetAccountAcl, SetMethodAcl, raw write of the account bucket) signed by seeded random
// signer lists over {A/k1, A/k6, other keys, nested-account signers, a signer of another account},
// with storage-latency jitter (memkv) on three rotations out of four.
//
// Oracle: a verification whose whole life (build, sign, VerifyTx) lies between two block
// applications is compared with the statement model on the rule confirmed at that tip. After every
// block application the main thread waits until every verification that had started before the
// application returned has finished, then verifies NEW transactions with exactly the signer lists
// that were under verification while the block was applied (first those during which the tip was
// seen to move) and compares them with the model on the new rule. Verdicts obtained during an
// application are counted, not judged.

import (
	"bufio"
	"context"
	"encoding/json"
	"fmt"
	"math/rand"
	"os"
	"os/exec"
	"regexp"
	"sort"
	"strconv"
	"strings"
	"sync"
	"sync/atomic"
	"time"

	pb "github.com/xuperchain/xupercore/bcs/ledger/xledger/xldgpb"
	"github.com/xuperchain/xupercore/protos"

	"verif/ev"
	"verif/memkv"
	sn "verif/simnode"
)

const rotChildFlag = "-c11-rotation-child"

const (
	sigRotAccept = "tx|accepted-without-satisfying-confirmed-rule|after-rule-change-applied-concurrently-with-verifications"
	sigRotRefuse = "tx|refused-although-confirmed-rule-satisfied|after-rule-change-applied-concurrently-with-verifications"
	sigRotPanic  = "tx|panic-in-VerifyTx|concurrent-with-block-application"
	sigRotDied   = "tx|process-died|verifications-concurrent-with-rule-changing-blocks"
)

type rotMsg struct {
	Kind    string                 `json:"kind"` // stage | counts | finding | inconclusive | done
	Text    string                 `json:"text,omitempty"`
	Counts  map[string]int64       `json:"counts,omitempty"`
	Sig     string                 `json:"sig,omitempty"`
	Detail  string                 `json:"detail,omitempty"`
	Witness map[string]interface{} `json:"witness,omitempty"`
}

var rotPaths = []string{"ProcBlock", "confirm+Walk", "own-block(real miner)"}

func rotChildMain(args []string) {
	if len(args) < 4 {
		os.Exit(3)
	}
	f, err := os.OpenFile(args[0], os.O_CREATE|os.O_WRONLY|os.O_APPEND, 0644)
	if err != nil {
		os.Exit(3)
	}
	seed, _ := strconv.ParseInt(args[1], 10, 64)
	rotations, _ := strconv.Atoi(args[2])
	G, _ := strconv.Atoi(args[3])
	var wmu sync.Mutex
	say := func(m rotMsg) {
		buf, _ := json.Marshal(m)
		wmu.Lock()
		f.Write(append(buf, '\n'))
		wmu.Unlock()
	}
	sn.InitLogs()
	defer sn.CleanupScratch()
	b, err := newWorld(0)
	if err != nil {
		say(rotMsg{Kind: "inconclusive", Text: "set-up: " + err.Error()})
		return
	}
	symr := func(i int) string { return b.sym[i] }
	rules := [2]*MRule{thr(1000, int64(b.k[0]), 1000), thr(1000, int64(b.k[5]), 1000)}
	var worlds [2]*World
	for i := range worlds {
		w := *b.w
		w.Rules[b.A] = rules[i]
		worlds[i] = &w
	}
	menu := []entry{
		b.ent(cDirect, 0, false, b.A, b.k[0]), // the owner under rule 0
		b.ent(cDirect, 5, false, b.A, b.k[5]), // the owner under rule 1
		b.ent(cDirect, 1, false, b.A, b.k[1]),
		b.ent(cDirect, 2, false, b.A, b.k[2]),
		b.ent(cNested, 2, false, b.A, b.B, b.k[2]),
		b.ent(cNested, 3, false, b.A, b.B, b.k[3]),
		b.ent(cOther, 0, false, b.C, b.k[0]),
	}
	// signer lists: every ordered selection of 1..3 menu entries
	var lists [][]int
	var flip []int // lists whose verdict changes with the rotation
	var rec func(cur []int)
	rec = func(cur []int) {
		if len(cur) > 0 {
			l := append([]int(nil), cur...)
			has := 0
			for _, x := range l {
				if x < 2 {
					has++
				}
			}
			if has == 1 {
				flip = append(flip, len(lists))
			}
			lists = append(lists, l)
		}
		if len(cur) == 3 {
			return
		}
	next:
		for i := range menu {
			for _, x := range cur {
				if x == i {
					continue next
				}
			}
			rec(append(cur, i))
		}
	}
	rec(nil)
	var single [2]int // the lists [A/k1], [A/k6]
	for li, l := range lists {
		if len(l) == 1 && l[0] < 2 {
			single[l[0]] = li
		}
	}
	authOf := func(li int) []entry {
		var a []entry
		for _, i := range lists[li] {
			a = append(a, menu[i])
		}
		return a
	}
	var wants [2][]int
	for ri := range wants {
		for li := range lists {
			var paths [][]int8
			for _, e := range authOf(li) {
				paths = append(paths, e.Path)
			}
			wants[ri] = append(wants[ri], worlds[ri].OracleAccount(b.A, paths))
		}
	}
	tmpl, err := b.transferTx(acctName(digitsA), sn.K(1).Address, 50)
	if err != nil {
		say(rotMsg{Kind: "inconclusive", Text: "set-up: " + err.Error()})
		return
	}
	build := func(op string, li int, nonce string, ts int64) (*pb.Transaction, error) {
		auth := authOf(li)
		var tx *pb.Transaction
		if op == opSpend {
			tx = sn.CloneTx(tmpl)
		} else {
			var err error
			if tx, err = b.body(op, uris(auth)); err != nil {
				return nil, err
			}
		}
		return signTx(tx, sn.K(6), "", auth, nonce, ts)
	}

	var (
		phase      int64 // even 2i: rotation i-1 applied, rule i%2 in force; odd: a block is being applied
		stop       int32
		quiet      int64
		mu         sync.Mutex
		counts     = map[string]int64{}
		straddled  = map[int]bool{}
		overlapped = map[int]bool{}
		reported   = map[string]bool{}
		rotInfo    = map[int64]string{} // rotation -> how it was applied
		rotHit     = map[int64]bool{}
	)
	cur := make([]int64, G)
	count := func(name string, d int64) { mu.Lock(); counts[name] += d; mu.Unlock() }
	judge := func(who string, ph int64, op string, li int, ok bool, verr error, directedAfterTipMove bool) {
		ri := int(ph/2) % 2
		want := wants[ri][li]
		count("B.rotation.judged."+verdictName(want), 1)
		var sig string
		switch {
		case ok && want == MustReject:
			sig = sigRotAccept
		case !ok && want == MustAccept:
			sig = sigRotRefuse
		default:
			return
		}
		mu.Lock()
		counts["B.rotation.disagreements"]++
		if !rotHit[ph] {
			rotHit[ph] = true
			counts["B.rotation.blocks-followed-by-a-disagreement"]++
		}
		dup := reported[sig]
		reported[sig] = true
		how := rotInfo[ph/2-1]
		mu.Unlock()
		if dup {
			return
		}
		auth := authOf(li)
		say(rotMsg{Kind: "finding", Sig: sig,
			Detail: fmt.Sprintf("after %d blocks that rotate the key of A (the last one applied by %s while %d goroutines were verifying operations of A) the rule of A confirmed at the tip is %s (before that block: %s); a NEW %s signed by %v, built and verified after the block application had returned (%s), got VerifyTx=%v err=%v; statement: %s",
				ph/2, how, G, rules[ri].Describe(symr), rules[1-ri].Describe(symr), op, b.symAuth(auth), who, ok, verr, verdictName(want)),
			Witness: map[string]interface{}{"blocks_applied": ph / 2, "last_block_applied_by": how, "operation": op, "auth_require": uris(auth), "auth_require_symbolic": b.symAuth(auth),
				"rule(A) confirmed at the tip": rules[ri].JSON(b.u), "rule(A) before the last block": rules[1-ri].JSON(b.u), "VerifyTx": ok, "error": fmt.Sprint(verr),
				"oracle": verdictName(want), "verified_by": who, "same_signer_list_was_under_verification_while_the_tip_moved": directedAfterTipMove}})
	}
	panicked := func(op string, li int, pn string) {
		mu.Lock()
		dup := reported[sigRotPanic]
		reported[sigRotPanic] = true
		mu.Unlock()
		if !dup {
			say(rotMsg{Kind: "finding", Sig: sigRotPanic, Detail: fmt.Sprintf("%s signed by %v: State.VerifyTx panicked while blocks were applied next to it: %s", op, b.symAuth(authOf(li)), pn)})
		}
	}

	gops := []string{opSpend, opSpend, opSpend, opSpend, opSetAccountAcl, opSetAccountAcl, opSetMethodAcl, opRawPutAccount}
	var wg sync.WaitGroup
	for g := 0; g < G; g++ {
		wg.Add(1)
		go func(g int) {
			defer wg.Done()
			rng := rand.New(rand.NewSource(seed*1000003 + int64(g)*7919 + 1))
			for n := int64(1); atomic.LoadInt32(&stop) == 0; n++ {
				p0 := atomic.LoadInt64(&phase)
				atomic.StoreInt64(&cur[g], p0)
				li := rng.Intn(len(lists))
				if rng.Intn(4) != 0 {
					li = flip[rng.Intn(len(flip))]
				}
				op := gops[rng.Intn(len(gops))]
				tx, err := build(op, li, fmt.Sprintf("c11r-%d-%d", g, n), 2000000000+int64(g)*100000000+n)
				if err != nil {
					count("B.rotation.build-failed(pre-execution next to a block)", 1)
					continue
				}
				tip0 := string(b.n.State.GetLatestBlockid())
				ok, verr, pn := b.verify(tx)
				tip1 := string(b.n.State.GetLatestBlockid())
				p1 := atomic.LoadInt64(&phase)
				count("B.rotation.verifications", 1)
				if pn != "" {
					panicked(op, li, pn)
					continue
				}
				if p0 == p1 && p0%2 == 0 {
					count("B.rotation.verifications-between-blocks(judged)", 1)
					judge("stress goroutine", p0, op, li, ok, verr, false)
					atomic.AddInt64(&quiet, 1)
					continue
				}
				count("B.rotation.verifications-overlapping-a-block-application(not judged)", 1)
				mu.Lock()
				if tip0 != tip1 {
					straddled[li] = true
					counts["B.rotation.verifications-during-which-the-tip-moved"]++
					if ok {
						counts["B.rotation.verifications-during-which-the-tip-moved.accepted"]++
					}
				} else {
					overlapped[li] = true
				}
				mu.Unlock()
			}
		}(g)
	}
	// watch-dog: never a verdict
	var beat int64
	go func() {
		last, idle := int64(-1), 0
		for atomic.LoadInt32(&stop) == 0 {
			time.Sleep(time.Second)
			if x := atomic.LoadInt64(&beat); x == last {
				if idle++; idle >= 60 {
					say(rotMsg{Kind: "inconclusive", Text: "no progress for 60 s (watch-dog)"})
					os.Exit(0)
				}
			} else {
				last, idle = x, 0
			}
		}
	}()
	waitFor := func(cond func() bool) {
		for i := 0; !cond(); i++ {
			if i < 100 {
				time.Sleep(20 * time.Microsecond)
			} else {
				time.Sleep(200 * time.Microsecond)
			}
		}
	}
	dirOps := []string{opSpend, opSetAccountAcl, opSetMethodAcl}
	flushCounts := func() {
		mu.Lock()
		counts["B.rotation.storage-operations-disturbed-by-jitter"] = memkv.JitterHits()
		counts["B.rotation.signer-lists"] = int64(len(lists))
		say(rotMsg{Kind: "counts", Counts: counts})
		mu.Unlock()
	}
	fail := func(format string, a ...interface{}) {
		atomic.StoreInt32(&stop, 1)
		wg.Wait()
		memkv.SetJitter(0, 0)
		flushCounts()
		say(rotMsg{Kind: "inconclusive", Text: fmt.Sprintf(format, a...)})
	}
	done := 0
	for i := 0; i < rotations; i++ {
		atomic.AddInt64(&beat, 1)
		ci, ni := i%2, (i+1)%2
		path := i % 3
		jit := i%4 != 3
		say(rotMsg{Kind: "stage", Text: fmt.Sprintf("rotation %d: %s -> %s by %s, jitter=%v", i, rules[ci].Describe(symr), rules[ni].Describe(symr), rotPaths[path], jit)})
		qAuth := []entry{menu[ci]}
		tx, err := b.contractTx([]*protos.InvokeRequest{aclReq("SetAccountAcl", map[string][]byte{"account_name": []byte(acctName(digitsA)),
			"acl": []byte(rules[ni].JSON(b.u))})}, sn.K(6).Address, uris(qAuth))
		if err != nil {
			fail("rotation %d: pre-execution of the rotation: %v", i, err)
			return
		}
		Q, err := b.sign(tx, sn.K(6), "", qAuth)
		if err != nil {
			fail("rotation %d: %v", i, err)
			return
		}
		b.ts += 10
		var blk *pb.InternalBlock
		if path != 2 {
			if blk, err = b.n.FormatBlock(b.n.StateTip(), b.height+1, sn.K(1), b.ts, []*pb.Transaction{Q}, true); err != nil {
				fail("rotation %d: %v", i, err)
				return
			}
		}
		mu.Lock()
		rotInfo[int64(i)] = rotPaths[path] + map[bool]string{true: ", storage-latency jitter on", false: ""}[jit]
		mu.Unlock()
		atomic.StoreInt64(&phase, int64(2*i+1))
		if jit {
			// storage latency while the block is applied: every read / write of the walk and of the
			// verifications next to it may yield or sleep (the window between the checks and the acts)
			memkv.SetJitter(seed*7919+int64(i), 2)
		}
		switch path {
		case 0:
			err = b.n.ProcBlock(blk)
		case 1:
			if st := b.n.Confirm(blk); !st.Succ {
				err = fmt.Errorf("confirm: %v", st.Error)
			} else {
				err = b.n.Walk(blk.Blockid, false)
			}
		case 2:
			if err = b.admit(Q, "rotation"); err == nil {
				if blk, err = b.n.PackBlock(sn.K(0), b.ts); err == nil {
					err = b.n.ConfirmForMiner(blk)
				}
			}
		}
		memkv.SetJitter(0, 0)
		if err == nil && string(b.n.StateTip()) != string(blk.Blockid) {
			err = fmt.Errorf("the state did not reach the block")
		}
		if err != nil {
			// the node did not take the block. Its one guarded operation is the rotation, signed by the
			// owner in force: does the node (now quiet again) verify that operation? If it does not,
			// that is the refusal of an operation satisfying the confirmed rule; otherwise the harness
			// could not drive the node
			tail := b.n.Log.Tail(3)
			atomic.StoreInt32(&stop, 1)
			wg.Wait()
			mu.Lock()
			rotInfo[int64(i)-1] = rotInfo[int64(i)] + "; the NEXT block, which rotates the key again and is signed by the owner in force, was then refused by the node: " + fmt.Sprint(err)
			mu.Unlock()
			again := sn.CloneTx(Q)
			again.Blockid = nil
			if ok, verr, pn := b.verify(again); pn == "" {
				count("B.rotation.blocks-refused-by-the-node", 1)
				judge("main thread, after the node had refused the block carrying it", int64(2*i), opSetAccountAcl+"(the rotation itself)", single[ci], ok, verr, false)
			}
			fail("rotation %d by %s: %v %v", i, rotPaths[path], err, tail)
			return
		}
		b.height++
		atomic.StoreInt64(&quiet, 0)
		atomic.StoreInt64(&phase, int64(2*i+2))
		count("B.rotation.rule-changing-blocks-applied", 1)
		count("B.rotation.applied-by."+rotPaths[path], 1)
		if jit {
			count("B.rotation.blocks-applied-with-storage-jitter", 1)
		}
		// every verification that had started before the application returned has to be over
		for g := 0; g < G; g++ {
			g := g
			waitFor(func() bool { return atomic.LoadInt64(&cur[g]) >= int64(2*i+2) })
		}
		mu.Lock()
		var first, second []int
		for li := range straddled {
			first = append(first, li)
		}
		for li := range overlapped {
			if !straddled[li] {
				second = append(second, li)
			}
		}
		straddled, overlapped = map[int]bool{}, map[int]bool{}
		mu.Unlock()
		sort.Ints(first)
		sort.Ints(second)
		if len(first) > 12 {
			first = first[:12]
		}
		if len(second) > 4 {
			second = second[:4]
		}
		for k, li := range append(append([]int{}, first...), second...) {
			for _, op := range dirOps {
				tx, err := build(op, li, fmt.Sprintf("c11d-%d-%d-%s", i, li, op), 1000000000+int64(i)*1000+int64(k))
				if err != nil {
					fail("rotation %d: building %s: %v", i, op, err)
					return
				}
				ok, verr, pn := b.verify(tx)
				if pn != "" {
					panicked(op, li, pn)
					continue
				}
				count("B.rotation.directed-reverifications", 1)
				if k < len(first) {
					count("B.rotation.directed-reverifications.signer-list-was-under-verification-while-the-tip-moved", 1)
				}
				judge("main thread, directed re-verification", int64(2*i+2), op, li, ok, verr, k < len(first))
			}
		}
		waitFor(func() bool { return atomic.LoadInt64(&quiet) >= int64(2*G) })
		done++
	}
	atomic.StoreInt32(&stop, 1)
	wg.Wait()
	memkv.SetJitter(0, 0)
	flushCounts()
	say(rotMsg{Kind: "done", Text: fmt.Sprintf("%d rotations", done)})
}

var rotDigits = regexp.MustCompile(`0x[0-9a-f]+|[0-9]+`)

func jobRotation(r *ev.Run) {
	dir, err := os.MkdirTemp("", "c11-rot-")
	if err != nil {
		r.Inconclusive("rotation part: no scratch directory")
		return
	}
	defer os.RemoveAll(dir)
	out := dir + "/result"
	rotations, G := r.N(36, 600), 8
	ctx, cancel := context.WithTimeout(context.Background(), 15*time.Minute) // watch-dog only
	defer cancel()
	cmd := exec.CommandContext(ctx, os.Args[0], rotChildFlag, out, fmt.Sprint(r.Seed), fmt.Sprint(rotations), fmt.Sprint(G))
	cmd.Env = append(os.Environ(), "VERIF_KEEP_STDOUT=")
	var stderr strings.Builder
	cmd.Stderr = &stderr
	runErr := cmd.Run()
	var msgs []rotMsg
	if f, err := os.Open(out); err == nil {
		sc := bufio.NewScanner(f)
		sc.Buffer(make([]byte, 1<<20), 1<<20)
		for sc.Scan() {
			var m rotMsg
			if json.Unmarshal(sc.Bytes(), &m) == nil {
				msgs = append(msgs, m)
			}
		}
		f.Close()
	}
	r.Count("B.rotation.child-runs", 1)
	stopped := false
	finished, lastStage, stages, findings := false, "", 0, 0
	for _, m := range msgs {
		switch m.Kind {
		case "stage":
			lastStage = m.Text
			stages++
		case "counts":
			for k, v := range m.Counts {
				r.Count(k, int(v))
			}
			r.Evals(int(m.Counts["B.rotation.verifications-between-blocks(judged)"] + m.Counts["B.rotation.directed-reverifications"]))
		case "finding":
			report("end-to-end", m.Sig, m.Detail, m.Witness)
			findings++
		case "inconclusive":
			r.Inconclusive("rotation part: " + m.Text)
			finished, stopped = true, true
		case "done":
			finished = true
		}
	}
	for _, p := range rotPaths {
		for _, j := range []string{"on", "off"} {
			r.Shape("B|rotation|applied-by=" + p + "|jitter=" + j)
		}
	}
	if ctx.Err() != nil {
		r.Inconclusive("rotation part: child did not finish within the watch-dog time (last stage: " + lastStage + ")")
		return
	}
	if !finished {
		// the process that runs the code under test died: a Go runtime fatal error or a panic on a
		// goroutine of the code under test
		text := stderr.String()
		reason := "exit " + fmt.Sprint(runErr)
		for _, ln := range strings.Split(text, "\n") {
			if strings.HasPrefix(ln, "fatal error: ") || strings.HasPrefix(ln, "panic: ") {
				reason = strings.TrimSpace(rotDigits.ReplaceAllString(clipS(ln, 100), "N"))
				break
			}
		}
		head := text
		if i := strings.Index(head, "goroutine "); i >= 0 {
			head = head[i:]
		}
		report("end-to-end", sigRotDied+"|"+reason,
			fmt.Sprintf("the node process died (%v) while %d goroutines verified operations of A next to blocks that rotate A's key; %d rotations had been started, last stage: %s; %s", runErr, G, stages, lastStage, clipS(text, 400)),
			map[string]interface{}{"child_exit": fmt.Sprint(runErr), "last_stage": lastStage, "child_stderr_head": clipS(text, 1500), "first_goroutine": clipS(head, 1500)})
		return
	}
	fmt.Fprintf(os.Stderr, "c11: rotation part: %d blocks, %d verifications (%d judged, %d overlapping a block, %d with the tip moving), %d directed re-verifications\n",
		r.Counter("B.rotation.rule-changing-blocks-applied"), r.Counter("B.rotation.verifications"), r.Counter("B.rotation.verifications-between-blocks(judged)"),
		r.Counter("B.rotation.verifications-overlapping-a-block-application(not judged)"), r.Counter("B.rotation.verifications-during-which-the-tip-moved"), r.Counter("B.rotation.directed-reverifications"))
	if !stopped && findings == 0 {
		rotationFloors(r, rotations)
	}
}

func rotationFloors(r *ev.Run, rotations int) {
	n := int64(rotations)
	r.Floor("B.rotation.rule-changing-blocks-applied", n)
	for _, p := range rotPaths {
		r.Floor("B.rotation.applied-by."+p, n/3)
	}
	r.Floor("B.rotation.verifications-between-blocks(judged)", 10*n)
	r.Floor("B.rotation.judged.must-accept", 2*n)
	r.Floor("B.rotation.judged.must-reject", 2*n)
	r.Floor("B.rotation.verifications-overlapping-a-block-application(not judged)", 4*n)
	r.Floor("B.rotation.verifications-during-which-the-tip-moved", n/2)
	r.Floor("B.rotation.directed-reverifications.signer-list-was-under-verification-while-the-tip-moved", n)
}
