package main

// Part A, wide box: rules with MANY members. The exhaustive boxes use at most four member keys;
// here an account rule lists n = 1..14 direct members (+ optionally a nested account as one more
// member) and the signer list carries up to all of them, in rotated orders, with ONE entry
// repeated at every position (a repeated direct signer; a nested account reached through two
// different member keys). The oracle is the statement on sets: distinct verified members, each
// counted once. Any per-node data structure that behaves differently beyond a handful of
// children (indexes, caches, fast paths) is only reachable here.

import (
	"fmt"
	"os"

	aclu "github.com/xuperchain/xupercore/kernel/permission/acl/utils"
	pb "github.com/xuperchain/xupercore/protos"

	"verif/ev"
)

func wideAddr(i int) string { return fmt.Sprintf("wAK%02dxxxxxxxxxxxxxxxxxxxxxxxxxxx", i) }

func wideBox(r *ev.Run) {
	const maxMembers = 14
	var evals, wrong int64
	type wit struct {
		n, nested, rep, rot int
		accept              float64
		list                []string
		got, want           bool
	}
	var first *wit
	for n := 1; n <= maxMembers; n++ {
		for nested := 0; nested <= 1; nested++ { // 1: the nested account B is member number n+1, weight 1
			total := n + nested
			for _, accept := range []int{total, total + 1, total - 1} {
				if accept < 1 {
					continue
				}
				aclA := &pb.Acl{Pm: &pb.PermissionModel{Rule: pb.PermissionRule_SIGN_THRESHOLD, AcceptValue: float64(accept)}, AksWeight: map[string]float64{}}
				for i := 1; i <= n; i++ {
					aclA.AksWeight[wideAddr(i)] = 1
				}
				aclB := &pb.Acl{Pm: &pb.PermissionModel{Rule: pb.PermissionRule_SIGN_THRESHOLD, AcceptValue: 1},
					AksWeight: map[string]float64{wideAddr(50): 1, wideAddr(51): 1}}
				if nested == 1 {
					aclA.AksWeight[acctB] = 1
				}
				stub := &stubMgr{acct: map[string]*pb.Acl{acctA: aclA, acctB: aclB}}
				// signer sets: all members / all but one (every choice), entries in `total` rotations,
				// plus one repeated entry (every signer, appended or inserted right after itself)
				for drop := 0; drop <= total; drop++ { // 0: nobody dropped
					var base []string
					have := 0
					for i := 1; i <= n; i++ {
						if i == drop {
							continue
						}
						base = append(base, acctA+"/"+wideAddr(i))
						have++
					}
					if nested == 1 && drop != total {
						base = append(base, acctA+"/"+acctB+"/"+wideAddr(50))
						have++
					}
					want := have >= accept
					for rot := 0; rot < len(base); rot++ {
						l := append(append([]string{}, base[rot:]...), base[:rot]...)
						for rep := -1; rep < len(l); rep++ { // -1: no repetition
							list := l
							if rep >= 0 {
								again := l[rep]
								if nested == 1 && again == acctA+"/"+acctB+"/"+wideAddr(50) {
									again = acctA + "/" + acctB + "/" + wideAddr(51) // same nested account through its other key
								}
								list = append(append([]string{}, l...), again)
							}
							got, err := aclu.IdentifyAccount(stub, acctA, list)
							evals++
							if err != nil {
								got = false
							}
							if got != want {
								wrong++
								if first == nil {
									first = &wit{n: n, nested: nested, rep: rep, rot: rot, accept: float64(accept), list: list, got: got, want: want}
								}
							}
						}
					}
				}
			}
		}
	}
	r.Evals(int(evals))
	r.Count("A.wide.evaluations", int(evals))
	r.Shape("A|wide|1..14-members+nested|rotations|one-repeated-entry")
	if first != nil {
		sig := "acl|accepts-unsatisfied-rule|counted=repeated-entry|wide-rule"
		if first.want {
			sig = "acl|rejects-satisfied-rule|wide-rule"
		}
		report("evaluation", sig,
			fmt.Sprintf("rule of A: %d direct members of weight 1 (+%d nested account), accept %v; signer list of %d entries (rotation %d, repeated entry index %d): IdentifyAccount = %v, the statement says %v; %d wrong decisions in the wide box",
				first.n, first.nested, first.accept, len(first.list), first.rot, first.rep, first.got, first.want, wrong),
			map[string]interface{}{"members": first.n, "nested": first.nested, "accept": first.accept, "signers": first.list, "call": "IdentifyAccount(stub, A, signers)"})
	}
	fmt.Fprintf(os.Stderr, "c11: box wide: evaluations=%d wrong=%d\n", evals, wrong)
}
