package main

// Part B, moving chain (3): authority GAINED on a branch that is then abandoned.
//
// Block 2a confirms a rule change that gives k6 authority over account A (k6 becomes a co-owner of
// A, a member of the account B that A is owned through, or a new key set of A). While 2a is the tip
// the node admits operations on A that only the gained authority covers: a spend of A's funds, a
// change of A's rule, a method rule of A's contract - all authorised at that moment. Then the
// ledger switches to a longer branch 2b-3b on which the rule change never happened (the new branch
// is empty, moves unrelated funds, or changes the rule of an unrelated account), and the node
// produces its next own block with the engine's REAL miner.
//
// Statement: "requires satisfying the owning account's rule currently in force on the confirmed
// chain". The rule of an abandoned block is not in force: every guarded operation the node's own
// block confirms must satisfy the rules confirmed on the path to that block, and once the node has
// gone through the walk its pool must not hold an operation that no longer verifies (the miner takes
// the pool as it is).
//
// The lost-authority scenario of reorg.go is the mirror image (authority taken away by an APPLIED
// block); here the change of the rules in force comes from the blocks a walk UNDOES.

import (
	"fmt"

	pb "github.com/xuperchain/xupercore/bcs/ledger/xledger/xldgpb"
	"github.com/xuperchain/xupercore/protos"

	"verif/ev"
	sn "verif/simnode"
)

type gainedCase struct {
	kind     int  // how the authority is gained (0..3, see gainedAuthorityScenario)
	aMode    int  // delivery of 2a: 0 peer block (confirm + Walk), 1 the node's own block (real miner), 2 the engine's ProcBlock
	bProc    bool // delivery of 2b, 3b: false = ledger confirm + State.Walk to 3b, true = the engine's ProcBlock block by block
	bContent int  // 2b holds: 0 nothing, 1 an unrelated transfer, 2 a rule change of the unrelated account C
}

func (c gainedCase) String() string {
	return fmt.Sprintf("gain=%s|2a=%s|2b3b=%s|2b-holds=%s",
		[]string{"A:co-owner-added", "B(nested-owner-of-A):member-added", "B(half-owner-of-A):handed-over", "A:key-set-added"}[c.kind],
		[]string{"peer-block+Walk", "own-block(real miner)", "ProcBlock"}[c.aMode],
		map[bool]string{false: "confirm+Walk", true: "ProcBlock"}[c.bProc],
		[]string{"nothing", "unrelated-transfer", "rule-change-of-unrelated-account"}[c.bContent])
}

func gainedCases(r *ev.Run) []gainedCase {
	var all []gainedCase
	if !r.Quick() {
		for kind := 0; kind < 4; kind++ {
			for aMode := 0; aMode < 3; aMode++ {
				for _, bProc := range []bool{false, true} {
					for bc := 0; bc < 3; bc++ {
						all = append(all, gainedCase{kind, aMode, bProc, bc})
					}
				}
			}
		}
		return all
	}
	// quick: 8 cases; every kind twice, every delivery and every content of the new branch at
	// least twice; which combinations meet depends on the seed
	s := int(r.Seed % 6)
	if s < 0 {
		s = -s
	}
	for i := 0; i < 8; i++ {
		all = append(all, gainedCase{kind: i % 4, aMode: (i + s) % 3, bProc: (i/2+s)%2 == 1, bContent: (i + i/4 + s) % 3})
	}
	return all
}

func jobGained(r *ev.Run) {
	for ci, c := range gainedCases(r) {
		func() {
			defer func() {
				if p := recover(); p != nil {
					if inc, ok := p.(sn.Inconclusive); ok {
						r.Inconclusive(inc.Why)
						return
					}
					panic(p)
				}
			}()
			if sig, detail, err := gainedAuthorityScenario(r, c); err != nil {
				r.Inconclusive(fmt.Sprintf("part B authority gained on an abandoned branch (case %d, %s): harness could not drive the node: %v", ci, c, err))
			} else if sig != "" {
				report("end-to-end", sig, detail, map[string]interface{}{"case": c.String()})
			}
		}()
	}
}

type gainedOp struct {
	op   string
	tx   *pb.Transaction
	want int // on the rules confirmed on the path to the tip AFTER the reorganisation
}

func gainedAuthorityScenario(r *ev.Run, c gainedCase) (string, string, error) {
	ri := []int{0, 9, 3, 4}[c.kind]
	b, err := newWorld(ri)
	if err != nil {
		return "", "", err
	}
	defer b.n.Drop()
	symr := func(i int) string { return b.sym[i] }
	k6 := int64(b.k[5])
	var gainAcct int
	var gainRule *MRule
	var pAuth []entry
	switch c.kind {
	case 0:
		gainAcct, gainRule = b.A, thr(1000, int64(b.k[0]), 1000, k6, 1000)
		pAuth = []entry{b.ent(cDirect, 5, false, b.A, b.k[5])}
	case 1:
		gainAcct, gainRule = b.B, thr(1000, int64(b.k[2]), 500, int64(b.k[3]), 500, k6, 1000)
		pAuth = []entry{b.ent(cNested, 5, false, b.A, b.B, b.k[5])}
	case 2:
		gainAcct, gainRule = b.B, thr(1000, k6, 1000)
		pAuth = []entry{b.ent(cDirect, 0, false, b.A, b.k[0]), b.ent(cNested, 5, false, b.A, b.B, b.k[5])}
	case 3:
		gainAcct, gainRule = b.A, ksets([]int{b.k[0], b.k[1]}, []int{b.k[2]}, []int{b.k[5]})
		pAuth = []entry{b.ent(cDirect, 5, false, b.A, b.k[5])}
	}
	oldRule := b.w.Rules[gainAcct]
	ops := []string{opSpend, opSetMethodAcl, opSetAccountAcl}
	t0, h0 := append([]byte{}, b.n.StateTip()...), b.height
	r.Count("B.gained-authority.scenarios", 1)
	r.Case("B|gained-authority|"+c.String(), true)

	// what block 2b will hold is made now, on the state both branches share
	var bTxs []*pb.Transaction
	newC := thr(1000, int64(b.k[1]), 1000)
	switch c.bContent {
	case 1:
		tx, err := b.transferTx(sn.K(0).Address, sn.K(2).Address, 7)
		if err != nil {
			return "", "", err
		}
		x, err := b.sign(tx, sn.K(0), "", nil)
		if err != nil {
			return "", "", err
		}
		bTxs = append(bTxs, x)
	case 2:
		cAuth := []entry{b.ent(cDirect, 0, false, b.C, b.k[0])}
		tx, err := b.contractTx([]*protos.InvokeRequest{aclReq("SetAccountAcl", map[string][]byte{"account_name": []byte(b.u.list[b.C]),
			"acl": []byte(newC.JSON(b.u))})}, sn.K(6).Address, uris(cAuth))
		if err != nil {
			return "", "", err
		}
		x, err := b.sign(tx, sn.K(6), "", cAuth)
		if err != nil {
			return "", "", err
		}
		bTxs = append(bTxs, x)
	}

	// 2a: the rule change that hands out the authority
	if err := b.setAcl(gainAcct, gainRule); err != nil {
		return "", "", err
	}
	switch c.aMode {
	case 0:
		if err := b.mine(); err != nil {
			return "", "", err
		}
	case 1:
		b.ts += 10
		own, err := b.n.PackBlock(sn.K(0), b.ts)
		if err != nil {
			return "", "", fmt.Errorf("pack 2a: %v", err)
		}
		if err := b.n.ConfirmForMiner(own); err != nil {
			return "", "", fmt.Errorf("confirm own 2a: %v", err)
		}
		b.height++
	case 2:
		pool, _ := b.n.State.GetUnconfirmedTx(false)
		b.ts += 10
		blk, err := b.n.FormatBlock(t0, h0+1, sn.K(1), b.ts, pool, true)
		if err != nil {
			return "", "", err
		}
		if err := b.n.ProcBlock(blk); err != nil {
			return "", "", fmt.Errorf("ProcBlock 2a: %v", err)
		}
		b.height++
	}
	if p, _ := b.n.State.GetUnconfirmedTx(false); len(p) != 0 || b.height != h0+1 {
		return "", "", fmt.Errorf("2a did not confirm the rule change (%d pending, height %d)", len(p), b.height)
	}
	tipA := append([]byte{}, b.n.StateTip()...)
	b.w.Rules[gainAcct] = gainRule
	if s, d, e := b.vector(r, "authority-gained-in-2a", ops); s != "" || e != nil {
		return s, d, e
	}

	// operations that only the gained authority covers, admitted while 2a is the tip
	var pend []*gainedOp
	for _, op := range ops {
		tx, err := b.body(op, uris(pAuth))
		if err != nil {
			return "", "", err
		}
		P, err := b.sign(tx, sn.K(6), "", pAuth)
		if err != nil {
			return "", "", err
		}
		if op == opSpend && (c.kind+c.aMode)%2 == 1 {
			// the engine's Chain.SubmitTx (it takes no transaction without inputs on a chain with fees)
			if err := b.n.SubmitTx(sn.CloneTx(P)); err != nil {
				return "", "", fmt.Errorf("%s under the gained authority: SubmitTx: %v", op, err)
			}
		} else if err := b.admit(P, op+" under the gained authority"); err != nil {
			return "", "", err
		}
		pend = append(pend, &gainedOp{op: op, tx: P})
		r.Count("B.gained-authority.operations-admitted-under-the-gained-authority", 1)
	}

	// the longer branch 2b-3b on which the authority was never handed out
	b.ts += 10
	y2, err := b.n.FormatBlock(t0, h0+1, sn.K(1), b.ts, bTxs, true)
	if err != nil {
		return "", "", err
	}
	b.ts += 10
	y3, err := b.n.FormatBlock(y2.Blockid, h0+2, sn.K(1), b.ts, nil, true)
	if err != nil {
		return "", "", err
	}
	if c.bProc {
		if err := b.n.ProcBlock(y2); err != nil {
			return "", "", fmt.Errorf("ProcBlock 2b: %v", err)
		}
		if err := b.n.ProcBlock(y3); err != nil {
			return "", "", fmt.Errorf("ProcBlock 3b: %v", err)
		}
	} else {
		for _, y := range []*pb.InternalBlock{y2, y3} {
			if st := b.n.Confirm(y); !st.Succ {
				return "", "", fmt.Errorf("confirm: %v", st.Error)
			}
		}
		if err := b.n.Walk(y3.Blockid, false); err != nil {
			return "", "", fmt.Errorf("walk to the longer branch: %v", err)
		}
	}
	if string(b.n.StateTip()) != string(y3.Blockid) {
		return "", "", fmt.Errorf("the node did not follow the longer branch (tip %s, 2a %s, 3b %s) %v", sn.Short(b.n.StateTip()), sn.Short(tipA), sn.Short(y3.Blockid), b.n.Log.Tail(3))
	}
	b.height = h0 + 2
	b.w.Rules[gainAcct] = oldRule
	if c.bContent == 2 {
		b.w.Rules[b.C] = newC
	}
	r.Count("B.gained-authority.reorganisations-undoing-the-gain", 1)

	var paths [][]int8
	for _, e := range pAuth {
		paths = append(paths, e.Path)
	}
	describe := func() string {
		return fmt.Sprintf("%s: rule of %s on the abandoned block 2a: %s; rules confirmed on the path to the tip: A: %s, B: %s",
			c, b.sym[gainAcct], gainRule.Describe(symr), b.w.Rules[b.A].Describe(symr), b.w.Rules[b.B].Describe(symr))
	}
	var held []*gainedOp
	for _, p := range pend {
		p.want = b.w.OracleAccount(b.A, paths)
		if b.pending(p.tx.Txid) {
			r.Count("B.gained-authority.operations-still-pending-after-the-walk", 1)
			if p.want == MustReject {
				// does the node itself still verify it?
				again := sn.CloneTx(p.tx)
				again.Blockid = nil
				if ok, _, _ := b.verify(again); !ok {
					held = append(held, p)
				}
			}
		} else {
			r.Count("B.gained-authority.operations-dropped-by-the-walk", 1)
		}
	}

	// the node's next own block: the engine's real packBlock / confirmBlockForMiner
	b.ts += 10
	blk, perr := b.n.PackBlock(sn.K(0), b.ts)
	if perr == nil {
		perr = b.n.ConfirmForMiner(blk)
	}
	if perr != nil {
		if len(held) == 0 {
			return "", "", fmt.Errorf("own block after the reorganisation: %v", perr)
		}
	} else {
		b.height++
		r.Count("B.gained-authority.own-blocks-after-the-reorganisation", 1)
		in := map[string]bool{}
		for _, x := range blk.Transactions {
			in[string(x.Txid)] = true
		}
		for _, p := range pend {
			if !in[string(p.tx.Txid)] {
				continue
			}
			r.Count("B.gained-authority.operations-confirmed-by-the-own-block", 1)
			if p.want == MustReject {
				return "tx|guarded-operation-confirmed-without-satisfying-confirmed-rule|pending-operation-outlived-its-authority|authority-undone-by-reorganisation",
					fmt.Sprintf("%s on A signed by %v was admitted while block 2a (which gave k6 that authority) was the tip; the ledger then switched to the longer branch 2b-3b without the rule change; the node kept the operation pending and its miner's next block confirmed it although the signers do not satisfy the rule in force on the confirmed chain. %s. Every other node re-verifies the block's transactions and refuses it.",
						p.op, b.symAuth(pAuth), describe()), nil
			}
		}
	}
	if len(held) > 0 {
		p := held[0]
		return "tx|pool-holds-guarded-operation-that-no-longer-verifies|authority-undone-by-reorganisation",
			fmt.Sprintf("%s on A signed by %v was admitted while block 2a (which gave k6 that authority) was the tip; after the node has walked to the longer branch 2b-3b without the rule change the operation is still in its pool although State.VerifyTx refuses it and the signers do not satisfy the rule in force on the confirmed chain (the miner packs the pool without verifying it again). %s",
				p.op, b.symAuth(pAuth), describe()), nil
	}
	return b.vector(r, "after-reorganisation-undoing-the-gain", ops)
}

func gainedFloors(r *ev.Run) {
	n := int64(len(gainedCases(r)))
	r.Floor("B.gained-authority.scenarios", n)
	r.Floor("B.gained-authority.reorganisations-undoing-the-gain", n-2)
	r.Floor("B.gained-authority.operations-admitted-under-the-gained-authority", 3*(n-2))
	r.Floor("B.gained-authority.own-blocks-after-the-reorganisation", n-2)
}
