// C11: access-control evaluation is sound, monotone and counts each signer once; changing
// a rule needs the owning account's rule currently confirmed on chain.
package main

import (
	"fmt"
	"os"
	"runtime/debug"
	"sort"
	"strings"
	"sync"
	"time"

	"verif/ev"
	sn "verif/simnode"
)

func main() {
	if len(os.Args) >= 3 && os.Args[1] == rotChildFlag {
		rotChildMain(os.Args[2:])
		return
	}
	if len(os.Args) == 3 && os.Args[1] == childFlag {
		childMain(os.Args[2])
		return
	}
	r := ev.Start("C11", "exploration",
		"PART A (exhaustive boxes): the real aclu.IdentifyAccount / aclu.CheckContractMethodPerm over a stub AclManager, for EVERY rule assignment of a box "+
			"(threshold rules: every weight in {0,0.3,0.5,1} for each of 4 keys + 1 nested account x accept in {0.5,1,1.5}; key-set rules: every choice of <= 3 (quick: <= 2) distinct sets "+
			"among all subsets of those 5 members; 6 (quick: 3) rules for the nested account incl. an account cycle; the boxes with the confusion URIs use a reduced rule space in quick — "+
			"measured sizes are in counters A.<box>.rule-configs / .signer-lists) x EVERY multiset of <= 4 signer URIs over {A/k, A/B/k, B/k, bare k, "+
			"A/k/k', A/B/k/k', look-alike roots (17 digits, chain-name prefix / suffix, no chain), rule-less account in the path, empty component, A/A/k, A/B/A/k, outsider key}; "+
			"the same for method rules (members 3 keys + 2 accounts). Answers are compared with a model written from the statement in exact decimal arithmetic, evaluated under a "+
			"strict and a liberal reading where the statement leaves a choice (only what both demand is enforced). Monotonicity: every accepted multiset x every URI added. "+
			"Extra boxes: all ORDERS of signer lists, all orders of subsets of 6 signers with decimal weights at / around the threshold, negative weights, degenerate rules. "+
			"PART B (node): accounts with 7 (thorough: 10) different rules created by $acl.NewAccount and confirmed; SetAccountAcl, SetMethodAcl, raw puts / deletes into XCAccount, XCContract, "+
			"XCContract2Account through the $verif kernel contract, spending the account's outputs and calling a method-rule-protected contract, each signed by every subset of a "+
			"signer-URI menu (own account, nested account, other account, bare, look-alike, unverified name before the key), before and after a rule change is pending / confirmed; "+
			"State.VerifyTx must accept iff the rule confirmed at the tip is satisfied. "+
			"MOVING CHAIN: reorganisations and lost authority (reorg.go); authority GAINED on a branch that is then abandoned (gained.go: operations admitted under it must neither be confirmed by the node's next own block - real miner - nor stay in the pool); "+
			"CONCURRENT (rotate.go, child process): goroutines verify guarded operations of A next to blocks that rotate A's key (ProcBlock / Walk / own block, storage jitter); verdicts of verifications lying wholly between two blocks, and directed re-verifications of the signer lists that were under verification while the tip moved, must follow the rule confirmed at the tip. "+
			"A case is distinct by (box, rule class, multiset of URI categories, oracle verdict) in part A "+
			"and by (operation, rule, URI-category set, phase, verdict) in part B; non-trivial = contains an entry that must not count, a repeat, a nested account or a boundary sum")
	t0 := time.Now()              // progress output only
	only := os.Getenv("C11_ONLY") // development aid: run only the steps whose name contains this
	step := func(name string, f func()) {
		if only != "" && !strings.Contains(name, only) {
			return
		}
		f()
		fmt.Fprintf(os.Stderr, "c11: %-28s done at %6.1fs\n", name, time.Since(t0).Seconds())
	}
	sn.InitLogs()
	u := NewUniverse()
	if os.Getenv("C11_SKIP_B") == "" {
		step("null-key-set probe (child)", func() { nullSetProbe(r) })
	}
	if os.Getenv("C11_SKIP_A") == "" {
		step("part A", func() { partA(r, u) })
	}
	if os.Getenv("C11_SKIP_B") == "" {
		step("part B", func() { partB(r) })
		step("part B pool churn", func() { jobChurn(r) })
		step("part B moving chain", func() { jobReorg(r) })
		step("part B gained authority", func() { jobGained(r) })
		step("part B rotation (child)", func() { jobRotation(r) })
	}

	flush(r)
	r.Exhaustive(true)
	r.Extra("exhaustive_box", "every (rule assignment, signer multiset) pair of each part-A box named in counters A.<box>.*; part B enumerates every subset of its signer menu per (rule, operation, phase)")
	r.Floor("A.evaluations", 1000000)
	r.Floor("A.oracle.must-accept", 100000)
	r.Floor("A.oracle.must-reject", 100000)
	r.Floor("A.monotonicity.pairs", 100000)
	for _, c := range []string{cDirect, cNested, cOther, cBare, cNameBefore, cLookalike, cNoRule, cMalformed, cDeep, cOutsider, "REPEATED-ENTRY"} {
		r.Floor("A.lists-with."+c, 1000)
	}
	r.Floor("A.float.signer-sets-exactly-at-threshold", 50)
	if os.Getenv("C11_SKIP_B") == "" {
		partBFloors(r)
		gainedFloors(r)
	}
	r.Assume("every signer URI handed to the evaluation ends in a key whose signature was verified upstream (State.verifySignatures rejects a transaction with any bad auth_require signature); names before that key are NOT verified")
	r.Assume("not enforced (counted as oracle.unspecified): bare key offered to an account rule, account-format name without a rule inside a path, empty listed key set, evaluation of an account that has no rule; a URI with an empty component or with a non-account name before the signing key contributes nothing — refusing the whole list because of it (fail closed) and ignoring just that URI are both accepted")
	r.Assume("observed but not judged (statement is silent): who may re-point an existing contract->account mapping (counters B.observed.remap-*), calls while a method's first rule is only pending, SetMethodAcl while the contract->account mapping is unconfirmed")
	r.Assume("threshold sums are compared in exact decimal arithmetic on the weights as written in the rule's JSON")
	r.Assume("part B: the signers of a transaction are its auth_require entries with a valid signature; the initiator is an outsider key except in the cases counted under B.initiator-*, where only the sandwich (satisfied without it => accept, unsatisfied even with it => reject) is enforced")
	sn.CleanupScratch()
	r.Finish()
}

// findings of both parts are merged per signature: the pure evaluation witness (part A) and
// the end-to-end witness (part B) of the same defect travel in one violation.
type merged struct {
	detail  []string
	witness map[string]interface{}
}

var (
	allMu       sync.Mutex
	allFindings = map[string]*merged{}
)

func report(part, sig, detail string, witness interface{}) {
	allMu.Lock()
	defer allMu.Unlock()
	m := allFindings[sig]
	if m == nil {
		m = &merged{witness: map[string]interface{}{}}
		allFindings[sig] = m
	}
	if _, dup := m.witness[part]; dup {
		return
	}
	m.witness[part] = witness
	m.detail = append(m.detail, "["+part+"] "+detail)
}

func flush(r *ev.Run) {
	var sigs []string
	for s := range allFindings {
		sigs = append(sigs, s)
	}
	sort.Strings(sigs)
	for _, s := range sigs {
		m := allFindings[s]
		r.Violation(s, strings.Join(m.detail, " || "), m.witness)
	}
}

func partA(r *ev.Run, u *Universe) {
	quick := r.Quick()
	defer debug.SetGCPercent(debug.SetGCPercent(2000)) // tiny live heap, allocation-heavy callee
	k := u.K
	aURIs := accountURIs(u)
	mURIs := methodURIs(u)
	bs := bRules(u)
	membersA := []int{k[0], k[1], k[2], k[3], u.B}
	membersM := []int{k[0], k[1], k[2], u.A, u.B}

	// 1. account rules, core URIs, the full rule space of DESIGN.md (quick: key-set rules with <= 2 sets, 3 of the 6 nested rules)
	thrA := thresholdRules(membersA, weightVals, acceptVals)
	core := &Box{Name: "account-core", U: u, Root: u.A, URIs: coreOnly(aURIs), MaxLen: 4, Mono: true}
	if quick {
		core.Configs = accountConfigs(u, append(append([]*MRule{}, thrA...), keysetRules(membersA, 2, 5)...), []*MRule{bs[1], bs[3], bs[4]})
	} else {
		core.Configs = accountConfigs(u, append(append([]*MRule{}, thrA...), keysetRules(membersA, 3, 5)...), bs)
	}
	core.Run(r)

	// 2. account rules, all URIs (confusion candidates)
	conf := &Box{Name: "account-confusion", U: u, Root: u.A, URIs: aURIs, MaxLen: 4, Mono: true}
	if quick {
		m4 := []int{k[0], k[1], k[2], u.B}
		rules := append(thresholdRules(m4, []int64{0, 500, 1000}, []int64{500, 1000}), keysetRules(m4, 2, 2)...)
		conf.Configs = accountConfigs(u, rules, []*MRule{bs[1], bs[4]})
	} else {
		conf.Configs = accountConfigs(u, append(append([]*MRule{}, thrA...), keysetRules(membersA, 2, 5)...), bs)
	}
	conf.Run(r)

	// 3. method rules
	thrM := thresholdRules(membersM, weightVals, acceptVals)
	pairs := acctPairs(u)
	mcore := &Box{Name: "method-core", U: u, Root: -1, URIs: coreOnly(mURIs), MaxLen: 4, Mono: true}
	if quick {
		mcore.Configs = methodConfigs(u, append(append([]*MRule{}, thrM...), keysetRules(membersM, 2, 5)...), [][2]*MRule{pairs[1], pairs[3]})
	} else {
		mcore.Configs = methodConfigs(u, append(append([]*MRule{}, thrM...), keysetRules(membersM, 3, 5)...), pairs)
	}
	mcore.Run(r)
	mconf := &Box{Name: "method-confusion", U: u, Root: -1, URIs: mURIs, MaxLen: 4, Mono: true}
	if quick {
		m4 := []int{k[0], k[1], u.A, u.B}
		rules := append(thresholdRules(m4, []int64{0, 500, 1000}, []int64{500, 1000}), keysetRules(m4, 2, 4)...)
		mconf.Configs = methodConfigs(u, rules, [][2]*MRule{pairs[1], pairs[3]})
	} else {
		mconf.Configs = methodConfigs(u, append(append([]*MRule{}, thrM...), keysetRules(membersM, 2, 5)...), pairs)
	}
	mconf.Run(r)

	// 4. orders of the signer list
	ord := &Box{Name: "account-orders", U: u, Root: u.A, URIs: catOnly(aURIs, cDirect, cNested), MaxLen: 4, Ordered: true}
	if quick {
		m4 := []int{k[0], k[1], k[2], u.B}
		ord.Configs = accountConfigs(u, thresholdRules(m4, weightVals, acceptVals), []*MRule{bs[2]})
	} else {
		ord.Configs = accountConfigs(u, thrA, bs)
	}
	ord.Run(r)

	// 5. special boxes
	floatBox(r, u)
	wideBox(r)
	negativeBox(u).Run(r)
	degenerateBox(u).Run(r)
}
