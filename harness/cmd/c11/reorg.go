package main

// Part B, the rule "currently in force on the confirmed chain" while the chain moves.
//
// (1) reorganisation: a rule change X of account A is confirmed in block 2x; a longer branch
// 2y-3y without X wins (the engine's Walk); X becomes pending again (the walk's pool recovery or a
// resubmission); later X is confirmed on the new branch. At every one of these moments guarded
// operations on A are attempted with every small subset of a signer menu (old owners, nested
// owners, the new owner) and State.VerifyTx is compared with the model evaluated on the rules
// confirmed on the path to the CURRENT tip: an abandoned block's rule, or a pending one, is not in
// force.
//
// (2) a pending change that loses its authority: A is owned through account B; a change of A's
// rule signed by B's members is pending when a peer block hands B to somebody else (no read /
// write conflict with the pending transaction: nested rules are read outside its read set). The
// node then packs its pool. Whatever it confirms must satisfy the rule in force at that block.

import (
	"fmt"

	pb "github.com/xuperchain/xupercore/bcs/ledger/xledger/xldgpb"
	"github.com/xuperchain/xupercore/protos"

	"verif/ev"
	sn "verif/simnode"
)

func (b *bworld) reorgMenu() []entry {
	return []entry{
		b.ent(cDirect, 0, false, b.A, b.k[0]),
		b.ent(cDirect, 1, false, b.A, b.k[1]),
		b.ent(cDirect, 2, false, b.A, b.k[2]),
		b.ent(cNested, 2, false, b.A, b.B, b.k[2]),
		b.ent(cNested, 3, false, b.A, b.B, b.k[3]),
		b.ent(cDirect, 5, false, b.A, b.k[5]),
		b.ent(cNested, 5, false, b.A, b.B, b.k[5]),
	}
}

// vector attempts op with every subset (size <= 2, plus the full old authorisation) of the menu
// and compares with the model on b.w (the rules confirmed at the tip).
func (b *bworld) vector(r *ev.Run, moment string, ops []string) (string, string, error) {
	menu := b.reorgMenu()
	subs := subsets(len(menu), 2)
	for _, op := range ops {
		for _, sub := range subs {
			var auth []entry
			for _, i := range sub {
				auth = append(auth, menu[i])
			}
			ok, verr, pn, err := b.attempt(op, auth)
			if err != nil {
				return "", "", err
			}
			want := b.want(auth, nil)
			r.Count("B.reorg.attempts", 1)
			r.Count("B.transactions-verified", 1)
			r.Case(fmt.Sprintf("B|reorg|%s|%s|%v", moment, op, sub), true)
			switch {
			case pn != "":
				return "tx|panic-in-VerifyTx|" + moment, fmt.Sprintf("%s with %v at moment %q: %s", op, b.symAuth(auth), moment, pn), nil
			case ok && want == MustReject:
				return "tx|accepted-without-satisfying-confirmed-rule|op=" + op + "|" + moment,
					fmt.Sprintf("moment %q: %s signed by %v verifies although the rule of A confirmed on the path to the tip is %s",
						moment, op, b.symAuth(auth), b.w.Rules[b.A].Describe(func(i int) string { return b.sym[i] })), nil
			case !ok && want == MustAccept:
				return "tx|refused-although-confirmed-rule-satisfied|op=" + op + "|" + moment,
					fmt.Sprintf("moment %q: %s signed by %v refused (%v) although it satisfies the rule of A confirmed on the path to the tip, %s",
						moment, op, b.symAuth(auth), verr, b.w.Rules[b.A].Describe(func(i int) string { return b.sym[i] })), nil
			}
		}
	}
	return "", "", nil
}

func (b *bworld) pending(txid []byte) bool {
	pool, _ := b.n.State.GetUnconfirmedTx(false)
	for _, p := range pool {
		if string(p.Txid) == string(txid) {
			return true
		}
	}
	return false
}

// block builds, stores and walks to a block on parent holding txs (not taken from the pool).
func (b *bworld) block(parent []byte, height int64, txs []*pb.Transaction) (*pb.InternalBlock, error) {
	b.ts += 10
	blk, err := b.n.FormatBlock(parent, height, sn.K(1), b.ts, txs, true)
	if err != nil {
		return nil, err
	}
	if st := b.n.Confirm(blk); !st.Succ {
		return nil, fmt.Errorf("confirm: %v", st.Error)
	}
	return blk, nil
}

func jobReorg(r *ev.Run) {
	ops := []string{opSetAccountAcl, opRawPutAccount, opSpend}
	ruleIdx := []int{0, 3, 9}
	if !r.Quick() {
		ruleIdx = []int{0, 1, 2, 3, 4, 5, 8, 9}
		ops = acctOps
	}
	for _, ri := range ruleIdx {
		func() {
			defer func() {
				if p := recover(); p != nil {
					if inc, ok := p.(sn.Inconclusive); ok {
						r.Inconclusive(inc.Why)
						return
					}
					panic(p)
				}
			}()
			if sig, detail, err := reorgScenario(r, ri, ops); err != nil {
				r.Inconclusive(fmt.Sprintf("part B reorg, rule#%d: harness could not drive the node: %v", ri, err))
			} else if sig != "" {
				report("end-to-end", sig, fmt.Sprintf("rule#%d: %s", ri, detail), map[string]interface{}{"rule": ri})
			}
		}()
	}
	for _, inner := range []int{0, 1, 2, 3, 4, 5} {
		func() {
			defer func() {
				if p := recover(); p != nil {
					if inc, ok := p.(sn.Inconclusive); ok {
						r.Inconclusive(inc.Why)
						return
					}
					panic(p)
				}
			}()
			if sig, detail, err := lostAuthorityScenario(r, inner); err != nil {
				r.Inconclusive(fmt.Sprintf("part B pending change losing its authority (%d): harness could not drive the node: %v", inner, err))
			} else if sig != "" {
				report("end-to-end", sig, detail, nil)
			}
		}()
	}
}

func reorgScenario(r *ev.Run, ri int, ops []string) (string, string, error) {
	b, err := newWorld(ri)
	if err != nil {
		return "", "", err
	}
	defer b.n.Drop()
	r.Count("B.reorg.worlds", 1)
	oldRule := b.w.Rules[b.A]
	newRule := thr(1000, int64(b.k[5]), 1000)
	t0, h0 := append([]byte{}, b.n.StateTip()...), b.height
	check := func(moment string) (string, string, error) { return b.vector(r, moment, ops) }
	if s, d, e := check("before"); s != "" || e != nil {
		return s, d, e
	}
	// X: the authorised change, confirmed in 2x
	if err := b.setAcl(b.A, newRule); err != nil {
		return "", "", err
	}
	pool, _ := b.n.State.GetUnconfirmedTx(false)
	if len(pool) != 1 {
		return "", "", fmt.Errorf("expected the rule change alone in the pool, found %d", len(pool))
	}
	X := sn.CloneTx(pool[0])
	if s, d, e := check("change-pending"); s != "" || e != nil { // pending: not in force
		return s, d, e
	}
	if err := b.mine(); err != nil {
		return "", "", err
	}
	b.w.Rules[b.A] = newRule
	if s, d, e := check("change-confirmed-in-2x"); s != "" || e != nil {
		return s, d, e
	}
	// the longer branch without X
	y2, err := b.block(t0, h0+1, nil)
	if err != nil {
		return "", "", err
	}
	y3, err := b.block(y2.Blockid, h0+2, nil)
	if err != nil {
		return "", "", err
	}
	if err := b.n.Walk(y3.Blockid, false); err != nil {
		return "", "", fmt.Errorf("walk to the longer branch: %v", err)
	}
	b.height = h0 + 2
	b.w.Rules[b.A] = oldRule
	r.Count("B.reorg.reorganisations", 1)
	if b.pending(X.Txid) {
		r.Count("B.reorg.change-pending-again-after-the-walk", 1)
	}
	if s, d, e := check("after-reorganisation-to-a-branch-without-the-change"); s != "" || e != nil {
		return s, d, e
	}
	if !b.pending(X.Txid) {
		c := sn.CloneTx(X)
		c.Blockid = nil
		if ok, _ := b.n.State.VerifyTx(c); ok {
			if b.n.State.DoTx(c) == nil {
				r.Count("B.reorg.change-resubmitted", 1)
			}
		}
	}
	if b.pending(X.Txid) {
		if s, d, e := check("change-of-the-abandoned-block-pending-again"); s != "" || e != nil {
			return s, d, e
		}
		if err := b.mine(); err != nil {
			return "", "", err
		}
		b.w.Rules[b.A] = newRule
		if s, d, e := check("change-confirmed-on-the-new-branch"); s != "" || e != nil {
			return s, d, e
		}
	} else {
		r.Count("B.reorg.change-not-admitted-again", 1)
	}
	// and back: walk to 2x's branch is shorter now; a walk to it anyway (a side branch may be visited
	// by Walk) puts the abandoned block's rule back in force
	return "", "", nil
}

// lostAuthorityScenario: a pending operation P on account A is authorised when it is admitted; a
// block (of a peer, or the node's own, packed before P arrived) then confirms Q, which takes that
// authority away WITHOUT any read / write conflict with P:
//
//	variants 0,1 (x peer/own): A is owned through B (rule #9: B alone, rule #3: k1 half + B half),
//	             P = change of A's rule signed by B's members, Q = B handed to k6;
//	variant  2   (x peer/own): rule #0 (k1 alone), P = spend of A's funds signed A/k1 (a transfer has
//	             no read set at all), Q = A handed to k6.
//
// Then the node's REAL miner packs its pool. If the block it confirms holds P, an operation guarded
// by A's rule took effect without satisfying the rule in force on the confirmed chain.
func lostAuthorityScenario(r *ev.Run, variant int) (string, string, error) {
	kind := variant % 3
	ownBlock := variant >= 3
	ri := []int{9, 3, 0}[kind]
	b, err := newWorld(ri)
	if err != nil {
		return "", "", err
	}
	defer b.n.Drop()
	handOver := thr(1000, int64(b.k[5]), 1000)
	var auth, qAuth []entry
	pOp, qAcct := opSetAccountAcl, b.B
	switch kind {
	case 0, 1:
		auth = []entry{b.ent(cNested, 2, false, b.A, b.B, b.k[2]), b.ent(cNested, 3, false, b.A, b.B, b.k[3])}
		if ri == 3 {
			auth = append(auth, b.ent(cDirect, 0, false, b.A, b.k[0]))
		}
		qAuth = []entry{b.ent(cDirect, 2, false, b.B, b.k[2]), b.ent(cDirect, 3, false, b.B, b.k[3])}
	case 2:
		pOp, qAcct = opSpend, b.A
		auth = []entry{b.ent(cDirect, 0, false, b.A, b.k[0])}
		qAuth = b.fullAuth()
	}
	tx, err := b.body(pOp, uris(auth))
	if err != nil {
		return "", "", err
	}
	P, err := b.sign(tx, sn.K(6), "", auth)
	if err != nil {
		return "", "", err
	}
	if !ownBlock {
		if err := b.admit(P, "operation on A, authorised when admitted"); err != nil {
			return "", "", err
		}
	}
	tx, err = b.contractTx([]*protos.InvokeRequest{aclReq("SetAccountAcl", map[string][]byte{"account_name": []byte(b.u.list[qAcct]),
		"acl": []byte(handOver.JSON(b.u))})}, sn.K(6).Address, uris(qAuth))
	if err != nil {
		return "", "", err
	}
	Q, err := b.sign(tx, sn.K(6), "", qAuth)
	if err != nil {
		return "", "", err
	}
	if ok, verr, _ := b.verify(Q); !ok {
		return "", "", fmt.Errorf("the hand-over does not verify: %v", verr)
	}
	if ownBlock {
		// the node admits Q, its miner packs it; while the block is on its way (consensus step) P
		// arrives and is admitted on the rules still in force; then the block is confirmed
		if err := b.admit(Q, "hand-over"); err != nil {
			return "", "", err
		}
		b.ts += 10
		own, err := b.n.PackBlock(sn.K(0), b.ts)
		if err != nil {
			return "", "", fmt.Errorf("pack: %v", err)
		}
		if err := b.admit(P, "operation on A, authorised when admitted"); err != nil {
			return "", "", err
		}
		if err := b.n.ConfirmForMiner(own); err != nil {
			return "", "", fmt.Errorf("confirm own block: %v", err)
		}
	} else {
		blk, err := b.block(b.n.StateTip(), b.height+1, []*pb.Transaction{Q})
		if err != nil {
			return "", "", err
		}
		if err := b.n.Walk(blk.Blockid, false); err != nil {
			return "", "", fmt.Errorf("walk to the peer block: %v", err)
		}
	}
	b.height++
	b.w.Rules[qAcct] = handOver
	r.Count("B.lost-authority.scenarios", 1)
	r.Case(fmt.Sprintf("B|lost-authority|rule#%d|%s|own-block=%v", ri, pOp, ownBlock), true)
	var paths [][]int8
	for _, e := range auth {
		paths = append(paths, e.Path)
	}
	want := b.w.OracleAccount(b.A, paths)
	still := b.pending(P.Txid)
	if still {
		r.Count("B.lost-authority.still-pending", 1)
	} else {
		r.Count("B.lost-authority.dropped-from-the-pool", 1)
	}
	if still && want == MustReject {
		// the node's own miner (the real packBlock / confirmBlockForMiner of the engine)
		b.ts += 10
		blk, perr := b.n.PackBlock(sn.K(0), b.ts)
		if perr == nil {
			perr = b.n.ConfirmForMiner(blk)
		}
		confirmed := false
		if perr == nil {
			for _, x := range blk.Transactions {
				confirmed = confirmed || string(x.Txid) == string(P.Txid)
			}
		}
		if confirmed {
			by := map[bool]string{true: "authority-removed-by-own-block", false: "authority-removed-by-peer-block"}[ownBlock]
			return "tx|guarded-operation-confirmed-without-satisfying-confirmed-rule|pending-operation-outlived-its-authority|" + by,
				fmt.Sprintf("rule#%d: %s on A signed by %v was pending when a block (%s) handed %s to k6 - no read / write conflict with it; the node kept it pending and its miner's next block confirmed it although the signers do not satisfy the rule in force on the confirmed chain (A: %s, %s: %s). Every other node re-verifies the block's transactions and refuses it.",
					ri, pOp, b.symAuth(auth), by, b.sym[qAcct], b.w.Rules[b.A].Describe(func(i int) string { return b.sym[i] }), b.sym[qAcct], handOver.Describe(func(i int) string { return b.sym[i] })), nil
		}
	}
	return "", "", nil
}
