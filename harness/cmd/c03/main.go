// C03: no double spend of outputs or key versions; admission iff inputs are current.
package main

import (
	"math/rand"
	"strings"

	"verif/ev"
	"verif/gen"
	"verif/hist"
	sn "verif/simnode"
)

func main() {
	r := ev.Start("C03", "exploration",
		"random block trees x op sequences with heavy pool traffic (submissions of other branches' transactions, own blocks, peer blocks via Play and via confirm+Walk, reorganisations "+
			"returning transactions to the pool, peer blocks carrying conflicting / inadmissible transactions) + conflict families (double spend, key w/w, r/w, w/r, r/r, out-of-order chains, diamonds, stale-after-write) and hostile variants; "+
			"every DoTx result is compared both ways with the admission predicted by a statement-level model of chain(tip)+pool, and after every op the pool must be a conflict-free "+
			"sequential extension of the model state; case = one history, non-trivial = had an undo, a refused and an admitted family member")
	defer sn.CleanupScratch()
	nh := r.N(250, 6000)
	o := gen.DefaultOpts()
	so := hist.StepOpts{Reopen: true, Pool: true, Mine: true, AllowPlayHazard: true, PredictSubmit: true, Engine: true}
	hist.RunHistoriesX(r, nh, o, so, 10, 40, []hist.Auditor{hist.ModelAuditor}, func(s *hist.SUT, op hist.Op) []hist.Problem {
		if op.Kind == "play" && strings.HasPrefix(op.Result, "FAIL") && op.Arg == ",hazard" {
			return []hist.Problem{{Sig: "play-failed|pool-writer-vs-block-reader",
				Detail: "Play of a valid block failed while the pool held a writer of a key version that a new transaction of the block reads: " + op.String()}}
		}
		ps := hist.MustSucceed(op)
		ps = append(ps, s.TakeProblems()...)
		return ps
	}, func(s *hist.SUT, rng *rand.Rand) []hist.Problem {
		switch rng.Intn(8) {
		case 0, 1:
			fam := hist.ConflictFamilies[rng.Intn(len(hist.ConflictFamilies))]
			_, ps := s.AttemptFamily(rng, fam, rng.Intn(2) == 0)
			if len(ps) == 0 {
				ps = hist.ModelAuditor(s, hist.Op{})
			}
			return ps
		case 2:
			cl := hist.HostileClasses[rng.Intn(len(hist.HostileClasses))]
			if cl == "marked-out-more" { // owned by C02 (open finding)
				return nil
			}
			xs := s.Hostile(rng, cl)
			if xs == nil {
				return nil
			}
			_, ps := s.Attempt(xs, cl, "both")
			if len(ps) == 0 {
				ps = hist.ModelAuditor(s, hist.Op{})
			}
			return ps
		case 3:
			// a peer's block carrying a conflict / an inadmissible transaction must be refused
			_, ps := s.BlockAttempt(rng, hist.BlockClasses[rng.Intn(len(hist.BlockClasses))])
			if len(ps) == 0 {
				ps = hist.ModelAuditor(s, hist.Op{})
			}
			return ps
		}
		return nil
	})
	r.Floor("model.compared", 1500)
	r.Floor("walk.undo", 30)
	r.Floor("family.admitted", 100)
	r.Floor("family.refused", 60)
	for _, f := range hist.ConflictFamilies {
		r.Floor("family."+f, 8)
	}
	r.Floor("submit.predicted", 200)
	r.Floor("op.play", 100)
	r.Floor("blockattempt.played", 60)
	r.Floor("pool.admitted", 300)
	r.Assume("the model decides admissibility from token inputs and key versions only; signatures / ACL / contract re-execution are C07, C11, C09")
	r.Finish()
}
