// C06: crash consistency of ledger and state at every storage-write boundary.
package main

import (
	"fmt"
	"math/rand"
	"runtime/debug"
	"strings"

	"verif/ev"
	"verif/gen"
	"verif/hist"
	sn "verif/simnode"
)

func main() {
	r := ev.Start("C06", "fault_enumeration",
		"scenarios = short random histories (confirm, play, own block via PlayForMiner, pool admissions of dependent transactions, walks incl. cross-fork with a non-empty pool, "+
			"truncate + regrowth, reopen) on a storage engine that logs every atomic write of both databases with one sequence counter; for EVERY prefix k of that write sequence the image "+
			"'process died after write k' is rebuilt, ledger and state are opened on it, the ledger's own invariants, state == canon(pointer)+persisted pool, the statement-level conservation "+
			"model are audited, then the state is synchronised to the ledger tip and audited again; a case = one (scenario, prefix); distinct by scenario shape + k; non-trivial = prefix inside a multi-write op")
	defer sn.CleanupScratch()
	ns := r.N(70, 1500)
	for sc := 0; sc < ns; sc++ {
		scenario(r, sc)
	}
	r.Exhaustive(false)
	r.Extra("prefix_space_per_scenario", "exhaustive: every k in 0..|W|")
	r.Floor("prefixes", 600)
	r.Floor("prefix.mid-op", 100)
	r.Floor("scenario.with-walk-pool", 5)
	r.Floor("scenario.with-truncate", 5)
	r.Floor("scenario.with-mine", 5)
	r.Floor("scenario.large-blocks", 3)
	r.Floor("scenario.with-irreversible-window", 5)
	r.Floor("crash.irreversible-height-checked", 100)
	r.Floor("crash.resynced", 500)
	r.Floor("crash.pool-nonempty", 50)
	r.Assume("a single kvdb Put / Delete / Batch.Write is atomic and durable (what leveldb guarantees); torn writes inside one write are not modelled")
	r.Finish()
}

func scenario(r *ev.Run, sc int) {
	rng := rand.New(rand.NewSource(r.Seed*104729 + int64(sc)))
	o := gen.DefaultOpts()
	o.MaxBlocks = 6
	o.MaxDepth = 4
	if sc%8 == 3 {
		// large blocks: reorganisations rewrite megabytes (batch-size dependent code paths)
		o.BigDesc = 500 * 1024
		o.MaxBlocks = 5
		o.MaxTxs = 2
		o.KV = false
		r.Count("scenario.large-blocks", 1)
	}
	if sc%5 == 2 {
		// a non-zero irreversible window: the height is persisted with the pointer; walks below it are refused
		o.Cfg.Window = 1 + rng.Intn(3)
		r.Count("scenario.with-irreversible-window", 1)
	}
	var s *hist.SUT
	defer func() {
		if p := recover(); p != nil {
			if inc, ok := p.(sn.Inconclusive); ok {
				r.Inconclusive(fmt.Sprintf("scenario %d: %s", sc, inc.Why))
				return
			}
			var ops []string
			if s != nil {
				ops = s.OpLog()
			}
			r.Violation("panic|"+strings.SplitN(fmt.Sprint(p), "\n", 2)[0], fmt.Sprintf("panic in scenario %d: %v\n%s", sc, p, debug.Stack()),
				map[string]interface{}{"scenario": sc, "ops": ops})
		}
	}()
	var t *gen.Tree
	var err error
	scripted := o.BigDesc > 0
	if scripted {
		// two competing branches of large blocks sharing transactions: A1-A2 vs B1-B2-B3
		t, err = gen.NewTree(o)
		for _, parent := range []int{0, 1, 0, 3, 4} {
			if err != nil {
				break
			}
			_, err = t.AddBlock(rng, parent, 1+rng.Intn(2), nil)
		}
	} else {
		t, err = gen.Generate(rng, o)
	}
	if err != nil {
		r.Violation("generator|fresh-replay-failed", err.Error(), map[string]interface{}{"scenario": sc})
		return
	}
	defer t.Drop()
	s, err = hist.NewSUT(t)
	if err != nil {
		r.Inconclusive(err.Error())
		return
	}
	defer func() { s.N.Drop() }()
	world := s.N.World
	world.StartLog()
	nops := 8 + rng.Intn(12)
	bounds := []int{0} // write-log length after each op
	so := hist.StepOpts{Reopen: true, Pool: true, Mine: true, Truncate: true, Engine: true}
	script := []func() hist.Op{}
	if scripted {
		// warm caches, the longer branch arrives last: the switch rewrites both branches in one confirmation
		for _, i := range []int{1, 2, 3, 4} {
			i := i
			script = append(script, func() hist.Op { return s.Confirm(i) })
		}
		script = append(script, func() hist.Op { return s.Walk(2, false) }, func() hist.Op { return s.Confirm(5) },
			func() hist.Op { return s.Walk(5, false) })
		nops = len(script) + 3
	}
	for i := 0; i < nops; i++ {
		var op hist.Op
		if i < len(script) {
			op = script[i]()
		} else {
			op = s.Step(rng, so)
		}
		if strings.HasPrefix(op.Result, "FAIL") && o.Cfg.Window > 0 && (op.Kind == "walk" || op.Kind == "receive" || op.Kind == "truncate") {
			r.Count("op.refused-under-irreversible-window", 1) // finality may refuse a roll-back
		} else if strings.HasPrefix(op.Result, "FAIL") {
			r.Violation("legal-op-failed|"+op.Kind, "legal operation failed while recording the scenario: "+op.String()+" ops: "+strings.Join(s.OpLog(), " "),
				map[string]interface{}{"scenario": sc, "ops": s.OpLog()})
			return
		}
		bounds = append(bounds, world.LogLen())
	}
	if s.Stats["op.truncate"] > 0 {
		r.Count("scenario.with-truncate", 1)
	}
	if s.Stats["op.mine"] > 0 {
		r.Count("scenario.with-mine", 1)
	}
	if s.Stats["walk.undo"] > 0 && s.Stats["pool.admitted"] > 0 {
		r.Count("scenario.with-walk-pool", 1)
	}
	total := world.LogLen()
	atBoundary := map[int]bool{}
	for _, b := range bounds {
		atBoundary[b] = true
	}
	shape := t.Shape() + "|" + strings.Join(s.OpLog(), " ")
	for k := 0; k <= total; k++ {
		ps := crashAt(r, s, t, k)
		mid := !atBoundary[k]
		r.Case(fmt.Sprintf("%s|k=%d", shape, k), mid)
		r.Count("prefixes", 1)
		if mid {
			r.Count("prefix.mid-op", 1)
		}
		if len(ps) > 0 {
			// which op was in flight?
			inflight := ""
			for i := 1; i < len(bounds); i++ {
				if k > bounds[i-1] && k <= bounds[i] {
					inflight = s.Log[i-1].String()
				}
			}
			for _, p := range ps {
				r.Violation("crash|"+p.Sig, fmt.Sprintf("%s\ncrash after write %d of %d (in flight: %s)\nops: %s", p.Detail, k, total, inflight, strings.Join(s.OpLog(), " ")),
					map[string]interface{}{"scenario": sc, "seed": r.Seed, "prefix": k, "ops": s.OpLog(), "tree": t.Shape()})
			}
			break
		}
	}
	if sc < 2 {
		r.Sample(map[string]interface{}{"scenario": sc, "tree": t.Shape(), "ops": s.OpLog(), "writes": total})
	}
}

func crashAt(r *ev.Run, s *hist.SUT, t *gen.Tree, k int) []hist.Problem {
	img := s.N.World.ImageAt(k)
	n, err := sn.OpenOn(img, t.Opts.Cfg)
	if err != nil {
		img.Drop()
		return []hist.Problem{{Sig: "cannot-open", Detail: "ledger / state do not open on the crash image: " + err.Error()}}
	}
	defer n.Drop()
	c := hist.WrapCrashed(n, t)
	if ps := hist.LedgerSelfAudit(c); len(ps) > 0 {
		return ps
	}
	if c.Tip() < 0 {
		return []hist.Problem{{Sig: "pointer-unknown", Detail: fmt.Sprintf("state pointer %x names no offered block", n.StateTip())}}
	}
	if !n.Ledger.ExistBlock(n.StateTip()) {
		return []hist.Problem{{Sig: "pointer-not-in-ledger", Detail: fmt.Sprintf("state pointer block %d is not stored in the ledger", c.Tip())}}
	}
	if pool, _ := n.State.GetUnconfirmedTx(false); len(pool) > 0 {
		r.Count("crash.pool-nonempty", 1)
	}
	if w := int64(t.Opts.Cfg.Window); w > 0 {
		// the block the pointer names was applied: the persisted irreversible height is at least its
		// height - w (no pruning walks here), the window is the configured one
		meta := n.State.GetMeta()
		r.Count("crash.irreversible-height-checked", 1)
		if want := t.Blocks[c.Tip()].Height - w; meta.IrreversibleSlideWindow != w || (want > 0 && meta.IrreversibleBlockHeight < want && s.Stats["op.truncate"] == 0) {
			return []hist.Problem{{Sig: "irreversible-height-behind-the-pointer", Detail: fmt.Sprintf("after the crash the state names block %d (height %d) but persisted irreversible height %d / window %d (configured window %d)",
				c.Tip(), t.Blocks[c.Tip()].Height, meta.IrreversibleBlockHeight, meta.IrreversibleSlideWindow, w)}}
		}
	}
	op := hist.Op{Kind: "crash"}
	if ps := hist.CanonAuditor(c, op); len(ps) > 0 {
		return ps
	}
	if ps := hist.ModelAuditor(c, op); len(ps) > 0 {
		return ps
	}
	// synchronise to the ledger tip, as the engine does on start
	lt := c.LedgerTip()
	if lt < 0 {
		return []hist.Problem{{Sig: "ledger-tip-unknown", Detail: "ledger tip is not an offered block"}}
	}
	if err := n.Walk(t.Blocks[lt].ID, false); err != nil && t.Opts.Cfg.Window > 0 {
		r.Count("crash.resync-refused-under-irreversible-window", 1)
		return nil
	} else if err != nil {
		return []hist.Problem{{Sig: "resync-failed", Detail: fmt.Sprintf("Walk(ledger tip=%d) after restart failed: %v %v", lt, err, n.Log.Tail(3))}}
	}
	r.Count("crash.resynced", 1)
	if c.Tip() != lt {
		return []hist.Problem{{Sig: "resync-wrong-tip", Detail: "after resync the state is not at the ledger tip"}}
	}
	op.Kind = "resync"
	if ps := hist.CanonAuditor(c, op); len(ps) > 0 {
		return ps
	}
	if ps := hist.TwinAuditor(c, op); len(ps) > 0 {
		return ps
	}
	return nil
}
