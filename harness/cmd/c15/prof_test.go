package main

import (
	"math/rand"
	"testing"

	sn "verif/simnode"
)

func BenchmarkRandom(b *testing.B) {
	sn.InitLogs()
	mat := newMaterial()
	for i := 0; i < b.N; i++ {
		rng := rand.New(rand.NewSource(int64(i)*7919 + 17))
		c := randomCase(rng, "random/mixed")
		runCase(mat, c, false)
	}
}
