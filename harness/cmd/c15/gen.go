package main

// Case generators. Exhaustive families enumerate every LABELLED rooted tree on n proposals
// (label = arrival position), which is exactly "every tree shape x every arrival order" with
// isomorphic duplicates removed: (n+1)^(n-1) trees for n proposals.

import (
	"math/rand"
	"sort"
)

var freshInit = Init{Kind: "fresh", RootView: 0}

// labelledTrees calls f with every acyclic parent vector par[1..n] -> {0..n}.
func labelledTrees(n int, f func(par []int)) {
	par := make([]int, n+1)
	par[0] = -1
	var rec func(i int)
	rec = func(i int) {
		if i > n {
			// acyclic: every node reaches 0
			for l := 1; l <= n; l++ {
				x, k := l, 0
				for x != 0 && k <= n {
					x = par[x]
					k++
				}
				if x != 0 {
					return
				}
			}
			f(append([]int(nil), par...))
			return
		}
		for p := 0; p <= n; p++ {
			if p != i {
				par[i] = p
				rec(i + 1)
			}
		}
	}
	rec(1)
}

// depthViews: view = root view + depth (what the upper layer does: view = block height).
func depthViews(par []int, rootView int64) []int64 {
	v := make([]int64, len(par))
	var d func(l int) int64
	d = func(l int) int64 {
		if l == 0 {
			return rootView
		}
		return d(par[l]) + 1
	}
	for l := range par {
		v[l] = d(l)
	}
	return v
}

// ---- exhaustive families ---------------------------------------------------------------------

// deliveries of one labelled tree, in label order
func modeOps(mode string, n int) []Op {
	ops := []Op{}
	for l := 1; l <= n; l++ {
		by := 1 + l%3
		switch mode {
		case "confirm":
			ops = append(ops, Op{K: "confirm", N: l})
		case "propose+confirm":
			ops = append(ops, Op{K: "propose", N: l, Q: 3, C: true, B: by}, Op{K: "confirm", N: l})
		case "confirm+propose":
			ops = append(ops, Op{K: "confirm", N: l}, Op{K: "propose", N: l, Q: 3, C: true, B: by})
		}
	}
	if mode == "proposals-then-confirms" {
		for l := 1; l <= n; l++ {
			ops = append(ops, Op{K: "propose", N: l, Q: 2, C: true, B: 1 + l%3})
		}
		for l := 1; l <= n; l++ {
			ops = append(ops, Op{K: "confirm", N: l})
		}
	}
	return ops
}

func exhaustiveCases(maxN, maxNHandler, maxNDup int, emit func(*Case)) {
	for n := 1; n <= maxN; n++ {
		labelledTrees(n, func(par []int) {
			views := depthViews(par, 0)
			emit(&Case{Fam: "all-orders/confirm", Init: freshInit, Par: par, View: views, Ops: modeOps("confirm", n)})
			if n <= maxNHandler {
				for _, mode := range []string{"propose+confirm", "confirm+propose", "proposals-then-confirms"} {
					emit(&Case{Fam: "all-orders/" + mode, Init: freshInit, Par: par, View: views, Ops: modeOps(mode, n)})
				}
			}
			if n <= maxNDup {
				// one proposal delivered a second time, at every later position
				for i := 1; i <= n; i++ {
					for j := i; j <= n; j++ {
						ops := []Op{}
						for l := 1; l <= n; l++ {
							ops = append(ops, Op{K: "confirm", N: l})
							if l == j {
								ops = append(ops, Op{K: "confirm", N: i})
							}
						}
						emit(&Case{Fam: "all-orders/confirm+duplicate", Init: freshInit, Par: par, View: views, Ops: ops})
					}
				}
			}
		})
	}
}

// voteCases: every labelled tree of <= maxN proposals, delivered as proposal message + confirmed
// block, with a vote pattern for one target placed at every combination of gaps.
func voteCases(maxN int, emit func(*Case)) {
	patterns := [][]int{{1, 2}, {1, 1, 2}, {0, 1}, {0, 1, 2}, {1}, {1, 2, 3}, {2, 0, 2}}
	for n := 1; n <= maxN; n++ {
		labelledTrees(n, func(par []int) {
			views := depthViews(par, 0)
			for target := 1; target <= n; target++ {
				for _, pat := range patterns {
					slots := make([]int, len(pat))
					var rec func(k, from int)
					rec = func(k, from int) {
						if k == len(pat) {
							ops := []Op{}
							vi := 0
							for g := 0; g <= n; g++ {
								for vi < len(pat) && slots[vi] == g {
									ops = append(ops, Op{K: "vote", N: target, V: pat[vi]})
									vi++
								}
								if g < n {
									l := g + 1
									ops = append(ops, Op{K: "propose", N: l, Q: 3, C: true, B: 1 + l%3}, Op{K: "confirm", N: l})
								}
							}
							emit(&Case{Fam: "votes/all-gaps", Init: freshInit, Par: par, View: views, Ops: ops})
							return
						}
						for g := from; g <= n; g++ {
							slots[k] = g
							rec(k+1, g)
						}
					}
					rec(0, 0)
				}
			}
		})
	}
}

// rollbackCases: every labelled tree of <= maxN proposals (confirm mode), one explicit rollback
// to every proposal at every position, followed by the rest of the deliveries.
func rollbackCases(maxN int, emit func(*Case)) {
	for n := 2; n <= maxN; n++ {
		labelledTrees(n, func(par []int) {
			views := depthViews(par, 0)
			for pos := 1; pos <= n; pos++ {
				for x := 0; x <= n; x++ {
					ops := []Op{}
					for l := 1; l <= n; l++ {
						ops = append(ops, Op{K: "confirm", N: l})
						if l == pos {
							ops = append(ops, Op{K: "enforce", N: x})
						}
					}
					emit(&Case{Fam: "rollback/all-positions", Init: freshInit, Par: par, View: views, Ops: ops})
				}
			}
		})
	}
}

// ---- random families -------------------------------------------------------------------------

func pickInit(rng *rand.Rand) Init {
	switch rng.Intn(10) {
	case 0, 1, 2, 3:
		return Init{Kind: "fresh", RootView: 0}
	case 4, 5:
		return Init{Kind: "fresh", RootView: 6, Prime: rng.Intn(2) == 0}
	case 6:
		return Init{Kind: "restart", RootView: 0, Pre: 2, Prime: rng.Intn(2) == 0}
	case 7, 8:
		return Init{Kind: "restart", RootView: 4, Pre: 3, Prime: rng.Intn(3) != 0}
	default:
		return Init{Kind: "restart", RootView: 0, Pre: 3, Prime: rng.Intn(2) == 0}
	}
}

type keyed struct {
	op  Op
	key float64
}

// randomCase: a random tree of up to 12 delivered proposals and a random schedule of all call kinds.
func randomCase(rng *rand.Rand, fam string) *Case {
	c := &Case{Fam: fam, Init: pickInit(rng)}
	pre := c.Init.Pre
	nd := 3 + rng.Intn(10) // delivered proposals 3..12
	if fam == "random/deep-commit" {
		nd = 7 + rng.Intn(6)
	}
	total := pre + nd
	c.Par = make([]int, total+1)
	c.Par[0] = -1
	for l := 1; l <= pre; l++ {
		c.Par[l] = l - 1
	}
	style := rng.Intn(4)
	if fam == "random/deep-commit" {
		style = 0
	}
	for l := pre + 1; l <= total; l++ {
		switch style {
		case 0: // chain with occasional forks
			if rng.Intn(100) < 80 {
				c.Par[l] = l - 1
			} else {
				c.Par[l] = rng.Intn(l)
			}
		case 1: // bushy
			c.Par[l] = rng.Intn(1 + (l-1)/2 + 1)
			if c.Par[l] >= l {
				c.Par[l] = l - 1
			}
		case 2: // uniform recursive tree
			c.Par[l] = rng.Intn(l)
		default: // two or three long competing branches
			if l-pre <= 3 {
				c.Par[l] = pre
			} else {
				c.Par[l] = l - 1 - rng.Intn(3)
				if c.Par[l] < 0 {
					c.Par[l] = 0
				}
			}
		}
	}
	gapped := fam == "random/gapped-views"
	c.View = make([]int64, total+1)
	c.View[0] = c.Init.RootView
	for l := 1; l <= total; l++ {
		c.View[l] = c.View[c.Par[l]] + 1
		if gapped && l > pre && rng.Intn(3) == 0 {
			c.View[l] += int64(1 + rng.Intn(2))
		}
	}
	// schedule
	noise := []float64{0.7, 2.5, 6, 100}[rng.Intn(4)]
	if fam == "random/deep-commit" {
		noise = []float64{0.4, 1.2, 2.5}[rng.Intn(3)]
	}
	ks := []keyed{}
	add := func(op Op, key float64) { ks = append(ks, keyed{op, key}) }
	for l := pre + 1; l <= total; l++ {
		base := float64(l-pre) + rng.NormFloat64()*noise
		q := 3
		switch x := rng.Intn(100); {
		case x < 12:
			q = 2
		case x < 20:
			q = 1
		case x < 23:
			q = 0
		}
		prop := Op{K: "propose", N: l, Q: q, C: rng.Intn(100) < 85, B: rng.Intn(numValidators)}
		conf := Op{K: "confirm", N: l}
		hasProp := false
		x := rng.Intn(100)
		if fam == "random/deep-commit" {
			x = 35 + rng.Intn(60)
		}
		switch {
		case x < 35:
			add(conf, base)
		case x < 50:
			add(prop, base)
			hasProp = true
		case x < 78:
			add(prop, base)
			add(conf, base+0.01+rng.Float64()*noise)
			hasProp = true
		case x < 95:
			add(conf, base)
			add(prop, base+0.01+rng.Float64()*noise)
			hasProp = true
		default: // never delivered: what waits for it stays an orphan for ever
		}
		if rng.Intn(100) < 15 {
			d := conf
			if rng.Intn(3) == 0 {
				d = prop
			}
			add(d, base+rng.Float64()*6)
		}
		if hasProp && rng.Intn(100) < 45 {
			nv := 1 + rng.Intn(4)
			for k := 0; k < nv; k++ {
				add(Op{K: "vote", N: l, V: rng.Intn(numValidators)}, base+0.02+rng.NormFloat64()*noise*0.5+float64(k)*0.3)
			}
		}
	}
	for k := rng.Intn(3); k > 0; k-- {
		add(Op{K: "justify", N: rng.Intn(total + 1), Q: []int{0, 2, 3}[rng.Intn(3)]}, rng.Float64()*float64(nd+1))
	}
	for k := rng.Intn(3); k > 0; k-- {
		add(Op{K: "enforce", N: rng.Intn(total + 1)}, rng.Float64()*float64(nd+1))
	}
	if pre > 0 && rng.Intn(4) == 0 { // a pre-installed block is confirmed again
		add(Op{K: "confirm", N: 1 + rng.Intn(pre)}, rng.Float64()*float64(nd+1))
	}
	sort.SliceStable(ks, func(i, j int) bool { return ks[i].key < ks[j].key })
	for _, k := range ks {
		c.Ops = append(c.Ops, k.op)
	}
	return c
}
