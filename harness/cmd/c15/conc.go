package main

// Concurrent variant (thorough tier only, child processes): the REAL network loop (Smr.Start)
// receives proposal / vote messages through the channel it registered with the p2p stub and
// starts one goroutine per message, exactly as in production, while a "ledger" goroutine
// confirms blocks (Smr.UpdateQcStatus) at the same time. The tree is mutated without a lock,
// so the outcome depends on the real schedule; invariants are checked at quiescence only
// (all handler goroutines finished). Deliveries are made level by level so that a parent is
// always present: the orphan-merging defects of the sequential part cannot occur here and
// whatever breaks is due to concurrency.
//
// A runtime fatal error (concurrent map access) cannot be recovered, hence child processes.
// The same child, built with -race, gives the informational race-report count.

import (
	"bytes"
	"crypto/md5"
	"encoding/hex"
	"encoding/json"
	"fmt"
	"io/ioutil"
	"math/rand"
	"os"
	"os/exec"
	"path/filepath"
	"regexp"
	"runtime"
	"strconv"
	"strings"
	"sync"
	"time"

	"github.com/xuperchain/xupercore/protos"

	"verif/ev"
	sn "verif/simnode"
)

type concFinding struct {
	Sig    string   `json:"sig"`
	Detail string   `json:"detail"`
	Case   *Case    `json:"case"`
	Waves  [][]int  `json:"waves"`
	Trace  []string `json:"trace"`
}

type concReport struct {
	Histories    int            `json:"histories"`
	Waves        int            `json:"waves"`
	Stats        map[string]int `json:"stats"`
	Findings     []concFinding  `json:"findings"`
	Unquiescent  int            `json:"unquiescent"`
	Completed    bool           `json:"completed"`
	CurrentCase  *Case          `json:"current_case,omitempty"`
	CurrentWaves [][]int        `json:"current_waves,omitempty"`
}

// concChild runs n histories and writes a report; args: out n seed
func concChild(args []string) {
	out := args[0]
	n, _ := strconv.Atoi(args[1])
	seed, _ := strconv.ParseInt(args[2], 10, 64)
	sn.InitLogs()
	mat := newMaterial()
	rep := &concReport{Stats: map[string]int{}}
	save := func() {
		buf, _ := json.Marshal(rep)
		ioutil.WriteFile(out, buf, 0644)
	}
	for i := 0; i < n; i++ {
		rng := rand.New(rand.NewSource(seed*1000003 + int64(i)*7919 + 29))
		c, waves := concCase(rng)
		c.Idx = i
		rep.CurrentCase, rep.CurrentWaves = c, waves
		if i%200 == 0 {
			save() // so that the history in flight is known if the process dies
		}
		f, ok := concRun(mat, c, waves, rng, rep)
		rep.Histories++
		if !ok {
			rep.Unquiescent++
			continue
		}
		if f != nil {
			dup := false
			for _, g := range rep.Findings {
				if g.Sig == f.Sig {
					dup = true
				}
			}
			rep.Stats["violating-histories"]++
			rep.Stats["violating-histories."+f.Sig]++
			if !dup {
				rep.Findings = append(rep.Findings, *f)
			}
		}
	}
	rep.Completed = true
	rep.CurrentCase, rep.CurrentWaves = nil, nil
	save()
	sn.CleanupScratch()
}

// concCase: a tree given level by level (1..4 proposals per level, parents in the previous level).
func concCase(rng *rand.Rand) (*Case, [][]int) {
	c := &Case{Fam: "concurrent/levels", Init: freshInit, Par: []int{-1}}
	waves := [][]int{}
	prev := []int{0}
	depth := 3 + rng.Intn(5)
	for d := 0; d < depth && len(c.Par) <= 12; d++ {
		k := 1 + rng.Intn(4)
		cur := []int{}
		for j := 0; j < k && len(c.Par) <= 12; j++ {
			p := prev[rng.Intn(len(prev))]
			if rng.Intn(2) == 0 {
				p = prev[0] // many siblings under one parent
			}
			c.Par = append(c.Par, p)
			cur = append(cur, len(c.Par)-1)
		}
		waves = append(waves, cur)
		prev = cur
	}
	c.View = depthViews(c.Par, 0)
	return c, waves
}

func concRun(mat *material, c *Case, waves [][]int, rng *rand.Rand, rep *concReport) (*concFinding, bool) {
	w, err := newWorld(mat, c)
	if err != nil {
		return &concFinding{Sig: "harness", Detail: err.Error()}, true
	}
	w.smr.Start()
	defer w.smr.Stop()
	w.net.mu.Lock()
	ch := w.net.ch
	w.net.mu.Unlock()
	if ch == nil {
		return &concFinding{Sig: "harness", Detail: "the smr did not register its channel"}, true
	}
	time.Sleep(50 * time.Microsecond)
	base := runtime.NumGoroutine()
	trace := []string{"init: " + renderState(w)}
	highView := w.tree.HighQC.In.GetProposalView()
	pm := w.smr.GetCurrentView()
	delivered := map[int]bool{}
	root := 0
	mk := func(sig, detail string) *concFinding {
		return &concFinding{Sig: "qctree|concurrent-handlers|" + sig, Detail: detail, Case: c, Waves: waves, Trace: trace}
	}
	for wi, wave := range waves {
		rep.Waves++
		// messages of this level: proposals (most nodes), votes for the previous level
		msgs := []*protos.XuperMessage{}
		for _, l := range wave {
			if rng.Intn(100) < 80 {
				msgs = append(msgs, w.proposalMsg(c, l, 3, true, 1+l%3))
				rep.Stats["conc.proposal-messages"]++
			}
		}
		if wi > 0 {
			for _, l := range waves[wi-1] {
				for v := 1; v <= 3; v++ {
					if rng.Intn(2) == 0 {
						msgs = append(msgs, w.voteMsg(c, l, v))
						rep.Stats["conc.vote-messages"]++
					}
				}
			}
		}
		rng.Shuffle(len(msgs), func(i, j int) { msgs[i], msgs[j] = msgs[j], msgs[i] })
		order := append([]int(nil), wave...)
		rng.Shuffle(len(order), func(i, j int) { order[i], order[j] = order[j], order[i] })
		var wg sync.WaitGroup
		wg.Add(1)
		var cerr error
		go func() { // the ledger side: confirmed blocks one after the other
			defer wg.Done()
			for _, l := range order {
				if e := w.smr.UpdateQcStatus(w.node(c, l)); e != nil {
					cerr = e
				}
			}
		}()
		for _, m := range msgs {
			ch <- m
		}
		wg.Wait()
		rep.Stats["conc.confirm-calls"] += len(order)
		// quiescence: channel drained and no handler goroutine left
		stable, ok := 0, false
		for i := 0; i < 400000; i++ {
			if len(ch) == 0 && runtime.NumGoroutine() <= base {
				if stable++; stable >= 3 {
					ok = true
					break
				}
			} else {
				stable = 0
			}
			time.Sleep(10 * time.Microsecond)
		}
		if !ok {
			return nil, false
		}
		for _, l := range wave {
			delivered[l] = true
		}
		trace = append(trace, fmt.Sprintf("level %d %v: %s", wi+1, wave, renderState(w)))
		if cerr != nil {
			return mk("confirm-refused", cerr.Error()), true
		}
		// ---- invariants at quiescence
		s := take(w.tree)
		if s.problem != nil {
			return mk(strings.TrimPrefix(s.problem.Sig, "qctree|"), s.problem.Detail), true
		}
		if len(s.forest) > 0 {
			rep.Stats["conc.orphans-at-quiescence"]++
		}
		rl, okr := labelOf(w.tree.Root)
		if !okr || (rl != root && !c.isAncestor(root, rl)) {
			return mk("root-moved-to-non-descendant", fmt.Sprintf("%s -> %s", name(root), mark(w.tree.Root))), true
		}
		if rl != root {
			rep.Stats["conc.root-moved"]++
			root = rl
		}
		for l := range delivered {
			if l == root || !c.isAncestor(root, l) {
				continue // committed or pruned
			}
			pl, in := s.tree[l]
			if !in {
				if _, inF := s.forest[l]; inF {
					return mk("confirmed-proposal-left-among-orphans-although-parent-was-present", name(l)+" (parent "+name(c.Par[l])+")"), true
				}
				return mk("confirmed-proposal-lost", fmt.Sprintf("%s (parent %s) was confirmed (UpdateQcStatus returned nil) while its parent was in the tree and it descends from the root %s; it is stored nowhere", name(l), name(c.Par[l]), name(root))), true
			}
			if pl.under != c.Par[l] {
				return mk("child-under-wrong-parent", name(l)+" under "+name(pl.under)), true
			}
		}
		hl, okh := labelOf(w.tree.HighQC)
		if !okh {
			return mk("highqc-unknown", ""), true
		}
		if v := w.tree.HighQC.In.GetProposalView(); v < highView {
			return mk("highqc-view-decreased", fmt.Sprintf("%d -> %d", highView, v)), true
		} else {
			highView = v
		}
		for k, mkr := range []string{"", mark(w.tree.GenericQC), mark(w.tree.LockedQC), mark(w.tree.CommitQC)} {
			if k == 0 || mkr == "-" {
				continue
			}
			if want := aname(c, hl, k); mkr != want && !(k == 3 && mkr == mark(w.tree.Root)) {
				// the sequential defect (stale marker) has its own signature; here only a marker that differs from a stored ancestor counts
				if a := c.anc(hl, k); a >= 0 {
					if _, in := s.tree[a]; in {
						return mk("marker-differs-from-the-ancestor-stored-in-the-tree", fmt.Sprintf("HighQC=%s ancestor %d is %s, marker is %s", name(hl), k, want, mkr)), true
					}
				}
				rep.Stats["conc.stale-marker-seen"]++
			}
		}
		if v := w.smr.GetCurrentView(); v < pm {
			return mk("pacemaker-view-decreased", fmt.Sprintf("%d -> %d", pm, v)), true
		} else {
			pm = v
		}
	}
	return nil, true
}

// ---- parent side ------------------------------------------------------------------------------

func concurrentPart(r *ev.Run) {
	exe, err := os.Executable()
	if err != nil {
		r.Extra("concurrent_variant", "skipped: "+err.Error())
		return
	}
	dir, _ := ioutil.TempDir("", "verif-c15-conc-")
	defer os.RemoveAll(dir)
	procs := runtime.NumCPU() / 3
	if procs < 2 {
		procs = 2
	}
	per := 6000
	reports := runChildren(exe, dir, procs, per, r.Seed, nil)
	total := &concReport{Stats: map[string]int{}}
	bySig := map[string]concFinding{}
	crashed := 0
	for _, cr := range reports {
		if cr.rep != nil {
			total.Histories += cr.rep.Histories
			total.Waves += cr.rep.Waves
			total.Unquiescent += cr.rep.Unquiescent
			for k, v := range cr.rep.Stats {
				total.Stats[k] += v
			}
			for _, f := range cr.rep.Findings {
				if _, ok := bySig[f.Sig]; !ok {
					bySig[f.Sig] = f
				}
			}
		}
		if cr.rep == nil || !cr.rep.Completed {
			crashed++
			tail := cr.stderr
			if len(tail) > 3000 {
				tail = tail[:3000]
			}
			kind := "child-died"
			switch {
			case strings.Contains(cr.stderr, "concurrent map"):
				kind = "fatal-concurrent-map-access"
			case strings.Contains(cr.stderr, "panic:"):
				kind = "panic"
			case cr.timedOut:
				kind = ""
			}
			if kind == "" {
				r.Inconclusive("concurrent variant: a child process hit the watch-dog")
				continue
			}
			var cur interface{}
			if cr.rep != nil {
				cur = map[string]interface{}{"case": cr.rep.CurrentCase, "levels": cr.rep.CurrentWaves}
			}
			r.Violation("qctree|concurrent-handlers|process-died|"+kind, "the node process died while the real network loop handled messages concurrently with confirmed blocks: "+firstLine(tail),
				map[string]interface{}{"stderr": tail, "history_in_flight_or_after": cur})
		}
	}
	for k, v := range total.Stats {
		r.Count(k, v)
	}
	r.Count("conc.histories", total.Histories)
	r.Count("conc.levels-checked-at-quiescence", total.Waves)
	r.Count("conc.child-processes", len(reports))
	r.Evals(total.Histories)
	r.Extra("concurrent_variant", map[string]interface{}{"histories": total.Histories, "levels": total.Waves,
		"not_quiescent": total.Unquiescent, "children_died": crashed})
	if total.Unquiescent > 0 {
		r.Inconclusive(fmt.Sprintf("concurrent variant: %d histories did not reach quiescence within the polling budget", total.Unquiescent))
	}
	sigs := []string{}
	for s := range bySig {
		sigs = append(sigs, s)
	}
	sortStrings(sigs)
	symptoms := []string{}
	wit := []interface{}{}
	for _, s := range sigs {
		f := bySig[s]
		if f.Sig == "harness" {
			r.Inconclusive("concurrent variant harness error: " + f.Detail)
			continue
		}
		symptoms = append(symptoms, fmt.Sprintf("%s x%d (e.g. %s)", strings.TrimPrefix(f.Sig, "qctree|concurrent-handlers|"), total.Stats["violating-histories."+f.Sig], f.Detail))
		wit = append(wit, map[string]interface{}{"symptom": f.Sig, "detail": f.Detail, "case": f.Case, "levels": f.Waves, "state_after_each_level": f.Trace})
	}
	if len(symptoms) > 0 {
		// one root cause (the tree is mutated by handler goroutines and UpdateQcStatus without mutual
		// exclusion) -> one signature; which symptoms show up depends on the schedule
		r.Violation("qctree|concurrent-handlers|invariant-broken-at-quiescence", fmt.Sprintf("real Start() loop (one goroutine per message) + a ledger goroutine calling UpdateQcStatus; proposals delivered level by level (parents always present), "+
			"checked when all handlers had finished: %d of %d histories broke an invariant: %s", total.Stats["violating-histories"], total.Histories, strings.Join(symptoms, "; ")), wit)
	}
	r.Floor("conc.histories", 10000)
	r.Floor("conc.proposal-messages", 50000)
	r.Floor("conc.vote-messages", 50000)

	raceExploration(r, dir)
}

type childResult struct {
	rep      *concReport
	stderr   string
	timedOut bool
}

func runChildren(exe, dir string, procs, per int, seed int64, env []string) []childResult {
	res := make([]childResult, procs)
	var wg sync.WaitGroup
	for i := 0; i < procs; i++ {
		wg.Add(1)
		go func(i int) {
			defer wg.Done()
			out := filepath.Join(dir, fmt.Sprintf("child-%d-%d.json", len(env), i))
			cmd := exec.Command(exe, "-conc-child", out, strconv.Itoa(per), strconv.FormatInt(seed*100+int64(i), 10))
			cmd.Env = append(os.Environ(), env...)
			var eb bytes.Buffer
			cmd.Stderr = &eb
			done := make(chan error, 1)
			if err := cmd.Start(); err != nil {
				res[i].stderr = err.Error()
				return
			}
			go func() { done <- cmd.Wait() }()
			select {
			case <-done:
			case <-time.After(20 * time.Minute): // watch-dog: inconclusive, never a verdict
				cmd.Process.Kill()
				res[i].timedOut = true
			}
			res[i].stderr = eb.String()
			if buf, err := ioutil.ReadFile(out); err == nil {
				rep := &concReport{}
				if json.Unmarshal(buf, rep) == nil {
					res[i].rep = rep
				}
			}
		}(i)
	}
	wg.Wait()
	return res
}

// raceExploration: the same child built with -race; reports are informational (DESIGN.md C15).
func raceExploration(r *ev.Run, dir string) {
	root := ev.Root()
	bin := filepath.Join(root, ".build", "c15.race")
	args := []string{"build", "-race", "-tags", "verif", "-o", bin}
	if repo := os.Getenv("VERIF_REPO"); repo != "" {
		sum := md5.Sum([]byte(repo + "\n"))
		tag := hex.EncodeToString(sum[:])[:8]
		args = append(args, "-modfile="+filepath.Join(root, ".build", "go."+tag+".mod"))
		bin += "." + tag
		args[5] = bin
	}
	args = append(args, "./cmd/c15")
	cmd := exec.Command("go", args...)
	cmd.Dir = filepath.Join(root, "harness")
	if out, err := cmd.CombinedOutput(); err != nil {
		r.Extra("race_exploration", "skipped: race build failed: "+firstLine(string(out)))
		return
	}
	logp := filepath.Join(dir, "race")
	reports := runChildren(bin, dir, 2, 400, r.Seed+7, []string{"GORACE=halt_on_error=0 log_path=" + logp})
	hist := 0
	for _, cr := range reports {
		if cr.rep != nil {
			hist += cr.rep.Histories
		}
	}
	files, _ := filepath.Glob(logp + ".*")
	pairs := map[string]int{}
	n := 0
	fn := regexp.MustCompile(`chained-bft\.\(?\*?([A-Za-z]+)\)?\.([A-Za-z0-9_]+)`)
	for _, f := range files {
		buf, _ := ioutil.ReadFile(f)
		for _, blk := range strings.Split(string(buf), "==================") {
			if !strings.Contains(blk, "WARNING: DATA RACE") {
				continue
			}
			n++
			// first chained-bft frame of each of the two accesses
			parts := regexp.MustCompile(`(?m)^(Previous )?(Read|Write|read|write) at .*$`).Split(blk, 3)
			fr := []string{}
			for _, p := range parts[1:] {
				if i := strings.Index(p, "Goroutine "); i > 0 {
					p = p[:i] // only the stack of the access, not where the goroutine was created
				}
				if m := fn.FindStringSubmatch(p); m != nil {
					fr = append(fr, m[1]+"."+m[2])
				} else {
					fr = append(fr, "?")
				}
			}
			sortStrings(fr)
			pairs[strings.Join(fr, " <-> ")]++
		}
	}
	r.Count("race.reports", n)
	r.Extra("race_exploration", map[string]interface{}{"histories": hist, "data_race_reports": n, "pairs_first_frame_in_chained_bft": pairs,
		"note": "informational: the handlers are started with `go` and mutate the tree without a lock; verdict-relevant only when an invariant breaks at quiescence. `?` = the other access has no frame in the package (mostly the harness reading the tree at quiescence, which the detector cannot order after the handlers)"})
}

func firstLine(s string) string {
	s = strings.TrimSpace(s)
	if i := strings.IndexByte(s, '\n'); i > 0 {
		s = s[:i]
	}
	if len(s) > 300 {
		s = s[:300]
	}
	return s
}

func sortStrings(a []string) {
	for i := 1; i < len(a); i++ {
		for j := i; j > 0 && a[j] < a[j-1]; j-- {
			a[j], a[j-1] = a[j-1], a[j]
		}
	}
}
