package main

// The system under test: a real Smr (NewSmr, real DefaultSaftyRules / DefaultPaceMaker) over a
// real QCPendingTree produced by the real initialiser common.InitQCTree from a stub ledger, and
// real signed proposal / vote messages from 4 fixed validators (simnode keys 0..3; key 0 is
// the node under test).

import (
	"crypto/sha256"
	"encoding/hex"
	"encoding/json"
	"fmt"
	"sync"

	"github.com/golang/protobuf/proto"
	xctx "github.com/xuperchain/xupercore/kernel/common/xcontext"
	common "github.com/xuperchain/xupercore/kernel/consensus/base/common"
	bft "github.com/xuperchain/xupercore/kernel/consensus/base/driver/chained-bft"
	cCrypto "github.com/xuperchain/xupercore/kernel/consensus/base/driver/chained-bft/crypto"
	bftpb "github.com/xuperchain/xupercore/kernel/consensus/base/driver/chained-bft/pb"
	cctx "github.com/xuperchain/xupercore/kernel/consensus/context"
	"github.com/xuperchain/xupercore/kernel/ledger"
	nctx "github.com/xuperchain/xupercore/kernel/network/context"
	"github.com/xuperchain/xupercore/kernel/network/p2p"
	"github.com/xuperchain/xupercore/protos"

	sn "verif/simnode"
)

const (
	bcName        = "xuper"
	numValidators = 4
	maxLabels     = 2048 // the sequential histories use <= 16 labels; the concurrent-duplicate worlds grow one label per round
)

// ---- identities and signatures ----------------------------------------------------------------

type material struct {
	mu   sync.Mutex
	cb   []*cCrypto.CBFTCrypto
	addr []string
	sigs map[string]*bftpb.QuorumCertSign
}

func addressOf(k *sn.Key) *cctx.Address {
	return &cctx.Address{Address: k.Address, PrivateKey: k.Priv, PrivateKeyStr: k.PrivJSON, PublicKey: &k.Priv.PublicKey, PublicKeyStr: k.PubJSON}
}

func newMaterial() *material {
	m := &material{sigs: map[string]*bftpb.QuorumCertSign{}}
	for i := 0; i < numValidators; i++ {
		k := sn.K(i)
		m.cb = append(m.cb, cCrypto.NewCBFTCrypto(addressOf(k), sn.Crypto()))
		m.addr = append(m.addr, k.Address)
	}
	return m
}

// sig is validator v's real vote signature over id (cached: one signature per pair).
func (m *material) sig(v int, id []byte) *bftpb.QuorumCertSign {
	key := fmt.Sprintf("%d|%s", v, hex.EncodeToString(id))
	m.mu.Lock()
	defer m.mu.Unlock()
	if s, ok := m.sigs[key]; ok {
		return s
	}
	s, err := m.cb[v].SignVoteMsg(id)
	if err != nil {
		panic(err)
	}
	m.sigs[key] = s
	return s
}

// ---- ids --------------------------------------------------------------------------------------

var (
	labelIDs [maxLabels][]byte
	baseIDs  [maxLabels][]byte
	idLabel  = map[string]int{}
)

func init() {
	for i := 0; i < maxLabels; i++ {
		a := sha256.Sum256([]byte(fmt.Sprintf("verif-c15-node-%d", i)))
		labelIDs[i] = a[:]
		idLabel[string(a[:])] = i
		b := sha256.Sum256([]byte(fmt.Sprintf("verif-c15-base-%d", i)))
		baseIDs[i] = b[:]
	}
}

// ---- stubs ------------------------------------------------------------------------------------

type selection struct {
	vals []string
	me   string
}

// the node under test is always the next leader: the vote it would send goes to itself and
// voteProposal returns early (vote sending is not part of this property).
func (e *selection) GetLeader(round int64) string       { return e.me }
func (e *selection) GetValidators(round int64) []string { return e.vals }
func (e *selection) GetIntAddress(string) string        { return "" }

// snet is a p2p stub; it keeps the channel the smr registers so that the concurrent variant can
// feed the real Start() loop.
type snet struct {
	mu      sync.Mutex
	account string
	ch      chan *protos.XuperMessage
}

func (n *snet) Start() {}
func (n *snet) Stop()  {}
func (n *snet) SendMessage(xctx.XContext, *protos.XuperMessage, ...p2p.OptionFunc) error {
	return nil
}
func (n *snet) SendMessageWithResponse(xctx.XContext, *protos.XuperMessage, ...p2p.OptionFunc) ([]*protos.XuperMessage, error) {
	return nil, nil
}
func (n *snet) NewSubscriber(t protos.XuperMessage_MessageType, v interface{}, o ...p2p.SubscriberOption) p2p.Subscriber {
	if c, ok := v.(chan *protos.XuperMessage); ok {
		n.mu.Lock()
		n.ch = c
		n.mu.Unlock()
	}
	return nil
}
func (n *snet) Register(p2p.Subscriber) error   { return nil }
func (n *snet) UnRegister(p2p.Subscriber) error { return nil }
func (n *snet) Context() *nctx.NetCtx           { return nil }
func (n *snet) PeerInfo() protos.PeerInfo       { return protos.PeerInfo{Account: n.account} }

type sblock struct {
	height  int64
	id, pre []byte
}

func (b *sblock) GetProposer() []byte                          { return nil }
func (b *sblock) GetHeight() int64                             { return b.height }
func (b *sblock) GetBlockid() []byte                           { return b.id }
func (b *sblock) GetConsensusStorage() ([]byte, error)         { return nil, nil }
func (b *sblock) GetTimestamp() int64                          { return b.height }
func (b *sblock) SetItem(item string, value interface{}) error { return fmt.Errorf("unsupported") }
func (b *sblock) MakeBlockId() ([]byte, error)                 { return b.id, nil }
func (b *sblock) GetPreHash() []byte                           { return b.pre }
func (b *sblock) GetNextHash() []byte                          { return nil }
func (b *sblock) GetPublicKey() string                         { return "" }
func (b *sblock) GetSign() []byte                              { return nil }
func (b *sblock) GetTxIDs() []string                           { return nil }
func (b *sblock) GetInTrunk() bool                             { return true }

type sledger struct{ blocks []*sblock }

var errNoBlock = fmt.Errorf("block not found")

func (l *sledger) GetConsensusConf() ([]byte, error) { return []byte("{}"), nil }
func (l *sledger) QueryBlock(id []byte) (ledger.BlockHandle, error) {
	for _, b := range l.blocks {
		if string(b.id) == string(id) {
			return b, nil
		}
	}
	return nil, errNoBlock
}
func (l *sledger) QueryBlockByHeight(h int64) (ledger.BlockHandle, error) {
	if h < 0 || int(h) >= len(l.blocks) {
		return nil, errNoBlock
	}
	return l.blocks[h], nil
}
func (l *sledger) GetTipBlock() ledger.BlockHandle { return l.blocks[len(l.blocks)-1] }
func (l *sledger) GetTipXMSnapshotReader() (ledger.XMSnapshotReader, error) {
	return nil, fmt.Errorf("unsupported")
}
func (l *sledger) CreateSnapshot(blkId []byte) (ledger.XMReader, error) {
	return nil, fmt.Errorf("unsupported")
}
func (l *sledger) GetTipSnapshot() (ledger.XMReader, error) { return nil, fmt.Errorf("unsupported") }

// ---- world ------------------------------------------------------------------------------------

// Init says how the node starts.
//
//	fresh:   InitQCTree's initial form, Root = HighQC = CommitQC = the block before the start height
//	restart: InitQCTree's restart form, Root = tip-3 (or block 0 when the tip is block 2), the
//	         blocks between root and tip pre-installed as a chain (labels 1..Pre)
type Init struct {
	Kind     string `json:"kind"`
	RootView int64  `json:"root_view"`
	Pre      int    `json:"preinstalled_chain"`
	Prime    bool   `json:"tip_reconfirmed_first,omitempty"` // UpdateQcStatus(tip) before the case: sets the smr's ledger state
}

type World struct {
	m    *material
	smr  *bft.Smr
	tree *bft.QCPendingTree
	log  *sn.CapLogger
	net  *snet
}

func newWorld(m *material, c *Case) (*World, error) {
	in := c.Init
	lg := &sledger{}
	top := in.RootView + int64(in.Pre)
	for h := int64(0); h <= top; h++ {
		b := &sblock{height: h}
		if h >= in.RootView {
			b.id = labelIDs[h-in.RootView]
		} else {
			b.id = baseIDs[h]
		}
		if h > 0 {
			b.pre = lg.blocks[h-1].id
		}
		lg.blocks = append(lg.blocks, b)
	}
	start := in.RootView + 1
	if in.Kind == "restart" {
		start = 1
	}
	log := sn.NewCapLogger()
	tree := common.InitQCTree(start, lg, log)
	if tree == nil {
		return nil, fmt.Errorf("InitQCTree returned nil")
	}
	if string(tree.Root.In.GetProposalId()) != string(labelIDs[0]) {
		return nil, fmt.Errorf("InitQCTree: unexpected root (view %d, wanted %d)", tree.Root.In.GetProposalView(), in.RootView)
	}
	me := sn.K(0)
	rules := &bft.DefaultSaftyRules{Crypto: m.cb[0], QcTree: tree, Log: log}
	net := &snet{account: me.Address}
	el := &selection{vals: m.addr, me: me.Address}
	smr := bft.NewSmr(bcName, me.Address, log, net, m.cb[0], &bft.DefaultPaceMaker{CurrentView: 0}, rules, el, tree)
	w := &World{m: m, smr: smr, tree: tree, log: log, net: net}
	if in.Prime {
		tip := in.Pre
		if err := smr.UpdateQcStatus(w.node(c, tip)); err != nil {
			return nil, fmt.Errorf("priming UpdateQcStatus: %v", err)
		}
	}
	return w, nil
}

// node builds a fresh ProposalNode object for label l (what BlockToProposalNode makes of a block).
func (w *World) node(c *Case, l int) *bft.ProposalNode {
	vi := &bft.VoteInfo{ProposalId: labelIDs[l], ProposalView: c.View[l]}
	if p := c.Par[l]; p >= 0 {
		vi.ParentId = labelIDs[p]
		vi.ParentView = c.View[p]
	} else if c.Init.RootView > 0 {
		vi.ParentId = baseIDs[c.Init.RootView-1]
		vi.ParentView = c.Init.RootView - 1
	}
	return &bft.ProposalNode{In: &bft.QuorumCert{VoteInfo: vi}}
}

// qcOn is a certificate for label l signed by the first q validators other than the node itself
// (q = 0: no signature list at all).
func (w *World) qcOn(c *Case, l int, q int, commit bool) *bft.QuorumCert {
	qc := &bft.QuorumCert{VoteInfo: &bft.VoteInfo{ProposalId: labelIDs[l], ProposalView: c.View[l]}}
	if p := c.Par[l]; p >= 0 {
		qc.VoteInfo.ParentId = labelIDs[p]
		qc.VoteInfo.ParentView = c.View[p]
	}
	if commit {
		qc.LedgerCommitInfo = &bft.LedgerCommitInfo{CommitStateId: labelIDs[l]}
	}
	for v := 1; v <= q && v < numValidators; v++ {
		qc.SignInfos = append(qc.SignInfos, w.m.sig(v, labelIDs[l]))
	}
	return qc
}

// proposalMsg is the network message a leader sends for label l: justify = certificate on the
// parent with q signatures; signed by validator `by`.
func (w *World) proposalMsg(c *Case, l int, q int, commit bool, by int) *protos.XuperMessage {
	jq, err := json.Marshal(w.qcOn(c, c.Par[l], q, commit))
	if err != nil {
		panic(err)
	}
	pm := &bftpb.ProposalMsg{ProposalView: c.View[l], ProposalId: labelIDs[l], Timestamp: int64(l) + 1, JustifyQC: jq}
	if _, err := w.m.cb[by].SignProposalMsg(pm); err != nil {
		panic(err)
	}
	return netMsg(protos.XuperMessage_CHAINED_BFT_NEW_PROPOSAL_MSG, pm)
}

// netMsg is p2p.NewMessage without its log-id generator (which re-seeds the global math/rand
// source under a global lock on every call): same header, payload, compression step, checksum.
func netMsg(typ protos.XuperMessage_MessageType, body proto.Message) *protos.XuperMessage {
	msg := &protos.XuperMessage{
		Header: &protos.XuperMessage_MessageHeader{Version: p2p.MessageVersion3, Bcname: bcName, Logid: "verif-c15", Type: typ,
			EnableCompress: false, ErrorType: protos.XuperMessage_NONE},
		Data: &protos.XuperMessage_MessageData{},
	}
	data, err := proto.Marshal(body)
	if err != nil {
		panic(err)
	}
	msg.Data.MsgInfo = data
	p2p.Compress(msg)
	msg.Header.DataCheckSum = p2p.Checksum(msg)
	return msg
}

// voteMsg is validator v's vote for label l.
func (w *World) voteMsg(c *Case, l int, v int) *protos.XuperMessage {
	vi := &bft.VoteInfo{ProposalId: labelIDs[l], ProposalView: c.View[l]}
	if p := c.Par[l]; p >= 0 {
		vi.ParentId = labelIDs[p]
		vi.ParentView = c.View[p]
	}
	vb, _ := json.Marshal(vi)
	lb, _ := json.Marshal(&bft.LedgerCommitInfo{VoteInfoHash: labelIDs[l]})
	vm := &bftpb.VoteMsg{VoteInfo: vb, LedgerCommitInfo: lb, Signature: []*bftpb.QuorumCertSign{w.m.sig(v, labelIDs[l])}}
	return netMsg(protos.XuperMessage_CHAINED_BFT_VOTE_MSG, vm)
}
