// C15: the pending-proposal tree stays a tree; certified and committed markers only advance.
package main

import (
	"encoding/json"
	"fmt"
	"io/ioutil"
	"math/rand"
	"os"
	"runtime"
	"sort"
	"strings"
	"sync"
	"time"

	"verif/ev"
	sn "verif/simnode"
)

type outcome struct {
	c   *Case
	res *Result
}

type hit struct {
	c *Case
	f *Finding
}

type collector struct {
	r    *ev.Run
	mat  *material
	mu   sync.Mutex
	hits map[string][]hit // signature -> witnesses
	errs int
}

// runAll executes the cases produced by gen on all cores and folds the measured counters.
func (co *collector) runAll(label string, gen func(emit func(*Case))) {
	workers := runtime.NumCPU()
	in := make(chan *Case, 4096)
	var wg sync.WaitGroup
	for i := 0; i < workers; i++ {
		wg.Add(1)
		go func() {
			defer wg.Done()
			local := map[string]int{}
			n := 0
			flush := func() {
				for k, v := range local {
					co.r.Count(k, v)
				}
				local = map[string]int{}
			}
			for c := range in {
				res := runCase(co.mat, c, false)
				if res.Err != "" {
					co.mu.Lock()
					co.errs++
					if co.errs <= 3 {
						co.r.Inconclusive("harness error in " + c.Fam + ": " + res.Err)
					}
					co.mu.Unlock()
					continue
				}
				co.r.Case(shapeOf(c), res.Nontrivial)
				for k, v := range res.Stats {
					local[k] += v
				}
				local["cases."+c.Fam]++
				local["calls"] += len(c.Ops)
				if res.Nontrivial {
					local["cases.nontrivial"]++
				}
				if res.F != nil {
					co.mu.Lock()
					co.hits[res.F.Sig] = append(co.hits[res.F.Sig], hit{c, res.F})
					co.mu.Unlock()
					local["cases.abandoned-at-first-violation"]++
				}
				if n++; n%512 == 0 {
					flush()
				}
			}
			flush()
		}()
	}
	idx := 0
	gen(func(c *Case) {
		c.Idx = idx
		idx++
		in <- c
	})
	close(in)
	wg.Wait()
	fmt.Fprintf(os.Stderr, "c15: %-28s %8d cases\n", label, idx)
}

// shrink removes calls one by one while the same signature is still reported.
func shrink(mat *material, c *Case, sig string) *Case {
	cur := *c
	cur.Ops = append([]Op(nil), c.Ops...)
	for changed := true; changed; {
		changed = false
		for i := len(cur.Ops) - 1; i >= 0; i-- {
			t := cur
			t.Ops = append(append([]Op(nil), cur.Ops[:i]...), cur.Ops[i+1:]...)
			res := runCase(mat, &t, false)
			if res.Err == "" && res.F != nil && res.F.Sig == sig {
				cur = t
				changed = true
			}
		}
	}
	if cur.Init.Prime {
		t := cur
		t.Init.Prime = false
		if res := runCase(mat, &t, false); res.Err == "" && res.F != nil && res.F.Sig == sig {
			cur = t
		}
	}
	return &cur
}

func (co *collector) report() {
	sigs := []string{}
	for s := range co.hits {
		sigs = append(sigs, s)
	}
	sort.Strings(sigs)
	for _, sig := range sigs {
		hs := co.hits[sig]
		// deterministic choice: view = height before gapped views, fewest calls, then family, then index
		sort.Slice(hs, func(i, j int) bool {
			a, b := hs[i], hs[j]
			if ga, gb := a.c.Fam == "random/gapped-views", b.c.Fam == "random/gapped-views"; ga != gb {
				return gb // a history with view = height is the better witness
			}
			if len(a.c.Ops) != len(b.c.Ops) {
				return len(a.c.Ops) < len(b.c.Ops)
			}
			if a.c.Fam != b.c.Fam {
				return a.c.Fam < b.c.Fam
			}
			return a.c.Idx < b.c.Idx
		})
		min := shrink(co.mat, hs[0].c, sig)
		res := runCase(co.mat, min, true)
		f := res.F
		if f == nil {
			f = hs[0].f
			min = hs[0].c
			res = runCase(co.mat, min, true)
		}
		used := map[int]bool{}
		for _, op := range min.Ops {
			for x := op.N; x > 0; x = min.Par[x] {
				used[x] = true
			}
		}
		nodes := []string{}
		for l := 1; l <= min.n(); l++ {
			if used[l] {
				nodes = append(nodes, fmt.Sprintf("%s(parent %s, view %d)", name(l), name(min.Par[l]), min.View[l]))
			}
		}
		calls := []string{}
		for _, op := range min.Ops {
			calls = append(calls, op.String())
		}
		fams := map[string]int{}
		for _, h := range hs {
			fams[h.c.Fam]++
		}
		detail := fmt.Sprintf("%s | minimal history (%d calls, root view %d, init %s): %s | proposals: %s | %d cases hit this signature %v",
			f.Detail, len(min.Ops), min.Init.RootView, min.Init.Kind, strings.Join(calls, ", "), strings.Join(nodes, ", "), len(hs), fams)
		co.r.Count("violating-cases", len(hs))
		for i := 0; i < len(hs); i++ { // known findings count their hits
			if !co.r.Violation(sig, detail, map[string]interface{}{"case": min, "calls": calls, "proposals": nodes, "trace": res.Trace, "violated_at_call": f.Step,
				"cases_with_this_signature": len(hs), "families": fams, "first_found_in": hs[0].c}) {
				break
			}
		}
	}
}

func main() {
	for i, a := range os.Args {
		if a == "-conc-child" && i+3 < len(os.Args) {
			concChild(os.Args[i+1:])
			return
		}
	}
	r := ev.Start("C15", "exploration",
		"a real Smr (NewSmr + DefaultSaftyRules + DefaultPaceMaker) over the QCPendingTree built by the real InitQCTree (fresh and restart forms) receives histories of calls: "+
			"confirmed blocks (Smr.UpdateQcStatus), REAL signed proposal messages and vote messages from 4 validators through the synchronous handler wrappers, UpdateJustifyQcStatus, "+
			"EnforceUpdateHighQC. EXHAUSTIVE: every labelled rooted tree on n<=6 proposals (= every shape x every arrival order, (n+1)^(n-1) per n) delivered as confirmed blocks, "+
			"and for n<=5 in three proposal/confirm interleavings, with every single duplicate delivery (n<=5), every single rollback at every position (n<=4), vote patterns at every "+
			"gap (n<=3); RANDOM (seeded): trees of 3..12 delivered proposals (chains with forks, bushy, uniform, competing long branches; optional view gaps), all call kinds shuffled with "+
			"four disorder levels, duplicates, undelivered parents, weak justifies, votes from members / the node itself in any order relative to the proposal. After EVERY call the real "+
			"structure (tree from Root + every orphan-list element) is walked and compared with a model written from the statement. A case is distinct by (family, start form, call "+
			"sequence, tree) up to renaming of proposals; non-trivial = some proposal arrived before its parent, or a fork, a root move, an applied rollback or a vote quorum occurred. "+
			"CONCURRENT DUPLICATES: long-lived nodes receive one fresh proposal per round as k = 2..4 overlapping copies of ONE signed message (k goroutines released by a start barrier into the "+
			"real handler), optionally followed by the confirmed block; when all handlers have returned the same walk + model judge the structure (stored exactly once, tree, markers, root, pacemaker)")
	sn.InitLogs()
	mat := newMaterial()
	if r.Replay != "" {
		replay(r, mat)
		return
	}
	co := &collector{r: r, mat: mat, hits: map[string][]hit{}}
	t0 := time.Now() // progress output only

	maxN := r.N(6, 7)
	co.runAll("exhaustive arrival orders", func(emit func(*Case)) { exhaustiveCases(maxN, r.N(5, 6), 5, emit) })
	co.runAll("rollback positions", func(emit func(*Case)) { rollbackCases(r.N(4, 5), emit) })
	co.runAll("vote gaps", func(emit func(*Case)) { voteCases(3, emit) })
	fmt.Fprintf(os.Stderr, "c15: exhaustive part done at %.1fs\n", time.Since(t0).Seconds())

	nRandom := r.N(24000, 700000)
	fams := []string{"random/mixed", "random/mixed", "random/deep-commit", "random/mixed", "random/gapped-views", "random/deep-commit"}
	co.runAll("random histories", func(emit func(*Case)) {
		for i := 0; i < nRandom; i++ {
			rng := rand.New(rand.NewSource(r.Seed*1000003 + int64(i)*7919 + 17))
			emit(randomCase(rng, fams[i%len(fams)]))
		}
	})
	fmt.Fprintf(os.Stderr, "c15: random part done at %.1fs\n", time.Since(t0).Seconds())

	co.report()
	duplicatePart(r, mat)
	fmt.Fprintf(os.Stderr, "c15: concurrent duplicate part done at %.1fs\n", time.Since(t0).Seconds())
	if !r.Quick() {
		concurrentPart(r)
		fmt.Fprintf(os.Stderr, "c15: concurrent part done at %.1fs\n", time.Since(t0).Seconds())
	}

	// one real clean sample per main family
	sampleCases(r, mat)

	r.Exhaustive(false)
	r.Extra("exhaustive_box", fmt.Sprintf("all labelled rooted trees on n<=%d proposals as confirmed blocks; n<=%d through the proposal handler in 3 interleavings; every duplicate (n<=5); every rollback (n<=%d); vote patterns at every gap (n<=3)", maxN, r.N(5, 6), r.N(4, 5)))
	r.Floor("cases.all-orders/confirm", int64(r.N(18000, 280000)))
	r.Floor("cases.all-orders/propose+confirm", 1400)
	r.Floor("cases.all-orders/confirm+duplicate", 20000)
	r.Floor("cases.rollback/all-positions", 2000)
	r.Floor("cases.votes/all-gaps", 3000)
	r.Floor("arrival.parent-absent", 20000)
	r.Floor("arrival.parent-orphans", 5000)
	r.Floor("arrival.parent-tree", 20000)
	r.Floor("arrival.with-orphan-children", 10000)
	r.Floor("arrival.with-2+-orphan-children", 2000)
	r.Floor("arrival.between-orphan-parent-and-orphan-child", 1000)
	r.Floor("fork", 10000)
	r.Floor("duplicate.confirm", 10000)
	r.Floor("duplicate.propose", 1000)
	r.Floor("propose.accepted", 5000)
	r.Floor("propose.refused", 1000)
	r.Floor("vote.taken", 2000)
	r.Floor("vote.dropped", 1000)
	r.Floor("vote.quorum", 500)
	r.Floor("root.moved", 500)
	r.Floor("root.moved-with-orphans-present", 50)
	r.Floor("root.moved-pruning-a-competing-branch", 50)
	r.Floor("op.enforce.applied", 2000)
	r.Floor("op.enforce.lowered-highqc", 500)
	r.Floor("op.enforce.refused", 200)
	r.Floor("op.justify", 1000)
	r.Floor("highqc.moved", 20000)
	r.Floor("markers.full-chain", 2000)
	r.Floor("pacemaker.advanced", 5000)
	r.Floor("certified-in-tree.vote", 200)
	r.Floor("certified-in-tree.justify", 200)
	r.Assume("the message handlers are called synchronously through the verif-tagged wrappers (export_verif.go); the network loop starts them as goroutines that mutate the tree without a lock - concurrent executions of DIFFERENT messages are not part of this verdict (thorough tier: open finding); overlapping copies of ONE proposal message are (part concurrent duplicates)")
	r.Assume("concurrent duplicates: only copies of the same proposal overlap, its parent is stored in the tree, the ledger side confirms between rounds; the schedule of the copies is the machine's (start barrier, optional stagger by spin count), so a replay re-runs the world's choices, not the interleaving")
	r.Assume("'accepted' for a proposal message = the proposal became reachable (tree or orphans) during the call; refusals by the safety rules / ledger-state window are not judged")
	r.Assume("proposal views strictly increase from parent to child (view = height except in the gapped-views family); a proposal whose chain contains a proposal at or below the root's view, or a pruned one, may be dropped or kept (lazy eviction is allowed)")
	r.Assume("a CommitQC equal to the current root is accepted although it is not the third ancestor of HighQC: InitQCTree starts with CommitQC = Root = HighQC and the root is the last committed proposal")
	r.Assume("HighQC left pointing above / beside the root after a commit is counted (info.highqc-outside-tree-after-commit), not judged: the statement does not constrain it")
	r.Assume("vote quorum in the model: two distinct validators other than the node whose vote call returned nil (n = 4); earlier certification is C14's subject and is not judged here")
	sn.CleanupScratch()
	r.Finish()
}

// replay re-runs the minimal history of a replay file and reports what it shows.
func replay(r *ev.Run, mat *material) {
	buf, err := ioutil.ReadFile(r.Replay)
	var doc struct {
		Signature string `json:"signature"`
		Seed      int64  `json:"seed"`
		Witness   struct {
			Case  *Case  `json:"case"`
			Part  string `json:"part"`
			World int    `json:"world"`
		} `json:"witness"`
	}
	if err == nil {
		err = json.Unmarshal(buf, &doc)
	}
	if err == nil && doc.Witness.Part == "concurrent-duplicate" {
		replayDup(r, mat, doc.Seed, doc.Witness.World)
		sn.CleanupScratch()
		r.Finish()
	}
	if err != nil || doc.Witness.Case == nil {
		r.Inconclusive(fmt.Sprintf("cannot read replay file %s: %v", r.Replay, err))
		r.Finish()
	}
	c := doc.Witness.Case
	res := runCase(mat, c, true)
	for _, l := range res.Trace {
		fmt.Fprintln(os.Stderr, l)
	}
	r.Case(shapeOf(c), true)
	if res.Err != "" {
		r.Inconclusive("harness error: " + res.Err)
	} else if res.F != nil {
		fmt.Fprintf(os.Stderr, "replay: %s at call %d: %s\n", res.F.Sig, res.F.Step, res.F.Detail)
		r.Violation(res.F.Sig, res.F.Detail, map[string]interface{}{"case": c, "trace": res.Trace, "violated_at_call": res.F.Step})
	} else {
		fmt.Fprintf(os.Stderr, "replay: the history runs clean (recorded signature: %s)\n", doc.Signature)
	}
	sn.CleanupScratch()
	r.Finish()
}

func sampleCases(r *ev.Run, mat *material) {
	rng := rand.New(rand.NewSource(r.Seed*1000003 + 5))
	for _, fam := range []string{"random/mixed", "random/deep-commit"} {
		for try := 0; try < 50; try++ {
			c := randomCase(rng, fam)
			res := runCase(mat, c, true)
			if res.Err == "" && res.F == nil && res.Nontrivial && (fam != "random/deep-commit" || res.Stats["root.moved"] > 0) {
				calls := []string{}
				for _, op := range c.Ops {
					calls = append(calls, op.String())
				}
				r.Sample(map[string]interface{}{"family": fam, "init": c.Init, "parent": c.Par, "view": c.View, "calls": calls, "final_state": res.Trace[len(res.Trace)-1]})
				break
			}
		}
	}
	c := &Case{Fam: "all-orders/confirm", Init: freshInit, Par: []int{-1, 3, 3, 4, 0}, Ops: modeOps("confirm", 4)}
	c.View = depthViews(c.Par, 0)
	res := runCase(mat, c, true)
	s := map[string]interface{}{"family": c.Fam, "parent": c.Par, "trace": res.Trace}
	if res.F != nil {
		s["violation"] = res.F.Sig
	}
	r.Sample(s)
}
