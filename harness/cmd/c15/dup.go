package main

// Concurrent duplicate deliveries (both tiers, in-process).
//
// The network loop starts one goroutine per received message and duplicates of ONE proposal are
// the normal case (the proposer sends it to every validator, every replica forwards its copy to
// the round's leader). The statement quantifies over duplicates and schedules: whatever the
// overlap of the copies, an accepted proposal is stored exactly once and the structure stays a
// tree with consistent markers.
//
// Mechanism: a long-lived real Smr (built like every other world of this check) receives, round
// after round, ONE fresh signed proposal message whose parent is stored in the tree. k = 2..4
// goroutines are parked on a spinning start barrier and hand that same message to the real
// handler (synchronous shim VerifHandleProposal) at the same moment, optionally staggered by a
// few hundred spin iterations. When all of them have returned (quiescence by construction: the
// shim is synchronous) the structure is walked and judged by the SAME auditor and model as the
// sequential histories: the observable outcome of k overlapping copies has to be a legal outcome
// of the sequential history "propose(l)" (+ silent duplicates). Between rounds the ledger side
// may confirm the block (Smr.UpdateQcStatus), sequentially, which is audited too.
//
// Only copies of the SAME proposal ever overlap: different proposals are never in flight
// together, so the recorded open finding about the unsynchronised tree under concurrent
// handlers of different messages (thorough tier, qctree|concurrent-handlers|...) cannot occur
// here; every finding of this part carries the prefix qctree|concurrent-duplicate|.
//
// Choices (tree growth, parent, number of copies, stagger, signer, justify strength, confirms)
// are a function of VERIF_SEED, the world index and the round; the schedule is the machine's.

import (
	"fmt"
	"math/rand"
	"os"
	"runtime"
	"runtime/debug"
	"sort"
	"strings"
	"sync"
	"sync/atomic"
	"time"

	bft "github.com/xuperchain/xupercore/kernel/consensus/base/driver/chained-bft"
	"github.com/xuperchain/xupercore/protos"

	"verif/ev"
)

const dupPrefix = "qctree|concurrent-duplicate|"

// the one sequential defect recorded as open; it keeps its own signature wherever it is seen
const staleMarkerSig = "qctree|markers-not-successive-ancestors|stale-marker-kept-when-highqc-has-too-few-ancestors-in-the-tree"

type dupStyle struct {
	Name     string `json:"name"`
	Init     Init   `json:"init"`
	Rounds   int    `json:"rounds"`
	Deep     int    `json:"percent_rounds_extending_the_newest_proposal"` // else: a uniformly chosen stored proposal
	Commit   int    `json:"percent_justifies_with_commit_info"`
	Confirm  int    `json:"percent_rounds_followed_by_confirm"`
	MaxDepth int64  `json:"max_depth_below_root,omitempty"` // 0 = only the ledger window limits the depth
}

// dupWorlds: the worlds of one run. Wide trees without commits keep every proposal stored (long
// lookups, many competing children of one parent); deep ones move the root and prune.
func dupWorlds(r *ev.Run) []dupStyle {
	q := func(quick, thorough int) int { return r.N(quick, thorough) }
	return []dupStyle{
		{Name: "wide/no-commit", Init: Init{Kind: "fresh", RootView: 0}, Rounds: q(700, 1900), Deep: 0, Commit: 0, Confirm: 0, MaxDepth: 3},
		{Name: "wide/confirms", Init: Init{Kind: "fresh", RootView: 6, Prime: true}, Rounds: q(600, 1900), Deep: 10, Commit: 0, Confirm: 30, MaxDepth: 6},
		{Name: "chain+forks/commit", Init: Init{Kind: "fresh", RootView: 0}, Rounds: q(400, 1900), Deep: 75, Commit: 85, Confirm: 100},
		{Name: "bushy/commit", Init: Init{Kind: "restart", RootView: 4, Pre: 3, Prime: true}, Rounds: q(400, 1900), Deep: 40, Commit: 50, Confirm: 60},
		{Name: "wide/no-commit-2", Init: Init{Kind: "fresh", RootView: 0}, Rounds: q(700, 1900), Deep: 5, Commit: 0, Confirm: 10, MaxDepth: 4},
	}
}

type dupRound struct {
	Round   int    `json:"round"`
	Label   int    `json:"proposal"`
	Parent  int    `json:"parent"`
	View    int64  `json:"view"`
	Copies  int    `json:"copies"`
	Stagger int    `json:"stagger_spins"`
	Q       int    `json:"justify_signers"`
	Commit  bool   `json:"commit_info"`
	By      int    `json:"signed_by"`
	Outcome string `json:"outcome"`
	Confirm bool   `json:"confirmed_after"`
}

type dupResult struct {
	F        *Finding
	Known    bool // F is the recorded sequential stale-marker defect
	Err      string
	Rounds   []dupRound
	Case     *Case
	State    string
	Stats    map[string]int
	MaxTree  int
	TimedOut bool
}

// countStored: how many node objects carry label l, over the tree and every orphan sub-tree.
func countStored(t *bft.QCPendingTree, l int) (inTree, inOrphans int) {
	budget := 2000000
	var cnt func(n *bft.ProposalNode) int
	cnt = func(n *bft.ProposalNode) int {
		if n == nil || n.In == nil || budget <= 0 {
			return 0
		}
		budget--
		c := 0
		if string(n.In.GetProposalId()) == string(labelIDs[l]) {
			c++
		}
		for _, s := range n.Sons {
			c += cnt(s)
		}
		return c
	}
	inTree = cnt(t.Root)
	for e := t.OrphanList.Front(); e != nil; e = e.Next() {
		if n, ok := e.Value.(*bft.ProposalNode); ok {
			inOrphans += cnt(n)
		}
	}
	return
}

// deliverCopies releases k goroutines that hand msg to the real handler at the same moment.
func deliverCopies(w *World, msg *protos.XuperMessage, k int, stagger int) (panicked string) {
	var ready, gate int32
	var wg sync.WaitGroup
	var pmu sync.Mutex
	pure := runtime.GOMAXPROCS(0) > k // enough processors to let the waiters spin
	var sink uint64
	for i := 0; i < k; i++ {
		wg.Add(1)
		go func(i int) {
			defer wg.Done()
			defer func() {
				if p := recover(); p != nil {
					pmu.Lock()
					panicked = fmt.Sprintf("%v\n%s", p, clipStack(string(debug.Stack())))
					pmu.Unlock()
				}
			}()
			atomic.AddInt32(&ready, 1)
			for n := 0; atomic.LoadInt32(&gate) == 0; n++ {
				if !pure || n&1023 == 1023 {
					runtime.Gosched()
				}
			}
			x := uint64(i)
			for n := i * stagger; n > 0; n-- { // stagger without a clock
				x = x*6364136223846793005 + 1442695040888963407
			}
			atomic.AddUint64(&sink, x)
			w.smr.VerifHandleProposal(msg)
		}(i)
	}
	for atomic.LoadInt32(&ready) < int32(k) {
		runtime.Gosched()
	}
	atomic.StoreInt32(&gate, 1)
	wg.Wait()
	return
}

// runDupWorld runs one world; it stops at the first finding.
func runDupWorld(mat *material, seed int64, wi int, st dupStyle) (res *dupResult) {
	res = &dupResult{Stats: map[string]int{}}
	rng := rand.New(rand.NewSource(seed*1000003 + int64(wi)*104729 + 41))
	c := &Case{Fam: "concurrent-duplicate/" + st.Name, Idx: wi, Init: st.Init, Par: []int{-1}, View: []int64{st.Init.RootView}}
	for l := 1; l <= st.Init.Pre; l++ {
		c.Par = append(c.Par, l-1)
		c.View = append(c.View, st.Init.RootView+int64(l))
	}
	res.Case = c
	w, err := newWorld(mat, c)
	if err != nil {
		res.Err = err.Error()
		return
	}
	m := newModel(c, w)
	stats := res.Stats
	ledger := int64(0)
	if st.Init.Prime {
		ledger = st.Init.RootView + int64(st.Init.Pre)
	}
	step := -1
	var cur *Op
	defer func() {
		if p := recover(); p != nil {
			k := "init"
			if cur != nil {
				k = cur.K
			}
			res.F = &Finding{Sig: dupPrefix + "panic|" + k, Detail: fmt.Sprintf("panic during %v: %v\n%s", cur, p, clipStack(string(debug.Stack()))), Step: step}
		}
		for k, v := range m.stats {
			stats["model."+k] += v
		}
		res.State = renderClip(w)
	}()
	finish := func(f *Finding) {
		if f.Sig == staleMarkerSig {
			res.Known = true
		} else if !strings.HasPrefix(f.Sig, dupPrefix) {
			f.Sig = dupPrefix + strings.TrimPrefix(f.Sig, "qctree|")
		}
		res.F = f
	}
	before := take(w.tree)
	if f := m.audit(w, -1, nil, false, nil, before, before, 0, w.tree.HighQC); f != nil {
		finish(f)
		return
	}
	newest := st.Init.Pre
	kids := map[int]int{}
	for round := 0; round < st.Rounds && len(c.Par) < maxLabels; round++ {
		// ---- choices of this round
		// parents whose child the node's own windows admit (ledger state + 3 above, pacemaker view - 3
		// below); one round in 16 takes any stored proposal, which the safety rules may refuse
		live := make([]int, 0, len(before.tree))
		anyStored := rng.Intn(16) == 0
		pm := w.smr.GetCurrentView()
		for l := range before.tree {
			v := c.View[l] + 1
			if v <= ledger+3 && (st.MaxDepth == 0 || v <= c.View[m.root]+st.MaxDepth) && (anyStored || v > pm-3) {
				live = append(live, l)
			}
		}
		if len(live) == 0 {
			for l := range before.tree {
				if c.View[l]+1 <= ledger+3 {
					live = append(live, l)
				}
			}
		}
		if len(live) == 0 {
			res.Err = fmt.Sprintf("round %d: no stored proposal can be extended (ledger state %d)", round, ledger)
			return
		}
		sort.Ints(live)
		p := live[rng.Intn(len(live))]
		if rng.Intn(100) < st.Deep {
			if _, in := before.tree[newest]; in && c.View[newest]+1 <= ledger+3 {
				p = newest
			}
		}
		k := 2 + rng.Intn(3)
		stagger := 0
		if rng.Intn(4) == 0 {
			stagger = 1 << uint(4+rng.Intn(8)) // 16 .. 2048 spins per copy index
		}
		q := 3
		switch x := rng.Intn(100); {
		case x < 25:
			q = 2
		case x < 29:
			q = 1 // too weak: refused unless the parent is the genesis proposal
		}
		commit := rng.Intn(100) < st.Commit
		by := rng.Intn(numValidators)
		confirm := rng.Intn(100) < st.Confirm
		l := len(c.Par)
		c.Par = append(c.Par, p)
		c.View = append(c.View, c.View[p]+1)
		rd := dupRound{Round: round, Label: l, Parent: p, View: c.View[l], Copies: k, Stagger: stagger, Q: q, Commit: commit, By: by, Confirm: confirm}

		// ---- k overlapping copies of one signed message
		op := Op{K: "propose", N: l, Q: q, C: commit, B: by}
		c.Ops = append(c.Ops, op)
		step++
		cur = &c.Ops[len(c.Ops)-1]
		rootBefore, highBefore := m.root, w.tree.HighQC
		msg := w.proposalMsg(c, l, q, commit, by)
		stats["rounds"]++
		stats[fmt.Sprintf("copies-%d", k)]++
		stats["copies"] += k
		if stagger > 0 {
			stats["rounds.staggered"]++
		}
		if pan := deliverCopies(w, msg, k, stagger); pan != "" {
			rd.Outcome = "panic"
			res.Rounds = append(res.Rounds, rd)
			finish(&Finding{Sig: dupPrefix + "panic|propose", Detail: fmt.Sprintf("panic in the proposal handler while %d copies of %s were handled together: %s", k, name(l), pan), Step: step})
			return
		}
		// quiescence: all k synchronous handler calls have returned
		inT, inO := countStored(w.tree, l)
		switch {
		case inT+inO == 0:
			rd.Outcome = "refused"
			stats["refused"]++
		case inT+inO == 1:
			rd.Outcome = "accepted"
			stats["accepted"]++
			if kids[p]++; kids[p] == 2 {
				stats["fork"]++
			}
			if kids[p] >= 8 {
				stats["accepted.under-a-parent-with-8+-children"]++
			}
		default:
			rd.Outcome = fmt.Sprintf("stored %d times", inT+inO)
			res.Rounds = append(res.Rounds, rd)
			finish(&Finding{Sig: dupPrefix + "proposal-stored-twice", Step: step,
				Detail: fmt.Sprintf("%d overlapping copies of ONE signed proposal message for %s (parent %s, which is in the tree; view %d) were handed to the proposal handler together; "+
					"after all handlers had returned the proposal is stored %d times (%d x in the tree, %d x among the orphans), want exactly once; %d proposals were stored before the round",
					k, name(l), name(p), c.View[l], inT+inO, inT, inO, len(before.tree)+len(before.forest))})
			return
		}
		newly := inT+inO == 1
		if newly {
			m.viaMsg[l] = true
			m.certified[p] = true
			m.noteArrival(l, step, before)
			newest = l
		}
		after := take(w.tree)
		if n := len(after.tree); n > res.MaxTree {
			res.MaxTree = n
		}
		f := m.audit(w, step, cur, newly, nil, before, after, rootBefore, highBefore)
		res.Rounds = append(res.Rounds, rd)
		if f != nil {
			f.Detail = fmt.Sprintf("after %d overlapping copies of the proposal message for %s: %s", k, name(l), f.Detail)
			finish(f)
			return
		}
		before = after

		// ---- the ledger side, sequentially
		if confirm {
			c.Ops = append(c.Ops, Op{K: "confirm", N: l})
			step++
			cur = &c.Ops[len(c.Ops)-1]
			rootBefore, highBefore = m.root, w.tree.HighQC
			if e := w.smr.UpdateQcStatus(w.node(c, l)); e != nil {
				finish(&Finding{Sig: dupPrefix + "confirm|refused", Detail: fmt.Sprintf("UpdateQcStatus(%s) = %v", name(l), e), Step: step})
				return
			}
			stats["confirms"]++
			if c.View[l] > ledger {
				ledger = c.View[l]
			}
			m.certified[p] = true
			nw := !m.accepted[l]
			if nw {
				m.noteArrival(l, step, before)
				newest = l
				stats["confirm-installed-a-refused-proposal"]++
			}
			after = take(w.tree)
			if f := m.audit(w, step, cur, nw, nil, before, after, rootBefore, highBefore); f != nil {
				f.Detail = fmt.Sprintf("after the confirmed block of %s (its proposal message had been delivered as %d overlapping copies): %s", name(l), k, f.Detail)
				finish(f)
				return
			}
			before = after
		}
		cur = nil
	}
	return
}

func renderClip(w *World) string {
	s := renderState(w)
	if len(s) > 1200 {
		s = s[:600] + " ... " + s[len(s)-500:]
	}
	return s
}

func (d *dupResult) witness(seed int64, wi int, st dupStyle) map[string]interface{} {
	tail := d.Rounds
	if len(tail) > 40 {
		tail = tail[len(tail)-40:]
	}
	return map[string]interface{}{"part": "concurrent-duplicate", "world": wi, "world_seed": seed, "style": st, "rounds_run": len(d.Rounds),
		"last_rounds": tail, "state": d.State, "largest_tree": d.MaxTree,
		"note":          "the schedule of the overlapping copies is the machine's; --replay re-runs this world (same choices) up to 5 times",
		"parent_vector": d.Case.Par}
}

// duplicatePart runs the worlds one after the other (the copies need the processors).
func duplicatePart(r *ev.Run, mat *material) {
	t0 := time.Now() // progress output and the watch-dog only
	worlds := dupWorlds(r)
	total := 0
	for wi, st := range worlds {
		done := make(chan *dupResult, 1)
		go func(wi int, st dupStyle) { done <- runDupWorld(mat, r.Seed, wi, st) }(wi, st)
		var d *dupResult
		select {
		case d = <-done:
		case <-time.After(5 * time.Minute): // watch-dog: inconclusive, never a verdict
			r.Inconclusive(fmt.Sprintf("concurrent duplicate deliveries: world %d (%s) hit the watch-dog", wi, st.Name))
			return
		}
		if d.Err != "" {
			r.Inconclusive(fmt.Sprintf("concurrent duplicate deliveries: harness error in world %d (%s): %s", wi, st.Name, d.Err))
		}
		for k, v := range d.Stats {
			r.Count("dup."+k, v)
		}
		r.Count("dup.worlds", 1)
		r.Count("dup.worlds."+st.Name, 1)
		if int64(d.MaxTree) > r.Counter("dup.largest-tree") {
			r.Count("dup.largest-tree", d.MaxTree-int(r.Counter("dup.largest-tree")))
		}
		for _, rd := range d.Rounds {
			r.Case(fmt.Sprintf("concurrent-duplicate|%s|w%d|r%d", st.Name, wi, rd.Round), rd.Outcome == "accepted")
		}
		total += len(d.Rounds)
		fmt.Fprintf(os.Stderr, "c15: concurrent duplicates: world %d %-20s %4d rounds, %4d accepted, %3d refused, %3d root moves, largest tree %d\n", wi, st.Name, len(d.Rounds),
			d.Stats["accepted"], d.Stats["refused"], d.Stats["model.root.moved"], d.MaxTree)
		if d.F != nil {
			fmt.Fprintf(os.Stderr, "c15: concurrent duplicates: world %d (%s) abandoned at round %d: %s\n", wi, st.Name, len(d.Rounds)-1, d.F.Sig)
			r.Count("dup.worlds-abandoned-at-first-violation", 1)
			r.Violation(d.F.Sig, fmt.Sprintf("world %d (%s), round %d: %s", wi, st.Name, len(d.Rounds)-1, d.F.Detail), d.witness(r.Seed, wi, st))
		}
	}
	fmt.Fprintf(os.Stderr, "c15: %-28s %8d rounds in %d worlds (%.1fs)\n", "concurrent duplicates", total, len(worlds), time.Since(t0).Seconds())
	r.Floor("dup.rounds", int64(r.N(2400, 8000)))
	r.Floor("dup.accepted", int64(r.N(2000, 7000)))
	r.Floor("dup.copies-2", 500)
	r.Floor("dup.copies-3", 500)
	r.Floor("dup.copies-4", 500)
	r.Floor("dup.rounds.staggered", 300)
	r.Floor("dup.refused", 20)
	r.Floor("dup.fork", 150)
	r.Floor("dup.accepted.under-a-parent-with-8+-children", 200)
	r.Floor("dup.confirms", 400)
	r.Floor("dup.model.root.moved", 100)
	r.Floor("dup.model.highqc.moved", 400)
	r.Floor("dup.largest-tree", 400)
}

// replayDup re-runs the world of a replay file written by this part.
func replayDup(r *ev.Run, mat *material, seed int64, wi int) {
	worlds := dupWorlds(r)
	if wi < 0 || wi >= len(worlds) {
		r.Inconclusive(fmt.Sprintf("replay: no world %d in tier %s", wi, r.Tier))
		return
	}
	for try := 1; try <= 5; try++ {
		d := runDupWorld(mat, seed, wi, worlds[wi])
		r.Evals(len(d.Rounds))
		if d.Err != "" {
			r.Inconclusive("harness error: " + d.Err)
			return
		}
		if d.F != nil {
			fmt.Fprintf(os.Stderr, "replay: run %d of world %d (%s): %s at round %d: %s\n  state: %s\n", try, wi, worlds[wi].Name, d.F.Sig, len(d.Rounds)-1, d.F.Detail, d.State)
			r.Violation(d.F.Sig, d.F.Detail, d.witness(seed, wi, worlds[wi]))
			return
		}
		fmt.Fprintf(os.Stderr, "replay: run %d of world %d (%s): %d rounds clean\n", try, wi, worlds[wi].Name, len(d.Rounds))
	}
}
