package main

// Runs one case on a fresh real Smr: every call is followed by a structural snapshot and the
// model audit; the history is abandoned at its first violation.

import (
	"crypto/sha1"
	"encoding/hex"
	"fmt"
	"runtime/debug"
	"strings"

	bft "github.com/xuperchain/xupercore/kernel/consensus/base/driver/chained-bft"
)

type Result struct {
	F          *Finding
	Stats      map[string]int
	Trace      []string
	Nontrivial bool
	Err        string // harness problem (not a verdict)
}

func runCase(mat *material, c *Case, trace bool) (res *Result) {
	res = &Result{Stats: map[string]int{}}
	w, err := newWorld(mat, c)
	if err != nil {
		res.Err = err.Error()
		return
	}
	m := newModel(c, w)
	res.Stats = m.stats
	step := -1
	var cur *Op
	defer func() {
		if p := recover(); p != nil {
			k := "init"
			if cur != nil {
				k = cur.K
			}
			res.F = &Finding{Sig: "qctree|panic|" + k, Detail: fmt.Sprintf("panic during %v: %v\n%s", cur, p, clipStack(string(debug.Stack()))), Step: step}
		}
		res.Nontrivial = m.stats["arrival.parent-absent"]+m.stats["arrival.parent-orphans"] > 0 || m.stats["root.moved"] > 0 ||
			m.stats["op.enforce.applied"] > 0 || m.stats["fork"] > 0 || m.stats["vote.quorum"] > 0
	}()
	before := take(w.tree)
	if f := m.audit(w, -1, nil, false, nil, before, before, 0, w.tree.HighQC); f != nil {
		res.F = f
		return
	}
	if trace {
		res.Trace = append(res.Trace, "init: "+renderState(w))
	}
	kids := map[int]int{}
	for i := range c.Ops {
		op := &c.Ops[i]
		cur = op
		step = i
		rootBefore, highBefore := m.root, w.tree.HighQC
		var callErr error
		newly := false
		m.stats["op."+op.K]++
		switch op.K {
		case "confirm":
			callErr = w.smr.UpdateQcStatus(w.node(c, op.N))
			if callErr != nil {
				res.F = &Finding{Sig: "qctree|confirm|refused", Detail: fmt.Sprintf("UpdateQcStatus(%s) = %v", name(op.N), callErr), Step: i}
				return
			}
			if !m.accepted[op.N] {
				newly = true
			} else {
				m.stats["duplicate.confirm"]++
			}
		case "propose":
			tail := last(w)
			w.smr.VerifHandleProposal(w.proposalMsg(c, op.N, op.Q, op.C, op.B))
			if !m.accepted[op.N] {
				if stored(w.tree, op.N) {
					newly = true
					m.viaMsg[op.N] = true
					m.stats["propose.accepted"]++
				} else {
					m.stats["propose.refused"]++
					if t2 := last(w); t2 != tail {
						m.stats["propose.refused."+reason(t2)]++
					} else {
						m.stats["propose.refused.silently"]++
					}
				}
			} else {
				m.stats["duplicate.propose"]++
			}
		case "vote":
			callErr = w.smr.VerifHandleVote(w.voteMsg(c, op.N, op.V))
			if callErr == nil {
				m.stats["vote.taken"]++
				if op.V != 0 {
					if m.voters[op.N] == nil {
						m.voters[op.N] = map[int]bool{}
					}
					m.voters[op.N][op.V] = true
					if len(m.voters[op.N]) >= quorumOthers {
						m.stats["vote.quorum"]++
					}
				}
			} else {
				m.stats["vote.dropped"]++
			}
		case "justify":
			w.smr.UpdateJustifyQcStatus(w.qcOn(c, op.N, op.Q, false))
		case "enforce":
			callErr = w.smr.EnforceUpdateHighQC(labelIDs[op.N])
			if callErr == nil {
				m.stats["op.enforce.applied"]++
				if c.View[op.N] < m.highView {
					m.stats["op.enforce.lowered-highqc"]++
				}
			} else {
				m.stats["op.enforce.refused"]++
			}
		default:
			res.Err = "unknown op " + op.K
			return
		}
		after := take(w.tree)
		// what this call showed to be certified (permissive: anything the node MAY treat as certified)
		switch op.K {
		case "confirm":
			m.certified[c.Par[op.N]] = true // a confirmed block carries a checked justify for its parent
		case "propose":
			if m.accepted[op.N] || stored(w.tree, op.N) {
				m.certified[c.Par[op.N]] = true
			}
		case "justify":
			m.certified[op.N] = true
			for v := 1; v <= op.Q && v < numValidators; v++ {
				m.addSigner(op.N, v)
			}
		case "vote":
			if callErr == nil {
				m.addSigner(op.N, op.V)
				if len(m.signers[op.N]) >= quorumOthers {
					m.certified[op.N] = true
				}
			}
		case "enforce":
			m.certified[op.N] = true
		}
		if newly {
			m.noteArrival(op.N, i, before)
			kids[c.Par[op.N]]++
			if kids[c.Par[op.N]] == 2 {
				m.stats["fork"]++
			}
		}
		f := m.audit(w, i, op, newly, callErr, before, after, rootBefore, highBefore)
		if trace {
			e := ""
			if callErr != nil {
				e = " -> " + callErr.Error()
			}
			res.Trace = append(res.Trace, fmt.Sprintf("%2d %s%s: %s", i, op.String(), e, renderState(w)))
		}
		if f != nil {
			res.F = f
			return
		}
		before = after
	}
	cur = nil
	// end of history: what is left among the orphans
	if len(before.forest) > 0 {
		m.stats["end.with-orphans"]++
	}
	return
}

func (m *Model) addSigner(l, v int) {
	if m.signers[l] == nil {
		m.signers[l] = map[int]bool{}
	}
	m.signers[l][v] = true
}

func stored(t *bft.QCPendingTree, l int) bool {
	if t.DFSQueryNode(labelIDs[l]) != nil {
		return true
	}
	for e := t.OrphanList.Front(); e != nil; e = e.Next() {
		if n, ok := e.Value.(*bft.ProposalNode); ok && bft.DFSQuery(n, labelIDs[l]) != nil {
			return true
		}
	}
	return false
}

func last(w *World) string {
	t := w.log.Tail(1)
	if len(t) == 0 {
		return ""
	}
	return t[0]
}

// reason keeps the message part of a captured log line (coverage counters only).
func reason(line string) string {
	line = strings.TrimPrefix(line, "E ")
	line = strings.TrimPrefix(line, "W ")
	if i := strings.Index(line, " error="); i > 0 {
		r := line[i+7:]
		if j := strings.Index(r, " local want"); j > 0 {
			r = r[:j]
		}
		if len(r) > 70 {
			r = r[:70]
		}
		return r
	}
	if i := strings.Index(line, " LedgerState="); i > 0 {
		line = line[:i]
	}
	if i := strings.Index(line, " view="); i > 0 {
		line = line[:i]
	}
	if len(line) > 70 {
		line = line[:70]
	}
	return line
}

func clipStack(s string) string {
	lines := strings.Split(s, "\n")
	keep := []string{}
	for _, l := range lines {
		if strings.Contains(l, "chained-bft") || strings.Contains(l, "consensus/base") {
			keep = append(keep, strings.TrimSpace(l))
		}
		if len(keep) >= 8 {
			break
		}
	}
	return strings.Join(keep, " | ")
}

// shapeOf identifies a case up to the names of its proposals: labels are renamed by first
// appearance in the call sequence.
func shapeOf(c *Case) string {
	ren := map[int]int{0: 0}
	for l := 1; l <= c.Init.Pre; l++ {
		ren[l] = l
	}
	next := c.Init.Pre + 1
	get := func(l int) int {
		if l < 0 {
			return -1
		}
		if r, ok := ren[l]; ok {
			return r
		}
		ren[l] = next
		next++
		return ren[l]
	}
	var b strings.Builder
	fmt.Fprintf(&b, "%s|%s/%d/%d/%v|", c.Fam, c.Init.Kind, c.Init.RootView, c.Init.Pre, c.Init.Prime)
	for _, op := range c.Ops {
		r := get(op.N)
		fmt.Fprintf(&b, "%s%d", op.K[:1], r)
		switch op.K {
		case "vote":
			fmt.Fprintf(&b, "v%d", op.V)
		case "propose":
			fmt.Fprintf(&b, "q%d%v", op.Q, op.C)
		case "justify":
			fmt.Fprintf(&b, "q%d", op.Q)
		}
		b.WriteByte(';')
	}
	// parents (by renamed label) - undelivered ancestors get names after the delivered ones
	b.WriteByte('|')
	order := make([]int, next)
	for l, r := range ren {
		order[r] = l
	}
	for r := 1; r < len(order); r++ {
		l := order[r]
		p := c.Par[l]
		if _, ok := ren[p]; !ok {
			ren[p] = len(order)
			order = append(order, p)
		}
		fmt.Fprintf(&b, "%d<%d@%d,", r, ren[p], c.View[l]-c.View[0])
	}
	h := sha1.Sum([]byte(b.String()))
	return c.Fam + "|" + hex.EncodeToString(h[:8])
}
