package main

// Reference model and structural auditor, written from the property statement:
//
//   - every accepted proposal is stored exactly once: in the tree (under its parent) as soon as
//     its chain of parents reaches the root, among the orphans while it waits for a parent;
//   - nothing else is stored, links are consistent, no node is reachable twice (no cycle);
//   - HighQC's view never decreases except through EnforceUpdateHighQC;
//   - GenericQC / LockedQC / CommitQC, whenever set, are parent / grand-parent / great-grand-parent
//     of HighQC;
//   - the root only moves to a descendant of the previous root;
//   - the pacemaker view never decreases.
//
// Allowed (DESIGN.md C15): a proposal that can no longer descend from the root (its chain
// contains a proposal at or below the root's view, or a pruned one) may be dropped or kept
// among the orphans; a commit that finds fewer than four ancestors is a no-op; refused
// proposals (safety rules) are simply not accepted.

import (
	"fmt"
	"sort"
	"strings"

	bft "github.com/xuperchain/xupercore/kernel/consensus/base/driver/chained-bft"
)

// Op is one call on the node.
type Op struct {
	K string `json:"op"`              // confirm | propose | vote | justify | enforce
	N int    `json:"node"`            // label of the proposal concerned
	V int    `json:"voter,omitempty"` // vote: validator index (0 = the node itself)
	Q int    `json:"signers,omitempty"`
	C bool   `json:"commit_info,omitempty"` // propose: the justify carries a commit state id
	B int    `json:"signed_by,omitempty"`   // propose: validator that signed the message
}

func (o Op) String() string {
	switch o.K {
	case "vote":
		return fmt.Sprintf("vote(%s by v%d)", name(o.N), o.V)
	case "propose":
		s := fmt.Sprintf("propose(%s q=%d", name(o.N), o.Q)
		if o.C {
			s += " commit"
		}
		return s + ")"
	case "justify":
		return fmt.Sprintf("justify(%s q=%d)", name(o.N), o.Q)
	}
	return fmt.Sprintf("%s(%s)", o.K, name(o.N))
}

func name(l int) string {
	if l == 0 {
		return "R"
	}
	return fmt.Sprintf("n%d", l)
}

// Case is one history: a proposal tree (labels 0..n, 0 = root) and a call sequence.
type Case struct {
	Fam  string  `json:"family"`
	Idx  int     `json:"index"`
	Init Init    `json:"init"`
	Par  []int   `json:"parent"` // Par[0] = -1
	View []int64 `json:"view"`
	Ops  []Op    `json:"ops"`
}

func (c *Case) n() int { return len(c.Par) - 1 }

// isAncestor: a is a proper ancestor of b in the case tree.
func (c *Case) isAncestor(a, b int) bool {
	for x := c.Par[b]; x >= 0; x = c.Par[x] {
		if x == a {
			return true
		}
	}
	return false
}

func (c *Case) anc(l, k int) int {
	for ; k > 0 && l >= 0; k-- {
		l = c.Par[l]
	}
	return l
}

// ---- snapshot of the real structure -----------------------------------------------------------

type place struct {
	ptr   *bft.ProposalNode
	under int // label of the node it hangs under; -1 = orphan head / root
	head  bool
}

type snapshot struct {
	tree    map[int]place
	forest  map[int]place
	heads   []int
	problem *Finding
}

type Finding struct {
	Sig    string
	Detail string
	Step   int
}

func labelOf(n *bft.ProposalNode) (int, bool) {
	if n == nil || n.In == nil {
		return -1, false
	}
	l, ok := idLabel[string(n.In.GetProposalId())]
	return l, ok
}

// take walks the tree from Root and every orphan-list element; it stops at the first
// structural problem.
func take(t *bft.QCPendingTree) *snapshot {
	s := &snapshot{tree: map[int]place{}, forest: map[int]place{}}
	seenPtr := map[*bft.ProposalNode]string{}
	budget := 100000
	var walk func(n *bft.ProposalNode, under int, where string, into map[int]place, head bool) bool
	walk = func(n *bft.ProposalNode, under int, where string, into map[int]place, head bool) bool {
		budget--
		if budget < 0 {
			s.problem = &Finding{Sig: "qctree|structure|walk-does-not-terminate", Detail: "more than 100000 nodes reachable"}
			return false
		}
		if n == nil || n.In == nil {
			s.problem = &Finding{Sig: "qctree|structure|nil-node-stored", Detail: "a nil node / node without certificate is stored in the " + where}
			return false
		}
		l, ok := labelOf(n)
		if !ok {
			s.problem = &Finding{Sig: "qctree|structure|unknown-node-stored", Detail: "a node that was never delivered is stored in the " + where}
			return false
		}
		if w0, dup := seenPtr[n]; dup {
			s.problem = &Finding{Sig: "qctree|structure|node-reachable-twice", Detail: fmt.Sprintf("the node object of %s is reachable twice (%s and %s): cycle or shared sub-tree", name(l), w0, where)}
			return false
		}
		seenPtr[n] = where
		_, inT := s.tree[l]
		_, inF := s.forest[l]
		if inT || inF {
			a := "tree"
			if inF {
				a = "orphans"
			}
			s.problem = &Finding{Sig: "qctree|stored-twice|" + a + "+" + where, Detail: fmt.Sprintf("proposal %s is stored twice (%s and %s)", name(l), a, where)}
			return false
		}
		into[l] = place{ptr: n, under: under, head: head}
		for _, son := range n.Sons {
			if son == nil || son.In == nil {
				s.problem = &Finding{Sig: "qctree|structure|nil-node-stored", Detail: "nil child under " + name(l)}
				return false
			}
			if string(son.In.GetParentProposalId()) != string(n.In.GetProposalId()) {
				sl, _ := labelOf(son)
				s.problem = &Finding{Sig: "qctree|structure|child-under-wrong-parent", Detail: fmt.Sprintf("%s hangs under %s in the %s but names another parent", name(sl), name(l), where)}
				return false
			}
			if !walk(son, l, where, into, false) {
				return false
			}
		}
		return true
	}
	if t.Root == nil {
		s.problem = &Finding{Sig: "qctree|structure|nil-root", Detail: "Root is nil"}
		return s
	}
	if !walk(t.Root, -1, "tree", s.tree, false) {
		return s
	}
	for e := t.OrphanList.Front(); e != nil; e = e.Next() {
		n, ok := e.Value.(*bft.ProposalNode)
		if !ok {
			s.problem = &Finding{Sig: "qctree|structure|orphan-list-element-of-wrong-type", Detail: fmt.Sprintf("%T", e.Value)}
			return s
		}
		l, _ := labelOf(n)
		if !walk(n, -1, "orphans", s.forest, true) {
			return s
		}
		s.heads = append(s.heads, l)
	}
	return s
}

// ---- rendering (witnesses) ---------------------------------------------------------------------

func render(n *bft.ProposalNode, depth int) string {
	if n == nil || n.In == nil {
		return "<nil>"
	}
	if depth > 40 {
		return "..."
	}
	l, ok := labelOf(n)
	s := name(l)
	if !ok {
		s = "?"
	}
	if len(n.Sons) > 0 {
		parts := []string{}
		for _, x := range n.Sons {
			parts = append(parts, render(x, depth+1))
		}
		s += "(" + strings.Join(parts, ",") + ")"
	}
	return s
}

func mark(n *bft.ProposalNode) string {
	if n == nil {
		return "-"
	}
	l, ok := labelOf(n)
	if !ok {
		return "?"
	}
	return name(l)
}

func renderState(w *World) string {
	t := w.tree
	hs := []string{}
	for e := t.OrphanList.Front(); e != nil; e = e.Next() {
		if n, ok := e.Value.(*bft.ProposalNode); ok {
			hs = append(hs, render(n, 0))
		}
	}
	return fmt.Sprintf("tree=%s orphans=[%s] High=%s Generic=%s Locked=%s Commit=%s pacemaker=%d",
		render(t.Root, 0), strings.Join(hs, " | "), mark(t.HighQC), mark(t.GenericQC), mark(t.LockedQC), mark(t.CommitQC), w.smr.GetCurrentView())
}

// ---- model ------------------------------------------------------------------------------------

type arrival struct {
	at          int    // op index (-1: pre-installed)
	parentWhere string // tree | orphans | absent
	childHeads  int    // children of the proposal that were stored among the orphans when it arrived
}

type Model struct {
	c          *Case
	root       int
	accepted   map[int]bool
	everInTree map[int]bool
	arr        map[int]arrival
	viaMsg     map[int]bool         // proposal message processed and the proposal accepted then or before
	voters     map[int]map[int]bool // label -> validators (not the node itself) whose vote call returned nil
	signers    map[int]map[int]bool // label -> every validator whose signature for it the node was given (votes taken, justify lists)
	certified  map[int]bool         // proposals for which the node was shown a certificate (or a rollback / the start state named them)
	highView   int64
	pmView     int64
	stats      map[string]int
}

func newModel(c *Case, w *World) *Model {
	m := &Model{c: c, root: 0, accepted: map[int]bool{}, everInTree: map[int]bool{}, arr: map[int]arrival{}, viaMsg: map[int]bool{},
		voters: map[int]map[int]bool{}, signers: map[int]map[int]bool{}, certified: map[int]bool{}, stats: map[string]int{}}
	if hl, ok := labelOf(w.tree.HighQC); ok {
		for x := hl; x >= 0; x = c.Par[x] {
			m.certified[x] = true
		}
	}
	for l := 1; l <= c.Init.Pre; l++ {
		m.accepted[l] = true
		m.everInTree[l] = true
		m.arr[l] = arrival{at: -1, parentWhere: "tree"}
	}
	m.everInTree[0] = true
	m.highView = w.tree.HighQC.In.GetProposalView()
	m.pmView = w.smr.GetCurrentView()
	return m
}

// connected: the chain of accepted parents of l reaches the current root.
func (m *Model) connected(l int) bool {
	for x := l; x >= 0; x = m.c.Par[x] {
		if x == m.root {
			return true
		}
		if !m.accepted[x] {
			return false
		}
	}
	return false
}

// dead: l can never again descend from the root - its chain (through accepted proposals)
// contains a proposal at or below the root's view, or one that was pruned from the tree.
func (m *Model) dead(l int) bool {
	rv := m.c.View[m.root]
	for x := l; x >= 0; x = m.c.Par[x] {
		if x == m.root {
			return false
		}
		if m.c.View[x] <= rv {
			return true
		}
		if m.everInTree[x] {
			return true // was in the tree, is not a descendant of the root any more (x != root on this path and connected() failed)
		}
		if !m.accepted[x] {
			return false // waits for x
		}
	}
	return true
}

func (m *Model) status(l int) string {
	if l == m.root || m.connected(l) {
		return "connected"
	}
	if m.dead(l) {
		return "dead"
	}
	return "waiting"
}

// where tells, from a snapshot, where label l is stored.
func where(s *snapshot, l int) string {
	if _, ok := s.tree[l]; ok {
		return "tree"
	}
	if _, ok := s.forest[l]; ok {
		return "orphans"
	}
	return "absent"
}

// noteArrival records the structural context in which l was accepted (used only to give a
// violation a narrow signature).
func (m *Model) noteArrival(l int, at int, before *snapshot) {
	a := arrival{at: at, parentWhere: where(before, m.c.Par[l])}
	for x := 1; x <= m.c.n(); x++ {
		if m.c.Par[x] == l {
			if _, ok := before.forest[x]; ok {
				a.childHeads++
			}
		}
	}
	m.accepted[l] = true
	m.arr[l] = a
	m.stats["arrival.parent-"+a.parentWhere]++
	if a.childHeads >= 2 {
		m.stats["arrival.with-2+-orphan-children"]++
	}
	if a.childHeads >= 1 {
		m.stats["arrival.with-orphan-children"]++
		if a.parentWhere == "orphans" {
			m.stats["arrival.between-orphan-parent-and-orphan-child"]++
		}
	}
}

// lingerSig classifies "proposal l is connected to the root but still among the orphans".
func (m *Model) lingerSig(s *snapshot, l int) (string, int) {
	// topmost lingering proposal on l's chain: its parent is in the tree
	top := l
	for x := l; x >= 0 && x != m.root; x = m.c.Par[x] {
		if _, ok := s.forest[x]; ok {
			top = x
		}
	}
	p := m.c.Par[top]
	at, ap := m.arr[top], m.arr[p]
	pre := "qctree|orphan-not-adopted|"
	if p != m.root && p > m.c.Init.Pre && at.at < ap.at {
		// the parent arrived while top was waiting
		switch {
		case ap.parentWhere == "tree":
			return pre + "parent-joined-the-tree-directly", top
		case ap.parentWhere == "orphans":
			return pre + "parent-arrived-while-its-own-parent-and-a-child-were-both-among-the-orphans", top
		case ap.childHeads >= 2:
			return pre + "parent-arrived-while-several-children-were-orphan-heads", top
		default:
			return pre + "parent-arrived-while-one-child-was-an-orphan-head", top
		}
	}
	// top arrived when its parent was already stored
	switch {
	case at.parentWhere == "orphans" && at.childHeads >= 1:
		return pre + "parent-arrived-while-its-own-parent-and-a-child-were-both-among-the-orphans", top
	case at.parentWhere == "orphans":
		return pre + "arrived-while-parent-was-inside-an-orphan-subtree", top
	case at.parentWhere == "tree":
		return pre + "arrived-while-parent-was-in-the-tree", top
	}
	return pre + "other", top
}

// audit compares the real structure with the model after call number step.
// before / after are the snapshots around the call; op is the call (nil for the initial audit).
func (m *Model) audit(w *World, step int, op *Op, newly bool, callErr error, before, after *snapshot, rootBefore int, highBefore *bft.ProposalNode) *Finding {
	c := m.c
	t := w.tree
	fail := func(sig, detail string) *Finding { return &Finding{Sig: sig, Detail: detail, Step: step} }
	if after.problem != nil {
		f := *after.problem
		f.Step = step
		return &f
	}
	// ---- root: only moves to a descendant of the previous root
	rl, ok := labelOf(t.Root)
	if !ok {
		return fail("qctree|root|unknown-node", "Root is a node that was never delivered")
	}
	if rl != rootBefore {
		if !c.isAncestor(rootBefore, rl) {
			return fail("qctree|root|moved-to-non-descendant", fmt.Sprintf("root moved from %s to %s which is not a descendant", name(rootBefore), name(rl)))
		}
		if _, was := before.tree[rl]; !was {
			return fail("qctree|root|moved-to-node-outside-tree", fmt.Sprintf("root moved from %s to %s which was not in the tree", name(rootBefore), name(rl)))
		}
		if op == nil || op.K != "propose" {
			return fail("qctree|root|moved-by-a-call-that-commits-nothing", fmt.Sprintf("root moved from %s to %s during %v", name(rootBefore), name(rl), op))
		}
		// the commit rule of the anchored mechanism: the certified proposal named by the justify
		// commits its great-grand-parent
		if want := c.anc(c.Par[op.N], 3); want != rl {
			return fail("qctree|root|commit-not-third-ancestor-of-certified-proposal", fmt.Sprintf("justify certifies %s, root moved from %s to %s, the great-grand-parent is %s",
				name(c.Par[op.N]), name(rootBefore), name(rl), name(want)))
		}
		m.root = rl
		m.stats["root.moved"]++
		if len(after.forest) > 0 {
			m.stats["root.moved-with-orphans-present"]++
		}
		pruned := 0
		for l := range before.tree {
			if _, still := after.tree[l]; !still && l != rl && !c.isAncestor(l, rl) {
				pruned++
			}
		}
		if pruned > 0 {
			m.stats["root.moved-pruning-a-competing-branch"]++
		}
	}
	// ---- every accepted proposal is stored exactly once, in the right place
	for l := range after.tree {
		if l != m.root && !m.accepted[l] {
			return fail("qctree|structure|never-accepted-node-in-tree", name(l)+" is in the tree but no call delivered it")
		}
		m.everInTree[l] = true
	}
	for l := range after.forest {
		if !m.accepted[l] {
			return fail("qctree|structure|never-accepted-node-among-orphans", name(l)+" is among the orphans but no call delivered it")
		}
	}
	labels := []int{}
	for l := range m.accepted {
		labels = append(labels, l)
	}
	sort.Ints(labels)
	for _, l := range labels {
		st := m.status(l)
		wh := where(after, l)
		switch st {
		case "connected":
			if wh == "orphans" {
				sig, top := m.lingerSig(after, l)
				return fail(sig, fmt.Sprintf("%s is connected to the root through accepted proposals (parent %s is in the tree) but is still among the orphans", name(top), name(c.Par[top])))
			}
			if wh == "absent" {
				if l == m.root {
					continue
				}
				return fail("qctree|accepted-proposal-not-stored|connected-to-root", fmt.Sprintf("%s was accepted, its chain of parents reaches the root, it is stored nowhere", name(l)))
			}
			if l != m.root && after.tree[l].under != c.Par[l] {
				return fail("qctree|structure|child-under-wrong-parent", fmt.Sprintf("%s hangs under %s", name(l), name(after.tree[l].under)))
			}
		case "waiting":
			if wh == "absent" {
				return fail("qctree|accepted-proposal-not-stored|waiting-for-parent", fmt.Sprintf("%s was accepted and waits for %s (view above the root's), it is stored nowhere", name(l), name(c.Par[l])))
			}
			if wh == "tree" {
				return fail("qctree|structure|unconnected-node-in-tree", name(l)+" is in the tree although its chain of parents does not reach the root")
			}
		case "dead":
			if wh == "tree" {
				return fail("qctree|structure|unconnected-node-in-tree", name(l)+" is in the tree although it cannot descend from the root")
			}
		}
	}
	// ---- markers
	if t.HighQC == nil || t.HighQC.In == nil {
		return fail("qctree|markers|highqc-nil", "HighQC is nil")
	}
	hl, ok := labelOf(t.HighQC)
	if !ok {
		return fail("qctree|markers|highqc-unknown-node", "HighQC is a node that was never delivered")
	}
	hv := t.HighQC.In.GetProposalView()
	rollback := op != nil && op.K == "enforce"
	if hv < m.highView && !rollback {
		return fail("qctree|highqc|view-decreased-without-rollback", fmt.Sprintf("HighQC view went from %d to %d (%s) during %v", m.highView, hv, name(hl), op))
	}
	if t.HighQC != highBefore {
		// a marker that moves has to move to a stored node
		pl, in := after.tree[hl]
		if !in {
			return fail("qctree|highqc|moved-to-node-outside-tree", fmt.Sprintf("HighQC moved to %s which is not in the tree", name(hl)))
		}
		if pl.ptr != t.HighQC {
			return fail("qctree|highqc|moved-to-a-copy", fmt.Sprintf("HighQC moved to an object for %s that is not the stored one", name(hl)))
		}
		// "highest CERTIFIED": the marker only moves to a proposal the node has seen certified
		if !m.certified[hl] {
			return fail("qctree|highqc|moved-to-a-proposal-nothing-certified", fmt.Sprintf("HighQC moved to %s during %v; no justify, vote quorum, UpdateJustifyQcStatus or rollback named it", name(hl), op))
		}
		m.stats["highqc.moved"]++
	}
	if _, in := after.tree[hl]; !in {
		m.stats["info.highqc-outside-tree-after-commit"]++
	}
	m.highView = hv
	if f := m.markerChain(w, step, after); f != nil {
		// the audit runs after every call and a history ends at its first finding, so the call
		// that left the stale marker is this one: an explicit rollback resets the markers on
		// the unchanged tree, so a stale marker after a rollback is NOT the recorded finding
		if rollback && strings.HasSuffix(f.Sig, "|stale-marker-kept-when-highqc-has-too-few-ancestors-in-the-tree") {
			f.Sig = "qctree|markers-not-successive-ancestors|stale-marker-kept-by-explicit-rollback"
		}
		return f
	}
	// ---- explicit rollback
	if rollback {
		_, in := before.tree[op.N]
		if in && callErr != nil {
			return fail("qctree|rollback|refused-for-a-stored-proposal", fmt.Sprintf("EnforceUpdateHighQC(%s): %v", name(op.N), callErr))
		}
		if in && hl != op.N {
			return fail("qctree|rollback|highqc-not-the-requested-proposal", fmt.Sprintf("EnforceUpdateHighQC(%s) returned nil, HighQC is %s", name(op.N), name(hl)))
		}
		if !in && t.HighQC != highBefore {
			return fail("qctree|rollback|moved-highqc-for-a-proposal-not-in-the-tree", fmt.Sprintf("EnforceUpdateHighQC(%s)", name(op.N)))
		}
	}
	// ---- highest certified: what this call certified and is in the tree is not above HighQC
	if op != nil {
		cert := -1
		switch op.K {
		case "confirm", "propose":
			if newly { // newly accepted by this call
				cert = c.Par[op.N]
			}
		case "justify":
			if op.Q > 0 {
				cert = op.N
			}
		case "vote":
			if callErr == nil && len(m.voters[op.N]) >= quorumOthers {
				cert = op.N
			}
		}
		if cert >= 0 {
			if _, in := after.tree[cert]; in {
				m.stats["certified-in-tree."+op.K]++
				if c.View[cert] > hv {
					return fail("qctree|highqc|below-a-proposal-certified-by-this-call", fmt.Sprintf("%v certified %s (view %d, in the tree), HighQC is %s (view %d)", op, name(cert), c.View[cert], name(hl), hv))
				}
				if op.K == "vote" && w.smr.GetCurrentView() < c.View[cert]+1 {
					return fail("qctree|pacemaker|not-advanced-by-quorum", fmt.Sprintf("quorum of votes for %s (view %d), pacemaker view %d", name(cert), c.View[cert], w.smr.GetCurrentView()))
				}
			}
		}
	}
	// ---- pacemaker
	pv := w.smr.GetCurrentView()
	if pv < m.pmView {
		return fail("qctree|pacemaker|view-decreased", fmt.Sprintf("pacemaker view went from %d to %d during %v", m.pmView, pv, op))
	}
	if pv > m.pmView {
		m.stats["pacemaker.advanced"]++
	}
	if op != nil && op.K == "propose" && newly && pv < c.View[c.Par[op.N]]+1 {
		return fail("qctree|pacemaker|not-advanced-by-accepted-proposal", fmt.Sprintf("accepted %s with justify view %d, pacemaker view %d", name(op.N), c.View[c.Par[op.N]], pv))
	}
	m.pmView = pv
	return nil
}

// quorumOthers: with 4 validators, 2 distinct validators other than the collecting node.
const quorumOthers = 2

// markerChain: Generic / Locked / Commit, whenever set, are the successive ancestors of HighQC
// (parent, grand-parent, great-grand-parent by the proposals' own parent links).
// One relaxation, taken from the real initialiser (InitQCTree starts with CommitQC = Root =
// HighQC): a CommitQC equal to the current root is accepted - the root IS the last committed
// proposal.
func (m *Model) markerChain(w *World, step int, after *snapshot) *Finding {
	t := w.tree
	c := m.c
	h, _ := labelOf(t.HighQC)
	names := []string{"", "GenericQC", "LockedQC", "CommitQC"}
	for k, mk := range []*bft.ProposalNode{nil, t.GenericQC, t.LockedQC, t.CommitQC} {
		if k == 0 || mk == nil {
			continue
		}
		l, ok := labelOf(mk)
		if !ok {
			return &Finding{Sig: "qctree|markers-not-successive-ancestors|unknown-node", Detail: names[k] + " is a node that was never delivered", Step: step}
		}
		m.stats["markers."+names[k]+"-set"]++
		want := c.anc(h, k)
		if l == want {
			if k == 3 {
				m.stats["markers.full-chain"]++
			}
			continue
		}
		if k == 3 && l == m.root && m.c.Init.Kind == "fresh" {
			// a fresh chain starts with CommitQC = Root = the genesis proposal (the last committed one)
			continue
		}
		if k == 3 && l == m.root && step >= 0 {
			// later: the root IS the last committed proposal
			continue
		}
		detail := fmt.Sprintf("HighQC=%s, its ancestor number %d is %s, %s=%s [%s]", name(h), k, aname(c, h, k), names[k], name(l), renderState(w))
		if step < 0 {
			// no call has been made yet: the start state itself (restart on a ledger) is inconsistent
			return &Finding{Sig: "qctree|markers-not-successive-ancestors|set-by-the-initialiser", Detail: detail, Step: step}
		}
		if _, in := after.tree[want]; want >= 0 && in {
			return &Finding{Sig: "qctree|markers-not-successive-ancestors|marker-differs-from-the-ancestor-stored-in-the-tree", Detail: detail, Step: step}
		}
		return &Finding{Sig: "qctree|markers-not-successive-ancestors|stale-marker-kept-when-highqc-has-too-few-ancestors-in-the-tree", Detail: detail, Step: step}
	}
	return nil
}

func aname(c *Case, l, k int) string {
	a := c.anc(l, k)
	if a < 0 {
		return "none"
	}
	return name(a)
}
