// C05: failed operations leave no trace; a running node answers like a reopened one.
package main

import (
	"math/rand"

	"verif/ev"
	"verif/gen"
	"verif/hist"
	sn "verif/simnode"
)

func main() {
	r := ev.Start("C05", "fault_enumeration",
		"random histories (as C01) in which ~35% of the operations are built to fail at a named internal stage: blocks the ledger must refuse (unknown parent, second genesis, two coinbases, "+
			"duplicated transaction), junk blocks the ledger stores but the state machine must refuse (bad tx first / award then bad tx / good txs then bad tx; bad = missing, frozen, duplicate, "+
			"mis-cited or unbalanced input), walks to such blocks, inadmissible DoTx of every class, and valid confirm / play / walk / DoTx with the k-th storage write failing (k drawn from the "+
			"measured write count); after a failed op the stored bytes and every answer must be unchanged (walk: canonical at its pointer), after EVERY op live answers must equal those of "+
			"instances reopened on a copy of the data; case = one history; non-trivial = at least one failed op of two different kinds and one undo")
	defer sn.CleanupScratch()
	nh := r.N(120, 3000)
	o := gen.DefaultOpts()
	so := hist.StepOpts{Reopen: true, Pool: true, Mine: true, Engine: true}
	kinds := map[string]bool{}
	hist.RunHistoriesX(r, nh, o, so, 10, 40, []hist.Auditor{hist.TwinAuditor, hist.CanonAuditor}, func(s *hist.SUT, op hist.Op) []hist.Problem {
		return hist.MustSucceed(op)
	}, func(s *hist.SUT, rng *rand.Rand) []hist.Problem {
		var ps []hist.Problem
		var op hist.Op
		switch x := rng.Intn(100); {
		case x < 8:
			op, ps = s.FailConfirm(rng)
		case x < 16:
			op, ps = s.FailPlay(rng)
		case x < 23:
			op, ps = s.FailWalk(rng)
		case x < 30:
			op, ps = s.FailDoTx(rng)
		case x < 40:
			op, ps = s.FaultOp(rng)
		default:
			return nil
		}
		if op.Kind == "" {
			return nil
		}
		kinds[op.Kind] = true
		if len(ps) == 0 {
			ps = hist.TwinAuditor(s, op)
		}
		if len(ps) == 0 {
			ps = hist.CanonAuditor(s, op)
		}
		return ps
	})
	hist.HostilePeerRounds(r, "no-trace")
	r.Floor("twin.compared", 1500)
	r.Floor("canon.compared", 1500)
	for _, f := range []string{"failed.play:bad-first", "failed.play:award+bad", "failed.play:good+bad", "failed.confirm:unknown-parent", "failed.confirm:second-genesis",
		"failed.confirm:two-coinbase", "failed.confirm:dup-tx", "failed.dotx", "failed.walk", "fault.confirm", "fault.play", "fault.walk", "fault.dotx", "fault.mine", "failed.walk.unknown-target", "walk.noop"} {
		r.Floor(f, 5)
	}
	r.Floor("walk.undo", 20)
	r.Assume("faults are injected at the kvdb write boundary (single Put / Delete / Batch.Write fail atomically); torn writes inside leveldb are outside the trusted base")
	r.Finish()
}
