// C08: block integrity - id, merkle root and proposer signature bind header and body.
package main

import (
	"fmt"
	"math/big"
	"runtime/debug"
	"strings"

	"github.com/xuperchain/xupercore/bcs/ledger/xledger/ledger"
	pb "github.com/xuperchain/xupercore/bcs/ledger/xledger/xldgpb"

	"verif/ev"
	"verif/hist"
	"verif/mutate"
	sn "verif/simnode"
)

// header / body fields that the statement's three bindings do not cover
func uncovered(path string) bool {
	top := path
	if i := strings.IndexAny(top, ".[/"); i >= 0 {
		top = top[:i]
	}
	switch top {
	case "Height", "InTrunk", "NextHash", "MerkleTree":
		return true
	case "FailedTxs":
		return strings.Contains(path, "rename") // only the messages are hashed
	case "Transactions":
		// inside a transaction only its id takes part in the merkle root; the content of a
		// transaction is bound to its id by transaction verification (C07)
		p := path
		if i := strings.Index(p, "/"); i >= 0 {
			p = p[:i]
		}
		if strings.Contains(p, "].") && !strings.HasSuffix(p, "].Txid") {
			return true
		}
	}
	return false
}

func verify(l *ledger.Ledger, b *pb.InternalBlock) (ok bool, desc string) {
	defer func() {
		if p := recover(); p != nil {
			ok, desc = false, "PANIC: "+fmt.Sprint(p)+"\n"+string(debug.Stack())
		}
	}()
	v, err := l.VerifyBlock(sn.CloneBlock(b), "c08")
	return v && err == nil, fmt.Sprint(v, err)
}

func main() {
	r := ev.Start("C08", "exploration",
		"blocks formatted by the node itself (FormatBlock / FormatMinerBlock) with 1..17 transactions (every padding shape of the merkle tree), with / without quorum certificate (0-4 sign "+
			"infos), failed-tx map, target bits, nonce, term fields -> must verify; every single-field mutant of the schema walk (as is, and with the id recomputed but the signature kept), "+
			"body edits (insert a fresh transaction / a DUPLICATE of each existing one at every position, drop each, swap each adjacent pair, change each id; merkle tree field recomputed or "+
			"not), re-signing by another key with the proposer kept -> must be rejected unless the field is outside the three bindings (height, in_trunk, next_hash, merkle_tree list, "+
			"failed-tx keys, transaction content other than its id); a case = one (block, mutant, mode); non-trivial = mutant of a bound field. "+
			"VERIFICATION HISTORY (history.go): forgeries that borrow fields (identity, key, id, signature, body, root, header fields) from ANOTHER honest block, as is / id recomputed / signed again by either key, "+
			"each verified on one ledger instance right after the honest blocks it borrows from (four orders) -> refused whenever a binding of the statement is broken, whatever was verified before "+
			"(differential against a ledger instance without history); honest blocks still verify afterwards. "+
			"SERVED BLOCKS (served.go): a producer confirms honest blocks (with trunk switches) while readers fetch tip / recent blocks through QueryBlock / QueryBlockByHeight and keep the served object "+
			"across the next confirmations -> every served block verifies and holds its recorded body at every look")
	defer sn.CleanupScratch()
	n, err := sn.NewNode(sn.DefaultConfig())
	if err != nil {
		r.Inconclusive(err.Error())
		r.Finish()
	}
	l := n.Ledger
	mkTx := func(i int) *pb.Transaction {
		k := sn.K(i % 4)
		x, err := sn.BuildTx(sn.TxSpec{Initiator: k.Address, Signers: []*sn.Key{k}, Outputs: []sn.Out{{To: sn.K((i + 1) % 4).Address, Amount: big.NewInt(int64(i + 1))}},
			Nonce: fmt.Sprintf("c08-%d", i), Timestamp: int64(i)})
		if err != nil {
			panic(err)
		}
		return x
	}
	counts := []int{1, 2, 3, 4, 5, 6, 7, 8, 9, 10, 11, 12, 13, 14, 15, 16, 17}
	if r.Quick() {
		counts = []int{1, 2, 3, 4, 5, 6, 7, 8, 9, 16, 17}
	}
	variant := 0
	for _, ntx := range counts {
		for _, shape := range []string{"plain", "full"} {
			if shape == "full" && ntx > 5 && r.Quick() && ntx != 17 {
				continue
			}
			variant++
			p := sn.K(variant % 3)
			txs := []*pb.Transaction{sn.AwardTx(p.Address, big.NewInt(1000), int64(variant))}
			for i := 1; i < ntx; i++ {
				txs = append(txs, mkTx(variant*100+i))
			}
			var blk *pb.InternalBlock
			if shape == "plain" {
				blk, err = l.FormatBlock(txs, []byte(p.Address), p.Priv, int64(1000+variant), 0, 0, n.Root(), big.NewInt(0))
			} else {
				qc := &pb.QuorumCert{ProposalId: []byte("proposal-id"), ProposalMsg: []byte("msg"), Type: 1, ViewNumber: int64(variant),
					SignInfos: &pb.QCSignInfos{}}
				for s := 0; s < variant%5; s++ {
					qc.SignInfos.QCSignInfos = append(qc.SignInfos.QCSignInfos, &pb.SignInfo{Address: sn.K(s).Address, PublicKey: sn.K(s).PubJSON, Sign: []byte(fmt.Sprintf("sig%d", s))})
				}
				failed := map[string]string{"txid-b": "reason b", "txid-a": "reason a"}
				blk, err = l.FormatMinerBlock(txs, []byte(p.Address), p.Priv, int64(1000+variant), int64(variant), int64(variant%3), n.Root(), 0x1e00ffff,
					big.NewInt(0), qc, failed, int64(variant))
				if blk != nil {
					blk.Nonce = int32(variant)
					blk.Blockid, _ = ledger.MakeBlockID(blk)
					blk.Sign, _ = sn.Crypto().SignECDSA(p.Priv, blk.Blockid)
				}
			}
			if err != nil {
				r.Violation("format|error", "formatting a block failed: "+err.Error(), nil)
				continue
			}
			blk = sn.WireBlock(blk)
			name := fmt.Sprintf("%s-%dtx", shape, ntx)
			if ok, d := verify(l, blk); !ok {
				r.Violation("node-formatted-block-rejected|"+shape, fmt.Sprintf("VerifyBlock refuses a block formatted by the node itself (%s): %s", name, d), map[string]string{"block": name})
				continue
			}
			r.Count("blocks", 1)
			check := func(y *pb.InternalBlock, what, sigcls string, must bool) {
				ok, d := verify(l, y)
				r.Case(name+"|"+what, must)
				r.Count("verifications", 1)
				if strings.HasPrefix(d, "PANIC") {
					r.Violation("verify|panic|"+sigcls, "VerifyBlock panics on "+name+" "+what+": "+d, map[string]string{"block": name, "what": what})
					return
				}
				if ok && must {
					r.Violation("mutant-accepted|"+sigcls, fmt.Sprintf("block %s with %s still verifies", name, what), map[string]string{"block": name, "what": what})
				}
			}
			// ---- schema walk ----
			muts := mutate.All(blk)
			r.Count("mutants", len(muts))
			for _, m := range muts {
				y := m.Msg.(*pb.InternalBlock)
				pth := m.Path
				unc := uncovered(pth + "/" + m.Kind)
				top := m.Field()
				if top == "Sign" {
					// a changed signature encoding that still verifies under the proposer's key satisfies the statement
					if k, err := sn.Crypto().GetEcdsaPublicKeyFromJsonStr(string(y.Pubkey)); err == nil {
						if ok, _ := sn.Crypto().VerifyECDSA(k, y.Sign, y.Blockid); ok {
							unc = true
							r.Count("sign-mutants-still-valid-signatures", 1)
						}
					}
				}
				sigcls := top + "|" + kindClass(m.Kind) + "|as-is"
				if strings.HasPrefix(m.Kind, "boundary-shift") {
					sigcls = "id-ambiguity|adjacent-fields-hashed-without-length|" + stripIdx(pth)
					if strings.HasPrefix(pth, "Justify.") {
						sigcls = "id-ambiguity|justify-fields-hashed-without-length-prefix"
					}
				}
				check(y, pth+"/"+m.Kind, sigcls, !unc)
				if top != "Blockid" && top != "Sign" {
					z := sn.CloneBlock(y)
					if id, err := ledger.MakeBlockID(z); err == nil && string(id) != string(blk.Blockid) {
						z.Blockid = id
						check(z, pth+"/"+m.Kind+"+id-recomputed", top+"|"+kindClass(m.Kind)+"|id-recomputed", true) // the old signature cannot cover a new id
					}
				}
			}
			// ---- body edits ----
			body := func(what, cls string, f func(y *pb.InternalBlock)) {
				for _, recompute := range []bool{false, true} {
					y := sn.CloneBlock(blk)
					f(y)
					w := what
					if recompute {
						y.MerkleTree = ledger.MakeMerkleTree(y.Transactions)
						w += "+tree-recomputed"
					}
					check(y, w, "body|"+cls, true)
				}
			}
			for i := 0; i <= len(blk.Transactions); i++ {
				i := i
				body(fmt.Sprintf("insert-fresh@%d", i), "insert-fresh", func(y *pb.InternalBlock) {
					y.Transactions = append(append(append([]*pb.Transaction{}, y.Transactions[:i]...), mkTx(9000+i)), y.Transactions[i:]...)
				})
				for j := 0; j < len(blk.Transactions); j++ {
					j := j
					if r.Quick() && len(blk.Transactions) > 6 && j != len(blk.Transactions)-1 && j != 0 {
						continue
					}
					cls := "insert-duplicate"
					if i == len(blk.Transactions) && j == len(blk.Transactions)-1 {
						cls = "append-copy-of-last"
					}
					body(fmt.Sprintf("insert-dup-of-%d@%d", j, i), cls, func(y *pb.InternalBlock) {
						y.Transactions = append(append(append([]*pb.Transaction{}, y.Transactions[:i]...), sn.CloneTx(y.Transactions[j])), y.Transactions[i:]...)
					})
				}
			}
			for i := 0; i < len(blk.Transactions); i++ {
				i := i
				if len(blk.Transactions) > 1 {
					body(fmt.Sprintf("drop@%d", i), "drop", func(y *pb.InternalBlock) {
						y.Transactions = append(append([]*pb.Transaction{}, y.Transactions[:i]...), y.Transactions[i+1:]...)
					})
				}
				if i+1 < len(blk.Transactions) {
					body(fmt.Sprintf("swap@%d", i), "swap", func(y *pb.InternalBlock) {
						y.Transactions[i], y.Transactions[i+1] = y.Transactions[i+1], y.Transactions[i]
					})
				}
			}
			body("replace-all", "replace", func(y *pb.InternalBlock) {
				for i := range y.Transactions {
					y.Transactions[i] = mkTx(7000 + i)
				}
			})
			// ---- re-sign with another key, proposer kept ----
			{
				other := sn.K(5)
				y := sn.CloneBlock(blk)
				y.Sign, _ = sn.Crypto().SignECDSA(other.Priv, y.Blockid)
				check(y, "resigned-by-other-key-same-pubkey-field", "resign|signature-only", true)
				z := sn.CloneBlock(blk)
				z.Pubkey = []byte(other.PubJSON)
				z.Blockid, _ = ledger.MakeBlockID(z)
				z.Sign, _ = sn.Crypto().SignECDSA(other.Priv, z.Blockid)
				check(z, "resigned-by-other-key-with-its-pubkey-proposer-kept", "resign|pubkey-swapped", true)
			}
			if variant <= 2 {
				r.Sample(map[string]interface{}{"block": name, "mutants": len(muts)})
			}
		}
	}
	historyPart(r, n)
	servedPart(r)
	enginePart(r)
	hist.HostilePeerRounds(r, "integrity")
	// a block without transactions: the statement quantifies over 0..n transactions; a node never formats one
	r.Floor("blocks", 10)
	r.Floor("mutants", 1500)
	r.Floor("verifications", 4000)
	r.Assume("a 0-transaction block has no merkle tree and never verifies; node-made blocks always carry the award, so completeness is claimed for >= 1 transaction")
	r.Finish()
}

func kindClass(k string) string {
	if i := strings.Index(k, "["); i >= 0 {
		return k[:i]
	}
	return k
}

func stripIdx(p string) string {
	var sb strings.Builder
	skip := false
	for _, c := range p {
		if c == '[' {
			skip = true
		}
		if !skip {
			sb.WriteRune(c)
		}
		if c == ']' {
			skip = false
		}
	}
	return sb.String()
}
