package main

// Blocks served while the node produces. "A block formatted by the node itself always verifies" has
// to hold for every block the ledger hands out, at the moment it hands it out and for as long as a
// reader works with it: the GET_BLOCK handler, rpc readers, event subscribers and the consensus
// fetch blocks through QueryBlock / QueryBlockByHeight (no ledger lock; the object may come from the
// ledger's caches) while ConfirmBlock of the next block re-saves the previous tip (next_hash) and a
// trunk switch re-saves both branches.
//
// One producer confirms a chain of honest blocks (award + a few transactions each, now and then a
// side branch of two blocks that overtakes the trunk) on a real ledger. Reader goroutines fetch the
// tip, recent heights and recent ids - only through the ledger's API, nothing is copied or written on
// the harness side - keep the served object while the tip moves on, and for every served object:
//   - Ledger.VerifyBlock must answer true,
//   - its body must be the recorded one (ids in order) - a block whose body is detached cannot verify.
// The number of blocks is fixed by the tier, the verdict is a property of a served block; which
// interleavings are reached is up to the scheduler (memkv storage jitter in two of three segments).

import (
	"bytes"
	"fmt"
	"math/big"
	"math/rand"
	"sync"
	"sync/atomic"
	"time"

	"github.com/xuperchain/xupercore/bcs/ledger/xledger/state/utxo/txhash"
	pb "github.com/xuperchain/xupercore/bcs/ledger/xledger/xldgpb"
	"github.com/xuperchain/xupercore/protos"

	"verif/ev"
	"verif/memkv"
	sn "verif/simnode"
)

type servedLog struct {
	mu     sync.RWMutex
	bodies map[string][][]byte // block id -> transaction ids as formatted
	recent [][]byte            // ids in confirmation order
}

func (s *servedLog) record(b *pb.InternalBlock) {
	ids := make([][]byte, len(b.Transactions))
	for i, t := range b.Transactions {
		ids[i] = append([]byte{}, t.Txid...)
	}
	s.mu.Lock()
	s.bodies[string(b.Blockid)] = ids
	s.mu.Unlock()
}

func (s *servedLog) confirmed(id []byte) {
	s.mu.Lock()
	s.recent = append(s.recent, append([]byte{}, id...))
	s.mu.Unlock()
}

func (s *servedLog) body(id []byte) ([][]byte, bool) {
	s.mu.RLock()
	b, ok := s.bodies[string(id)]
	s.mu.RUnlock()
	return b, ok
}

func (s *servedLog) pickRecent(rng *rand.Rand, span int) []byte {
	s.mu.RLock()
	defer s.mu.RUnlock()
	if len(s.recent) == 0 {
		return nil
	}
	if span > len(s.recent) {
		span = len(s.recent)
	}
	return s.recent[len(s.recent)-1-rng.Intn(span)]
}

// bodyState reads the served object once: 0 = the recorded body, otherwise what differs.
//
//go:noinline
func bodyState(blk *pb.InternalBlock, want [][]byte) (st string) {
	defer func() {
		if p := recover(); p != nil {
			st = fmt.Sprintf("unreadable body (%v)", p) // a torn slice header: the body is being rewritten under the reader
		}
	}()
	txs := blk.Transactions
	if len(txs) != len(want) {
		return fmt.Sprintf("%d transactions instead of %d", len(txs), len(want))
	}
	for i, t := range txs {
		if t == nil || !bytes.Equal(t.Txid, want[i]) {
			return fmt.Sprintf("transaction %d is not the recorded one", i)
		}
	}
	return ""
}

type servedHit struct {
	sig, how, what string
	blk            *pb.InternalBlock
	id             []byte
	height         int64
	confirmedThen  int64
}

func servedPart(r *ev.Run) {
	n, err := sn.NewNode(sn.DefaultConfig())
	if err != nil {
		r.Inconclusive("served part: " + err.Error())
		return
	}
	defer n.Drop()
	defer memkv.SetJitter(0, 0)
	l := n.Ledger
	log := &servedLog{bodies: map[string][][]byte{}}
	total := r.N(1500, 12000)
	const readers = 4

	var (
		stop      int32
		confirmed int64
		hitMu     sync.Mutex
		hits      []servedHit
		wg        sync.WaitGroup
	)
	// A refusal by VerifyBlock ends the part at once. A detached body ends it after at most 150 more
	// blocks: the verifying readers get the chance to see the refusal itself (same defect, the
	// statement's own wording).
	var stopAfter int64 = -1
	report := func(h servedHit, final bool) {
		hitMu.Lock()
		seen := false
		for _, o := range hits {
			seen = seen || o.sig == h.sig
		}
		if !seen {
			hits = append(hits, h)
		}
		hitMu.Unlock()
		if final {
			atomic.StoreInt32(&stop, 1)
		} else {
			atomic.CompareAndSwapInt64(&stopAfter, -1, atomic.LoadInt64(&confirmed)+150)
		}
	}
	// check judges one look at a served object
	var verifs int64
	check := func(blk *pb.InternalBlock, want [][]byte, how string, withVerify bool) bool {
		if st := bodyState(blk, want); st != "" {
			report(servedHit{sig: "served-block-body-detached|while-next-block-is-confirmed", how: how, what: st, blk: blk, id: blk.Blockid, height: blk.Height, confirmedThen: atomic.LoadInt64(&confirmed)}, false)
			return false
		}
		if withVerify {
			ok, verr := l.VerifyBlock(blk, "c08-served")
			atomic.AddInt64(&verifs, 1)
			if !ok || verr != nil {
				report(servedHit{sig: "node-formatted-block-rejected|served-while-next-block-is-confirmed", how: how, what: fmt.Sprintf("VerifyBlock = %v, %v", ok, verr), blk: blk, id: blk.Blockid, height: blk.Height,
					confirmedThen: atomic.LoadInt64(&confirmed)}, true)
				return false
			}
		}
		return true
	}
	for ri := 0; ri < readers; ri++ {
		wg.Add(1)
		go func(ri int) {
			defer wg.Done()
			defer func() {
				if p := recover(); p != nil {
					report(servedHit{sig: "verify|panic|served-while-next-block-is-confirmed", how: "reader", what: fmt.Sprint(p)}, true)
				}
			}()
			rng := rand.New(rand.NewSource(r.Seed*9173 + int64(ri)))
			var fetches, straddles, looks int
			defer func() {
				r.Count("served.fetches", fetches)
				r.Count("served.held-across-next-confirm", straddles)
				r.Count("served.looks", looks)
			}()
			for atomic.LoadInt32(&stop) == 0 {
				var blk *pb.InternalBlock
				var qerr error
				how := ""
				switch c := rng.Intn(10); {
				case c < 6:
					how = "QueryBlock(tip)"
					blk, qerr = l.QueryBlock(l.GetMeta().TipBlockid)
				case c < 8:
					how = "QueryBlockByHeight(recent)"
					h := l.GetMeta().TrunkHeight - int64(rng.Intn(3))
					if h < 1 {
						continue
					}
					blk, qerr = l.QueryBlockByHeight(h)
				default:
					how = "QueryBlock(recent id)"
					id := log.pickRecent(rng, 4)
					if id == nil {
						continue
					}
					blk, qerr = l.QueryBlock(id)
				}
				if qerr != nil || blk == nil {
					r.Count("served.fetch-errors", 1)
					continue
				}
				want, known := log.body(blk.Blockid)
				if !known {
					continue // the genesis block
				}
				fetches++
				// work with the served object while production goes on: until the chain has grown by
				// two more blocks (the object's re-save happens when its successor is confirmed)
				at := atomic.LoadInt64(&confirmed)
				good := true
				maxLooks := 400
				if ri%2 == 1 {
					maxLooks = 40000
				}
				for k := 0; good && k < maxLooks && atomic.LoadInt32(&stop) == 0; k++ {
					looks++
					// reader 0 / 2 verify at every look, reader 1 / 3 mostly watch the body
					good = check(blk, want, how, ri%2 == 0 || k%256 == 0)
					if now := atomic.LoadInt64(&confirmed); now >= at+2 {
						straddles++
						break
					}
				}
				if good && atomic.LoadInt32(&stop) == 0 {
					check(blk, want, how, true)
				}
			}
		}(ri)
	}

	// ---- the producer ----
	began := time.Now()
	watchdog := false
	prng := rand.New(rand.NewSource(r.Seed*4801 + 17))
	txSeq := 0
	body := func(proposer *sn.Key, height int64, ts int64) []*pb.Transaction {
		txs := []*pb.Transaction{sn.AwardTx(proposer.Address, l.GenesisBlock.CalcAward(height), ts)}
		for i, m := 0, 3+prng.Intn(14); i < m; i++ {
			txSeq++
			t := &pb.Transaction{Version: 1, Desc: []byte(fmt.Sprintf("c08-served-%d", txSeq)), Nonce: fmt.Sprint(txSeq), Timestamp: ts}
			t.TxOutputs = append(t.TxOutputs, &protos.TxOutput{ToAddr: []byte(sn.K(txSeq % 4).Address), Amount: big.NewInt(int64(1 + txSeq%9)).Bytes()})
			t.Txid, _ = txhash.MakeTransactionID(t)
			txs = append(txs, t)
		}
		return txs
	}
	tip, parentOfTip, height := l.GetMeta().TipBlockid, []byte(nil), int64(0)
	produce := func(parent []byte, h int64) []byte {
		p := sn.K(prng.Intn(3))
		ts := int64(100000 + txSeq)
		blk, ferr := l.FormatBlock(body(p, h, ts), []byte(p.Address), p.Priv, ts, 0, 0, parent, big.NewInt(0))
		if ferr != nil {
			r.Violation("format|error", "formatting a block failed: "+ferr.Error(), nil)
			return nil
		}
		blk = sn.WireBlock(blk)
		log.record(blk)
		if st := l.ConfirmBlock(sn.CloneBlock(blk), false); !st.Succ {
			r.Inconclusive(fmt.Sprintf("served part: the ledger refuses an honest block at height %d: %v", h, st.Error))
			return nil
		}
		log.confirmed(blk.Blockid)
		atomic.AddInt64(&confirmed, 1)
		r.Count("served.blocks-confirmed", 1)
		return blk.Blockid
	}
	seg := 0
	for made := 0; made < total && atomic.LoadInt32(&stop) == 0; {
		if s := made * 3 / total; s != seg {
			seg = s
			switch seg {
			case 1:
				memkv.SetJitter(r.Seed*31+1, 6)
			case 2:
				memkv.SetJitter(r.Seed*31+2, 40)
			}
		}
		if sa := atomic.LoadInt64(&stopAfter); sa >= 0 && atomic.LoadInt64(&confirmed) >= sa {
			break
		}
		if time.Since(began) > 90*time.Second {
			watchdog = true
			break
		}
		if parentOfTip != nil && prng.Intn(12) == 0 {
			// a side branch of two blocks from the tip's parent: the second one overtakes the trunk
			s1 := produce(parentOfTip, height)
			if s1 == nil {
				break
			}
			s2 := produce(s1, height+1)
			if s2 == nil {
				break
			}
			made += 2
			tip, parentOfTip, height = s2, s1, height+1
			r.Count("served.trunk-switches", 1)
			continue
		}
		id := produce(tip, height+1)
		if id == nil {
			break
		}
		made++
		tip, parentOfTip, height = id, tip, height+1
	}
	atomic.StoreInt32(&stop, 1)
	wg.Wait()
	memkv.SetJitter(0, 0)
	r.Count("served.verifications", int(verifs))
	if watchdog {
		r.Inconclusive("served part: production did not finish within the watch-dog")
	}
	r.Case("served|production-with-readers", true)

	// ---- verdicts ----
	hitMu.Lock()
	defer hitMu.Unlock()
	for _, h := range hits {
		again, refetch := "n/a", "n/a"
		if h.blk != nil {
			// now that nothing is being confirmed: the very same object, and the block fetched anew
			ok, _ := verify(l, h.blk)
			again = fmt.Sprint(ok)
			if nb, qerr := l.QueryBlock(h.id); qerr == nil {
				ok2, _ := verify(l, nb)
				refetch = fmt.Sprint(ok2)
			}
		}
		r.Violation(h.sig, fmt.Sprintf("block %x (height %d), formatted and confirmed by this node and handed out by %s, was found with %s while the node was confirming further blocks (%d confirmed at that moment). "+
			"Once production stopped the same object verifies: %s; fetched anew it verifies: %s",
			h.id, h.height, h.how, h.what, h.confirmedThen, again, refetch),
			map[string]interface{}{"fetched_by": h.how, "seen": h.what, "height": h.height, "blocks_confirmed_then": h.confirmedThen, "same_object_verifies_afterwards": again, "refetched_verifies": refetch})
	}
	if len(hits) > 0 {
		return
	}
	// every stored block, read back at rest, still verifies and holds its body
	log.mu.RLock()
	ids := append([][]byte{}, log.recent...)
	log.mu.RUnlock()
	for _, id := range ids {
		blk, qerr := l.QueryBlock(id)
		if qerr != nil {
			r.Violation("served|stored-block-unreadable", fmt.Sprintf("block %x cannot be read back after production: %v", id, qerr), nil)
			return
		}
		want, _ := log.body(id)
		ok, d := verify(l, blk)
		if st := bodyState(blk, want); !ok || st != "" {
			r.Violation("node-formatted-block-rejected|read-back-after-production", fmt.Sprintf("block %x (height %d) read back after production: VerifyBlock = %s, body: %q", id, blk.Height, d, st), nil)
			return
		}
		r.Count("served.read-back", 1)
	}
	if !watchdog {
		r.Floor("served.blocks-confirmed", int64(total))
		r.Floor("served.held-across-next-confirm", int64(total/10))
		r.Floor("served.verifications", int64(total))
		r.Floor("served.trunk-switches", 20)
	}
}
