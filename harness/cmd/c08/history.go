package main

// Verification history. The statement judges a block by what it IS - id, merkle root, key,
// signature - so the verdict of Ledger.VerifyBlock on a block must not depend on which blocks the
// same ledger instance verified before. The schema walk of main.go verifies every mutant of a block
// next to other mutants of the SAME block; here a forgery is verified right after one or two
// DIFFERENT honest blocks it borrows from:
//
//   transplants   F = copy of honest block `base` in which a field (or a group of fields: identity,
//                 id + signature, body + root ...) is replaced by the value it has in another honest
//                 block `donor`; as it is / id recomputed / id recomputed and signed again by the
//                 donor's or the base's key / signed again over the stale id;
//   histories     [donor] [base] [base donor] [donor base], then F - all on one ledger instance;
//   schema sample a sample of the schema-walk mutants of `base`, each right after `donor`.
//
// Oracle (from the statement, evaluated without any ledger): F must be refused whenever one of the
// bindings fails - id = hash of the header, tx_count / merkle root = the body, the carried key
// hashes to the stated proposer, the signature over the id verifies under the carried key.
// A transplant that leaves all of them intact is a valid block and is not judged. When a forgery is
// accepted it is shown to a ledger instance that has verified nothing: refused there = the verdict
// depends on the verification history. A refused forgery must not poison the honest blocks either:
// base and donor must still verify afterwards.

import (
	"bytes"
	"fmt"
	"math/big"
	"math/rand"
	"reflect"
	"strings"

	"github.com/xuperchain/xupercore/bcs/ledger/xledger/ledger"
	pb "github.com/xuperchain/xupercore/bcs/ledger/xledger/xldgpb"

	"verif/ev"
	"verif/mutate"
	sn "verif/simnode"
)

// bindings of the statement that hold for a block (judged without a ledger)
type bindings struct{ id, count, merkle, key, addr, sig bool }

func (b bindings) all() bool { return b.id && b.count && b.merkle && b.key && b.addr && b.sig }

func (b bindings) broken() string {
	var s []string
	for _, e := range []struct {
		ok bool
		n  string
	}{{b.id, "id"}, {b.count, "count"}, {b.merkle, "merkle"}, {b.key, "key"}, {b.addr, "key-proposer"}, {b.sig, "signature"}} {
		if !e.ok {
			s = append(s, e.n)
		}
	}
	return strings.Join(s, "+")
}

func judge(b *pb.InternalBlock) (out bindings) {
	defer func() {
		if recover() != nil {
			out = bindings{} // a block the pure hash functions cannot even digest is not a valid block
		}
	}()
	if id, err := ledger.MakeBlockID(b); err == nil && bytes.Equal(id, b.Blockid) {
		out.id = true
	}
	out.count = int(b.TxCount) == len(b.Transactions)
	if tree := ledger.MakeMerkleTree(b.Transactions); len(tree) > 0 && bytes.Equal(tree[len(tree)-1], b.MerkleRoot) {
		out.merkle = true
	}
	k, err := sn.Crypto().GetEcdsaPublicKeyFromJsonStr(string(b.Pubkey))
	if err != nil || k == nil {
		return out
	}
	out.key = true
	if ok, _ := sn.Crypto().VerifyAddressUsingPublicKey(string(b.Proposer), k); ok {
		out.addr = true
	}
	if ok, err := sn.Crypto().VerifyECDSA(k, b.Sign, b.Blockid); ok && err == nil {
		out.sig = true
	}
	return out
}

type honestBlock struct {
	name string
	key  *sn.Key
	blk  *pb.InternalBlock
}

// field groups moved from the donor into the base
var transplantSets = [][]string{
	{"Proposer"}, {"Pubkey"}, {"Sign"}, {"Blockid"},
	{"Pubkey", "Sign"}, {"Blockid", "Sign"}, {"Proposer", "Pubkey"}, {"Proposer", "Sign"}, {"Proposer", "Pubkey", "Sign"},
	{"Blockid", "Sign", "Pubkey", "Proposer"},
	{"MerkleRoot"}, {"Transactions"}, {"Transactions", "MerkleTree"}, {"MerkleRoot", "Transactions", "TxCount", "MerkleTree"}, {"TxCount"},
	{"PreHash"}, {"Timestamp"}, {"Version"}, {"Nonce"}, {"CurTerm"}, {"CurBlockNum"}, {"TargetBits"}, {"FailedTxs"}, {"Justify"},
}

var transplantModes = []string{"as-is", "id-recomputed", "id-recomputed+signed-by-donor-key", "id-recomputed+signed-by-base-key", "stale-id-signed-by-donor-key"}

// transplant copies the named fields of donor into a copy of base; ok = something changed
func transplant(base, donor *pb.InternalBlock, fields []string) (*pb.InternalBlock, bool) {
	f := sn.CloneBlock(base)
	d := sn.CloneBlock(donor)
	fv, dv := reflect.ValueOf(f).Elem(), reflect.ValueOf(d).Elem()
	changed := false
	for _, name := range fields {
		a, b := fv.FieldByName(name), dv.FieldByName(name)
		if !reflect.DeepEqual(a.Interface(), b.Interface()) {
			changed = true
		}
		a.Set(b)
	}
	return f, changed
}

func historyPart(r *ev.Run, n *sn.Node) {
	defer func() {
		if p := recover(); p != nil {
			r.Violation("history|panic", fmt.Sprintf("the verification-history part panicked: %v", p), nil)
		}
	}()
	l := n.Ledger
	mkTx := func(i int) *pb.Transaction {
		k := sn.K(i % 4)
		x, err := sn.BuildTx(sn.TxSpec{Initiator: k.Address, Signers: []*sn.Key{k}, Outputs: []sn.Out{{To: sn.K((i + 1) % 4).Address, Amount: big.NewInt(int64(i + 1))}},
			Nonce: fmt.Sprintf("c08h-%d", i), Timestamp: int64(i)})
		if err != nil {
			panic(err)
		}
		return x
	}
	// ---- the honest blocks: several proposers, two blocks of one proposer, both formatters ----
	type spec struct {
		key, ntx int
		full     bool
	}
	specs := []spec{{0, 3, false}, {1, 2, true}, {2, 5, false}, {0, 4, true}, {3, 1, false}, {4, 6, true}}
	if r.Quick() {
		specs = specs[:5]
	}
	var pool []honestBlock
	for i, s := range specs {
		p := sn.K(s.key)
		txs := []*pb.Transaction{sn.AwardTx(p.Address, big.NewInt(1000), int64(500+i))}
		for j := 1; j < s.ntx; j++ {
			txs = append(txs, mkTx(i*100+j))
		}
		var blk *pb.InternalBlock
		var err error
		pre := append([]byte{byte(i + 1)}, n.Root()[1:]...)
		if !s.full {
			blk, err = l.FormatBlock(txs, []byte(p.Address), p.Priv, int64(5000+i), int64(i), int64(i%2), pre, big.NewInt(0))
		} else {
			qc := &pb.QuorumCert{ProposalId: []byte(fmt.Sprintf("proposal-%d", i)), ProposalMsg: []byte("msg"), Type: 1, ViewNumber: int64(i), SignInfos: &pb.QCSignInfos{}}
			for q := 0; q <= i%3; q++ {
				qc.SignInfos.QCSignInfos = append(qc.SignInfos.QCSignInfos, &pb.SignInfo{Address: sn.K(q).Address, PublicKey: sn.K(q).PubJSON, Sign: []byte(fmt.Sprintf("sig%d-%d", i, q))})
			}
			failed := map[string]string{"txid-a": fmt.Sprintf("reason a%d", i), "txid-b": "reason b"}
			blk, err = l.FormatMinerBlock(txs, []byte(p.Address), p.Priv, int64(5000+i), int64(i), int64(i%2), pre, int32(0x1e00ff00+i), big.NewInt(0), qc, failed, int64(10+i))
			if blk != nil {
				blk.Nonce = int32(i)
				blk.Blockid, _ = ledger.MakeBlockID(blk)
				blk.Sign, _ = sn.Crypto().SignECDSA(p.Priv, blk.Blockid)
			}
		}
		if err != nil {
			r.Violation("format|error", "formatting a block failed: "+err.Error(), nil)
			return
		}
		blk = sn.WireBlock(blk)
		name := fmt.Sprintf("h%d-k%d-%dtx", i, s.key, s.ntx)
		if !judge(blk).all() {
			r.Inconclusive("history part: the harness' own judgement refuses a node-formatted block (" + name + ": " + judge(blk).broken() + ")")
			return
		}
		if ok, d := verify(l, blk); !ok {
			r.Violation("node-formatted-block-rejected|history-pool", fmt.Sprintf("VerifyBlock refuses a block formatted by the node itself (%s): %s", name, d), nil)
			return
		}
		pool = append(pool, honestBlock{name, p, blk})
	}

	var fresh *sn.Node // a ledger instance that has verified nothing, built when a forgery is accepted
	defer func() {
		if fresh != nil {
			fresh.Drop()
		}
	}()
	stop := false
	// one trial: verify the honest history, then the forgery
	trial := func(hist []honestBlock, f *pb.InternalBlock, what, cls string, j bindings) {
		hn := []string{}
		for _, h := range hist {
			hn = append(hn, h.name)
			ok, d := verify(l, h.blk)
			r.Count("verifications", 1)
			if !ok {
				r.Violation("node-formatted-block-rejected|history", fmt.Sprintf("VerifyBlock refuses the node-formatted block %s when it is verified again later on the same ledger (before: %s): %s", h.name, what, d),
					map[string]interface{}{"block": h.name, "before": what})
				stop = true
				return
			}
		}
		ok, d := verify(l, f)
		r.Count("verifications", 1)
		r.Count("history.trials", 1)
		r.Case("history|"+cls+"|after="+fmt.Sprint(len(hist)), true)
		if strings.HasPrefix(d, "PANIC") {
			r.Violation("verify|panic|history|"+cls, "VerifyBlock panics on "+what+": "+d, map[string]interface{}{"what": what, "history": hn})
			return
		}
		if !ok {
			return
		}
		// accepted although a binding is broken: what does a ledger without history say?
		if fresh != nil {
			fresh.Drop()
		}
		var ferr error
		fresh, ferr = sn.NewNode(sn.DefaultConfig())
		freshSays := "n/a"
		sig := "mutant-accepted|history|" + cls
		if ferr == nil {
			fok, _ := verify(fresh.Ledger, f)
			freshSays = fmt.Sprint(fok)
			if fok {
				sig = "mutant-accepted|any-history|" + cls
			}
		}
		last := hist[len(hist)-1]
		if j.broken() == "key-proposer" && freshSays == "false" && string(f.Pubkey) == string(last.blk.Pubkey) {
			// id, body and signature are consistent under the carried key; only that key does not hash to
			// the stated proposer - and it is the key of the honest block verified just before
			sig = "mutant-accepted|history|proposer-bound-to-key-verified-before"
		}
		r.Violation(sig, fmt.Sprintf("after verifying the honest block(s) %v, Ledger.VerifyBlock accepts %s (broken binding: %s; stated proposer %s, carried key of %s); "+
			"a ledger instance that verified nothing before answers %s for the same block",
			hn, what, j.broken(), f.Proposer, ownerOf(f.Pubkey), freshSays),
			map[string]interface{}{"history": hn, "forgery": what, "broken": j.broken(), "fresh_ledger_accepts": freshSays, "block": f})
	}

	idx := 0
	for bi, base := range pool {
		for di, donor := range pool {
			if bi == di || stop {
				continue
			}
			r.Count("history.pairs", 1)
			hists := [][]honestBlock{{donor}, {base}, {base, donor}, {donor, base}}
			for _, set := range transplantSets {
				f0, changed := transplant(base.blk, donor.blk, set)
				if !changed {
					r.Count("history.transplants-equal-skipped", 1)
					continue
				}
				keyish := false
				for _, s := range set {
					if s == "Proposer" || s == "Pubkey" || s == "Sign" || s == "Blockid" {
						keyish = true
					}
				}
				for _, mode := range transplantModes {
					f := sn.CloneBlock(f0)
					if strings.HasPrefix(mode, "id-recomputed") {
						id, err := ledger.MakeBlockID(f)
						if err != nil {
							continue
						}
						if mode == "id-recomputed" && bytes.Equal(id, f.Blockid) {
							continue // same forgery as "as-is"
						}
						f.Blockid = id
					}
					switch {
					case strings.HasSuffix(mode, "signed-by-donor-key"):
						f.Sign, _ = sn.Crypto().SignECDSA(donor.key.Priv, f.Blockid)
					case strings.HasSuffix(mode, "signed-by-base-key"):
						f.Sign, _ = sn.Crypto().SignECDSA(base.key.Priv, f.Blockid)
					}
					f = sn.WireBlock(f)
					j := judge(f)
					if j.all() {
						// e.g. the donor's identity around the base's content, signed by the donor: a valid block
						r.Count("history.transplants-still-valid", 1)
						continue
					}
					cls := "transplant|" + strings.Join(set, "+") + "|" + mode
					what := fmt.Sprintf("block %s with %s of block %s (%s)", base.name, strings.Join(set, "+"), donor.name, mode)
					use := hists
					if !keyish {
						use = hists[idx%4 : idx%4+1]
					}
					for hi, h := range use {
						if stop {
							return
						}
						_ = hi
						trial(h, f, what, cls, j)
					}
					if j.broken() == "key-proposer" {
						r.Count("history.consistent-under-foreign-key", int(len(use)))
					}
					idx++
				}
			}
			// ---- a sample of the schema walk of base, each mutant right after the donor ----
			muts := mutate.All(base.blk)
			rng := rand.New(rand.NewSource(r.Seed*7919 + int64(bi*16+di)))
			for s := 0; s < r.N(10, 60) && len(muts) > 0 && !stop; s++ {
				m := muts[rng.Intn(len(muts))]
				y := m.Msg.(*pb.InternalBlock)
				if uncovered(m.Path+"/"+m.Kind) || strings.HasPrefix(m.Kind, "boundary-shift") {
					continue
				}
				j := judge(y)
				if j.all() {
					continue
				}
				trial([]honestBlock{donor}, y, fmt.Sprintf("block %s with %s/%s", base.name, m.Path, m.Kind), "schema|"+m.Field()+"|"+kindClass(m.Kind), j)
				r.Count("history.schema-mutants", 1)
			}
			// ---- refused forgeries leave the honest blocks verifiable ----
			for _, h := range []honestBlock{base, donor} {
				ok, d := verify(l, h.blk)
				r.Count("verifications", 1)
				if !ok && !stop {
					r.Violation("node-formatted-block-rejected|history|after-refused-forgeries", fmt.Sprintf("VerifyBlock refuses the node-formatted block %s after forgeries borrowing from it were refused: %s", h.name, d), nil)
					stop = true
				}
			}
		}
	}
	r.Floor("history.pairs", 12)
	r.Floor("history.trials", 2500)
	r.Floor("history.consistent-under-foreign-key", 40)
}

func ownerOf(pubkey []byte) string {
	for _, k := range sn.Keys() {
		if k.PubJSON == string(pubkey) {
			return k.Address
		}
	}
	return "an unknown key"
}
