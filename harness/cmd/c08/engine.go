package main

// The engine's path for received blocks (Miner.ProcBlock -> pending table -> batchConfirmBlock):
// the pending table is keyed by block id, so a forged copy of block T - T's header, id and
// signature around another body - sits there under T's id after it was refused. Whatever arrives
// next (T's honest child, which makes the engine look for T in the pending table; the honest T;
// a restart in between), the ledger must never hold a block whose body is not the one its id
// commits to: Ledger.VerifyBlock must hold for every stored block and the stored body must be
// the honest one.

import (
	"fmt"
	"math/big"
	"math/rand"

	"github.com/xuperchain/xupercore/bcs/ledger/xledger/ledger"
	pb "github.com/xuperchain/xupercore/bcs/ledger/xledger/xldgpb"
	"github.com/xuperchain/xupercore/protos"

	"verif/ev"
	sn "verif/simnode"
)

func enginePart(r *ev.Run) {
	defer func() {
		if p := recover(); p != nil {
			if inc, ok := p.(sn.Inconclusive); ok {
				r.Inconclusive(inc.Why)
				return
			}
			r.Violation("engine|panic", fmt.Sprintf("the engine's receive path panicked on a forged block: %v", p), nil)
		}
	}()
	rounds := r.N(15, 150)
	for round := 0; round < rounds; round++ {
		rng := rand.New(rand.NewSource(r.Seed*6007 + int64(round)))
		n, err := sn.NewNode(sn.DefaultConfig())
		if err != nil {
			r.Inconclusive("engine part: " + err.Error())
			return
		}
		producer, thief := sn.K(0), sn.K(4)
		tip := n.Ledger.GetMeta().TipBlockid
		var h int64
		// an honest prefix
		for i := 0; i < 1+rng.Intn(2); i++ {
			b, err := n.FormatBlock(tip, h+1, producer, int64(1000+10*h), nil, true)
			if err != nil || n.ProcBlock(b) != nil {
				n.Drop()
				r.Inconclusive("engine part: cannot grow the honest prefix")
				return
			}
			tip, h = b.Blockid, h+1
		}
		// T with a payment, its child C
		ins, _, tot, err := n.State.SelectUtxos(sn.K(1).Address, bigOne(), false, false)
		if err != nil {
			n.Drop()
			r.Inconclusive("engine part: no funds")
			return
		}
		pay, err := sn.BuildTx(sn.TxSpec{Initiator: sn.K(1).Address, Signers: []*sn.Key{sn.K(1)}, Inputs: ins, Outputs: []sn.Out{{To: sn.K(2).Address, Amount: tot}}, Nonce: fmt.Sprintf("e%d", round), Timestamp: 77})
		if err != nil {
			n.Drop()
			r.Inconclusive("engine part: " + err.Error())
			return
		}
		T, err1 := n.FormatBlock(tip, h+1, producer, int64(1000+10*h), []*pb.Transaction{pay}, true)
		var C *pb.InternalBlock
		var err2 error
		if err1 == nil {
			C, err2 = n.FormatBlock(T.Blockid, h+2, producer, int64(1010+10*h), nil, true)
		}
		if err1 != nil || err2 != nil {
			n.Drop()
			r.Inconclusive("engine part: cannot build the blocks")
			return
		}
		// the forged copy: header, id, signature of T; another body
		F := sn.CloneBlock(T)
		kind := []string{"award-redirected", "payment-redirected", "payment-dropped-award-doubled", "body-and-merkle-tree-replaced", "honest-body-merkle-tree-leaves-swapped"}[round%5]
		switch kind {
		case "award-redirected":
			F.Transactions[0] = sn.AwardTx(thief.Address, n.Ledger.GenesisBlock.CalcAward(h+1), T.Timestamp)
		case "payment-redirected":
			x, _ := sn.BuildTx(sn.TxSpec{Initiator: sn.K(1).Address, Signers: []*sn.Key{sn.K(1)}, Inputs: ins, Outputs: []sn.Out{{To: thief.Address, Amount: tot}}, Nonce: fmt.Sprintf("f%d", round), Timestamp: 78})
			F.Transactions[1] = x
		case "payment-dropped-award-doubled":
			F.Transactions[1] = sn.AwardTx(thief.Address, n.Ledger.GenesisBlock.CalcAward(h+1), T.Timestamp+1)
		case "honest-body-merkle-tree-leaves-swapped":
			// nothing that the id or the signature covers is touched: only the (unsigned) merkle_tree
			// list, from whose leaves the ledger rebuilds a stored block's body
			if len(F.MerkleTree) >= 2 {
				F.MerkleTree[0], F.MerkleTree[1] = F.MerkleTree[1], F.MerkleTree[0]
			}
		case "body-and-merkle-tree-replaced":
			F.Transactions[0] = sn.AwardTx(thief.Address, n.Ledger.GenesisBlock.CalcAward(h+1), T.Timestamp)
			F.MerkleTree = ledger.MakeMerkleTree(F.Transactions) // consistent with the forged body; merkle_root (covered by the id) kept
		}
		F = sn.WireBlock(F)
		audit := func(moment string) bool {
			if kind == "honest-body-merkle-tree-leaves-swapped" {
				// what counts is what comes back from STORAGE (the block cache still holds the body
				// as it arrived): restart before looking
				if err := n.Reopen(); err != nil {
					r.Inconclusive("engine part: reopen failed: " + err.Error())
					return false
				}
			}
			for _, hb := range []*pb.InternalBlock{T, C} {
				if !n.Ledger.ExistBlock(hb.Blockid) {
					continue
				}
				sb, err := n.Ledger.QueryBlock(hb.Blockid)
				if err != nil {
					r.Violation("engine|stored-block-unreadable", fmt.Sprintf("%s (%s): stored block %x cannot be read: %v", moment, kind, hb.Blockid, err), nil)
					return false
				}
				same := len(sb.Transactions) == len(hb.Transactions)
				for i := 0; same && i < len(sb.Transactions); i++ {
					same = string(sb.Transactions[i].Txid) == string(hb.Transactions[i].Txid) && sameOutputs(sb.Transactions[i].TxOutputs, hb.Transactions[i].TxOutputs)
				}
				if ok, _ := verify(n.Ledger, sb); !ok || !same {
					r.Violation("engine|forged-body-confirmed|"+kind,
						fmt.Sprintf("%s: the ledger holds block %x (height %d) with a body that is not the one its id commits to (forgery: %s; VerifyBlock on the stored block = %v); thief balance %v",
							moment, hb.Blockid, sb.Height, kind, ok, balance(n, thief.Address)),
						map[string]interface{}{"forgery": kind, "moment": moment})
					return false
				}
			}
			return true
		}
		good := true
		step := func(moment string, b *pb.InternalBlock, mustStore bool) {
			if !good {
				return
			}
			perr := n.ProcBlock(b)
			r.Count("engine.deliveries", 1)
			if mustStore && (perr != nil || !n.Ledger.ExistBlock(b.Blockid)) {
				r.Violation("engine|honest-block-refused-after-forgery", fmt.Sprintf("%s (%s): the honest block is refused: %v", moment, kind, perr), nil)
				good = false
				return
			}
			good = audit(moment)
		}
		step("forged copy of T delivered", F, false)
		if good && n.Ledger.ExistBlock(T.Blockid) {
			// audit() has compared bodies: reaching here means the honest body is stored, i.e. the forgery equals T
			r.Count("engine.forgery-was-equivalent", 1)
		}
		if round%3 == 1 {
			if err := n.Reopen(); err != nil { // the pending table is persistent
				r.Inconclusive("engine part: reopen: " + err.Error())
				good = false
			}
		}
		step("T's honest child delivered while T is unknown", C, false)
		step("honest T delivered", T, true)
		step("honest child delivered again", C, true)
		r.Case("engine|"+kind+fmt.Sprintf("|reopen=%v", round%3 == 1), true)
		r.Count("engine.rounds", 1)
		n.Drop()
		if !good {
			return
		}
	}
	r.Floor("engine.rounds", 8)
}

func bigOne() *big.Int { return big.NewInt(1) }

func sameOutputs(a, b []*protos.TxOutput) bool {
	if len(a) != len(b) {
		return false
	}
	for i := range a {
		if string(a[i].ToAddr) != string(b[i].ToAddr) || string(a[i].Amount) != string(b[i].Amount) {
			return false
		}
	}
	return true
}

func balance(n *sn.Node, addr string) string {
	b, err := n.State.GetBalance(addr)
	if err != nil {
		return err.Error()
	}
	return b.String()
}
