// C04: ledger main-chain integrity under forks, reorganisations, duplicates, invalid
// blocks and truncation. Oracle: the tree model of refmodel/tree.go, compared with every
// ledger query after every operation (live instance, and periodically a reopened twin).
package main

import (
	"bytes"
	"fmt"
	"math/big"
	"math/rand"
	"runtime/debug"
	"sort"
	"strings"
	"sync"

	"github.com/xuperchain/xupercore/bcs/ledger/xledger/ledger"
	pb "github.com/xuperchain/xupercore/bcs/ledger/xledger/xldgpb"

	"verif/ev"
	"verif/refmodel"
	sn "verif/simnode"
)

type world struct {
	n        *sn.Node
	m        *refmodel.TreeModel
	blocks   map[string]*pb.InternalBlock // every block ever generated (full body)
	held     []string                     // generated, not yet offered
	gone     map[string]bool              // removed by truncation
	repeated map[string]bool              // txids that a stored side block repeats from its own chain
	txs      map[string]*pb.Transaction
	ops      []string
	ts       int64
	nonce    int
	stats    map[string]int
	lastDup  string
	faults   bool // this history also meets storage write errors at a block's confirmation
}

func (w *world) fakeTx(rng *rand.Rand) *pb.Transaction {
	w.nonce++
	k := sn.K(rng.Intn(4))
	x, err := sn.BuildTx(sn.TxSpec{Initiator: k.Address, Signers: []*sn.Key{k},
		Outputs: []sn.Out{{To: sn.K(rng.Intn(4)).Address, Amount: big.NewInt(int64(1 + rng.Intn(9)))}},
		Nonce:   fmt.Sprintf("c04-%d", w.nonce), Timestamp: int64(w.nonce)})
	if err != nil {
		panic(err)
	}
	w.txs[string(x.Txid)] = x
	return x
}

func txids(b *pb.InternalBlock) []string {
	var out []string
	for _, x := range b.Transactions {
		out = append(out, string(x.Txid))
	}
	return out
}

// ancestorsTx: txids on the path root..id in the model.
func (w *world) chainTx(id string) map[string]string {
	out := map[string]string{}
	for x := id; x != ""; x = w.m.Blocks[x].Parent {
		for _, t := range w.m.Blocks[x].Txids {
			out[t] = x
		}
		if x == w.m.Root {
			break
		}
	}
	return out
}

func (w *world) makeBlock(rng *rand.Rand, parent string, hostile string) *pb.InternalBlock {
	pblk := w.m.Blocks[parent]
	w.ts += 7
	var list []*pb.Transaction
	n := rng.Intn(4)
	onChain := w.chainTx(parent)
	for i := 0; i < n; i++ {
		// a quarter of the transactions are copies of transactions stored on OTHER branches
		if rng.Intn(4) == 0 && len(w.txs) > 0 {
			var cands []string
			for id := range w.txs {
				if _, anc := onChain[id]; !anc && !w.txs[id].Coinbase {
					cands = append(cands, id)
				}
			}
			sort.Strings(cands)
			if len(cands) > 0 {
				c := sn.CloneTx(w.txs[cands[rng.Intn(len(cands))]])
				dup := false
				for _, y := range list {
					if bytes.Equal(y.Txid, c.Txid) {
						dup = true
					}
				}
				if !dup {
					list = append(list, c)
					w.stats["tx.shared"]++
					continue
				}
			}
		}
		list = append(list, w.fakeTx(rng))
	}
	switch hostile {
	case "dup-ancestor-tx":
		// a transaction that is already on this block's own chain
		// ... held by a block that is on the main chain NOW, i.e. at or below the fork point
		// (the statement's rule; a repeat of a transaction from the adopted branch itself,
		// above the fork point, is not covered by it)
		var cands []string
		for id, holder := range onChain {
			if x, ok := w.txs[id]; ok && !x.Coinbase && w.m.InTrunk(holder) {
				cands = append(cands, id)
			}
		}
		sort.Strings(cands)
		if len(cands) == 0 {
			return nil
		}
		w.lastDup = cands[rng.Intn(len(cands))]
		list = append(list, sn.CloneTx(w.txs[w.lastDup]))
	case "two-coinbase":
		list = append(list, sn.AwardTx(sn.K(1).Address, big.NewInt(1000), w.ts+1))
	}
	b, err := w.n.FormatBlock([]byte(parent), pblk.Height+1, sn.K(rng.Intn(3)), w.ts, list, true)
	if err != nil {
		panic(err)
	}
	for _, x := range b.Transactions {
		if _, ok := w.txs[string(x.Txid)]; !ok {
			w.txs[string(x.Txid)] = sn.CloneTx(x)
		}
	}
	w.blocks[string(b.Blockid)] = b
	return b
}

func (w *world) logf(f string, a ...interface{}) { w.ops = append(w.ops, fmt.Sprintf(f, a...)) }

func short(id string) string { return sn.Short([]byte(id)) }

// willBeTrunk: would the model put a new child of parent on the main chain?
func (w *world) willBeTrunk(parent string) bool {
	return w.m.Blocks[parent].Height+1 > w.m.Blocks[w.m.Tip].Height
}

type problem struct{ class, detail string }

func (w *world) step(rng *rand.Rand) (string, []problem) {
	m := w.m
	stored := []string{}
	for id := range m.Blocks {
		stored = append(stored, id)
	}
	sort.Strings(stored)
	pickParent := func() string {
		switch rng.Intn(5) {
		case 0, 1:
			return m.Tip
		case 2:
			mc := m.MainChain()
			return mc[rng.Intn(len(mc))]
		default:
			return stored[rng.Intn(len(stored))]
		}
	}
	var ps []problem
	r := rng.Intn(100)
	switch {
	case r < 50: // grow
		p := pickParent()
		b := w.makeBlock(rng, p, "")
		var st ledger.ConfirmStatus
		if rng.Intn(5) == 0 {
			// the same block delivered by three peers at the same moment: the ledger serialises
			// ConfirmBlock, so this is some sequence of one submission and two duplicates
			var wg sync.WaitGroup
			sts := make([]ledger.ConfirmStatus, 3)
			start := make(chan struct{})
			for i := range sts {
				wg.Add(1)
				go func(i int) {
					defer wg.Done()
					<-start
					sts[i] = w.n.Confirm(b)
				}(i)
			}
			close(start)
			wg.Wait()
			okN := 0
			for _, x := range sts {
				if x.Succ {
					okN++
					st = x
				}
			}
			w.stats["concurrent-delivery"]++
			w.logf("confirm-x3(%s<-%s)=%d accepted", short(string(b.Blockid)), short(p), okN)
			if okN > 1 {
				ps = append(ps, problem{"concurrent-duplicates|accepted-more-than-once", fmt.Sprintf("%d of 3 simultaneous deliveries of one block were confirmed", okN)})
				return "confirm", ps
			}
			if okN == 0 {
				st = sts[0]
			}
		} else {
			st = w.n.Confirm(b)
		}
		w.logf("confirm(%s<-%s)=%v", short(string(b.Blockid)), short(p), st.Succ)
		if !st.Succ {
			ps = append(ps, problem{"valid-block-refused", fmt.Sprintf("block on stored parent refused: %v %v", st.Error, w.n.Log.Tail(3))})
			return "confirm", ps
		}
		wasTip := m.Tip
		m.Confirm(string(b.Blockid), p, txids(b))
		if m.Tip != wasTip && p != wasTip {
			w.stats["switch"]++
			if !st.TrunkSwitch {
				ps = append(ps, problem{"status", "model switched trunk, ConfirmStatus.TrunkSwitch is false"})
			}
		}
		if m.Tip == wasTip && m.Blocks[string(b.Blockid)].Height == m.Blocks[wasTip].Height {
			w.stats["tie"]++
		}
		return "confirm", ps
	case r < 53 && w.faults: // a valid block whose confirmation batch cannot be written
		p := pickParent()
		b := w.makeBlock(rng, p, "")
		delete(w.blocks, string(b.Blockid))
		w.n.World.ArmFail(1)
		st := w.n.Confirm(b)
		w.n.World.ArmFail(0)
		w.stats["write-fault-at-confirm"]++
		w.logf("confirm-with-write-error(%s<-%s)=%v", short(string(b.Blockid)), short(p), st.Succ)
		if st.Succ {
			ps = append(ps, problem{"write-error-swallowed", "ConfirmBlock reported success although its storage write failed"})
		}
		// the refused block is not part of the model: the audit after this op demands that meta,
		// tip, links, height index and every other query answer as before
		return "write-fault", ps
	case r < 58: // generate now, offer later (possibly before its parent)
		p := pickParent()
		b := w.makeBlock(rng, p, "")
		// a grandchild too, so that an unknown-parent offer exists
		w.held = append(w.held, string(b.Blockid))
		w.logf("hold(%s<-%s)", short(string(b.Blockid)), short(p))
		return "hold", nil
	case r < 68 && len(w.held) > 0: // offer a held block
		i := rng.Intn(len(w.held))
		id := w.held[i]
		w.held = append(w.held[:i], w.held[i+1:]...)
		b := w.blocks[id]
		p := string(b.PreHash)
		st := w.n.Confirm(b)
		w.logf("offer(%s<-%s)=%v", short(id), short(p), st.Succ)
		if m.Has(p) {
			if !st.Succ {
				ps = append(ps, problem{"valid-block-refused", fmt.Sprintf("held block on stored parent refused: %v", st.Error)})
				return "offer", ps
			}
			m.Confirm(id, p, txids(b))
		} else {
			w.stats["unknown-parent"]++
			if st.Succ {
				ps = append(ps, problem{"unknown-parent-accepted", "block whose parent is not stored was accepted"})
			}
		}
		return "offer", ps
	case r < 76: // duplicate of a stored block
		id := stored[rng.Intn(len(stored))]
		if rng.Intn(2) == 0 {
			id = m.Tip
		}
		if id == m.Root {
			return "noop", nil
		}
		st := w.n.Confirm(w.blocks[id])
		w.stats["duplicate"]++
		kind := "side"
		if id == m.Tip {
			kind = "tip"
		} else if m.InTrunk(id) {
			kind = "trunk"
		}
		w.logf("duplicate(%s,%s)=%v", short(id), kind, st.Succ)
		return "duplicate-" + kind, nil
	case r < 80: // second genesis
		rb, err := w.n.Ledger.QueryBlock([]byte(m.Root))
		if err != nil {
			return "noop", []problem{{"existence", "cannot query root: " + err.Error()}}
		}
		st := w.n.Ledger.ConfirmBlock(sn.CloneBlock(rb), true)
		w.stats["second-genesis"]++
		w.logf("second-genesis=%v", st.Succ)
		if st.Succ {
			ps = append(ps, problem{"second-genesis-accepted", "a second genesis block was accepted"})
		}
		return "second-genesis", ps
	case r < 84: // two coinbases
		p := pickParent()
		b := w.makeBlock(rng, p, "two-coinbase")
		delete(w.blocks, string(b.Blockid))
		st := w.n.Confirm(b)
		w.stats["two-coinbase"]++
		w.logf("two-coinbase(<-%s)=%v", short(p), st.Succ)
		if st.Succ {
			ps = append(ps, problem{"two-coinbase-accepted", "block with two coinbase transactions accepted"})
		}
		return "two-coinbase", ps
	case r < 90: // transaction duplicated on the block's own chain
		p := pickParent()
		trunk := w.willBeTrunk(p)
		b := w.makeBlock(rng, p, "dup-ancestor-tx")
		if b == nil {
			return "noop", nil
		}
		st := w.n.Confirm(b)
		w.logf("dup-ancestor-tx(<-%s,trunk=%v)=%v", short(p), trunk, st.Succ)
		if trunk {
			w.stats["dup-tx-trunk"]++
			delete(w.blocks, string(b.Blockid))
			if st.Succ && w.repeated[w.lastDup] {
				// structural precondition of the recorded finding: a stored SIDE block already repeats
				// this transaction, so the tx -> block mapping may name that side block, and the
				// duplicate test (which asks whether the mapped block is in the trunk) lets a
				// main-chain repeat through
				ps = append(ps, problem{"tx-map-repeated", "a main-chain block repeating a transaction of its own chain was accepted; a stored side block repeats that transaction too, so the tx -> block mapping names the side copy"})
			} else if st.Succ {
				ps = append(ps, problem{"duplicated-tx-accepted", "a block that becomes part of the main chain and repeats a transaction of its own chain was accepted"})
			} else if st.Error != ledger.ErrTxDuplicated {
				// refused, which is all the statement asks; which error names the refusal is the code's business
				w.stats["dup-tx-trunk.refused-with-another-error"]++
			}
			return "dup-tx-trunk", ps
		}
		// on a side branch the ledger stores it; the statement does not forbid that
		w.stats["dup-tx-side"]++
		if st.Succ {
			m.Confirm(string(b.Blockid), p, txids(b))
			w.repeated[w.lastDup] = true
		} else {
			delete(w.blocks, string(b.Blockid))
		}
		return "dup-tx-side", nil
	default: // truncate
		mc := m.MainChain()
		if len(mc) < 2 {
			return "noop", nil
		}
		t := mc[rng.Intn(len(mc))]
		if rng.Intn(2) == 0 && len(mc) > 2 { // prefer recent targets: keeps trees alive
			t = mc[len(mc)-1-rng.Intn(2)]
		}
		err := w.n.Ledger.Truncate([]byte(t))
		w.stats["truncate"]++
		w.logf("truncate(%s,h=%d)=%v", short(t), m.Blocks[t].Height, err)
		if err != nil {
			ps = append(ps, problem{"truncate-failed", "truncate to a main-chain block failed: " + err.Error()})
			return "truncate", ps
		}
		for _, id := range m.Truncate(t) {
			w.gone[id] = true
		}
		// held blocks whose ancestors were removed stay held: offering them must fail
		return "truncate", nil
	}
}

// audit compares every query of the statement with the model.
func audit(l *ledger.Ledger, w *world, rng *rand.Rand) []problem {
	m := w.m
	var ps []problem
	add := func(class, f string, a ...interface{}) {
		if len(ps) < 12 {
			ps = append(ps, problem{class, fmt.Sprintf(f, a...)})
		}
	}
	meta := l.GetMeta()
	if string(meta.RootBlockid) != m.Root || string(meta.TipBlockid) != m.Tip || meta.TrunkHeight != m.Blocks[m.Tip].Height {
		add("meta", "meta root/tip/height = %s/%s/%d, model %s/%s/%d", short(string(meta.RootBlockid)), short(string(meta.TipBlockid)),
			meta.TrunkHeight, short(m.Root), short(m.Tip), m.Blocks[m.Tip].Height)
	}
	mc := m.MainChain()
	onMain := map[string]bool{}
	for i, id := range mc {
		onMain[id] = true
		for pass := 0; pass < 2; pass++ { // cold then warm cache
			b, err := l.QueryBlock([]byte(id))
			if err != nil {
				add("existence", "main-chain block %s: QueryBlock %v", short(id), err)
				break
			}
			h, err := l.QueryBlockHeader([]byte(id))
			if err != nil {
				add("existence", "main-chain block %s: QueryBlockHeader %v", short(id), err)
				break
			}
			for _, x := range []*pb.InternalBlock{b, h} {
				if !x.InTrunk {
					add("trunk-flag", "main-chain block %s (h=%d) has InTrunk=false", short(id), i)
				}
				if x.Height != int64(i) {
					add("height", "main-chain block %s height %d, want %d", short(id), x.Height, i)
				}
				wantNext := ""
				if i+1 < len(mc) {
					wantNext = mc[i+1]
				}
				if string(x.NextHash) != wantNext {
					add("next-link", "main-chain block %s (h=%d) NextHash=%s, want %s", short(id), i, short(string(x.NextHash)), short(wantNext))
				}
				if i > 0 && string(x.PreHash) != mc[i-1] {
					add("prev-link", "main-chain block %s PreHash=%s, want %s", short(id), short(string(x.PreHash)), short(mc[i-1]))
				}
			}
			if got := txids(b); strings.Join(got, ",") != strings.Join(m.Blocks[id].Txids, ",") {
				add("body", "block %s body differs from what was confirmed", short(id))
			}
		}
		if !l.ExistBlock([]byte(id)) {
			add("existence", "ExistBlock false for main-chain block %s", short(id))
		}
		bh, err := l.QueryBlockByHeight(int64(i))
		if err != nil || string(bh.Blockid) != id {
			got := ""
			if bh != nil {
				got = short(string(bh.Blockid))
			}
			add("height-index", "QueryBlockByHeight(%d) = %s / %v, want %s", i, got, err, short(id))
		}
	}
	for _, h := range []int64{int64(len(mc)), int64(len(mc)) + 3} {
		if b, err := l.QueryBlockByHeight(h); b != nil || err == nil { // any error will do; a block will not
			got := ""
			if b != nil {
				got = short(string(b.Blockid))
			}
			add("height-index", "QueryBlockByHeight(%d) above the tip = %s / %v, want an error and no block", h, got, err)
		}
	}
	for id, mb := range m.Blocks {
		if onMain[id] {
			continue
		}
		h, err := l.QueryBlockHeader([]byte(id))
		if err != nil || !l.ExistBlock([]byte(id)) {
			add("existence", "stored side block %s not found: %v", short(id), err)
			continue
		}
		if h.InTrunk {
			add("trunk-flag", "side block %s has InTrunk=true", short(id))
		}
		if len(h.NextHash) != 0 {
			add("next-link", "side block %s has NextHash=%s", short(id), short(string(h.NextHash)))
		}
		if h.Height != mb.Height || string(h.PreHash) != mb.Parent {
			add("prev-link", "side block %s height/parent %d/%s, want %d/%s", short(id), h.Height, short(string(h.PreHash)), mb.Height, short(mb.Parent))
		}
	}
	for id := range w.gone {
		if m.Has(id) {
			continue
		}
		if l.ExistBlock([]byte(id)) {
			add("existence", "truncated block %s still exists", short(id))
		}
		if _, err := l.QueryBlock([]byte(id)); err == nil {
			add("existence", "truncated block %s still answers QueryBlock", short(id))
		}
	}
	// transaction -> block mapping
	where := map[string][]string{}
	for id, b := range m.Blocks {
		for _, t := range b.Txids {
			where[t] = append(where[t], id)
		}
	}
	for t := range w.txs {
		add := add
		if w.repeated[t] {
			// known finding: the ledger stored a side block that repeats this transaction from
			// its own chain; its block mapping is ambiguous from then on
			add = func(class, f string, a ...interface{}) {
				if len(ps) < 12 {
					ps = append(ps, problem{"tx-map-repeated", fmt.Sprintf(f, a...)})
				}
			}
		}
		holders := where[t]
		var mainHolders []string
		for _, h := range holders {
			if onMain[h] {
				mainHolders = append(mainHolders, h)
			}
		}
		inTrunk := l.IsTxInTrunk([]byte(t))
		if inTrunk != (len(mainHolders) > 0) {
			add("tx-map", "IsTxInTrunk(%s)=%v, model holders on main chain: %d (stored holders %d)", short(t), inTrunk, len(mainHolders), len(holders))
		}
		if len(holders) == 0 {
			continue // only in removed / refused blocks: rows may remain
		}
		has, _ := l.HasTransaction([]byte(t))
		x, err := l.QueryTransaction([]byte(t))
		if !has || err != nil {
			add("tx-map", "stored transaction %s not found (has=%v err=%v)", short(t), has, err)
			continue
		}
		if len(mainHolders) > 0 {
			ok := false
			for _, h := range mainHolders {
				if string(x.Blockid) == h {
					ok = true
				}
			}
			if !ok {
				add("tx-map", "transaction %s names block %s, which is not a main-chain block containing it", short(t), short(string(x.Blockid)))
			}
			if b, err := l.QueryBlockByTxid([]byte(t)); err != nil || !onMain[string(b.Blockid)] {
				add("tx-map", "QueryBlockByTxid(%s) does not name a main-chain block: %v", short(t), err)
			}
		}
	}
	// branch tips
	leaves := m.Leaves()
	probe := []string{m.Root, m.Tip}
	ids := []string{}
	for id := range m.Blocks {
		ids = append(ids, id)
	}
	sort.Strings(ids)
	probe = append(probe, ids[rng.Intn(len(ids))])
	for _, t := range probe {
		h := m.Blocks[t].Height
		want := []string{}
		for _, lf := range leaves {
			if lf != t && m.Blocks[lf].Height > h {
				want = append(want, lf)
			}
		}
		got, err := l.GetBranchInfo([]byte(t), h)
		sort.Strings(got)
		if err != nil || strings.Join(got, ",") != strings.Join(want, ",") {
			add("branch-info", "GetBranchInfo(%s,%d) = %d tips (err %v), model leaves above that height: %d", short(t), h, len(got), err, len(want))
		}
	}
	// undo / redo paths
	for k := 0; k < 4; k++ {
		a, b := ids[rng.Intn(len(ids))], ids[rng.Intn(len(ids))]
		if k == 0 {
			a, b = m.Tip, ids[rng.Intn(len(ids))]
		}
		wu, wt := m.Paths(a, b)
		gu, gt, err := l.FindUndoAndTodoBlocks([]byte(a), []byte(b))
		if err != nil {
			add("paths", "FindUndoAndTodoBlocks(%s,%s): %v", short(a), short(b), err)
			continue
		}
		if idsOf(gu) != strings.Join(wu, ",") || idsOf(gt) != strings.Join(wt, ",") {
			add("paths", "FindUndoAndTodoBlocks(%s,%s) = undo %d todo %d, model undo %d todo %d (or order differs)", short(a), short(b), len(gu), len(gt), len(wu), len(wt))
		}
		cp, err := l.GetCommonParentBlockid([]byte(a), []byte(b))
		if err != nil || string(cp) != m.LCA(a, b) {
			add("paths", "GetCommonParentBlockid(%s,%s) = %s / %v, model %s", short(a), short(b), short(string(cp)), err, short(m.LCA(a, b)))
		}
	}
	// dump
	d, err := l.Dump()
	if err != nil {
		add("dump", "Dump: %v", err)
	} else {
		cnt := 0
		for h, row := range d {
			for _, s := range row {
				cnt++
				found := false
				for id, b := range m.Blocks {
					if b.Height == int64(h) && strings.Contains(s, fmt.Sprintf("ID:%x,", id)) {
						found = true
					}
				}
				if !found {
					add("dump", "Dump lists an unknown block at height %d: %s", h, s)
				}
			}
		}
		if cnt != len(m.Blocks) {
			add("dump", "Dump lists %d blocks, model stores %d", cnt, len(m.Blocks))
		}
	}
	return ps
}

func idsOf(bs []*pb.InternalBlock) string {
	var s []string
	for _, b := range bs {
		s = append(s, string(b.Blockid))
	}
	return strings.Join(s, ",")
}

func runCase(r *ev.Run, c int, nops int) {
	rng := rand.New(rand.NewSource(r.Seed*7919 + int64(c)))
	var w *world
	defer func() {
		if p := recover(); p != nil {
			var ops []string
			if w != nil {
				ops = w.ops
			}
			r.Violation("panic|"+fmt.Sprint(p), fmt.Sprintf("panic in case %d: %v\n%s", c, p, debug.Stack()), map[string]interface{}{"case": c, "ops": ops})
		}
	}()
	n, err := sn.NewNode(sn.DefaultConfig())
	if err != nil {
		r.Inconclusive("cannot create node: " + err.Error())
		return
	}
	defer n.Drop()
	w = &world{n: n, blocks: map[string]*pb.InternalBlock{}, gone: map[string]bool{}, repeated: map[string]bool{}, txs: map[string]*pb.Transaction{}, ts: 1000, stats: map[string]int{}, faults: c%3 == 1}
	rb, _ := n.Ledger.QueryBlock(n.Root())
	w.m = refmodel.NewTreeModel(string(n.Root()), txids(rb))
	for _, x := range rb.Transactions {
		w.txs[string(x.Txid)] = sn.CloneTx(x)
	}
	w.blocks[string(n.Root())] = rb
	shape := []string{}
	for i := 0; i < nops; i++ {
		kind, ps := w.step(rng)
		shape = append(shape, kind)
		if len(ps) == 0 {
			ps = audit(n.Ledger, w, rng)
			r.Count("audits", 1)
			if len(ps) == 0 && i%6 == 5 {
				tw, err := n.Twin()
				if err != nil {
					ps = append(ps, problem{"twin-open", "cannot reopen on the same data: " + err.Error()})
				} else {
					for _, p := range audit(tw.Ledger, w, rng) {
						ps = append(ps, problem{"twin:" + p.class, p.detail})
					}
					tw.Drop()
					r.Count("audits.twin", 1)
				}
			}
		}
		if len(ps) > 0 {
			cl := map[string]bool{}
			det := []string{}
			for _, p := range ps {
				cl[p.class] = true
				det = append(det, p.class+": "+p.detail)
			}
			cls := []string{}
			for k := range cl {
				cls = append(cls, k)
			}
			sort.Strings(cls)
			sig := "ledger|after-" + kind + "|" + strings.Join(cls, "+")
			if len(cls) == 1 && cls[0] == "tx-map-repeated" {
				sig = "ledger|repeated-tx-on-own-chain|tx-map"
			}
			r.Violation(sig, strings.Join(det, "\n")+"\nops: "+strings.Join(w.ops, " "),
				map[string]interface{}{"case": c, "seed": r.Seed, "ops": w.ops})
			break // taint control
		}
	}
	nontrivial := w.stats["switch"] > 0 && w.stats["truncate"] > 0
	r.Case(strings.Join(shape, ","), nontrivial)
	for k, v := range w.stats {
		r.Count(k, v)
	}
	r.Count("blocks.stored.max", len(w.m.Blocks))
	if c < 3 {
		r.Sample(map[string]interface{}{"case": c, "ops": w.ops})
	}
}

func main() {
	r := ev.Start("C04", "exploration",
		"random ledger histories: grow at tip / on the main chain / anywhere (0-3 txs per block, a quarter of them copies of transactions stored on other branches), "+
			"hold-and-offer-later (arrival order != generation order, unknown parent), duplicates of tip / trunk / side blocks, second genesis, two coinbases, "+
			"a transaction repeated on the block's own chain, truncation to main-chain blocks followed by further growth, in every third history valid blocks whose confirmation batch cannot be written (storage fault: refused, nothing may change); after every op every query of the statement is "+
			"compared with a tree model (live instance, every 6th op also a reopened twin); case = one history, distinct by op-kind sequence, non-trivial = had a trunk switch and a truncation")
	defer sn.CleanupScratch()
	n := r.N(120, 2500)
	for c := 0; c < n; c++ {
		nops := 25 + (c%4)*15
		if !r.Quick() && c%50 == 0 {
			nops = 320 // overflow the 100-entry LRU caches
		}
		if r.Quick() && c == 0 {
			nops = 260
		}
		runCase(r, c, nops)
	}
	r.Floor("audits", 2000)
	r.Floor("switch", 30)
	r.Floor("write-fault-at-confirm", 20)
	r.Floor("tie", 10)
	r.Floor("truncate", 30)
	r.Floor("duplicate", 30)
	r.Floor("unknown-parent", 5)
	r.Floor("dup-tx-trunk", 10)
	r.Floor("tx.shared", 30)
	r.Floor("audits.twin", 200)
	r.Assume("the ledger does not validate transactions; bodies are arbitrary signed transfers")
	r.Finish()
}
