package main

import (
	"fmt"
	"math/rand"
	"strings"
	"time"

	"github.com/golang/protobuf/proto"
	"github.com/xuperchain/xupercore/kernel/engines/xuperos/xpb"
	nctx "github.com/xuperchain/xupercore/kernel/network/context"
	"github.com/xuperchain/xupercore/kernel/network/p2p"
	pb "github.com/xuperchain/xupercore/protos"
)

// sentMsg is one distinct message (identity = type, chain, sender, log id, payload).
type sentMsg struct {
	id      int
	msg     *pb.XuperMessage
	typ     pb.XuperMessage_MessageType
	bc      string
	from    string
	logid   string
	payload int

	attempted  bool      // dispatched before
	handled    bool      // some earlier dispatch of it reached >= 1 subscriber
	firstCall  time.Time // monotonic: just before the first dispatch that handled it
	derivation string    // how it relates to an earlier message
}

func (m *sentMsg) String() string {
	return fmt.Sprintf("m%d{type=%v chain=%q sender=%q logid=%q payload=p%d%s}", m.id, m.typ, m.bc, m.from, m.logid, m.payload, m.derivation)
}

func buildMsg(typ pb.XuperMessage_MessageType, bc, from, logid string, payload int, viaWire bool) *pb.XuperMessage {
	pl := &xpb.BlockID{Bcname: "payload", Blockid: []byte(fmt.Sprintf("payload-%d-0123456789abcdef", payload))}
	m := p2p.NewMessage(typ, pl, p2p.WithBCName(bc), p2p.WithLogId(logid))
	m.Header.From = from
	if viaWire {
		if w, _, err := wire(m); err == nil {
			return w
		}
	}
	return m
}

func pickW(rng *rand.Rand, vals []string, weights []int) string {
	t := 0
	for _, w := range weights {
		t += w
	}
	x := rng.Intn(t)
	for i, w := range weights {
		if x < w {
			return vals[i]
		}
		x -= w
	}
	return vals[len(vals)-1]
}

func safeDispatch(d p2p.Dispatcher, m *pb.XuperMessage, st p2p.Stream) (err error, panicked interface{}) {
	defer func() {
		if p := recover(); p != nil {
			panicked = p
		}
	}()
	return d.Dispatch(m, st), nil
}

func errStr(err error) string {
	if err == nil {
		return "nil"
	}
	return err.Error()
}

type seqEnv struct {
	res    *childResult
	nc     *nctx.NetCtx
	rc     *recorder
	d      p2p.Dispatcher
	stream *recStream
	subs   []*recSub
	table  map[int]bool // the model: who is registered
	wasReg map[int]bool // registered at some earlier time
	oplog  []string
	caseID string

	deliveries, filteredOrDropped int
	tainted                       bool
}

func (e *seqEnv) witness() interface{} {
	var cfgs []subCfg
	for _, s := range e.subs {
		cfgs = append(cfgs, s.subCfg)
	}
	return map[string]interface{}{"case": e.caseID, "subscribers": cfgs, "ops": e.oplog}
}

func (e *seqEnv) register(i int) {
	s := e.subs[i]
	var err error
	func() {
		defer func() {
			if p := recover(); p != nil {
				e.res.violation("dispatch|seq|panic|Register", fmt.Sprintf("Register panicked: %v", p), e.witness())
				e.tainted = true
			}
		}()
		err = e.d.Register(s.sub)
	}()
	e.oplog = append(e.oplog, fmt.Sprintf("Register(s%d) -> %s", i, errStr(err)))
	e.res.count("seq.op.register", 1)
	if err == nil {
		e.table[i] = true
		e.wasReg[i] = true
	}
	// an error for an already registered subscriber leaves it registered; an error for a
	// subscriber that cannot be registered (MSG_TYPE_NONE) leaves it out. Either way the
	// model is unchanged, and a wrongly refused registration shows up as a missing delivery
	// only if the subscriber was valid and not yet in the table:
	if err != nil && !e.table[i] && s.typ != pb.XuperMessage_MSG_TYPE_NONE {
		e.res.violation("dispatch|seq|register-refused", fmt.Sprintf("Register of a valid, unregistered subscriber failed: %v", err), e.witness())
		e.tainted = true
	}
}

func (e *seqEnv) unregister(i int) {
	s := e.subs[i]
	var err error
	func() {
		defer func() {
			if p := recover(); p != nil {
				e.res.violation("dispatch|seq|panic|UnRegister", fmt.Sprintf("UnRegister panicked: %v", p), e.witness())
				e.tainted = true
			}
		}()
		err = e.d.UnRegister(s.sub)
	}()
	e.oplog = append(e.oplog, fmt.Sprintf("UnRegister(s%d) -> %s", i, errStr(err)))
	e.res.count("seq.op.unregister", 1)
	if err == nil {
		delete(e.table, i)
	} else if e.table[i] {
		e.res.violation("dispatch|seq|unregister-refused", fmt.Sprintf("UnRegister of a registered subscriber failed: %v", err), e.witness())
		e.tainted = true
	}
}

// dispatch issues one Dispatch and compares what was handed over with the model.
func (e *seqEnv) dispatch(m *sentMsg, msg *pb.XuperMessage, label string, stream p2p.Stream) {
	// every receipt is a fresh object decoded from the wire: hand the dispatcher a copy, so that a
	// repeat does not inherit whatever handling the first copy did to it
	msg = proto.Clone(msg).(*pb.XuperMessage)
	t0 := time.Now()
	err, pn := safeDispatch(e.d, msg, stream)
	if pn != nil {
		e.oplog = append(e.oplog, fmt.Sprintf("Dispatch(%s) [%s] -> PANIC %v", m, label, pn))
		e.res.violation("dispatch|seq|panic|Dispatch", fmt.Sprintf("Dispatch panicked: %v", pn), e.witness())
		e.tainted = true
		return
	}
	got := map[int]int{}
	total := 0
	foreign := false
	collect := func() {
		for i, s := range e.subs {
			s.drain(e.rc)
			for _, dl := range s.take() {
				got[i]++
				total++
				if dl.msg != msg && !proto.Equal(dl.msg, msg) {
					foreign = true
				}
			}
		}
	}
	collect()
	if stream != nil && !m.handled {
		// the statement does not promise that Dispatch returns only after the hand-over: before a
		// delivery is called missing, stragglers get a grace period (never reached on the pinned code)
		want := 0
		for i, s := range e.subs {
			if e.table[i] && s.matches(m.typ, m.bc, m.from) {
				want++
			}
		}
		for k := 0; k < 40 && total < want && !m.attempted; k++ {
			time.Sleep(5 * time.Millisecond)
			collect()
			e.res.count("seq.straggler_waits", 1)
		}
	}
	e.oplog = append(e.oplog, fmt.Sprintf("Dispatch(%s) [%s] -> %s, delivered to %v", m, label, errStr(err), sortedKeys(got)))
	e.res.count("seq.op.dispatch", 1)
	e.res.count("seq.op.dispatch."+label, 1)
	if foreign {
		e.res.violation("dispatch|seq|handed-message-differs", "a subscriber was handed a message that is not the dispatched one", e.witness())
		e.tainted = true
	}
	if stream == nil {
		// not an accepted message: nothing may be delivered, nothing is remembered
		if total > 0 {
			e.res.violation("dispatch|seq|delivered-without-stream", "Dispatch with a nil stream delivered", e.witness())
			e.tainted = true
		}
		return
	}
	expected := map[int]bool{}
	for i, s := range e.subs {
		if e.table[i] && s.matches(m.typ, m.bc, m.from) {
			expected[i] = true
		}
	}
	mode := "exact"
	if m.handled {
		gap := time.Since(m.firstCall)
		if gap > 2*time.Second {
			e.res.count("seq.repeat.gap_over_2s_skipped", 1)
			e.res.Inconclusive = append(e.res.Inconclusive, "seq repeat skipped: monotonic gap exceeded 2 s")
			e.tainted = true // the SUT may or may not remember; stop using this history
			return
		}
		mode = "none"
	} else if m.attempted {
		mode = "either" // dispatched before, reached nobody: the statement does not say whether that counts as handled
	}
	bad := ""
	switch mode {
	case "none":
		if total > 0 {
			bad = "dispatch|seq|repeat-delivered-inside-window"
		} else {
			e.res.count("seq.repeat.dropped", 1)
			e.filteredOrDropped++
		}
	case "either":
		if total == 0 {
			e.res.count("seq.repeat_of_undelivered.dropped", 1)
			break
		}
		fallthrough
	case "exact":
		for i, s := range e.subs {
			n := got[i]
			switch {
			case expected[i] && n == 0:
				bad = "dispatch|seq|missing-delivery|" + label
			case expected[i] && n > 1:
				bad = "dispatch|seq|double-delivery"
			case !expected[i] && n > 0:
				switch {
				case !e.table[i]:
					bad = "dispatch|seq|delivered-to-unregistered-subscriber"
				case s.typ != m.typ:
					bad = "dispatch|seq|delivered-to-subscriber-of-other-type"
				case s.BC != "" && s.BC != m.bc:
					bad = "dispatch|seq|delivered-despite-chain-filter"
				default:
					bad = "dispatch|seq|delivered-despite-sender-filter"
				}
			}
			if bad != "" {
				break
			}
			if expected[i] {
				e.res.count("seq.delivery.checked", 1)
				e.deliveries++
				continue
			}
			// counted evidence for the "and to no other" half
			switch {
			case !e.table[i] && e.wasReg[i] && s.matches(m.typ, m.bc, m.from):
				e.res.count("seq.after_unregister.checked", 1)
				e.filteredOrDropped++
			case e.table[i] && s.typ != m.typ:
				e.res.count("seq.filtered_out.type", 1)
				e.filteredOrDropped++
			case e.table[i] && s.BC != "" && s.BC != m.bc:
				e.res.count("seq.filtered_out.chain", 1)
				e.filteredOrDropped++
			case e.table[i] && s.From != "" && s.From != m.from:
				e.res.count("seq.filtered_out.sender", 1)
				e.filteredOrDropped++
			}
		}
		if bad == "" && total > 0 {
			switch label {
			case "same-payload-other-logid":
				e.res.count("seq.variant.other_logid.delivered", 1)
			case "same-logid-other-payload":
				e.res.count("seq.variant.other_payload.delivered", 1)
			case "same-logid-other-header":
				e.res.count("seq.variant.other_header.delivered", 1)
			}
		}
	}
	if bad != "" {
		exp := []int{}
		for i := range e.subs {
			if expected[i] {
				exp = append(exp, i)
			}
		}
		e.res.violation(bad, fmt.Sprintf("Dispatch(%s) [%s, expectation %s]: delivered to subscribers %v, the subscription table says %v (Dispatch returned %s)",
			m, label, mode, sortedKeys(got), exp, errStr(err)), e.witness())
		e.tainted = true
		return
	}
	if !m.attempted || !m.handled {
		if total > 0 && !m.handled {
			m.handled = true
			m.firstCall = t0
		}
	}
	m.attempted = true
}

func runSeqCase(res *childResult, seed int64, idx int, nc *nctx.NetCtx) {
	rng := rand.New(rand.NewSource(mix(seed, idx, 505)))
	valid := validSubTypes()
	rng.Shuffle(len(valid), func(i, j int) { valid[i], valid[j] = valid[j], valid[i] })
	caseTypes := valid[:2+rng.Intn(3)]
	e := &seqEnv{res: res, nc: nc, rc: &recorder{}, d: p2p.NewDispatcher(nc), stream: &recStream{}, table: map[int]bool{}, wasReg: map[int]bool{},
		caseID: fmt.Sprintf("seq seed=%d case=%d", seed, idx)}
	nSubs := 3 + rng.Intn(6)
	var shape []string
	for i := 0; i < nSubs; i++ {
		cfg := subCfg{ID: i, typ: caseTypes[rng.Intn(len(caseTypes))],
			BC:    pickW(rng, []string{"", "xuper", "hello"}, []int{40, 35, 25}),
			From:  pickW(rng, []string{"", "peerA", "peerB"}, []int{50, 30, 20}),
			Style: pickW(rng, []string{"handler", "handler-nilresp", "channel"}, []int{70, 10, 20})}
		if rng.Intn(25) == 0 {
			cfg.typ = pb.XuperMessage_MSG_TYPE_NONE
		}
		e.subs = append(e.subs, newRecSub(nc, e.rc, cfg, nil, nil))
		ti := 0
		for k, t := range caseTypes {
			if t == cfg.typ {
				ti = k + 1
			}
		}
		shape = append(shape, fmt.Sprintf("S(t%d,%s,%s,%s)", ti, cfg.BC, cfg.From, cfg.Style))
	}
	var msgs []*sentMsg
	byIdentity := map[string]*sentMsg{}
	// a derived message that coincides with an earlier one IS that message (a repeat)
	newMsg := func(typ pb.XuperMessage_MessageType, bc, from, logid string, payload int, deriv string) *sentMsg {
		key := fmt.Sprintf("%d|%q|%q|%q|%d", typ, bc, from, logid, payload)
		if old, ok := byIdentity[key]; ok {
			return old
		}
		m := &sentMsg{id: len(msgs), typ: typ, bc: bc, from: from, logid: logid, payload: payload, derivation: deriv}
		m.msg = buildMsg(typ, bc, from, logid, payload, rng.Intn(2) == 0)
		msgs = append(msgs, m)
		byIdentity[key] = m
		return m
	}
	variant := func(m *sentMsg, label string) {
		if m.attempted {
			label = "repeat"
		}
		e.dispatch(m, m.msg, label, e.stream)
	}
	fresh := func() *sentMsg {
		typ := caseTypes[rng.Intn(len(caseTypes))]
		if rng.Intn(12) == 0 {
			typ = valid[rng.Intn(len(valid))]
		}
		return newMsg(typ, pickW(rng, []string{"xuper", "hello", "other"}, []int{50, 35, 15}),
			pickW(rng, []string{"peerA", "peerB", "peerC", ""}, []int{40, 30, 20, 10}),
			fmt.Sprintf("c%d-m%d-%d", idx, len(msgs), rng.Int31()), rng.Intn(2), "")
	}
	nOps := 12 + rng.Intn(30)
	// start with a few registrations so that dispatches have somebody to reach
	for i := 0; i < nSubs; i++ {
		if rng.Intn(3) > 0 {
			e.register(i)
			shape = append(shape, "R")
		}
	}
	for k := 0; k < nOps && !e.tainted; k++ {
		kind := pickW(rng, []string{"reg", "unreg", "dispatch", "repeat", "other-logid", "other-payload", "other-header", "invalid"},
			[]int{20, 13, 35, 10, 6, 6, 5, 5})
		if len(msgs) == 0 && (kind == "repeat" || strings.HasPrefix(kind, "other-")) {
			kind = "dispatch"
		}
		shape = append(shape, kind)
		switch kind {
		case "reg":
			e.register(rng.Intn(nSubs))
		case "unreg":
			e.unregister(rng.Intn(nSubs))
		case "dispatch":
			m := fresh()
			e.dispatch(m, m.msg, "fresh-message", e.stream)
		case "repeat":
			m := msgs[rng.Intn(len(msgs))]
			msg := m.msg
			switch rng.Intn(3) {
			case 1:
				msg = proto.Clone(m.msg).(*pb.XuperMessage)
			case 2:
				if w, _, err := wire(m.msg); err == nil {
					msg = w
				}
			}
			e.dispatch(m, msg, "repeat", e.stream)
		case "other-logid":
			o := msgs[rng.Intn(len(msgs))]
			m := newMsg(o.typ, o.bc, o.from, fmt.Sprintf("%s-v%d", o.logid, len(msgs)), o.payload, fmt.Sprintf(" = m%d with another log id", o.id))
			variant(m, "same-payload-other-logid")
		case "other-payload":
			o := msgs[rng.Intn(len(msgs))]
			m := newMsg(o.typ, o.bc, o.from, o.logid, 100+len(msgs), fmt.Sprintf(" = m%d with another payload", o.id))
			variant(m, "same-logid-other-payload")
		case "other-header":
			o := msgs[rng.Intn(len(msgs))]
			typ, bc, from := o.typ, o.bc, o.from
			switch rng.Intn(3) {
			case 0:
				for _, t := range caseTypes {
					if t != typ {
						typ = t
						break
					}
				}
			case 1:
				bc = map[string]string{"xuper": "hello", "hello": "xuper", "other": "xuper"}[bc]
			default:
				from = map[string]string{"peerA": "peerB", "peerB": "peerA", "peerC": "peerA", "": "peerA"}[from]
			}
			m := newMsg(typ, bc, from, o.logid, o.payload, fmt.Sprintf(" = m%d with another type/chain/sender", o.id))
			variant(m, "same-logid-other-header")
		case "invalid":
			var bad *pb.XuperMessage
			what := "nil message"
			var st p2p.Stream = e.stream
			switch rng.Intn(4) {
			case 1:
				bad, what = &pb.XuperMessage{Data: &pb.XuperMessage_MessageData{}}, "no header"
			case 2:
				bad, what = &pb.XuperMessage{Header: &pb.XuperMessage_MessageHeader{Type: caseTypes[0], Logid: "x"}}, "no data"
			case 3:
				// a well-formed message but no stream to answer on: must not be delivered and must not be remembered
				m := fresh()
				e.dispatch(m, m.msg, "nil-stream", nil)
				if !e.tainted {
					e.dispatch(m, m.msg, "fresh-message", e.stream)
				}
				continue
			}
			err, pn := safeDispatch(e.d, bad, st)
			n := 0
			for _, s := range e.subs {
				s.drain(e.rc)
				n += len(s.take())
			}
			e.oplog = append(e.oplog, fmt.Sprintf("Dispatch(%s) -> %s, %d deliveries", what, errStr(err), n))
			e.res.count("seq.op.dispatch.invalid", 1)
			if pn != nil {
				e.res.violation("dispatch|seq|panic|Dispatch-invalid-input", fmt.Sprintf("Dispatch(%s) panicked: %v", what, pn), e.witness())
				e.tainted = true
			} else if n > 0 {
				e.res.violation("dispatch|seq|delivered-invalid-message", fmt.Sprintf("Dispatch(%s) delivered something", what), e.witness())
				e.tainted = true
			}
		}
	}
	res.count("seq.cases", 1)
	res.count("seq.responses_sent", int(e.stream.sends))
	nt := e.deliveries > 0 && e.filteredOrDropped > 0
	res.Cases = append(res.Cases, caseRec{shapeHash("seq", strings.Join(shape, " ")), nt})
	if idx%97 == 0 {
		res.sample(map[string]interface{}{"part": "dispatcher-sequential", "case": e.witness()})
	}
}

// runCollisionProbes dispatches pairs of DISTINCT messages (they differ in type, chain or sender,
// each has its own matching subscriber) whose header fields, written one after the other without
// separators, give the same string. The second message is not a repeat of the first, so it must
// reach its subscriber.
func runCollisionProbes(res *childResult, seed int64, nc *nctx.NetCtx) {
	rng := rand.New(rand.NewSource(mix(seed, 0, 606)))
	type half struct {
		typ             pb.XuperMessage_MessageType
		bc, from, logid string
	}
	for k := 0; k < 12; k++ {
		x := asciiString(rng, 3+rng.Intn(4))
		y := asciiString(rng, 2+rng.Intn(3))
		lg := fmt.Sprintf("probe%d_%d", k, rng.Int31())
		var a, b half
		var what string
		var fa, fb subCfg
		switch k % 3 {
		case 0: // chain | sender boundary
			a = half{pb.XuperMessage_POSTTX, "xuper", y + x, lg}
			b = half{pb.XuperMessage_POSTTX, "xuper" + y, x, lg}
			fa, fb = subCfg{typ: a.typ, BC: a.bc}, subCfg{typ: b.typ, BC: b.bc}
			what = "chain|sender boundary"
		case 1: // sender | log id boundary
			a = half{pb.XuperMessage_SENDBLOCK, "xuper", "peer" + x, y + lg}
			b = half{pb.XuperMessage_SENDBLOCK, "xuper", "peer" + x + y, lg}
			fa, fb = subCfg{typ: a.typ, From: a.from}, subCfg{typ: b.typ, From: b.from}
			what = "sender|logid boundary"
		default: // type name | chain boundary
			a = half{pb.XuperMessage_GET_BLOCK, "_RES" + x, "peerA", lg}
			b = half{pb.XuperMessage_GET_BLOCK_RES, x, "peerA", lg}
			fa, fb = subCfg{typ: a.typ}, subCfg{typ: b.typ}
			what = "type|chain boundary"
		}
		for _, order := range []string{"AB", "BA"} {
			e := &seqEnv{res: res, nc: nc, rc: &recorder{}, d: p2p.NewDispatcher(nc), stream: &recStream{}, table: map[int]bool{}, wasReg: map[int]bool{},
				caseID: fmt.Sprintf("collision probe %d (%s, order %s)", k, what, order)}
			fa.ID, fb.ID = 0, 1
			fa.Style, fb.Style = "handler", "handler"
			e.subs = []*recSub{newRecSub(nc, e.rc, fa, nil, nil), newRecSub(nc, e.rc, fb, nil, nil)}
			e.register(0)
			e.register(1)
			ma := &sentMsg{id: 0, typ: a.typ, bc: a.bc, from: a.from, logid: a.logid, payload: 7, msg: buildMsg(a.typ, a.bc, a.from, a.logid, 7, false)}
			mb := &sentMsg{id: 1, typ: b.typ, bc: b.bc, from: b.from, logid: b.logid, payload: 7, msg: buildMsg(b.typ, b.bc, b.from, b.logid, 7, true)}
			first, second := ma, mb
			if order == "BA" {
				first, second = mb, ma
			}
			e.dispatch(first, first.msg, "fresh-message", e.stream)
			if e.tainted {
				continue
			}
			t0 := time.Now()
			err, pn := safeDispatch(e.d, second.msg, e.stream)
			n := map[int]int{}
			reached := map[int]int{}
			for i, s := range e.subs {
				n[i] = len(s.take())
				if n[i] > 0 {
					reached[i] = n[i]
				}
			}
			e.oplog = append(e.oplog, fmt.Sprintf("Dispatch(%s) [distinct message, same field concatenation] -> %s, delivered to %v", second, errStr(err), sortedKeys(reached)))
			res.count("seq.collision_probe.checked", 1)
			res.Cases = append(res.Cases, caseRec{fmt.Sprintf("collision|%s|%s", what, order), true})
			_ = t0
			want := second.id
			switch {
			case pn != nil:
				res.violation("dispatch|seq|panic|Dispatch", fmt.Sprintf("Dispatch panicked: %v", pn), e.witness())
			case n[want] == 0 && n[1-want] == 0:
				// control: the same message under a log id that gives another concatenation must get through
				// (otherwise the loss has nothing to do with the key and is reported by the generic check)
				for c := 0; c < 6 && !e.tainted; c++ {
					ctl := &sentMsg{id: 2 + c, typ: second.typ, bc: second.bc, from: second.from, logid: fmt.Sprintf("%s-control%d", second.logid, c), payload: 7, derivation: " = control"}
					ctl.msg = buildMsg(ctl.typ, ctl.bc, ctl.from, ctl.logid, 7, false)
					e.dispatch(ctl, ctl.msg, "fresh-message", e.stream)
				}
				if e.tainted {
					continue
				}
				res.violation("dispatch|dedup|distinct-message-dropped|header-fields-concatenate-to-same-key",
					fmt.Sprintf("two distinct messages (%s) whose type+chain+sender+logid+checksum strings concatenate identically: after %s was handled, %s was dropped as a repeat although it differs in a filtered header field and its subscriber s%d never saw it",
						what, first, second, want), e.witness())
			case n[want] != 1 || n[1-want] != 0:
				res.violation("dispatch|seq|collision-probe-wrong-delivery", fmt.Sprintf("deliveries %v, expected exactly one to s%d", n, want), e.witness())
			}
		}
	}
}
