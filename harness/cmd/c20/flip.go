package main

import (
	"bytes"
	"fmt"
	"math/rand"
	"sort"
	"sync"

	"github.com/golang/protobuf/proto"
	"github.com/xuperchain/xupercore/kernel/network/p2p"
	pb "github.com/xuperchain/xupercore/protos"
)

// runCorruptionPart is executed in a child process (single-threaded: under the race detector
// parallel goroutines reading the same globals of hash/crc32 slow each other down 30x); it
// handles the units whose index is congruent to part modulo parts.
func runCorruptionPart(r *childResult, seed int64, quick bool, part, parts int) {
	types := allMsgTypes()
	var targets []flipTarget
	var large []flipTarget
	instances := 1
	if !quick {
		instances = 5 // thorough: five independent instances of every payload class
	}
	specs := payloadSpecs()
	for k := 0; k < instances*len(specs); k++ {
		si, sp := k, specs[k%len(specs)]
		if sp.empty {
			continue // no encoded bits to corrupt
		}
		if sp.size != "" && k >= len(specs) {
			continue // one instance of the large ones
		}
		rng := rand.New(rand.NewSource(mix(seed, si, 202)))
		ov := chooseOpts(rng, rng.Intn(16))
		msg := p2p.NewMessage(types[rng.Intn(len(types))], sp.build(rng), ov.opts(rng)...)
		if rng.Intn(2) == 0 {
			if w, _, err := wire(msg); err == nil {
				msg = w
			}
		}
		t := flipTarget{class: sp.class, msg: msg, fresh: sp.fresh, nbits: 8 * len(msg.GetData().GetMsgInfo())}
		if !p2p.VerifyChecksum(msg) {
			continue // reported by the round-trip part
		}
		if sp.size != "" {
			large = append(large, t)
		} else {
			targets = append(targets, t)
		}
	}
	maxPat := 64
	if !quick {
		maxPat = 256
	}
	type unit struct {
		t flipTarget
		L int
	}
	var units []unit
	for _, t := range targets {
		for L := 1; L <= 32; L++ {
			if L <= t.nbits {
				units = append(units, unit{t, L})
			}
		}
	}
	// single-bit flips first (cheapest, and the first thing a weak checksum fails), then biggest first for load balance
	sort.SliceStable(units, func(i, j int) bool {
		if (units[i].L == 1) != (units[j].L == 1) {
			return units[i].L == 1
		}
		return units[i].t.nbits > units[j].t.nbits
	})
	if part == 0 {
		logf("corruption: %d small targets, %d (target,length) units, %d large targets, %d processes", len(targets), len(units), len(large), parts)
	}
	var totalBits int64
	for _, t := range targets {
		totalBits += int64(t.nbits)
	}
	if part == 0 {
		r.count("codec.flip.exhaustive_targets", len(targets))
		r.count("codec.flip.exhaustive_target_bits", int(totalBits))
	}

	var vioMu sync.Mutex
	vioSeen := map[string]int{}
	report := func(kind, fail string, t flipTarget, start, L int, pat uint32, viaWire bool) {
		sig := "codec|corruption|" + kind + "|" + fail
		vioMu.Lock()
		vioSeen[sig]++
		n := vioSeen[sig]
		vioMu.Unlock()
		if n > 1 {
			return
		}
		r.violation(sig, fmt.Sprintf("%s of the encoded payload not detected (%s): payload class %s, encoded length %d B, first bit %d, length %d bits, pattern %#x (LSB first), via wire bytes=%v",
			kind, fail, t.class, t.nbits/8, start, L, pat, viaWire),
			map[string]interface{}{"payload_class": t.class, "encoded_len": t.nbits / 8, "start_bit": start, "length_bits": L, "pattern_lsb_first": pat,
				"header": t.msg.GetHeader().String(), "msginfo_hex_prefix": fmt.Sprintf("%x", clipBytes(t.msg.GetData().GetMsgInfo(), 64))})
	}

	parallel(len(units), func(ui int) {
		if ui%parts != part || r.numViolations() > 0 {
			return // after the first undetected corruption the rest of this child's units add nothing
		}
		defer r.save(*fOut)
		u := units[ui]
		rng := rand.New(rand.NewSource(mix(seed, ui, 303)))
		m := proto.Clone(u.t.msg).(*pb.XuperMessage)
		buf := m.Data.MsgInfo
		scratch := u.t.fresh()
		var st flipStats
		kind := "single-bit-flip"
		if u.L > 1 {
			kind = "burst"
		}
		var wireBytes []byte
		wireOff := -1
		if u.L == 1 {
			if _, wb, err := wire(u.t.msg); err == nil {
				wireBytes = wb
				wireOff = bytes.LastIndex(wb, u.t.msg.Data.MsgInfo)
			}
		}
		var wireChecked int64
		func() {
			defer func() {
				if p := recover(); p != nil {
					r.violation("codec|panic|Unmarshal-of-corrupted", fmt.Sprintf("panic while decoding a corrupted %s payload: %v", u.t.class, p), u.t.class)
				}
			}()
			for s := 0; s+u.L <= u.t.nbits && r.numViolations() == 0; s++ {
				for _, pat := range burstPatterns(rng, u.L, maxPat) {
					xorBurst(buf, s, pat)
					fail := checkCorrupted(m, scratch, &st)
					xorBurst(buf, s, pat)
					if fail != "" {
						report(kind, fail, u.t, s, u.L, pat, false)
					}
				}
				// the same flip applied to the bytes on the wire (1 position in 4)
				if u.L == 1 && wireOff >= 0 && s%4 == 0 {
					wb := append([]byte(nil), wireBytes...)
					wb[wireOff+s/8] ^= 1 << uint(s%8)
					var rm pb.XuperMessage
					if proto.Unmarshal(wb, &rm) == nil {
						wireChecked++
						if fail := checkCorrupted(&rm, scratch, &st); fail != "" {
							report(kind, fail, u.t, s, 1, 1, true)
						}
					}
				}
			}
		}()
		if !p2p.VerifyChecksum(m) {
			r.inconclusive("harness error: target not restored after corruption loop")
		}
		r.evals(st.evals)
		if u.L == 1 {
			r.count("codec.flip.single", int(st.evals-wireChecked))
			r.count("codec.flip.single_on_wire_bytes", int(wireChecked))
		} else {
			r.count("codec.flip.burst", int(st.evals))
		}
		r.count("codec.flip.detected_by_other_error", int(st.otherErr))
		r.shape(fmt.Sprintf("flip|%s|L=%d", u.t.class, u.L))
		if ui == len(units)/2 || ui == 3 {
			r.sample(map[string]interface{}{"part": "corruption", "payload_class": u.t.class, "encoded_len": u.t.nbits / 8, "burst_length_bits": u.L,
				"corrupted_encodings_checked": st.evals, "all_rejected": true})
		}
	})

	// large payloads: sampled positions
	nSingle, nBurst := 20000, 20000
	if quick {
		nSingle, nBurst = 800, 800
	}
	type lunit struct {
		t     flipTarget
		chunk int
	}
	var lunits []lunit
	chunks := 8
	for _, t := range large {
		for c := 0; c < chunks; c++ {
			lunits = append(lunits, lunit{t, c})
		}
	}
	parallel(len(lunits), func(ui int) {
		if ui%parts != part || r.numViolations() > 0 {
			return
		}
		defer r.save(*fOut)
		u := lunits[ui]
		rng := rand.New(rand.NewSource(mix(seed, ui, 404)))
		m := proto.Clone(u.t.msg).(*pb.XuperMessage)
		buf := m.Data.MsgInfo
		scratch := u.t.fresh()
		var st flipStats
		for k := 0; k < nSingle/chunks; k++ {
			s := rng.Intn(u.t.nbits)
			xorBurst(buf, s, 1)
			fail := checkCorrupted(m, scratch, &st)
			xorBurst(buf, s, 1)
			if fail != "" {
				report("single-bit-flip", fail, u.t, s, 1, 1, false)
			}
		}
		for k := 0; k < nBurst/chunks; k++ {
			L := 2 + rng.Intn(31)
			s := rng.Intn(u.t.nbits - L)
			pat := burstPatterns(rng, L, 1)[0]
			xorBurst(buf, s, pat)
			fail := checkCorrupted(m, scratch, &st)
			xorBurst(buf, s, pat)
			if fail != "" {
				report("burst", fail, u.t, s, L, pat, false)
			}
		}
		r.evals(st.evals)
		r.count("codec.flip.large_sampled", int(st.evals))
		r.count("codec.flip.detected_by_other_error", int(st.otherErr))
		r.shape(fmt.Sprintf("flip-sampled|%s", u.t.class))
	})
}
