// C20: p2p messages decode to what was sent, corruption is detected, dispatch is exact.
//
// Parent process: codec part (round trips, exhaustive bit flips / bursts, request->response
// type map) and orchestration of the dispatcher children. Child processes (this binary
// re-executed with -child ...): the sequential dispatcher model check and the concurrent
// Register / UnRegister / Dispatch stress under the race detector. A child can die with the
// runtime fatal error "concurrent map read and map write", which recover() cannot catch, so
// everything that touches the dispatcher runs in a child and results travel through files.
package main

import (
	"flag"
	"fmt"
	"io/ioutil"
	"os"
	"path/filepath"
	"strings"
	"time"

	"verif/ev"
)

var (
	fChild    = flag.String("child", "", "internal: child mode (dispatch-seq | dispatch-stress)")
	fN        = flag.Int("n", 0, "internal: child case index")
	fOut      = flag.String("out", "", "internal: child result file")
	fProgress = flag.String("progress", "", "internal: child progress file")
	fSeed     = flag.Int64("seed", 1, "internal: run seed")
	fFrom     = flag.Int("from", 0, "internal: first unit of the child")
	fTo       = flag.Int("to", 0, "internal: one past the last unit of the child")
	fTier     = flag.String("ctier", "quick", "internal: tier of the child")
)

func main() {
	for _, a := range os.Args[1:] {
		if a == "-child" || a == "--child" || strings.HasPrefix(a, "-child=") || strings.HasPrefix(a, "--child=") {
			flag.Parse()
			childMain()
			return
		}
	}
	parentMain()
}

func logf(format string, a ...interface{}) { fmt.Fprintf(os.Stderr, "c20: "+format+"\n", a...) }

func parentMain() {
	r := ev.Start("C20", "exploration",
		"codec: every message type x every subset of the four message options x payload classes (empty, tiny, incompressible, compressible, "+
			"nested, block-like, 64 kB, 4 MB), decoded in process and after a wire round trip; every single-bit flip and every burst start x "+
			"length 2..32 x up to 64 patterns (first and last bit set) of the encoded payload for payloads <= 2 kB, sampled positions for large ones; "+
			"the request->response map against the _RES enum names. dispatcher: seeded op sequences (register / unregister / dispatch / repeat / "+
			"same header other payload / same payload other log id / invalid input) against a subscription-table model, and free-running rounds of "+
			"2-8 goroutines doing Register / UnRegister / Dispatch on a fresh dispatcher under -race in child processes, checked offline "+
			"(registered throughout -> exactly once, overlapping -> at most once, unregistered before -> never). Misbehaving neighbours: healthy "+
			"subscribers next to channel subscribers with a small channel whose consumer is stuck or drains late, to handlers that fail or are slow, "+
			"to a stream that refuses responses - fresh messages and repeats (same sender, same id), sequentially and inside the concurrent rounds; "+
			"a healthy matching subscriber gets each message exactly once and never a repeat, the stuck consumer's own copy is not judged. A case is distinct by "+
			"(type, option subset, payload class, stage) / (payload class, corruption kind, burst length) / op-kind sequence + subscriber filters / "+
			"round configuration; non-trivial = non-empty payload, >= 1 corrupted encoding checked, >= 1 delivery and >= 1 filtered-out or dropped "+
			"dispatch, >= 1 dispatch overlapping a (un)registration.")
	base := os.Getenv("VERIF_SCRATCH")
	if base == "" {
		base = os.TempDir()
	}
	scratch, err := ioutil.TempDir(base, "verif-c20-")
	if err != nil {
		r.Inconclusive("cannot create scratch directory: " + err.Error())
		r.Finish()
	}
	keep := os.Getenv("VERIF_KEEP_SCRATCH") != ""

	// dispatcher children first (they want the cores for real parallelism), codec afterwards
	t0 := time.Now()
	runDispatcherChildren(r, scratch)
	t1 := time.Now()
	runTypeMap(r)
	runRoundTrips(r)
	t2 := time.Now()
	runCorruptionChildren(r, scratch)
	logf("phases: dispatcher %.1fs, round trips %.1fs, corruption %.1fs", t1.Sub(t0).Seconds(), t2.Sub(t1).Seconds(), time.Since(t2).Seconds())

	r.Floor("codec.roundtrip.inproc", 3000)
	r.Floor("codec.roundtrip.wire", 3000)
	r.Floor("codec.roundtrip.empty_payload", 100)
	r.Floor("codec.roundtrip.4MB", 4)
	r.Floor("codec.flip.single", 20000)
	r.Floor("codec.flip.burst", 1000000)
	r.Floor("codec.flip.large_sampled", 1000)
	r.Floor("codec.typemap.res_pairs", 8)
	r.Floor("seq.cases", 100)
	r.Floor("seq.delivery.checked", 500)
	r.Floor("seq.filtered_out.chain", 50)
	r.Floor("seq.filtered_out.sender", 50)
	r.Floor("seq.filtered_out.type", 50)
	r.Floor("seq.repeat.dropped", 50)
	r.Floor("seq.after_unregister.checked", 50)
	r.Floor("seq.variant.other_logid.delivered", 20)
	r.Floor("seq.variant.other_payload.delivered", 20)
	r.Floor("nb.seq.trials.blocked", 8)
	r.Floor("nb.seq.full_channel_dispatches", 10)
	r.Floor("nb.seq.healthy_exactly_once.next_to_full_channel", 10)
	r.Floor("nb.seq.repeat_after_blocked_neighbour.dropped", 10)
	r.Floor("nb.seq.repeat_after_failed_neighbour.dropped", 16)
	r.Floor("nb.conc.rounds.never_drained", 4)
	r.Floor("nb.conc.rounds.late_drain", 100)
	r.Floor("nb.conc.healthy_exactly_once.next_to_full_channel", 8)
	r.Floor("nb.conc.repeat_after_blocked_neighbour.checked", 6)
	r.Floor("stress.rounds", 50)
	r.Floor("stress.dispatch_overlapping_churn", 200)
	r.Floor("stress.newtype_register_overlapping_dispatch", 50)
	r.Floor("stress.exactly_once.checked", 1000)
	r.Floor("stress.at_most_once.checked", 100)
	r.Floor("stress.never.checked", 500)
	r.Floor("stress.repeat.checked", 50)

	r.Assume("bit order inside a byte for bursts is least-significant-bit first (the serial order CRC-32/IEEE 802.3 is defined on); every error pattern confined to <= 4 consecutive bytes is included in either convention")
	r.Assume("'receiver' = proto.Unmarshal(proto.Marshal(message)) of the XuperMessage envelope followed by p2p.Unmarshal; protobuf itself is trusted")
	r.Assume("the race detector only reports races on the interleavings that were executed; absence of a report is not absence of a race")
	r.Assume("a repeat is checked only when the measured monotonic gap to the first dispatch was <= 2 s (window is 3 s of wall clock inside /repo)")
	r.Assume("misbehaving-neighbour part: the de-duplication window of a message is taken to begin no earlier than the return of the first Dispatch of it (the hand-over may have waited for a slow consumer); a repeat is judged only when it was handed over <= 1 s after that return")
	r.Assume("a dispatch that meets a full channel may wait as long as the implementation likes (3 s timeout in /repo, never reached there): such dispatches are few by construction and no verdict reads a clock")
	if !keep {
		os.RemoveAll(scratch)
	} else {
		logf("scratch kept: %s", scratch)
	}
	_ = filepath.Join
	r.Finish()
}
