package main

import (
	"fmt"
	"math/rand"
	"runtime"
	"sort"
	"sync"
	"sync/atomic"

	"github.com/golang/protobuf/proto"
	lpb "github.com/xuperchain/xupercore/bcs/ledger/xledger/xldgpb"
	"github.com/xuperchain/xupercore/kernel/engines/xuperos/xpb"
	"github.com/xuperchain/xupercore/kernel/network/p2p"
	pb "github.com/xuperchain/xupercore/protos"

	"verif/ev"
)

// ---------------------------------------------------------------------------------------
// enumerations taken from the generated protobuf tables (not from message.go)

func allMsgTypes() []pb.XuperMessage_MessageType {
	var ts []pb.XuperMessage_MessageType
	for v := range pb.XuperMessage_MessageType_name {
		ts = append(ts, pb.XuperMessage_MessageType(v))
	}
	sort.Slice(ts, func(i, j int) bool { return ts[i] < ts[j] })
	return ts
}

func allErrTypes() []pb.XuperMessage_ErrorType {
	var ts []pb.XuperMessage_ErrorType
	for v := range pb.XuperMessage_ErrorType_name {
		ts = append(ts, pb.XuperMessage_ErrorType(v))
	}
	sort.Slice(ts, func(i, j int) bool { return ts[i] < ts[j] })
	return ts
}

func mix(seed int64, idx int, salt int64) int64 {
	x := uint64(seed)*0x9E3779B97F4A7C15 + uint64(idx)*0xBF58476D1CE4E5B9 + uint64(salt)*0x94D049BB133111EB
	x ^= x >> 31
	x *= 0xD6E8FEB86659FD93
	x ^= x >> 29
	return int64(x & 0x7fffffffffffffff)
}

// ---------------------------------------------------------------------------------------
// payload classes

type payloadSpec struct {
	class string
	size  string // "", "64k", "4M" for the large ones
	empty bool
	build func(rng *rand.Rand) proto.Message
	fresh func() proto.Message
}

func randBytes(rng *rand.Rand, n int) []byte {
	b := make([]byte, n)
	rng.Read(b)
	return b
}

func compressibleBytes(rng *rand.Rand, n int) []byte {
	unit := randBytes(rng, 8+rng.Intn(24))
	b := make([]byte, 0, n+len(unit))
	for len(b) < n {
		b = append(b, unit...)
		if rng.Intn(6) == 0 {
			b = append(b, byte(rng.Intn(256)))
		}
	}
	return b[:n]
}

func asciiString(rng *rand.Rand, n int) string {
	const al = "abcdefghijklmnopqrstuvwxyz0123456789/.:"
	b := make([]byte, n)
	for i := range b {
		b[i] = al[rng.Intn(len(al))]
	}
	return string(b)
}

func buildBlock(rng *rand.Rand) proto.Message {
	blk := &lpb.InternalBlock{Version: 1, Nonce: int32(rng.Intn(1000)), Blockid: randBytes(rng, 32), PreHash: randBytes(rng, 32),
		Proposer: []byte("TeyyPLpp9L7QAcxHangtcHTu7HUZ6iydY"), Sign: randBytes(rng, 70), Pubkey: []byte(`{"Curvname":"P-256","X":1,"Y":2}`),
		MerkleRoot: randBytes(rng, 32), Height: int64(rng.Intn(100000)), Timestamp: 1600000000000000000 + int64(rng.Intn(1000000)),
		TxCount: 3, CurTerm: 1, CurBlockNum: 2, FailedTxs: map[string]string{"ab": "reason"}, InTrunk: true}
	for i := 0; i < 3; i++ {
		tx := &lpb.Transaction{Txid: randBytes(rng, 32), Desc: []byte("transfer from miner"), Nonce: asciiString(rng, 12),
			Timestamp: int64(rng.Intn(1 << 30)), Version: 3, Initiator: "TeyyPLpp9L7QAcxHangtcHTu7HUZ6iydY", Coinbase: i == 0,
			AuthRequire: []string{"TeyyPLpp9L7QAcxHangtcHTu7HUZ6iydY"}}
		tx.TxOutputs = append(tx.TxOutputs, &pb.TxOutput{Amount: randBytes(rng, 1+rng.Intn(9)), ToAddr: []byte("WNWk3ekXeM5M2232dY2uCJmEqWhfQiDYT")})
		if i > 0 {
			tx.TxInputs = append(tx.TxInputs, &pb.TxInput{RefTxid: randBytes(rng, 32), RefOffset: int32(rng.Intn(3)), FromAddr: []byte("TeyyPLpp9L7QAcxHangtcHTu7HUZ6iydY"), Amount: randBytes(rng, 4)})
		}
		blk.Transactions = append(blk.Transactions, tx)
		blk.MerkleTree = append(blk.MerkleTree, randBytes(rng, 32))
	}
	return blk
}

func buildPeerInfo(rng *rand.Rand) proto.Message {
	p := &pb.PeerInfo{Id: "QmVxeNubpg1ZQjQT8W5yZC9fD7ZB1ViArwvyGUB53sqf8e", Address: "/ip4/127.0.0.1/tcp/47101", Account: "TeyyPLpp9L7QAcxHangtcHTu7HUZ6iydY"}
	for i := 0; i < 20; i++ {
		p.Peer = append(p.Peer, &pb.PeerInfo{Id: "QmVxeNubpg1ZQjQT8W5yZC9fD7ZB1ViArwvyGUB53sqf8e", Address: fmt.Sprintf("/ip4/10.0.0.%d/tcp/47101", rng.Intn(250)), Account: asciiString(rng, 8)})
	}
	return p
}

func blockIDSpec(class, size string, n int, compressible bool) payloadSpec {
	return payloadSpec{class: class, size: size,
		build: func(rng *rand.Rand) proto.Message {
			var b []byte
			if compressible {
				b = compressibleBytes(rng, n)
			} else {
				b = randBytes(rng, n)
			}
			return &xpb.BlockID{Bcname: "xuper", Blockid: b, NeedContent: rng.Intn(2) == 0}
		},
		fresh: func() proto.Message { return &xpb.BlockID{} }}
}

func payloadSpecs() []payloadSpec {
	return []payloadSpec{
		{class: "empty/BlockID{}", empty: true, build: func(*rand.Rand) proto.Message { return &xpb.BlockID{} }, fresh: func() proto.Message { return &xpb.BlockID{} }},
		{class: "empty/TipStatus{false}", empty: true, build: func(*rand.Rand) proto.Message { return &xpb.TipStatus{IsTrunkTip: false} }, fresh: func() proto.Message { return &xpb.TipStatus{} }},
		{class: "empty/PeerInfo{}", empty: true, build: func(*rand.Rand) proto.Message { return &pb.PeerInfo{} }, fresh: func() proto.Message { return &pb.PeerInfo{} }},
		{class: "tiny/TipStatus{true}", build: func(*rand.Rand) proto.Message { return &xpb.TipStatus{IsTrunkTip: true} }, fresh: func() proto.Message { return &xpb.TipStatus{} }},
		{class: "tiny/BlockID{1B}", build: func(rng *rand.Rand) proto.Message { return &xpb.BlockID{Blockid: randBytes(rng, 1)} }, fresh: func() proto.Message { return &xpb.BlockID{} }},
		blockIDSpec("small/32B", "", 32, false),
		blockIDSpec("incompressible/1kB", "", 1000, false),
		blockIDSpec("incompressible/2kB", "", 2000, false),
		blockIDSpec("compressible/2kB", "", 2000, true),
		// strictly periodic data: the compressed form has back-references whose offset can change without changing the decoded bytes
		{class: "periodic8/2kB", build: func(rng *rand.Rand) proto.Message {
			unit := randBytes(rng, 8)
			b := make([]byte, 0, 2000)
			for len(b) < 2000 {
				b = append(b, unit...)
			}
			return &xpb.BlockID{Blockid: b}
		}, fresh: func() proto.Message { return &xpb.BlockID{} }},
		{class: "zeros/2kB", build: func(rng *rand.Rand) proto.Message { return &xpb.BlockID{Blockid: make([]byte, 2000)} },
			fresh: func() proto.Message { return &xpb.BlockID{} }},
		{class: "nested/PeerInfo", build: buildPeerInfo, fresh: func() proto.Message { return &pb.PeerInfo{} }},
		{class: "block/InternalBlock", build: buildBlock, fresh: func() proto.Message { return &lpb.InternalBlock{} }},
		{class: "envelope/XuperMessage", build: func(rng *rand.Rand) proto.Message {
			return p2p.NewMessage(pb.XuperMessage_POSTTX, &xpb.BlockID{Blockid: randBytes(rng, 100)}, p2p.WithLogId(asciiString(rng, 10)))
		}, fresh: func() proto.Message { return &pb.XuperMessage{} }},
		blockIDSpec("incompressible/64kB", "64k", 64<<10, false),
		blockIDSpec("compressible/64kB", "64k", 64<<10, true),
		blockIDSpec("incompressible/4MB", "4M", 4<<20, false),
		blockIDSpec("compressible/4MB", "4M", 4<<20, true),
	}
}

// ---------------------------------------------------------------------------------------
// options

const (
	optBC = 1 << iota
	optLogID
	optVersion
	optErrType
)

type optVals struct {
	mask    int
	bc      string
	logid   string
	version string
	errType pb.XuperMessage_ErrorType
}

func (o optVals) String() string {
	s := ""
	if o.mask&optBC != 0 {
		s += fmt.Sprintf("WithBCName(%q) ", o.bc)
	}
	if o.mask&optLogID != 0 {
		s += fmt.Sprintf("WithLogId(%q) ", o.logid)
	}
	if o.mask&optVersion != 0 {
		s += fmt.Sprintf("WithVersion(%q) ", o.version)
	}
	if o.mask&optErrType != 0 {
		s += fmt.Sprintf("WithErrorType(%v) ", o.errType)
	}
	if s == "" {
		return "(no options)"
	}
	return s
}

func chooseOpts(rng *rand.Rand, mask int) optVals {
	bcs := []string{"xuper", "hello", "", "chain-Ω", "a/very/long/chain/name/0123456789"}
	vers := []string{p2p.MessageVersion1, p2p.MessageVersion2, p2p.MessageVersion3, "9.9.9", ""}
	ets := allErrTypes()
	return optVals{mask: mask, bc: bcs[rng.Intn(len(bcs))], logid: fmt.Sprintf("%d_%s", rng.Int63(), asciiString(rng, 6)),
		version: vers[rng.Intn(len(vers))], errType: ets[rng.Intn(len(ets))]}
}

func (o optVals) opts(rng *rand.Rand) []p2p.MessageOption {
	var os []p2p.MessageOption
	if o.mask&optBC != 0 {
		os = append(os, p2p.WithBCName(o.bc))
	}
	if o.mask&optLogID != 0 {
		os = append(os, p2p.WithLogId(o.logid))
	}
	if o.mask&optVersion != 0 {
		os = append(os, p2p.WithVersion(o.version))
	}
	if o.mask&optErrType != 0 {
		os = append(os, p2p.WithErrorType(o.errType))
	}
	rng.Shuffle(len(os), func(i, j int) { os[i], os[j] = os[j], os[i] })
	return os
}

// wire passes a message through the envelope encoding, as the receiving transport does.
func wire(m *pb.XuperMessage) (*pb.XuperMessage, []byte, error) {
	b, err := proto.Marshal(m)
	if err != nil {
		return nil, nil, err
	}
	var out pb.XuperMessage
	if err := proto.Unmarshal(b, &out); err != nil {
		return nil, b, err
	}
	return &out, b, nil
}

func errClass(err error) string {
	switch err {
	case nil:
		return "ok"
	case p2p.ErrMessageChecksum:
		return "checksum-rejected"
	case p2p.ErrMessageDecompress:
		return "decompress-error"
	case p2p.ErrMessageUnmarshal:
		return "unmarshal-error"
	}
	return "other-error"
}

// parallel runs fn(i) for i in [0,n) on all cores.
func parallel(n int, fn func(i int)) {
	w := runtime.GOMAXPROCS(0)
	if w > n {
		w = n
	}
	var next int64 = -1
	var wg sync.WaitGroup
	for k := 0; k < w; k++ {
		wg.Add(1)
		go func() {
			defer wg.Done()
			for {
				i := int(atomic.AddInt64(&next, 1))
				if i >= n {
					return
				}
				fn(i)
			}
		}()
	}
	wg.Wait()
}

// guarded runs fn and converts a panic of the code under test into a violation.
func guarded(r *ev.Run, what string, witness func() interface{}, fn func()) {
	defer func() {
		if p := recover(); p != nil {
			r.Violation("codec|panic|"+what, fmt.Sprintf("panic in %s: %v", what, p), witness())
		}
	}()
	fn()
}

// ---------------------------------------------------------------------------------------
// part A: round trips

type rtCase struct {
	typ  pb.XuperMessage_MessageType
	mask int
	spec payloadSpec
}

func runRoundTrips(r *ev.Run) {
	types := allMsgTypes()
	specs := payloadSpecs()
	var cases []rtCase
	for _, sp := range specs {
		for ti, t := range types {
			for mask := 0; mask < 16; mask++ {
				switch sp.size {
				case "64k":
					// all types, two option subsets each
					if mask != 0 && mask != (ti%15)+1 {
						continue
					}
				case "4M":
					// quick: a few types; thorough: all types, default options + one subset
					if r.Quick() {
						if !(ti%9 == 0 && (mask == 0 || mask == 15)) {
							continue
						}
					} else if mask != 0 && mask != (ti%15)+1 {
						continue
					}
				}
				cases = append(cases, rtCase{t, mask, sp})
			}
		}
	}
	logf("round trips: %d cases", len(cases))
	parallel(len(cases), func(i int) {
		c := cases[i]
		rng := rand.New(rand.NewSource(mix(r.Seed, i, 101)))
		ov := chooseOpts(rng, c.mask)
		payload := c.spec.build(rng)
		desc := func() interface{} {
			return map[string]interface{}{"type": c.typ.String(), "options": ov.String(), "payload_class": c.spec.class,
				"payload_encoded_len": proto.Size(payload)}
		}
		var msg *pb.XuperMessage
		guarded(r, "NewMessage", desc, func() { msg = p2p.NewMessage(c.typ, payload, ov.opts(rng)...) })
		if msg == nil {
			return
		}
		pclass := "nonempty-payload"
		if c.spec.empty {
			pclass = "empty-payload"
			r.Count("codec.roundtrip.empty_payload", 1)
		}
		if c.spec.size == "4M" {
			r.Count("codec.roundtrip.4MB", 1)
		}
		if msg.GetHeader().GetEnableCompress() {
			r.Count("codec.roundtrip.compressed", 1)
		}
		// header as requested by the caller (the dispatcher at the receiver filters on these)
		hdr := msg.GetHeader()
		hdrBad := ""
		switch {
		case hdr.GetType() != c.typ:
			hdrBad = "type"
		case c.mask&optBC != 0 && hdr.GetBcname() != ov.bc:
			hdrBad = "bcname"
		case c.mask&optLogID != 0 && hdr.GetLogid() != ov.logid:
			hdrBad = "logid"
		case c.mask&optVersion != 0 && hdr.GetVersion() != ov.version:
			hdrBad = "version"
		case c.mask&optErrType != 0 && hdr.GetErrorType() != ov.errType:
			hdrBad = "errorType"
		}
		if hdrBad != "" {
			r.Violation("codec|roundtrip|header-"+hdrBad+"-differs", fmt.Sprintf("NewMessage(%v, %s): header %s is not what was asked for: %v",
				c.typ, ov, hdrBad, hdr), desc())
		}
		for _, stage := range []string{"inproc", "wire"} {
			m := msg
			if stage == "wire" {
				var err error
				m, _, err = wire(msg)
				if err != nil {
					r.Inconclusive("protobuf envelope round trip failed: " + err.Error())
					continue
				}
			}
			out := c.spec.fresh()
			var err error
			var okSum bool
			guarded(r, "Unmarshal", desc, func() {
				okSum = p2p.VerifyChecksum(m)
				err = p2p.Unmarshal(m, out)
			})
			r.Case(fmt.Sprintf("rt|%v|%d|%s|%s", c.typ, c.mask, c.spec.class, stage), !c.spec.empty)
			r.Count("codec.roundtrip."+stage, 1)
			fail := ""
			switch {
			case !okSum:
				fail = "verify-checksum-false"
			case err != nil:
				fail = errClass(err)
			case !proto.Equal(out, payload):
				fail = "payload-differs"
			}
			if fail != "" {
				w := desc().(map[string]interface{})
				w["stage"] = stage
				w["msginfo_is_nil"] = m.GetData().GetMsgInfo() == nil
				w["msginfo_len"] = len(m.GetData().GetMsgInfo())
				w["enable_compress"] = m.GetHeader().GetEnableCompress()
				r.Violation("codec|roundtrip|"+pclass+"|"+stage+"|"+fail,
					fmt.Sprintf("Unmarshal(NewMessage(%v, %s payload, %s)) at stage %s: VerifyChecksum=%v err=%v (message built by NewMessage must decode to the payload that was sent)",
						c.typ, c.spec.class, ov, stage, okSum, err), w)
			}
			if i%997 == 0 && stage == "wire" {
				r.Sample(map[string]interface{}{"part": "roundtrip", "type": c.typ.String(), "options": ov.String(), "payload_class": c.spec.class,
					"encoded_len": len(m.GetData().GetMsgInfo()), "compressed": m.GetHeader().GetEnableCompress(), "result": errClass(err)})
			}
		}
	})
	// a message without payload (NewMessage(typ, nil)) carries nothing to decode; its checksum must still verify
	for _, t := range types {
		m := p2p.NewMessage(t, nil)
		w, _, err := wire(m)
		r.Case(fmt.Sprintf("rt|%v|nil-payload", t), false)
		if err != nil || !p2p.VerifyChecksum(m) || !p2p.VerifyChecksum(w) {
			r.Violation("codec|roundtrip|no-payload|verify-checksum-false", fmt.Sprintf("NewMessage(%v, nil) does not verify its own checksum", t), t.String())
		}
	}
}

// ---------------------------------------------------------------------------------------
// part B: corruption of the encoded payload

type flipTarget struct {
	class string
	msg   *pb.XuperMessage
	fresh func() proto.Message
	nbits int
}

// xorBurst flips the bits of pat (bit j of pat = bit start+j of the stream, LSB first inside a byte).
func xorBurst(b []byte, start int, pat uint32) {
	x := uint64(pat) << uint(start%8)
	i := start / 8
	for k := 0; k < 5 && x != 0; k++ {
		if c := byte(x); c != 0 {
			b[i+k] ^= c
		}
		x >>= 8
	}
}

type flipStats struct {
	evals, otherErr int64
}

// checkCorrupted evaluates one corrupted encoding; returns "" or the failure class.
func checkCorrupted(m *pb.XuperMessage, scratch proto.Message, st *flipStats) string {
	st.evals++
	if p2p.VerifyChecksum(m) {
		return "verify-checksum-true"
	}
	scratch.Reset()
	err := p2p.Unmarshal(m, scratch)
	if err == nil {
		return "delivered"
	}
	if err != p2p.ErrMessageChecksum {
		st.otherErr++
	}
	return ""
}

func burstPatterns(rng *rand.Rand, L, max int) []uint32 {
	if L == 1 {
		return []uint32{1}
	}
	hi := uint32(1) << uint(L-1)
	inner := L - 2
	if inner <= 16 && (1<<uint(inner)) <= max {
		ps := make([]uint32, 0, 1<<uint(inner))
		for v := uint32(0); v < (1 << uint(inner)); v++ {
			ps = append(ps, hi|1|(v<<1))
		}
		return ps
	}
	ps := make([]uint32, 0, max)
	mask := (uint32(1) << uint(inner)) - 1
	for k := 0; k < max; k++ {
		ps = append(ps, hi|1|((rng.Uint32()&mask)<<1))
	}
	return ps
}

func clipBytes(b []byte, n int) []byte {
	if len(b) > n {
		return b[:n]
	}
	return b
}

// ---------------------------------------------------------------------------------------
// part C: request -> response type map against the _RES enum names

func runTypeMap(r *ev.Run) {
	types := allMsgTypes()
	pairs := 0
	for _, t := range types {
		name := pb.XuperMessage_MessageType_name[int32(t)]
		resV, ok := pb.XuperMessage_MessageType_value[name+"_RES"]
		if !ok {
			continue
		}
		pairs++
		want := pb.XuperMessage_MessageType(resV)
		var got pb.XuperMessage_MessageType
		guarded(r, "GetRespMessageType", func() interface{} { return name }, func() { got = p2p.GetRespMessageType(t) })
		r.Case("typemap|"+name, true)
		r.Count("codec.typemap.res_pairs", 1)
		if got != want {
			r.Violation("codec|typemap|request-maps-to-wrong-response", fmt.Sprintf("GetRespMessageType(%s) = %v, the enum names say %s_RES = %v", name, got, name, want),
				map[string]interface{}{"request": name, "got": got.String(), "want": want.String()})
			continue
		}
		// the consumer of the map: a response is accepted iff peer, log id and type all fit
		logid := "lg_" + name
		req := p2p.NewMessage(t, nil, p2p.WithLogId(logid))
		for _, rt := range types {
			resp := p2p.NewMessage(rt, nil, p2p.WithLogId(logid))
			resp.Header.From = "peerA"
			ok := p2p.VerifyMessageType(req, resp, "peerA")
			r.Evals(1)
			if ok != (rt == want) {
				r.Violation("codec|typemap|verify-message-type-wrong-verdict", fmt.Sprintf("VerifyMessageType(request %s, response %v) = %v", name, rt, ok),
					map[string]interface{}{"request": name, "response": rt.String(), "got": ok})
			}
		}
		resp := p2p.NewMessage(want, nil, p2p.WithLogId(logid))
		resp.Header.From = "peerB"
		if p2p.VerifyMessageType(req, resp, "peerA") {
			r.Violation("codec|typemap|verify-message-type-ignores-peer", "response from another peer accepted for request "+name, name)
		}
		resp = p2p.NewMessage(want, nil, p2p.WithLogId(logid+"x"))
		resp.Header.From = "peerA"
		if p2p.VerifyMessageType(req, resp, "peerA") {
			r.Violation("codec|typemap|verify-message-type-ignores-logid", "response with another log id accepted for request "+name, name)
		}
	}
	// the responses of two different requests must differ
	seen := map[pb.XuperMessage_MessageType]string{}
	for _, t := range types {
		name := pb.XuperMessage_MessageType_name[int32(t)]
		if _, ok := pb.XuperMessage_MessageType_value[name+"_RES"]; !ok {
			continue
		}
		res := p2p.GetRespMessageType(t)
		if other, dup := seen[res]; dup {
			r.Violation("codec|typemap|two-requests-one-response", fmt.Sprintf("%s and %s both map to %v", other, name, res), name)
		}
		seen[res] = name
	}
	r.Extra("typemap_res_pairs", pairs)
}
