package main

import (
	"bufio"
	"go/ast"
	"go/parser"
	"go/token"
	"os"
	"path/filepath"
	"reflect"
	"regexp"
	"runtime"
	"sort"
	"strconv"
	"strings"

	"github.com/xuperchain/xupercore/kernel/network/p2p"
)

// repoRoot is the directory the xupercore sources of this binary were compiled from
// (/repo, or the scratch worktree given by VERIF_REPO).
func repoRoot() string {
	pc := reflect.ValueOf(p2p.MessageKey).Pointer()
	if f := runtime.FuncForPC(pc); f != nil {
		file, _ := f.FileLine(pc)
		const suffix = "/kernel/network/p2p/"
		if i := strings.LastIndex(file, suffix); i > 0 {
			return file[:i]
		}
	}
	if v := os.Getenv("VERIF_REPO"); v != "" {
		return v
	}
	return "/repo"
}

type raceFrame struct {
	Func string `json:"func"`
	File string `json:"file"` // relative to the repository root, "" if not in the repository
	Line int    `json:"line"`
}

type raceAccess struct {
	Kind  string      `json:"kind"` // read | write
	Stack []raceFrame `json:"stack"`
	Inner *raceFrame  `json:"innermost_repo_frame"`
}

type raceReport struct {
	A, B raceAccess
	Raw  string
}

var (
	reAccess = regexp.MustCompile(`^(Previous )?(read|write|atomic read|atomic write|Read|Write|Atomic read|Atomic write) at 0x[0-9a-f]+ by `)
	reFile   = regexp.MustCompile(`^\s+(/\S+):(\d+)( \+0x[0-9a-f]+)?$`)
)

// parseRaceLog splits a GORACE log into reports and extracts the two access stacks of each.
func parseRaceLog(path, root string) []raceReport {
	f, err := os.Open(path)
	if err != nil {
		return nil
	}
	defer f.Close()
	var reports []raceReport
	var cur []string
	flush := func() {
		if len(cur) == 0 {
			return
		}
		isRace := false
		for _, l := range cur {
			if strings.Contains(l, "WARNING: DATA RACE") {
				isRace = true
			}
		}
		if isRace {
			reports = append(reports, parseRaceBlock(cur, root))
		}
		cur = nil
	}
	sc := bufio.NewScanner(f)
	sc.Buffer(make([]byte, 1<<20), 1<<22)
	for sc.Scan() {
		l := sc.Text()
		if strings.HasPrefix(l, "==================") {
			flush()
			continue
		}
		cur = append(cur, l)
	}
	flush()
	return reports
}

func parseRaceBlock(lines []string, root string) raceReport {
	var rep raceReport
	var accs []raceAccess
	for i := 0; i < len(lines); i++ {
		m := reAccess.FindStringSubmatch(lines[i])
		if m == nil {
			continue
		}
		acc := raceAccess{Kind: "read"}
		if strings.Contains(strings.ToLower(m[2]), "write") {
			acc.Kind = "write"
		}
		j := i + 1
		for ; j+1 < len(lines) && strings.TrimSpace(lines[j]) != ""; j += 2 {
			fn := strings.TrimSpace(lines[j])
			fm := reFile.FindStringSubmatch(lines[j+1])
			if fm == nil {
				break
			}
			ln, _ := strconv.Atoi(fm[2])
			fr := raceFrame{Func: strings.TrimSuffix(fn, "()"), Line: ln}
			if strings.HasPrefix(fm[1], root+"/") {
				fr.File = strings.TrimPrefix(fm[1], root+"/")
			} else {
				fr.File = ""
				fr.Func += " @" + filepath.Base(fm[1])
			}
			acc.Stack = append(acc.Stack, fr)
		}
		for k := range acc.Stack {
			if acc.Stack[k].File != "" {
				fr := acc.Stack[k]
				acc.Inner = &fr
				break
			}
		}
		if len(acc.Stack) > 8 {
			acc.Stack = acc.Stack[:8]
		}
		accs = append(accs, acc)
		i = j
	}
	if len(accs) > 0 {
		rep.A = accs[0]
	}
	if len(accs) > 1 {
		rep.B = accs[1]
	}
	if len(lines) > 60 {
		lines = lines[:60]
	}
	rep.Raw = strings.Join(lines, "\n")
	return rep
}

func shortFunc(fn string) string {
	if i := strings.LastIndex(fn, "/"); i >= 0 {
		fn = fn[i+1:]
	}
	fn = strings.TrimPrefix(fn, "p2p.")
	fn = strings.Replace(fn, "(*dispatcher).", "", 1)
	fn = strings.Replace(fn, "(*subscriber).", "subscriber.", 1)
	return fn
}

// lockRegion describes where, inside (*dispatcher).Dispatch, the read lock is held:
// between the first d.mu.RLock() and the last d.mu.RUnlock() (source lines of the tree under test).
type lockRegion struct {
	ok                bool
	fnStart, fnEnd    int
	firstRLock, lastR int
}

func dispatchLockRegion(root string) lockRegion {
	var lr lockRegion
	fset := token.NewFileSet()
	f, err := parser.ParseFile(fset, filepath.Join(root, "kernel/network/p2p/dispatcher.go"), nil, 0)
	if err != nil {
		return lr
	}
	for _, d := range f.Decls {
		fd, ok := d.(*ast.FuncDecl)
		if !ok || fd.Name.Name != "Dispatch" || fd.Recv == nil || fd.Body == nil {
			continue
		}
		lr.fnStart = fset.Position(fd.Pos()).Line
		lr.fnEnd = fset.Position(fd.End()).Line
		ast.Inspect(fd.Body, func(n ast.Node) bool {
			ce, ok := n.(*ast.CallExpr)
			if !ok {
				return true
			}
			se, ok := ce.Fun.(*ast.SelectorExpr)
			if !ok {
				return true
			}
			line := fset.Position(ce.Pos()).Line
			switch se.Sel.Name {
			case "RLock", "Lock":
				if lr.firstRLock == 0 || line < lr.firstRLock {
					lr.firstRLock = line
				}
			case "RUnlock", "Unlock":
				if line > lr.lastR {
					lr.lastR = line
				}
			}
			return true
		})
		lr.ok = true
	}
	return lr
}

// region says whether a line of Dispatch lies outside the stretch where the table lock is held.
func (lr lockRegion) region(line int) string {
	if !lr.ok {
		return "?"
	}
	if lr.firstRLock == 0 || line < lr.firstRLock || line > lr.lastR {
		return "outside-lock"
	}
	return "inside-lock-region"
}

type racePair struct {
	Sig      string      `json:"signature"`
	Relevant bool        `json:"verdict_relevant"`
	Count    int         `json:"reports"`
	A        raceAccess  `json:"access_1"`
	B        raceAccess  `json:"access_2"`
	Raw      string      `json:"-"`
	Key      string      `json:"-"`
	Extra    interface{} `json:"note,omitempty"`
}

func anchoredFile(f string) bool {
	return f == "kernel/network/p2p/dispatcher.go" || f == "kernel/network/p2p/subscriber.go"
}

// classifyRaces de-duplicates reports by the pair of innermost repository frames and gives
// every verdict-relevant pair a structural signature (no line numbers).
func classifyRaces(reports []raceReport, lr lockRegion) []*racePair {
	byKey := map[string]*racePair{}
	var order []string
	for _, rep := range reports {
		desc := func(a raceAccess) (key, label string, isUnlockedDispatchRead bool) {
			if a.Inner == nil {
				top := "?"
				if len(a.Stack) > 0 {
					top = a.Stack[0].Func
				}
				return "harness:" + top, "outside-repo(" + a.Kind + ")", false
			}
			fn := shortFunc(a.Inner.Func)
			label = fn + "(" + a.Kind
			if fn == "Dispatch" {
				reg := lr.region(a.Inner.Line)
				label += "," + reg
				if a.Kind == "read" && reg == "outside-lock" {
					isUnlockedDispatchRead = true
				}
			}
			label += ")"
			return a.Inner.File + ":" + strconv.Itoa(a.Inner.Line) + ":" + a.Kind, label, isUnlockedDispatchRead
		}
		ka, la, ua := desc(rep.A)
		kb, lb, ub := desc(rep.B)
		ks := []string{ka, kb}
		sort.Strings(ks)
		key := ks[0] + " ~ " + ks[1]
		if p, ok := byKey[key]; ok {
			p.Count++
			continue
		}
		p := &racePair{Key: key, Count: 1, A: rep.A, B: rep.B, Raw: rep.Raw}
		p.Relevant = rep.A.Inner != nil && rep.B.Inner != nil && anchoredFile(rep.A.Inner.File) && anchoredFile(rep.B.Inner.File)
		isTableWrite := func(a raceAccess) bool {
			if a.Inner == nil || a.Kind != "write" {
				return false
			}
			fn := shortFunc(a.Inner.Func)
			return fn == "Register" || fn == "UnRegister"
		}
		switch {
		case p.Relevant && ((ua && isTableWrite(rep.B)) || (ub && isTableWrite(rep.A))):
			p.Sig = "dispatch|race|unlocked-subscriber-map-read"
		default:
			ls := []string{la, lb}
			sort.Strings(ls)
			p.Sig = "dispatch|race|" + ls[0] + "~" + ls[1]
		}
		byKey[key] = p
		order = append(order, key)
	}
	var out []*racePair
	for _, k := range order {
		out = append(out, byKey[k])
	}
	return out
}
