package main

import (
	"encoding/json"
	"errors"
	"fmt"
	"github.com/xuperchain/xupercore/kernel/engines/xuperos/xpb"
	"hash/fnv"
	"io/ioutil"
	"os"
	"path/filepath"
	"sort"
	"sync"
	"sync/atomic"
	"time"

	xconf "github.com/xuperchain/xupercore/kernel/common/xconfig"
	xctx "github.com/xuperchain/xupercore/kernel/common/xcontext"
	nctx "github.com/xuperchain/xupercore/kernel/network/context"
	"github.com/xuperchain/xupercore/kernel/network/p2p"
	"github.com/xuperchain/xupercore/lib/logs"
	"github.com/xuperchain/xupercore/lib/timer"
	pb "github.com/xuperchain/xupercore/protos"
)

// ---------------------------------------------------------------------------------------
// child -> parent result file

type caseRec struct {
	Shape string `json:"s"`
	NT    bool   `json:"n"`
}

type vioRec struct {
	Sig     string      `json:"sig"`
	Detail  string      `json:"detail"`
	Witness interface{} `json:"witness"`
}

type childResult struct {
	Mode         string           `json:"mode"`
	Done         bool             `json:"done"`
	NextUnit     int              `json:"next_unit"`
	Cases        []caseRec        `json:"cases"`
	Shapes       []string         `json:"shapes"`
	Evals        int64            `json:"evals"`
	Counters     map[string]int64 `json:"counters"`
	Samples      []interface{}    `json:"samples"`
	Violations   []vioRec         `json:"violations"`
	Inconclusive []string         `json:"inconclusive"`

	mu sync.Mutex
}

func newChildResult(mode string) *childResult {
	return &childResult{Mode: mode, Counters: map[string]int64{}}
}

func (c *childResult) count(name string, d int) {
	c.mu.Lock()
	c.Counters[name] += int64(d)
	c.mu.Unlock()
}

func (c *childResult) violation(sig, detail string, witness interface{}) {
	c.mu.Lock()
	defer c.mu.Unlock()
	c.Counters["violations."+sig]++
	for _, v := range c.Violations {
		if v.Sig == sig {
			return
		}
	}
	c.Violations = append(c.Violations, vioRec{sig, detail, witness})
}

func (c *childResult) numViolations() int {
	c.mu.Lock()
	defer c.mu.Unlock()
	return len(c.Violations)
}

func (c *childResult) evals(n int64) {
	c.mu.Lock()
	c.Evals += n
	c.mu.Unlock()
}

func (c *childResult) shape(s string) {
	c.mu.Lock()
	c.Shapes = append(c.Shapes, s)
	c.mu.Unlock()
}

func (c *childResult) inconclusive(s string) {
	c.mu.Lock()
	c.Inconclusive = append(c.Inconclusive, s)
	c.mu.Unlock()
}

func (c *childResult) sample(v interface{}) {
	c.mu.Lock()
	if len(c.Samples) < 3 {
		c.Samples = append(c.Samples, v)
	}
	c.mu.Unlock()
}

func (c *childResult) save(path string) {
	// subscriber-side decoding (see recSub.record): totals so far
	if n := atomic.LoadInt64(&decodes); n > 0 {
		c.mu.Lock()
		if c.Counters == nil {
			c.Counters = map[string]int64{}
		}
		c.Counters["sub.decodes"] = n
		c.mu.Unlock()
		if f := atomic.LoadInt64(&decodeFailures); f > 0 {
			c.violation("dispatch|subscriber-cannot-decode-uncorrupted-message", fmt.Sprintf("%d of %d hand-overs of uncorrupted messages could not be decoded by the subscriber (p2p.Unmarshal)", f, n), nil)
			atomic.StoreInt64(&decodeFailures, 0)
		}
	}
	c.mu.Lock()
	buf, err := json.Marshal(c)
	c.mu.Unlock()
	if err != nil {
		logf("child: cannot encode result: %v", err)
		return
	}
	tmp := path + ".tmp"
	if err := ioutil.WriteFile(tmp, buf, 0644); err == nil {
		os.Rename(tmp, path)
	}
}

func loadChildResult(path string) *childResult {
	buf, err := ioutil.ReadFile(path)
	if err != nil {
		return nil
	}
	c := newChildResult("")
	if json.Unmarshal(buf, c) != nil {
		return nil
	}
	if c.Counters == nil {
		c.Counters = map[string]int64{}
	}
	return c
}

// ---------------------------------------------------------------------------------------
// logging set-up needed by the dispatcher (it creates its own logger per message)

var childScratch string

func initLogs() {
	base := os.Getenv("VERIF_SCRATCH")
	if base == "" {
		base = os.TempDir()
	}
	dir, err := ioutil.TempDir(base, "verif-c20c-")
	if err != nil {
		panic(err)
	}
	childScratch = dir
	conf := filepath.Join(dir, "log.yaml")
	y := "module: verif\nfilename: verif\nfmt: logfmt\nlevel: error\nrotateInterval: 0\nrotateBackups: 0\nconsole: false\nasync: false\nbufSize: 1024\n"
	if err := ioutil.WriteFile(conf, []byte(y), 0644); err != nil {
		panic(err)
	}
	logs.InitLog(conf, filepath.Join(dir, "logs"))
}

type nopLogger struct{}

func (nopLogger) GetLogId() string                           { return "verif" }
func (nopLogger) SetCommField(key string, value interface{}) {}
func (nopLogger) SetInfoField(key string, value interface{}) {}
func (nopLogger) Error(msg string, ctx ...interface{})       {}
func (nopLogger) Warn(msg string, ctx ...interface{})        {}
func (nopLogger) Info(msg string, ctx ...interface{})        {}
func (nopLogger) Trace(msg string, ctx ...interface{})       {}
func (nopLogger) Debug(msg string, ctx ...interface{})       {}

func newNetCtx() *nctx.NetCtx {
	c := &nctx.NetCtx{EnvCfg: &xconf.EnvConf{}}
	c.XLog = nopLogger{}
	c.Timer = timer.NewXTimer()
	return c
}

// ---------------------------------------------------------------------------------------
// recording subscribers

type subCfg struct {
	ID        int    `json:"id"`
	Typ       string `json:"type"`
	BC        string `json:"chain_filter"`
	From      string `json:"sender_filter"`
	Style     string `json:"style"` // handler | handler-nilresp | handler-error | handler-slow | channel | channel-stuck
	SelfUnreg bool   `json:"self_unregister,omitempty"`
	Cap       int    `json:"channel_capacity,omitempty"` // channel-stuck: a small channel whose consumer does not keep up

	typ pb.XuperMessage_MessageType
}

func (c subCfg) matches(typ pb.XuperMessage_MessageType, bc, from string) bool {
	return c.typ == typ && (c.BC == "" || c.BC == bc) && (c.From == "" || c.From == from)
}

type delivery struct {
	seq int64
	msg *pb.XuperMessage
	at  time.Time // monotonic; used only by guards that skip a judgement, never by a verdict
}

type recSub struct {
	subCfg
	sub p2p.Subscriber
	ch  chan *pb.XuperMessage

	mu    sync.Mutex
	deliv []delivery

	once   sync.Once
	selfOp *opRec
}

type recorder struct {
	seq int64
}

func (rc *recorder) tick() int64 { return atomic.AddInt64(&rc.seq, 1) }

// decodeFailures counts hand-overs whose message a subscriber could not decode (p2p.Unmarshal, what
// every real subscriber does first); the messages of the dispatcher tests are never corrupted.
var decodeFailures, decodes int64

func (s *recSub) record(rc *recorder, msg *pb.XuperMessage) {
	if msg.GetHeader().GetDataCheckSum() != 0 {
		var bid xpb.BlockID
		atomic.AddInt64(&decodes, 1)
		if err := p2p.Unmarshal(msg, &bid); err != nil {
			atomic.AddInt64(&decodeFailures, 1)
		}
	}
	q := rc.tick()
	at := time.Now()
	s.mu.Lock()
	s.deliv = append(s.deliv, delivery{q, msg, at})
	s.mu.Unlock()
}

// drain moves what arrived on a channel subscriber's channel into its delivery list. The channel
// of a stuck consumer (channel-stuck) is left alone: its owner decides when it wakes up (takeStuck).
func (s *recSub) drain(rc *recorder) {
	if s.ch == nil || s.Style == "channel-stuck" {
		return
	}
	for {
		select {
		case m := <-s.ch:
			s.record(rc, m)
		default:
			return
		}
	}
}

// takeStuck is the slow consumer waking up: it empties its channel and returns what was waiting.
func (s *recSub) takeStuck() []*pb.XuperMessage {
	var out []*pb.XuperMessage
	if s.ch == nil {
		return nil
	}
	for {
		select {
		case m := <-s.ch:
			out = append(out, m)
		default:
			return out
		}
	}
}

func (s *recSub) take() []delivery {
	s.mu.Lock()
	d := s.deliv
	s.deliv = nil
	s.mu.Unlock()
	return d
}

// newRecSub builds a real p2p subscriber whose handler records every hand-over. onDeliver (may
// be nil) runs inside the handler after recording.
func newRecSub(nc *nctx.NetCtx, rc *recorder, cfg subCfg, work func(), onDeliver func(s *recSub)) *recSub {
	s := &recSub{subCfg: cfg}
	s.Typ = cfg.typ.String()
	var opts []p2p.SubscriberOption
	if cfg.BC != "" {
		opts = append(opts, p2p.WithFilterBCName(cfg.BC))
	}
	if cfg.From != "" {
		opts = append(opts, p2p.WithFilterFrom(cfg.From))
	}
	switch cfg.Style {
	case "channel":
		s.ch = make(chan *pb.XuperMessage, 4096)
		s.sub = p2p.NewSubscriber(nc, cfg.typ, s.ch, opts...)
	case "channel-stuck":
		c := cfg.Cap
		if c < 1 {
			c = 1
		}
		s.Cap = c
		s.ch = make(chan *pb.XuperMessage, c)
		s.sub = p2p.NewSubscriber(nc, cfg.typ, s.ch, opts...)
	default:
		nilResp := cfg.Style == "handler-nilresp"
		failing := cfg.Style == "handler-error"
		if cfg.Style == "handler-slow" && work == nil {
			work = func() { time.Sleep(2 * time.Millisecond) }
		}
		var h p2p.HandleFunc = func(ctx xctx.XContext, msg *pb.XuperMessage) (*pb.XuperMessage, error) {
			s.record(rc, msg)
			if work != nil {
				work()
			}
			if onDeliver != nil {
				onDeliver(s)
			}
			if nilResp {
				return nil, nil
			}
			if failing {
				return nil, errors.New("verif: this subscriber's handler failed")
			}
			return &pb.XuperMessage{Header: &pb.XuperMessage_MessageHeader{Version: p2p.MessageVersion3, Bcname: msg.GetHeader().GetBcname(),
				Type: p2p.GetRespMessageType(msg.GetHeader().GetType())}, Data: &pb.XuperMessage_MessageData{}}, nil
		}
		s.sub = p2p.NewSubscriber(nc, cfg.typ, h, opts...)
	}
	return s
}

type recStream struct {
	sends int64
	bad   int64 // responses whose log id is not the request's (informational)
}

func (st *recStream) Send(m *pb.XuperMessage) error {
	atomic.AddInt64(&st.sends, 1)
	return nil
}

func shapeHash(prefix, s string) string {
	h := fnv.New64a()
	h.Write([]byte(s))
	return fmt.Sprintf("%s:%016x", prefix, h.Sum64())
}

func validSubTypes() []pb.XuperMessage_MessageType {
	var ts []pb.XuperMessage_MessageType
	for _, t := range allMsgTypes() {
		if t != pb.XuperMessage_MSG_TYPE_NONE {
			ts = append(ts, t)
		}
	}
	return ts
}

func sortedKeys(m map[int]int) []int {
	var ks []int
	for k := range m {
		ks = append(ks, k)
	}
	sort.Ints(ks)
	return ks
}

// ---------------------------------------------------------------------------------------

func childMain() {
	res := newChildResult(*fChild)
	if *fChild == "codec-flip" {
		// no dispatcher involved: no logging set-up needed; -n = part, -to = number of parts
		runCorruptionPart(res, *fSeed, *fTier != "thorough", *fN, *fTo)
		res.Done = true
		res.save(*fOut)
		os.Exit(0)
	}
	initLogs()
	defer os.RemoveAll(childScratch)
	res.NextUnit = *fFrom
	var prog *os.File
	if *fProgress != "" {
		prog, _ = os.OpenFile(*fProgress, os.O_CREATE|os.O_WRONLY|os.O_APPEND, 0644)
	}
	progress := func(unit int, extra string) {
		if prog != nil {
			prog.WriteString(fmt.Sprintf("unit %d %s\n", unit, extra))
		}
	}
	skip := -1
	if s := os.Getenv("C20_SKIP_UNIT"); s != "" {
		fmt.Sscan(s, &skip)
	}
	switch *fChild {
	case "dispatch-seq":
		nc := newNetCtx()
		if *fFrom == 0 && os.Getenv("C20_RESTART") == "" {
			progress(-1, "collision-probes")
			runCollisionProbes(res, *fSeed, nc)
		}
		if os.Getenv("C20_RESTART") == "" {
			progress(-1, "misbehaving-neighbour-trials")
			runNeighbourTrials(res, *fSeed, *fN, *fTier != "thorough", nc)
			res.save(*fOut)
		}
		for u := *fFrom; u < *fTo; u++ {
			if u == skip {
				continue
			}
			progress(u, "")
			runSeqCase(res, *fSeed, u, nc)
			res.NextUnit = u + 1
			if (u+1)%200 == 0 {
				res.save(*fOut)
			}
		}
	case "dispatch-stress":
		nc := newNetCtx()
		for u := *fFrom; u < *fTo; u++ {
			if u == skip {
				continue
			}
			cfg := stressConfig(*fSeed, *fN, u)
			if res.numViolations() == 0 {
				stuckPlan(&cfg, *fSeed, *fN, u, *fTier != "thorough")
			}
			b, _ := json.Marshal(cfg)
			progress(u, string(b))
			runStressRound(res, *fSeed, *fN, u, cfg, nc)
			res.NextUnit = u + 1
			if (u+1)%10 == 0 {
				res.save(*fOut)
			}
		}
	default:
		logf("unknown child mode %q", *fChild)
		os.Exit(3)
	}
	res.Done = true
	res.save(*fOut)
	os.RemoveAll(childScratch)
	os.Exit(0)
}
