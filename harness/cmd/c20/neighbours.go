package main

// Misbehaving neighbours (sequential part).
//
// The statement promises every registered, matching subscriber each accepted message exactly once
// and the dropping of repeats inside the de-duplication window. It does not make that promise
// depend on how the OTHER subscribers of the type behave. A trial therefore puts healthy
// subscribers next to one kind of misbehaving neighbour
//
//	blocked         channel subscribers with a small channel (capacity 1..3) whose consumer is stuck:
//	                the channel is full (backlog put there directly, or filled by earlier dispatches)
//	                and is emptied late or never
//	handler-failed  handler subscribers whose handler returns an error and no response
//	handler-slow    handler subscribers that take a few milliseconds
//	send-failed     the stream refuses every response
//
// and dispatches fresh messages and repeats of them (same type, chain, sender, log id, payload;
// same bytes, a copy, or re-decoded from the wire). Judged: a healthy matching subscriber gets a
// fresh message exactly once, a non-matching one never, and no subscriber that already got a
// message is handed a repeat of it. What happens to the stuck consumer's own copy while its
// channel is full (dropped at once, delivered late) is not judged; while it has room it is a
// subscriber like any other.
//
// Wall clock: an implementation may WAIT for room in a full channel (the pinned code has a 3 s
// timeout there that it never reaches). The number of dispatches that meet a full channel is
// therefore bounded per trial and per child (blockedBudget / the trial count), trials stop at the
// child's first violation, and no verdict reads a clock: the only use of time is the guard that
// SKIPS a repeat judgement when the repeat was handed over more than 1 s after the first Dispatch
// of the message returned (the window of the code under test is 3 s of wall clock).

import (
	"fmt"
	"math/rand"
	"strings"
	"sync/atomic"
	"time"

	"github.com/golang/protobuf/proto"
	nctx "github.com/xuperchain/xupercore/kernel/network/context"
	"github.com/xuperchain/xupercore/kernel/network/p2p"
	pb "github.com/xuperchain/xupercore/protos"
)

const repeatGuard = time.Second

type nbMsg struct {
	id              int
	msg             *pb.XuperMessage
	typ             pb.XuperMessage_MessageType
	bc, from, logid string

	dispatched     bool
	firstRet       time.Time    // monotonic: when the first Dispatch of it returned (guard only)
	blockedAtFirst bool         // a matching neighbour's channel was full when it was first dispatched
	got            map[int]bool // subscribers that were handed it
}

func (m *nbMsg) String() string {
	return fmt.Sprintf("m%d{type=%v chain=%q sender=%q logid=%q}", m.id, m.typ, m.bc, m.from, m.logid)
}

// failStream refuses every response.
type failStream struct{ sends int64 }

func (st *failStream) Send(m *pb.XuperMessage) error {
	atomic.AddInt64(&st.sends, 1) // the subscribers of one Dispatch answer from their own goroutines
	return fmt.Errorf("verif: stream closed by the peer")
}

type nbEnv struct {
	res    *childResult
	rc     *recorder
	d      p2p.Dispatcher
	subs   []*recSub
	role   []string // healthy | neighbour | noise
	kind   string
	oplog  []string
	caseID string

	tainted        bool
	fullDispatches int // dispatches that met a full matching channel (each may cost a wait on some implementations)
	checkedAfter   int
}

func (e *nbEnv) witness() interface{} {
	var cfgs []interface{}
	for i, s := range e.subs {
		cfgs = append(cfgs, map[string]interface{}{"subscriber": s.subCfg, "role": e.role[i]})
	}
	return map[string]interface{}{"case": e.caseID, "neighbour_kind": e.kind, "subscribers": cfgs, "ops": e.oplog}
}

func (e *nbEnv) precondition(m *nbMsg) string {
	switch e.kind {
	case "blocked":
		if m.blockedAtFirst {
			return "neighbour-subscriber-blocked"
		}
		return "neighbour-subscriber-slow-but-had-room"
	case "handler-failed":
		return "neighbour-handler-failed"
	case "handler-slow":
		return "neighbour-handler-slow"
	default:
		return "response-send-failed"
	}
}

func (e *nbEnv) fail(sig, detail string) {
	e.res.violation(sig, detail, e.witness())
	e.tainted = true
}

// wake: the stuck consumer of subscriber i takes everything that is waiting in its channel.
func (e *nbEnv) wake(i int) {
	n := len(e.subs[i].takeStuck())
	e.oplog = append(e.oplog, fmt.Sprintf("consumer of s%d wakes up and takes %d message(s)", i, n))
	e.res.count("nb.seq.stuck_consumer.late_drain", 1)
}

// matchingFull reports whether a stuck subscriber that matches m has a full channel right now.
func (e *nbEnv) matchingFull(m *nbMsg) bool {
	for _, s := range e.subs {
		if s.Style == "channel-stuck" && s.matches(m.typ, m.bc, m.from) && len(s.ch) == cap(s.ch) {
			return true
		}
	}
	return false
}

func (e *nbEnv) dispatch(m *nbMsg, how string, stream p2p.Stream) {
	var msg *pb.XuperMessage
	if how == "wire" {
		if w, _, err := wire(m.msg); err == nil {
			msg = w
		}
	}
	if msg == nil {
		// every receipt is a fresh object decoded from the wire
		msg = proto.Clone(m.msg).(*pb.XuperMessage)
	}
	repeat := m.dispatched
	full := e.matchingFull(m)
	before := map[int]int{}
	for i, s := range e.subs {
		if s.Style == "channel-stuck" {
			before[i] = len(s.ch)
		}
	}
	err, pn := safeDispatch(e.d, msg, stream)
	ret := time.Now()
	label := "fresh"
	if repeat {
		label = "repeat/" + how
	}
	if pn != nil {
		e.oplog = append(e.oplog, fmt.Sprintf("Dispatch(%s) [%s] -> PANIC %v", m, label, pn))
		e.fail("dispatch|seq|panic|Dispatch|"+e.precondition(m), fmt.Sprintf("Dispatch panicked: %v", pn))
		return
	}
	got := map[int]int{}
	atOf := map[int]time.Time{} // latest hand-over per subscriber as far as known (guard only)
	foreign := false
	collect := func() {
		for i, s := range e.subs {
			if s.Style == "channel-stuck" {
				got[i] = len(s.ch) - before[i]
				continue
			}
			s.drain(e.rc)
			for _, dl := range s.take() {
				got[i]++
				if dl.at.After(atOf[i]) {
					atOf[i] = dl.at
				}
				if !proto.Equal(dl.msg, msg) {
					foreign = true
				}
			}
		}
	}
	collect()
	expected := func(i int) bool { return e.subs[i].matches(m.typ, m.bc, m.from) }
	if !repeat {
		// the statement does not promise that Dispatch returns only after the hand-over: stragglers get a
		// grace period before a delivery is called missing (never reached on the pinned code)
		missing := func() bool {
			for i, s := range e.subs {
				if expected(i) && got[i] == 0 && !(s.Style == "channel-stuck" && before[i] == cap(s.ch)) {
					return true
				}
			}
			return false
		}
		for k := 0; k < 40 && missing(); k++ {
			time.Sleep(5 * time.Millisecond)
			collect()
			e.res.count("nb.seq.straggler_waits", 1)
		}
	}
	reached := map[int]int{}
	for i, n := range got {
		if n != 0 {
			reached[i] = n
		}
	}
	fullNote := ""
	if full {
		fullNote = ", a matching neighbour's channel was full"
		e.fullDispatches++
		e.res.count("nb.seq.full_channel_dispatches", 1)
	}
	e.oplog = append(e.oplog, fmt.Sprintf("Dispatch(%s) [%s%s] -> %s, handed to %v", m, label, fullNote, errStr(err), sortedKeys(reached)))
	e.res.count("nb.seq.dispatches", 1)
	if foreign {
		e.fail("dispatch|seq|handed-message-differs|"+e.precondition(m), "a subscriber was handed a message that is not the dispatched one")
		return
	}
	if !repeat {
		m.dispatched = true
		m.firstRet = ret
		m.blockedAtFirst = full
		m.got = map[int]bool{}
		for i, s := range e.subs {
			n := got[i]
			if n > 0 {
				m.got[i] = true
			}
			stuckFull := s.Style == "channel-stuck" && before[i] == cap(s.ch)
			bad := ""
			switch {
			case !expected(i) && n > 0:
				bad = "dispatch|seq|delivered-to-non-matching-subscriber|"
			case expected(i) && stuckFull:
				// the stuck consumer's own copy: dropped, or delivered late - not judged
				e.res.count("nb.seq.stuck_copy.not_judged", 1)
				continue
			case expected(i) && n == 0:
				bad = "dispatch|seq|missing-delivery|"
			case expected(i) && n > 1:
				bad = "dispatch|seq|double-delivery|"
			}
			if bad != "" {
				e.fail(bad+e.precondition(m), fmt.Sprintf("Dispatch(%s) [fresh message%s]: subscriber s%d (%s, %+v) was handed it %d time(s); Dispatch returned %s",
					m, fullNote, i, e.role[i], s.subCfg, n, errStr(err)))
				return
			}
			switch {
			case !expected(i):
				e.res.count("nb.seq.non_matching.checked", 1)
			case e.role[i] == "healthy":
				e.res.count("nb.seq.healthy_exactly_once.checked", 1)
				if full {
					e.res.count("nb.seq.healthy_exactly_once.next_to_full_channel", 1)
				}
			default:
				e.res.count("nb.seq.neighbour_exactly_once.checked", 1)
			}
		}
		return
	}
	// a repeat of a message whose first Dispatch has returned
	skipped := false
	for i, s := range e.subs {
		n := got[i]
		if n <= 0 {
			continue
		}
		if !expected(i) {
			e.fail("dispatch|seq|delivered-to-non-matching-subscriber|"+e.precondition(m), fmt.Sprintf("repeat of %s reached non-matching subscriber s%d", m, i))
			return
		}
		if s.Style == "channel-stuck" && !m.got[i] {
			// a stuck consumer that lost its copy the first time and gets one now: late delivery, not judged
			e.res.count("nb.seq.stuck_copy.delivered_by_repeat", 1)
			continue
		}
		// when was it handed over? A handler knows; for a channel only an upper bound is known (when the
		// harness looked into it, after Dispatch returned - which may have waited for a slow neighbour)
		at, ok := atOf[i]
		if !ok {
			at = ret
		}
		if at.Sub(m.firstRet) > repeatGuard {
			skipped = true
			continue
		}
		e.fail("dispatch|seq|repeat-delivered-again|"+e.precondition(m),
			fmt.Sprintf("Dispatch(%s) [%s]: a repeat issued right after the first Dispatch of the message returned (well inside the de-duplication window) was handed %d more time(s) to subscriber s%d (%s, %+v), which had already got the message; Dispatch returned %s",
				m, label, n, i, e.role[i], s.subCfg, errStr(err)))
		return
	}
	if skipped {
		e.res.count("nb.seq.repeat.skipped_gap_over_1s", 1)
		e.tainted = true // the code under test may or may not remember: stop using this history
		return
	}
	if ret.Sub(m.firstRet) > repeatGuard {
		e.res.count("nb.seq.repeat.dropped_outside_guard", 1)
		return
	}
	e.res.count("nb.seq.repeat.dropped", 1)
	e.checkedAfter++
	if m.blockedAtFirst {
		e.res.count("nb.seq.repeat_after_blocked_neighbour.dropped", 1)
	}
	switch e.kind {
	case "handler-failed", "send-failed":
		e.res.count("nb.seq.repeat_after_failed_neighbour.dropped", 1)
	}
}

// runNeighbourTrial runs one trial. blockedBudget bounds the dispatches that may meet a full
// matching channel (the stuck consumers are woken up before the budget would be exceeded).
func runNeighbourTrial(res *childResult, seed int64, child, j int, kind string, blockedBudget int, nc *nctx.NetCtx) {
	idx := child*10007 + j
	rng := rand.New(rand.NewSource(mix(seed, idx, 1313)))
	valid := validSubTypes()
	rng.Shuffle(len(valid), func(a, b int) { valid[a], valid[b] = valid[b], valid[a] })
	typ, otherTyp := valid[0], valid[1]
	bc := pickW(rng, []string{"xuper", "hello"}, []int{60, 40})
	from := pickW(rng, []string{"peerA", "peerB", ""}, []int{50, 40, 10})
	e := &nbEnv{res: res, rc: &recorder{}, d: p2p.NewDispatcher(nc), kind: kind,
		caseID: fmt.Sprintf("neighbour trial seed=%d child=%d trial=%d kind=%s", seed, child, j, kind)}
	var shape []string
	add := func(role string, cfg subCfg) {
		cfg.ID = len(e.subs)
		e.subs = append(e.subs, newRecSub(nc, e.rc, cfg, nil, nil))
		e.role = append(e.role, role)
		shape = append(shape, fmt.Sprintf("%s(%s,%s,%s,%d)", role, cfg.BC, cfg.From, cfg.Style, cfg.Cap))
	}
	anyOr := func(v string) string {
		if v == "" || rng.Intn(2) == 0 {
			return ""
		}
		return v
	}
	nH := 1 + rng.Intn(3)
	for i := 0; i < nH; i++ {
		style := pickW(rng, []string{"handler", "handler-nilresp", "channel"}, []int{60, 10, 30})
		if i == 0 && kind == "blocked" && style == "channel" {
			// one healthy subscriber always knows when it was handed a message (see the guard of the repeat rule)
			style = "handler"
		}
		add("healthy", subCfg{typ: typ, BC: anyOr(bc), From: anyOr(from), Style: style})
	}
	nB := 1 + rng.Intn(2)
	for i := 0; i < nB; i++ {
		switch kind {
		case "blocked":
			add("neighbour", subCfg{typ: typ, BC: anyOr(bc), From: anyOr(from), Style: "channel-stuck", Cap: 1 + rng.Intn(3)})
		case "handler-failed":
			add("neighbour", subCfg{typ: typ, BC: anyOr(bc), From: anyOr(from), Style: "handler-error"})
		case "handler-slow":
			add("neighbour", subCfg{typ: typ, BC: anyOr(bc), From: anyOr(from), Style: "handler-slow"})
		}
	}
	for i, n := 0, rng.Intn(3); i < n; i++ {
		switch rng.Intn(3) {
		case 0:
			add("noise", subCfg{typ: typ, BC: "other", Style: pickW(rng, []string{"handler", "channel"}, []int{70, 30})})
		case 1:
			add("noise", subCfg{typ: typ, From: "peerZ", Style: pickW(rng, []string{"handler", "channel"}, []int{70, 30})})
		default:
			add("noise", subCfg{typ: otherTyp, Style: "handler"})
		}
	}
	order := rng.Perm(len(e.subs))
	for _, i := range order {
		if err := e.d.Register(e.subs[i].sub); err != nil {
			e.oplog = append(e.oplog, fmt.Sprintf("Register(s%d) -> %v", i, err))
			e.fail("dispatch|seq|register-refused", fmt.Sprintf("Register of a valid, unregistered subscriber failed: %v", err))
			return
		}
		e.oplog = append(e.oplog, fmt.Sprintf("Register(s%d) -> nil", i))
	}
	var good p2p.Stream = &recStream{}
	stream := good
	if kind == "send-failed" {
		stream = &failStream{}
	}
	var msgs []*nbMsg
	fresh := func() *nbMsg {
		m := &nbMsg{id: len(msgs), typ: typ, bc: bc, from: from, logid: fmt.Sprintf("nb%d-%d-m%d-%d", child, j, len(msgs), rng.Int31())}
		m.msg = buildMsg(typ, bc, from, m.logid, rng.Intn(2), rng.Intn(2) == 0)
		msgs = append(msgs, m)
		return m
	}
	// a dispatch that would meet a full matching channel beyond the budget: the consumers wake up first
	guardedDispatch := func(m *nbMsg, how string, st p2p.Stream) {
		if e.matchingFull(m) && e.fullDispatches >= blockedBudget {
			for i, s := range e.subs {
				if s.Style == "channel-stuck" {
					e.wake(i)
				}
			}
		}
		e.dispatch(m, how, st)
	}
	if kind == "blocked" {
		if rng.Intn(2) == 0 {
			// the consumers have a backlog from elsewhere
			shape = append(shape, "backlog")
			for i, s := range e.subs {
				if s.Style == "channel-stuck" {
					for len(s.ch) < cap(s.ch) {
						s.ch <- &pb.XuperMessage{}
					}
					e.oplog = append(e.oplog, fmt.Sprintf("channel of s%d (capacity %d) is full: its consumer is stuck", i, cap(s.ch)))
				}
			}
		} else {
			// the channels fill up with messages that are dispatched while every one of them has room;
			// the consumers with a larger channel have a backlog for the rest
			shape = append(shape, "filled-by-dispatch")
			minCap := 0
			for _, s := range e.subs {
				if s.Style == "channel-stuck" && (minCap == 0 || cap(s.ch) < minCap) {
					minCap = cap(s.ch)
				}
			}
			for i, s := range e.subs {
				if s.Style == "channel-stuck" && cap(s.ch) > minCap {
					for len(s.ch) < cap(s.ch)-minCap {
						s.ch <- &pb.XuperMessage{}
					}
					e.oplog = append(e.oplog, fmt.Sprintf("channel of s%d (capacity %d) holds a backlog of %d", i, cap(s.ch), len(s.ch)))
				}
			}
			for k := 0; k < minCap && !e.tainted; k++ {
				guardedDispatch(fresh(), "clone", stream)
			}
		}
	}
	how := func() string { return pickW(rng, []string{"clone", "wire"}, []int{60, 40}) }
	if !e.tainted {
		m := fresh()
		shape = append(shape, "M")
		guardedDispatch(m, "clone", stream)
		steps := 2 + rng.Intn(3)
		for k := 0; k < steps && !e.tainted; k++ {
			op := pickW(rng, []string{"repeat", "wake", "fresh", "repeat-good-stream"}, []int{55, 15, 20, 10})
			target := m
			if rng.Intn(4) == 0 {
				target = msgs[rng.Intn(len(msgs))]
			}
			if k == 0 {
				// the first follow-up is always a repeat of M itself: right after its first Dispatch returned
				// (a trial with a full channel is too dear to end in a repeat the guard has to skip)
				target = m
				op = pickW(rng, []string{"repeat", "wake+repeat", "fresh+repeat"}, []int{60, 25, 15})
				if kind == "blocked" {
					op = pickW(rng, []string{"repeat", "wake+repeat"}, []int{65, 35})
				}
			}
			shape = append(shape, op)
			switch op {
			case "repeat":
				guardedDispatch(target, how(), stream)
			case "repeat-good-stream":
				guardedDispatch(target, how(), good)
			case "wake", "wake+repeat":
				for i, s := range e.subs {
					if s.Style == "channel-stuck" && rng.Intn(3) > 0 {
						e.wake(i)
					}
				}
				if op == "wake+repeat" {
					guardedDispatch(m, how(), stream)
				}
			case "fresh":
				guardedDispatch(fresh(), "clone", stream)
			case "fresh+repeat":
				guardedDispatch(fresh(), "clone", stream)
				if !e.tainted {
					guardedDispatch(m, how(), stream)
				}
			}
		}
	}
	res.count("nb.seq.trials", 1)
	res.count("nb.seq.trials."+kind, 1)
	res.Cases = append(res.Cases, caseRec{shapeHash("nb-seq", kind+" "+strings.Join(shape, " ")), e.checkedAfter > 0})
	if j == 0 {
		res.sample(map[string]interface{}{"part": "dispatcher-sequential-misbehaving-neighbours", "case": e.witness()})
	}
}

// runNeighbourTrials: the trials of one dispatch-seq child. Trials whose neighbours never fail to
// take a message at once cost nothing; 'blocked' trials are few because every dispatch that meets
// a full channel may legitimately take as long as the implementation is willing to wait.
func runNeighbourTrials(res *childResult, seed int64, child int, quick bool, nc *nctx.NetCtx) {
	nBlocked, nOther, budget := 3, 12, 2
	if !quick {
		nBlocked, nOther, budget = 30, 200, 3
	}
	// the trials that cost nothing first, so that they are run whatever the dear ones find
	for k := 0; k < nOther; k++ {
		if res.numViolations() > 0 {
			res.count("nb.seq.trials.skipped_after_violation", 1)
			continue
		}
		runNeighbourTrial(res, seed, child, 1000+k, []string{"handler-failed", "send-failed", "handler-slow"}[k%3], budget, nc)
	}
	for k := 0; k < nBlocked; k++ {
		if res.numViolations() > 0 {
			res.count("nb.seq.trials.skipped_after_violation", 1)
			continue
		}
		runNeighbourTrial(res, seed, child, k, "blocked", budget, nc)
	}
}
