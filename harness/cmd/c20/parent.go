package main

import (
	"fmt"
	"io/ioutil"
	"os"
	"os/exec"
	"path/filepath"
	"regexp"
	"runtime"
	"strconv"
	"strings"
	"sync"
	"syscall"
	"time"

	"verif/ev"
)

type childSpec struct {
	mode     string
	n        int
	from, to int
	procs    int
	timeout  time.Duration
	tier     string
}

type crashInfo struct {
	Spec      string `json:"child"`
	Unit      string `json:"last_unit_started"`
	ExitCode  int    `json:"exit_code"`
	Watchdog  bool   `json:"watchdog_fired"`
	FirstLine string `json:"first_line"`
	Stack     string `json:"stack"`
	class     string
}

type childOutcome struct {
	spec    childSpec
	results []*childResult
	crashes []crashInfo
	incon   []string
}

func lastLine(path string) string {
	b, err := ioutil.ReadFile(path)
	if err != nil {
		return ""
	}
	ls := strings.Split(strings.TrimSpace(string(b)), "\n")
	return ls[len(ls)-1]
}

var reHex = regexp.MustCompile(`0x[0-9a-f]+|\b\d+\b`)

// classifyStderr finds the reason a child died.
func classifyStderr(text string) (class, first, stack string) {
	lines := strings.Split(text, "\n")
	for i, l := range lines {
		if strings.HasPrefix(l, "fatal error:") || strings.HasPrefix(l, "panic:") {
			first = l
			end := i + 45
			if end > len(lines) {
				end = len(lines)
			}
			stack = strings.Join(lines[i:end], "\n")
			switch {
			case strings.Contains(l, "concurrent map"):
				class = "concurrent-map"
			case strings.HasPrefix(l, "fatal error:"):
				class = "fatal"
			default:
				class = "panic"
			}
			return
		}
	}
	return "", "", ""
}

// analyseDump decides whether a SIGQUIT goroutine dump shows a logical deadlock inside the
// dispatcher: at least one goroutine inside kernel/network/p2p and every such goroutine parked
// on a lock / channel / wait group, none running.
func analyseDump(text string) (deadlock bool, summary string) {
	blocks := strings.Split(text, "\n\n")
	reHead := regexp.MustCompile(`^goroutine \d+[^\[\n]*\[([^\],]+)`)
	inSUT, parked := 0, 0
	states := map[string]int{}
	for _, b := range blocks {
		b = strings.TrimSpace(b)
		m := reHead.FindStringSubmatch(b)
		if m == nil || !strings.Contains(b, "kernel/network/p2p.") {
			continue
		}
		inSUT++
		st := m[1]
		states[st]++
		switch {
		case strings.HasPrefix(st, "semacquire"), strings.HasPrefix(st, "sync."), st == "chan send", st == "chan receive", st == "select":
			parked++
		}
	}
	summary = fmt.Sprintf("%d goroutines inside kernel/network/p2p, %d parked, states %v", inSUT, parked, states)
	return inSUT > 0 && parked == inSUT, summary
}

func runChild(spec childSpec, scratch, exe string, seed int64) *childOutcome {
	oc := &childOutcome{spec: spec}
	from := spec.from
	skip := -1
	maxTry := 6
	if spec.tier == "thorough" {
		maxTry = 15
	}
	if spec.mode == "codec-flip" {
		maxTry = 1
	}
	for try := 0; try < maxTry && from < spec.to; try++ {
		tag := fmt.Sprintf("%s-%d-%d", spec.mode, spec.n, try)
		out := filepath.Join(scratch, tag+".json")
		prog := filepath.Join(scratch, tag+".progress")
		errPath := filepath.Join(scratch, tag+".stderr")
		cmd := exec.Command(exe, "-child", spec.mode, "-n", strconv.Itoa(spec.n), "-seed", strconv.FormatInt(seed, 10),
			"-from", strconv.Itoa(from), "-to", strconv.Itoa(spec.to), "-out", out, "-progress", prog, "-ctier", spec.tier)
		var env []string
		for _, e := range os.Environ() {
			if strings.HasPrefix(e, "GORACE=") || strings.HasPrefix(e, "GOMAXPROCS=") || strings.HasPrefix(e, "C20_SKIP_UNIT=") || strings.HasPrefix(e, "C20_RESTART=") || strings.HasPrefix(e, "GOTRACEBACK=") {
				continue
			}
			env = append(env, e)
		}
		env = append(env, "GORACE=halt_on_error=0 exitcode=0 log_path="+filepath.Join(scratch, "race-"+tag),
			"GOMAXPROCS="+strconv.Itoa(spec.procs), "C20_SKIP_UNIT="+strconv.Itoa(skip), "GOTRACEBACK=all", "VERIF_SCRATCH="+scratch)
		if try > 0 {
			env = append(env, "C20_RESTART=1")
		}
		cmd.Env = env
		ef, _ := os.Create(errPath)
		cmd.Stderr = ef
		if err := cmd.Start(); err != nil {
			oc.incon = append(oc.incon, "cannot start child: "+err.Error())
			return oc
		}
		done := make(chan error, 1)
		go func() { done <- cmd.Wait() }()
		watchdog := false
		var werr error
		select {
		case werr = <-done:
		case <-time.After(spec.timeout):
			watchdog = true
			cmd.Process.Signal(syscall.SIGQUIT)
			select {
			case werr = <-done:
			case <-time.After(20 * time.Second):
				cmd.Process.Kill()
				werr = <-done
			}
		}
		if ef != nil {
			ef.Close()
		}
		res := loadChildResult(out)
		if res != nil {
			oc.results = append(oc.results, res)
		}
		if werr == nil && !watchdog && res != nil && res.Done {
			return oc
		}
		code := -1
		if cmd.ProcessState != nil {
			code = cmd.ProcessState.ExitCode()
		}
		eb, _ := ioutil.ReadFile(errPath)
		ci := crashInfo{Spec: fmt.Sprintf("%s child %d units [%d,%d)", spec.mode, spec.n, from, spec.to), Unit: lastLine(prog), ExitCode: code, Watchdog: watchdog}
		if watchdog {
			dl, sum := analyseDump(string(eb))
			ci.FirstLine = sum
			ci.Stack = clipStr(string(eb), 6000)
			if dl {
				ci.class = "deadlock"
			} else {
				ci.class = "watchdog"
			}
		} else {
			ci.class, ci.FirstLine, ci.Stack = classifyStderr(string(eb))
			if ci.class == "" {
				ci.class = "unknown"
				ci.Stack = clipStr(string(eb), 3000)
			}
		}
		oc.crashes = append(oc.crashes, ci)
		logf("child %s died (%s): %s | unit: %s", tag, ci.class, ci.FirstLine, clipStr(ci.Unit, 120))
		// restart after the unit that was running
		next := from
		if res != nil && res.NextUnit > next {
			next = res.NextUnit
		}
		crashed := -1
		fmt.Sscanf(ci.Unit, "unit %d", &crashed)
		if crashed >= 0 {
			skip = crashed
			if crashed == next {
				next++
			}
		} else {
			// died before the first unit (or in the probes): do not loop
			if ci.Unit == "" {
				return oc
			}
			skip = -2 // negative and not -1: probes are skipped, units run from 'next'
		}
		if watchdog {
			return oc
		}
		from = next
	}
	return oc
}

func clipStr(s string, n int) string {
	if len(s) > n {
		return s[:n] + "..."
	}
	return s
}

func runDispatcherChildren(r *ev.Run, scratch string) {
	exe, err := os.Executable()
	if err != nil {
		r.Inconclusive("cannot find own executable: " + err.Error())
		return
	}
	var specs []childSpec
	nSeq := r.N(600, 30000)
	seqChildren := r.N(4, 8)
	per := (nSeq + seqChildren - 1) / seqChildren
	tmo := time.Duration(r.N(240, 2400)) * time.Second
	if v, err := strconv.Atoi(os.Getenv("C20_CHILD_TIMEOUT_S")); err == nil && v > 0 {
		tmo = time.Duration(v) * time.Second // development aid (testing the watch-dog path); registered commands never set this
	}
	for c := 0; c < seqChildren; c++ {
		lo, hi := c*per, (c+1)*per
		if hi > nSeq {
			hi = nSeq
		}
		specs = append(specs, childSpec{mode: "dispatch-seq", n: c, from: lo, to: hi, procs: 2, timeout: tmo, tier: r.Tier})
	}
	stressChildren := r.N(16, 48)
	rounds := r.N(120, 3000)
	for c := 0; c < stressChildren; c++ {
		procs := []int{4, 8, 2, 6}[c%4]
		specs = append(specs, childSpec{mode: "dispatch-stress", n: c, from: 0, to: rounds, procs: procs, timeout: tmo, tier: r.Tier})
	}
	// Rounds with a STUCK consumer (a full channel nobody reads) get processes of their own, outside the
	// four slots: an implementation may wait at a full channel (3 s timeout in /repo, never reached there),
	// and such a wait must overlap with the other children instead of adding to the wall time. Few rounds
	// per process for the same reason (see stuckPlan).
	for c := 0; c < r.N(4, 8); c++ {
		specs = append(specs, childSpec{mode: "dispatch-stress", n: stuckChildBase + c, from: 0, to: r.N(2, 12), procs: []int{4, 8, 2, 6}[c%4], timeout: tmo, tier: r.Tier})
	}
	// seq children are light: run them together with the first wave of stress children
	par := 4
	sem := make(chan struct{}, par)
	outs := make([]*childOutcome, len(specs))
	var wg sync.WaitGroup
	t0 := time.Now()
	for i, sp := range specs {
		wg.Add(1)
		go func(i int, sp childSpec) {
			defer wg.Done()
			if sp.mode == "dispatch-stress" && sp.n < stuckChildBase {
				sem <- struct{}{}
				defer func() { <-sem }()
			}
			outs[i] = runChild(sp, scratch, exe, r.Seed)
		}(i, sp)
	}
	wg.Wait()
	logf("dispatcher children: %d processes in %.1fs", len(specs), time.Since(t0).Seconds())

	samplesLeft := map[string]int{"dispatch-seq": 2, "dispatch-stress": 2}
	for _, oc := range outs {
		if oc == nil {
			continue
		}
		for _, s := range oc.incon {
			r.Inconclusive(s)
		}
		for _, res := range oc.results {
			for _, c := range res.Cases {
				r.Case(c.Shape, c.NT)
			}
			for k, v := range res.Counters {
				r.Count(k, int(v))
			}
			for _, s := range res.Samples {
				if samplesLeft[oc.spec.mode] > 0 {
					samplesLeft[oc.spec.mode]--
					r.Sample(s)
				}
			}
			for _, v := range res.Violations {
				r.Violation(v.Sig, v.Detail, v.Witness)
			}
			for _, s := range res.Inconclusive {
				r.Inconclusive(s)
			}
		}
		for _, ci := range oc.crashes {
			r.Count("child.abnormal_exit."+ci.class, 1)
			part := "conc"
			if oc.spec.mode == "dispatch-seq" {
				part = "seq"
			}
			switch ci.class {
			case "concurrent-map":
				r.Violation("dispatch|fatal|concurrent-map-access",
					"the process died with the Go runtime fatal error \""+ci.FirstLine+"\" while goroutines called Register / UnRegister / Dispatch on one dispatcher", ci)
			case "fatal", "panic":
				r.Violation("dispatch|"+part+"|crash|"+reHex.ReplaceAllString(clipStr(ci.FirstLine, 80), "N"),
					"the process running the dispatcher died: "+ci.FirstLine, ci)
			case "deadlock":
				r.Violation("dispatch|"+part+"|deadlock|all-workers-parked-inside-dispatcher",
					"watch-dog fired and every goroutine inside kernel/network/p2p is parked on a lock / channel: "+ci.FirstLine, ci)
			case "watchdog":
				r.Inconclusive("watch-dog fired for " + ci.Spec + " without a deadlock pattern (" + ci.FirstLine + ")")
			default:
				r.Inconclusive(fmt.Sprintf("%s exited abnormally (code %d) without a recognisable reason", ci.Spec, ci.ExitCode))
			}
		}
	}

	// race reports of all children
	root := repoRoot()
	lr := dispatchLockRegion(root)
	if !lr.ok {
		logf("warning: could not analyse %s/kernel/network/p2p/dispatcher.go, race signatures fall back to function names", root)
	}
	files, _ := filepath.Glob(filepath.Join(scratch, "race-*"))
	var reports []raceReport
	for _, f := range files {
		reports = append(reports, parseRaceLog(f, root)...)
	}
	r.Count("race.reports", len(reports))
	pairs := classifyRaces(reports, lr)
	var info []interface{}
	for _, p := range pairs {
		if p.Relevant {
			r.Count("race.distinct_pairs.relevant", 1)
			r.Violation(p.Sig, fmt.Sprintf("data race on the subscriber table (%d report(s)): %s %s at %s:%d  <->  %s %s at %s:%d",
				p.Count, p.A.Kind, shortFunc(p.A.Inner.Func), p.A.Inner.File, p.A.Inner.Line, p.B.Kind, shortFunc(p.B.Inner.Func), p.B.Inner.File, p.B.Inner.Line),
				map[string]interface{}{"pair": p, "report": p.Raw})
		} else {
			r.Count("race.distinct_pairs.other", 1)
			logf("race report not in the anchored files (informational): %s\n%s", p.Key, clipStr(p.Raw, 1500))
		}
		if len(info) < 10 {
			info = append(info, map[string]interface{}{"signature": p.Sig, "relevant": p.Relevant, "reports": p.Count, "key": p.Key})
		}
	}
	r.Extra("race_pairs", info)
	r.Extra("race_lock_region_of_Dispatch", map[string]interface{}{"analysed": lr.ok, "first_lock_line": lr.firstRLock, "last_unlock_line": lr.lastR})
}

// runCorruptionChildren runs the bit-flip / burst part in single-threaded child processes.
func runCorruptionChildren(r *ev.Run, scratch string) {
	exe, err := os.Executable()
	if err != nil {
		r.Inconclusive("cannot find own executable: " + err.Error())
		return
	}
	parts := runtime.NumCPU()
	if parts > 32 {
		parts = 32
	}
	if parts < 2 {
		parts = 2
	}
	outs := make([]*childOutcome, parts)
	var wg sync.WaitGroup
	for p := 0; p < parts; p++ {
		wg.Add(1)
		go func(p int) {
			defer wg.Done()
			outs[p] = runChild(childSpec{mode: "codec-flip", n: p, from: 0, to: parts, procs: 1, tier: r.Tier,
				timeout: time.Duration(r.N(300, 3600)) * time.Second}, scratch, exe, r.Seed)
		}(p)
	}
	wg.Wait()
	samples := 2
	for _, oc := range outs {
		for _, s := range oc.incon {
			r.Inconclusive(s)
		}
		for _, res := range oc.results {
			r.Evals(int(res.Evals))
			for _, sh := range res.Shapes {
				r.Shape(sh)
			}
			for k, v := range res.Counters {
				r.Count(k, int(v))
			}
			for _, s := range res.Samples {
				if samples > 0 {
					samples--
					r.Sample(s)
				}
			}
			for _, v := range res.Violations {
				r.Violation(v.Sig, v.Detail, v.Witness)
			}
			for _, s := range res.Inconclusive {
				r.Inconclusive(s)
			}
		}
		for _, ci := range oc.crashes {
			switch ci.class {
			case "fatal", "panic", "concurrent-map":
				r.Violation("codec|crash|"+reHex.ReplaceAllString(clipStr(ci.FirstLine, 80), "N"), "the process decoding corrupted payloads died: "+ci.FirstLine, ci)
			default:
				r.Inconclusive(fmt.Sprintf("corruption child %s ended abnormally (%s)", ci.Spec, ci.class))
			}
		}
		if len(oc.results) == 0 || !oc.results[len(oc.results)-1].Done {
			r.Inconclusive("a corruption child did not finish: " + oc.spec.mode + " part " + strconv.Itoa(oc.spec.n))
		}
	}
	r.Extra("single_bit_flips_exhaustive_for_targets_up_to_2kB", true)
}
