package main

import (
	"fmt"
	"math/rand"
	"runtime"
	"sort"
	"sync"
	"time"

	"github.com/golang/protobuf/proto"
	nctx "github.com/xuperchain/xupercore/kernel/network/context"
	"github.com/xuperchain/xupercore/kernel/network/p2p"
	pb "github.com/xuperchain/xupercore/protos"
)

// stressCfg is the shape of one free-running round (fresh dispatcher, real goroutines).
type stressCfg struct {
	NDisp      int `json:"dispatch_goroutines"`
	NChurn     int `json:"churn_goroutines"`
	NPerm      int `json:"permanent_subscribers"`
	NTypes     int `json:"types"`
	MsgsPer    int `json:"messages_per_dispatcher"`
	ChurnIters int `json:"iterations_per_churner"`
	SubsPer    int `json:"subscribers_per_churner"`
	NSelf      int `json:"self_unregistering_subscribers"`
	Yield      int `json:"yield_style"`

	// slow consumers next to the healthy subscribers (see stuckPlan); zero in most rounds
	Stuck      int  `json:"stuck_channel_subscribers,omitempty"`
	StuckCap   int  `json:"stuck_channel_capacity,omitempty"`
	StuckExtra int  `json:"messages_beyond_stuck_capacity,omitempty"`
	LateDrain  bool `json:"stuck_consumer_drains_late,omitempty"`
}

// stuckSender is the sender only the slow consumers filter on (next to the unfiltered healthy
// subscribers of the type): it bounds the dispatches that can meet a full channel to the few
// "special" messages of a round.
const stuckSender = "peerS"

// stuckChildBase: stress children with an index from here on run only rounds with stuck consumers.
const stuckChildBase = 100

// stuckPlan decides whether a round has slow consumers: channel subscribers of the first type with
// a small channel, registered for the whole round. LateDrain: a consumer goroutine empties the
// channel whenever it finds it full (slow, drains late); otherwise nobody reads the channel before
// the round is over (stuck). An implementation may wait for room in a full channel (the pinned one
// has a 3 s timeout it never reaches), so the never-drained rounds are few - in the quick tier two
// rounds in each of four processes of their own, one message beyond the capacity - and are skipped
// after a child's first violation; a late-draining consumer makes nobody wait for long.
func stuckPlan(cfg *stressCfg, seed int64, child, round int, quick bool) {
	rng := rand.New(rand.NewSource(mix(seed, child*100003+round, 717)))
	never := child >= stuckChildBase || (!quick && round%100 == 37)
	switch {
	case never:
		cfg.Stuck, cfg.StuckCap, cfg.StuckExtra = 1+rng.Intn(2), 1+rng.Intn(2), 1
		if !quick {
			cfg.StuckExtra = 1 + rng.Intn(2)
		}
	case round%8 == 5:
		cfg.Stuck, cfg.StuckCap, cfg.StuckExtra, cfg.LateDrain = 1+rng.Intn(2), 1+rng.Intn(3), 2+rng.Intn(6), true
	default:
		return
	}
	// the healthy neighbours need at least one dispatcher goroutine
	if cfg.NDisp < 1 {
		cfg.NDisp = 1
	}
}

func stressConfig(seed int64, child, round int) stressCfg {
	rng := rand.New(rand.NewSource(mix(seed, child*100003+round, 707)))
	total := 2 + rng.Intn(7) // 2..8 goroutines
	nd := 1 + rng.Intn(total-1)
	if nd > 5 {
		nd = 5
	}
	return stressCfg{NDisp: nd, NChurn: total - nd, NPerm: rng.Intn(5), NTypes: 2 + rng.Intn(14), MsgsPer: 8 + rng.Intn(30),
		ChurnIters: 6 + rng.Intn(30), SubsPer: 2 + rng.Intn(5), NSelf: rng.Intn(3), Yield: rng.Intn(4)}
}

type opRec struct {
	Sub       int    `json:"sub"`
	Reg       bool   `json:"register"`
	Call      int64  `json:"call_seq"`
	Ret       int64  `json:"ret_seq"`
	Err       string `json:"err"`
	FirstType bool   `json:"-"`
}

type attempt struct {
	Call int64         `json:"call_seq"`
	Ret  int64         `json:"ret_seq"`
	Err  string        `json:"err"`
	T0   time.Duration `json:"-"`
	T1   time.Duration `json:"-"`
}

type dispRec struct {
	Msg  int       `json:"msg"`
	Kind string    `json:"kind"` // plain | repeat | dup2
	Att  []attempt `json:"attempts"`
}

type stressMsg struct {
	msg   *pb.XuperMessage
	typ   pb.XuperMessage_MessageType
	bc    string
	from  string
	logid string

	special bool // sent by stuckSender: matches the slow consumers of the round
}

func yield(rng *rand.Rand, style int) {
	switch style {
	case 0:
	case 1:
		runtime.Gosched()
	case 2:
		n := rng.Intn(200)
		x := 0
		for i := 0; i < n; i++ {
			x += i
		}
		_ = x
	default:
		if rng.Intn(4) == 0 {
			time.Sleep(time.Duration(rng.Intn(40)) * time.Microsecond)
		} else {
			runtime.Gosched()
		}
	}
}

const (
	stOut = iota
	stIn
	stMaybe
)

type stateIv struct {
	from, to int64 // definite state strictly inside (from, to)
	st       int
}

// timeline turns the (sequential) ops on one subscriber into definite-state intervals.
func timeline(ops []opRec) []stateIv {
	sort.Slice(ops, func(i, j int) bool { return ops[i].Call < ops[j].Call })
	var ivs []stateIv
	st := stOut
	prev := int64(0)
	for _, op := range ops {
		if op.Call > prev {
			ivs = append(ivs, stateIv{prev, op.Call, st})
		}
		switch {
		case op.Reg && op.Err == "nil":
			st = stIn
		case op.Reg && op.Err == p2p.ErrRegistered.Error() && st == stIn:
			st = stIn
		case !op.Reg && op.Err == "nil":
			st = stOut
		case !op.Reg && op.Err == p2p.ErrNotRegister.Error() && st == stOut:
			st = stOut
		default:
			st = stMaybe
		}
		if op.Ret > prev {
			prev = op.Ret
		}
	}
	ivs = append(ivs, stateIv{prev, 1 << 62, st})
	return ivs
}

func stateOver(ivs []stateIv, call, ret int64) int {
	for _, iv := range ivs {
		if iv.from < call && ret < iv.to {
			return iv.st
		}
	}
	return stMaybe
}

func runStressRound(res *childResult, seed int64, child, round int, cfg stressCfg, nc *nctx.NetCtx) {
	rng := rand.New(rand.NewSource(mix(seed, child*100003+round, 808)))
	rc := &recorder{}
	d := p2p.NewDispatcher(nc)
	stream := &recStream{}
	valid := validSubTypes()
	rng.Shuffle(len(valid), func(i, j int) { valid[i], valid[j] = valid[j], valid[i] })
	types := valid[:cfg.NTypes]
	roundStart := time.Now()

	var subs []*recSub
	var opsMu sync.Mutex
	extraOps := []opRec{} // ops issued from handlers (self-unregistration)
	mkSub := func(typ pb.XuperMessage_MessageType, self bool, r *rand.Rand) *recSub {
		cfgS := subCfg{ID: len(subs), typ: typ,
			BC:   pickW(r, []string{"", "xuper", "hello"}, []int{50, 30, 20}),
			From: pickW(r, []string{"", "peerA", "peerB"}, []int{60, 25, 15}),
			// handler style only: a channel subscriber's deliveries could not be attributed to one of two attempts
			Style: pickW(r, []string{"handler", "handler-nilresp"}, []int{96, 4}), SelfUnreg: self}
		if self {
			cfgS.Style = "handler"
		}
		var work func()
		if r.Intn(3) == 0 {
			work = runtime.Gosched
		}
		var on func(s *recSub)
		if self {
			on = func(s *recSub) {
				s.once.Do(func() {
					call := rc.tick()
					err := d.UnRegister(s.sub)
					ret := rc.tick()
					opsMu.Lock()
					extraOps = append(extraOps, opRec{Sub: s.ID, Reg: false, Call: call, Ret: ret, Err: errStr(err)})
					opsMu.Unlock()
				})
			}
		}
		s := newRecSub(nc, rc, cfgS, work, on)
		subs = append(subs, s)
		return s
	}

	var mainOps []opRec
	doReg := func(s *recSub, log *[]opRec) {
		call := rc.tick()
		err := d.Register(s.sub)
		ret := rc.tick()
		*log = append(*log, opRec{Sub: s.ID, Reg: true, Call: call, Ret: ret, Err: errStr(err)})
	}
	doUnreg := func(s *recSub, log *[]opRec) {
		call := rc.tick()
		err := d.UnRegister(s.sub)
		ret := rc.tick()
		*log = append(*log, opRec{Sub: s.ID, Reg: false, Call: call, Ret: ret, Err: errStr(err)})
	}
	// permanent subscribers: registered before any worker starts, on the first half of the types only,
	// so that the other types enter the table while dispatches are running
	for i := 0; i < cfg.NPerm; i++ {
		s := mkSub(types[rng.Intn((len(types)+1)/2)], false, rng)
		doReg(s, &mainOps)
	}
	for i := 0; i < cfg.NSelf; i++ {
		s := mkSub(types[rng.Intn(len(types))], true, rng)
		doReg(s, &mainOps)
	}
	// slow consumers and one healthy, unfiltered neighbour of their type (own generator: the rest of
	// the round is built exactly as without them)
	srng := rand.New(rand.NewSource(mix(seed, child*100003+round, 811)))
	var stuckSubs []*recSub
	if cfg.Stuck > 0 {
		h := newRecSub(nc, rc, subCfg{ID: len(subs), typ: types[0], Style: "handler"}, nil, nil)
		subs = append(subs, h)
		doReg(h, &mainOps)
		for i := 0; i < cfg.Stuck; i++ {
			x := newRecSub(nc, rc, subCfg{ID: len(subs), typ: types[0], BC: pickW(srng, []string{"", "xuper"}, []int{70, 30}), From: stuckSender,
				Style: "channel-stuck", Cap: cfg.StuckCap}, nil, nil)
			subs = append(subs, x)
			stuckSubs = append(stuckSubs, x)
			doReg(x, &mainOps)
		}
	}
	// churners' subscribers
	churnSubs := make([][]*recSub, cfg.NChurn)
	for g := 0; g < cfg.NChurn; g++ {
		for k := 0; k < cfg.SubsPer; k++ {
			churnSubs[g] = append(churnSubs[g], mkSub(types[rng.Intn(len(types))], false, rng))
		}
	}
	// messages, built before the start signal
	var msgs []*stressMsg
	plans := make([][]dispRec, cfg.NDisp)
	for g := 0; g < cfg.NDisp; g++ {
		for k := 0; k < cfg.MsgsPer; k++ {
			typ := types[rng.Intn(len(types))]
			if rng.Intn(12) == 0 {
				typ = valid[rng.Intn(len(valid))]
			}
			m := &stressMsg{typ: typ, bc: pickW(rng, []string{"xuper", "hello"}, []int{60, 40}), from: pickW(rng, []string{"peerA", "peerB"}, []int{60, 40}),
				logid: fmt.Sprintf("r%d-g%d-m%d-%d", round, g, k, rng.Int31())}
			m.msg = buildMsg(m.typ, m.bc, m.from, m.logid, rng.Intn(2), rng.Intn(3) == 0)
			msgs = append(msgs, m)
			plans[g] = append(plans[g], dispRec{Msg: len(msgs) - 1, Kind: pickW(rng, []string{"plain", "repeat", "dup2"}, []int{80, 12, 8})})
		}
	}
	// the special messages: the first StuckCap of them (in whatever order the schedule gives) find
	// room in a stuck consumer's channel, the others meet a full one
	if cfg.Stuck > 0 {
		for k := 0; k < cfg.StuckCap+cfg.StuckExtra; k++ {
			m := &stressMsg{typ: types[0], bc: "xuper", from: stuckSender, logid: fmt.Sprintf("r%d-special-m%d-%d", round, k, srng.Int31()), special: true}
			m.msg = buildMsg(m.typ, m.bc, m.from, m.logid, srng.Intn(2), srng.Intn(3) == 0)
			msgs = append(msgs, m)
			kind := "repeat"
			if cfg.LateDrain {
				kind = pickW(srng, []string{"repeat", "plain", "dup2"}, []int{60, 25, 15})
			}
			g := srng.Intn(cfg.NDisp)
			at := srng.Intn(len(plans[g]) + 1)
			plans[g] = append(plans[g], dispRec{})
			copy(plans[g][at+1:], plans[g][at:])
			plans[g][at] = dispRec{Msg: len(msgs) - 1, Kind: kind}
		}
	}
	byLogid := map[string]int{}
	for i, m := range msgs {
		byLogid[m.logid] = i
	}

	start := make(chan struct{})
	var wg sync.WaitGroup
	churnLogs := make([][]opRec, cfg.NChurn)
	panics := make(chan string, 64)
	guard := func(who string) {
		if p := recover(); p != nil {
			select {
			case panics <- fmt.Sprintf("%s: %v", who, p):
			default:
			}
		}
	}
	for g := 0; g < cfg.NChurn; g++ {
		wg.Add(1)
		go func(g int) {
			defer wg.Done()
			defer guard("Register/UnRegister")
			r := rand.New(rand.NewSource(mix(seed, child*100003+round, int64(900+g))))
			own := churnSubs[g]
			in := make([]bool, len(own))
			<-start
			for it := 0; it < cfg.ChurnIters; it++ {
				i := r.Intn(len(own))
				if !in[i] {
					doReg(own[i], &churnLogs[g])
					in[i] = true
				} else {
					doUnreg(own[i], &churnLogs[g])
					in[i] = false
				}
				yield(r, cfg.Yield)
			}
		}(g)
	}
	for g := 0; g < cfg.NDisp; g++ {
		wg.Add(1)
		go func(g int) {
			defer wg.Done()
			defer guard("Dispatch")
			r := rand.New(rand.NewSource(mix(seed, child*100003+round, int64(950+g))))
			one := func(m *pb.XuperMessage) attempt {
				t0 := time.Since(roundStart)
				call := rc.tick()
				err := d.Dispatch(m, stream)
				ret := rc.tick()
				return attempt{Call: call, Ret: ret, Err: errStr(err), T0: t0, T1: time.Since(roundStart)}
			}
			<-start
			for k := range plans[g] {
				p := &plans[g][k]
				m := msgs[p.Msg].msg
				switch p.Kind {
				case "plain":
					p.Att = append(p.Att, one(m))
				case "repeat":
					p.Att = append(p.Att, one(m))
					p.Att = append(p.Att, one(m))
				case "dup2":
					var a2 attempt
					var w2 sync.WaitGroup
					w2.Add(1)
					go func() {
						defer w2.Done()
						defer guard("Dispatch")
						a2 = one(proto.Clone(m).(*pb.XuperMessage))
					}()
					a1 := one(m)
					w2.Wait()
					p.Att = append(p.Att, a1, a2)
				}
				yield(r, cfg.Yield)
			}
		}(g)
	}
	// a slow consumer: whenever it finds its channel full it takes what is there (late drain)
	stopDrain := make(chan struct{})
	var dwg sync.WaitGroup
	lateTaken := make([][]*pb.XuperMessage, len(stuckSubs))
	if cfg.LateDrain {
		for k, x := range stuckSubs {
			dwg.Add(1)
			go func(k int, x *recSub) {
				defer dwg.Done()
				r := rand.New(rand.NewSource(mix(seed, child*100003+round, int64(980+k))))
				<-start
				for {
					select {
					case <-stopDrain:
						return
					default:
					}
					if len(x.ch) == cap(x.ch) {
						for n := r.Intn(4); n > 0; n-- {
							runtime.Gosched()
						}
						lateTaken[k] = append(lateTaken[k], x.takeStuck()...)
					}
					yield(r, 3)
				}
			}(k, x)
		}
	}
	close(start)
	wg.Wait()
	close(stopDrain)
	dwg.Wait()
	close(panics)
	res.count("stress.rounds", 1)
	res.count("stress.goroutines", cfg.NDisp+cfg.NChurn)

	wit := func(extra map[string]interface{}) interface{} {
		w := map[string]interface{}{"child": child, "round": round, "seed": seed, "config": cfg}
		for k, v := range extra {
			w[k] = v
		}
		return w
	}
	for p := range panics {
		res.violation("dispatch|conc|panic", "panic under concurrent Register / UnRegister / Dispatch: "+p, wit(nil))
		return
	}

	// ---- offline check of the round ----
	opsBySub := map[int][]opRec{}
	var allOps []opRec
	for _, op := range mainOps {
		allOps = append(allOps, op)
	}
	for g := range churnLogs {
		allOps = append(allOps, churnLogs[g]...)
	}
	allOps = append(allOps, extraOps...)
	sort.Slice(allOps, func(i, j int) bool { return allOps[i].Call < allOps[j].Call })
	typeSeen := map[pb.XuperMessage_MessageType]bool{}
	for i := range allOps {
		op := &allOps[i]
		if op.Reg && !typeSeen[subs[op.Sub].typ] {
			typeSeen[subs[op.Sub].typ] = true
			op.FirstType = true
		}
		opsBySub[op.Sub] = append(opsBySub[op.Sub], *op)
		if op.Reg {
			res.count("stress.op.register", 1)
		} else {
			res.count("stress.op.unregister", 1)
		}
	}
	ivs := make([][]stateIv, len(subs))
	for i := range subs {
		ivs[i] = timeline(opsBySub[i])
	}
	// deliveries per (message, subscriber)
	type dkey struct{ msg, sub int }
	delivs := map[dkey][]int64{}
	delivAt := map[dkey][]time.Duration{} // parallel to delivs; read by a guard only
	for i, s := range subs {
		s.drain(rc)
		for _, dl := range s.take() {
			mi, ok := byLogid[dl.msg.GetHeader().GetLogid()]
			if !ok || !proto.Equal(dl.msg, msgs[mi].msg) {
				res.violation("dispatch|conc|handed-message-differs", "a subscriber was handed a message that was never dispatched", wit(map[string]interface{}{"subscriber": s.subCfg}))
				return
			}
			delivs[dkey{mi, i}] = append(delivs[dkey{mi, i}], dl.seq)
			delivAt[dkey{mi, i}] = append(delivAt[dkey{mi, i}], dl.at.Sub(roundStart))
			res.count("stress.deliveries", 1)
		}
	}
	// what the slow consumers took (during the round when they drain late, now otherwise). Their own
	// copies are not judged for completeness (a full channel may drop); a message they did not get
	// met a full channel at its first dispatch.
	stuckGot := map[dkey]int{}
	metFull := map[int]bool{}
	if cfg.Stuck > 0 {
		if cfg.LateDrain {
			res.count("nb.conc.rounds.late_drain", 1)
		} else {
			res.count("nb.conc.rounds.never_drained", 1)
		}
		for k, x := range stuckSubs {
			for _, m := range append(lateTaken[k], x.takeStuck()...) {
				mi, ok := byLogid[m.GetHeader().GetLogid()]
				if !ok || !proto.Equal(m, msgs[mi].msg) {
					res.violation("dispatch|conc|handed-message-differs", "a subscriber was handed a message that was never dispatched", wit(map[string]interface{}{"subscriber": x.subCfg}))
					return
				}
				stuckGot[dkey{mi, x.ID}]++
				res.count("nb.conc.slow_consumer.took", 1)
			}
		}
		for mi, m := range msgs {
			if !m.special {
				continue
			}
			for _, x := range stuckSubs {
				if stuckGot[dkey{mi, x.ID}] == 0 {
					metFull[mi] = true
					res.count("nb.conc.slow_consumer.copy_lost_not_judged", 1)
				}
			}
		}
	}
	overlapsChurn := func(call, ret int64) (any bool, newType bool) {
		for _, op := range allOps {
			if op.Call < ret && call < op.Ret {
				any = true
				if op.FirstType {
					newType = true
				}
			}
		}
		return
	}
	overl := 0
	for g := range plans {
		for _, p := range plans[g] {
			if len(p.Att) == 0 {
				continue
			}
			m := msgs[p.Msg]
			res.count("stress.dispatches", len(p.Att))
			res.count("stress.dispatch."+p.Kind, 1)
			lo, hi := p.Att[0].Call, p.Att[0].Ret
			for _, a := range p.Att {
				if a.Call < lo {
					lo = a.Call
				}
				if a.Ret > hi {
					hi = a.Ret
				}
				if any, nt := overlapsChurn(a.Call, a.Ret); any {
					overl++
					res.count("stress.dispatch_overlapping_churn", 1)
					if nt {
						res.count("stress.newtype_register_overlapping_dispatch", 1)
					}
				}
			}
			fail := func(sig, what string, s *recSub, n int) {
				res.violation(sig, fmt.Sprintf("%s: message %s (type %v chain %q sender %q, %s dispatch, attempts %+v) was handed %d time(s) to subscriber s%d %+v",
					what, m.logid, m.typ, m.bc, m.from, p.Kind, p.Att, n, s.ID, s.subCfg),
					wit(map[string]interface{}{"message": map[string]interface{}{"logid": m.logid, "type": m.typ.String(), "chain": m.bc, "sender": m.from},
						"dispatch": p, "subscriber": s.subCfg, "subscriber_ops": opsBySub[s.ID], "delivery_seqs": delivs[dkey{p.Msg, s.ID}]}))
			}
			// who got it during the first attempt (needed for the repeat rule)
			firstReached := 0
			if p.Kind == "repeat" {
				for i := range subs {
					for _, q := range delivs[dkey{p.Msg, i}] {
						if q < p.Att[1].Call {
							firstReached++
						}
					}
				}
			}
			if m.special {
				res.count("nb.conc.special_dispatches", len(p.Att))
			}
			for i, s := range subs {
				seqs := delivs[dkey{p.Msg, i}]
				n := len(seqs)
				if s.Style == "channel-stuck" {
					// a slow consumer: never a message that does not match, never more copies than dispatches
					// that could legitimately hand one over; a lost copy is not judged
					n = stuckGot[dkey{p.Msg, i}]
					allowed := 1
					if p.Kind == "dup2" {
						allowed = 2
					}
					switch {
					case !s.matches(m.typ, m.bc, m.from) && n > 0:
						fail("dispatch|conc|delivered-to-non-matching-subscriber|slow-consumer", "non-matching slow consumer reached", s, n)
						return
					case n > allowed:
						fail("dispatch|conc|double-delivery|slow-consumer", "a slow consumer was handed more copies than one dispatch may hand over", s, n)
						return
					}
					continue
				}
				if !s.matches(m.typ, m.bc, m.from) {
					if n > 0 {
						which := "sender"
						if s.typ != m.typ {
							which = "type"
						} else if s.BC != "" && s.BC != m.bc {
							which = "chain"
						}
						fail("dispatch|conc|delivered-to-non-matching-subscriber|"+which, "non-matching subscriber reached", s, n)
						return
					}
					res.count("stress.non_matching.checked", 1)
					continue
				}
				switch p.Kind {
				case "plain", "repeat":
					a := p.Att[0]
					n1 := n
					n2 := 0
					if p.Kind == "repeat" {
						n1 = 0
						for _, q := range seqs {
							if q < p.Att[1].Call {
								n1++
							} else {
								n2++
							}
						}
					}
					switch stateOver(ivs[i], a.Call, a.Ret) {
					case stIn:
						res.count("stress.exactly_once.checked", 1)
						if m.special {
							res.count("nb.conc.healthy_exactly_once.checked", 1)
							if metFull[p.Msg] {
								res.count("nb.conc.healthy_exactly_once.next_to_full_channel", 1)
							}
						}
						if n1 == 0 {
							fail("dispatch|conc|missing-delivery|subscriber-registered-throughout", "registered for the whole dispatch but not reached", s, n1)
							return
						}
						if n1 > 1 {
							fail("dispatch|conc|double-delivery", "reached more than once by one dispatch", s, n1)
							return
						}
					case stOut:
						res.count("stress.never.checked", 1)
						if n1 > 0 {
							fail("dispatch|conc|delivered-to-unregistered-subscriber", "unregistered before the dispatch began but reached", s, n1)
							return
						}
					default:
						res.count("stress.at_most_once.checked", 1)
						if n1 > 1 {
							fail("dispatch|conc|double-delivery", "reached more than once by one dispatch", s, n1)
							return
						}
					}
					if p.Kind == "repeat" {
						b := p.Att[1]
						gap := b.T1 - a.T0
						switch {
						case m.special && n1 > 0 && n2 > 0:
							// A subscriber that got the message from the first dispatch is handed the sequential repeat
							// too. The first dispatch may have waited for a slow neighbour, so the guard is not the
							// span of both calls: the judgement is skipped only when the repeat was handed over more
							// than 1 s after the first dispatch RETURNED (the window of the code under test is 3 s).
							var at time.Duration
							for k, q := range seqs {
								if q >= b.Call {
									at = delivAt[dkey{p.Msg, i}][k]
									break
								}
							}
							if at-a.T1 > repeatGuard {
								res.count("nb.conc.repeat.skipped_gap_over_1s", 1)
								break
							}
							pre := "neighbour-subscriber-slow-but-had-room"
							if metFull[p.Msg] {
								pre = "neighbour-subscriber-blocked"
							}
							fail("dispatch|conc|repeat-delivered-again|"+pre, fmt.Sprintf("sequential repeat, handed over %v after the first dispatch returned, reached a subscriber that had already got the message", at-a.T1), s, n2)
							return
						case m.special && n1 > 0 && stateOver(ivs[i], a.Call, b.Ret) == stIn:
							res.count("nb.conc.repeat.checked", 1)
							if metFull[p.Msg] {
								res.count("nb.conc.repeat_after_blocked_neighbour.checked", 1)
							}
						case gap > 2*time.Second:
							res.count("stress.repeat.gap_over_2s_skipped", 1)
						case firstReached > 0:
							res.count("stress.repeat.checked", 1)
							if n2 > 0 {
								fail("dispatch|conc|repeat-delivered-inside-window", fmt.Sprintf("sequential repeat %v after the first dispatch was handed over again", gap), s, n2)
								return
							}
						default:
							// first attempt reached nobody: either behaviour, but never twice / never to an unregistered one
							if n2 > 1 || (n2 > 0 && stateOver(ivs[i], b.Call, b.Ret) == stOut) {
								fail("dispatch|conc|double-delivery", "repeat of an undelivered message reached a subscriber wrongly", s, n2)
								return
							}
						}
					}
				case "dup2":
					// two copies in flight together: both may be handled (allowed), never more, never to outsiders
					switch stateOver(ivs[i], lo, hi) {
					case stIn:
						res.count("stress.dup.checked", 1)
						if n < 1 || n > 2 {
							fail("dispatch|conc|concurrent-duplicate-wrong-count", "two concurrent copies, subscriber registered throughout", s, n)
							return
						}
					case stOut:
						if n > 0 {
							fail("dispatch|conc|delivered-to-unregistered-subscriber", "unregistered before the dispatches began but reached", s, n)
							return
						}
					default:
						if n > 2 {
							fail("dispatch|conc|concurrent-duplicate-wrong-count", "two concurrent copies", s, n)
							return
						}
					}
				}
			}
		}
	}
	shape := fmt.Sprintf("stress|D%d C%d P%d T%d M%d I%d S%d U%d Y%d", cfg.NDisp, cfg.NChurn, cfg.NPerm, cfg.NTypes,
		cfg.MsgsPer, cfg.ChurnIters, cfg.SubsPer, cfg.NSelf, cfg.Yield)
	if cfg.Stuck > 0 {
		shape += fmt.Sprintf(" X%d cap%d +%d late=%v", cfg.Stuck, cfg.StuckCap, cfg.StuckExtra, cfg.LateDrain)
	}
	res.Cases = append(res.Cases, caseRec{shape, overl > 0})
	if round%17 == 3 {
		res.sample(map[string]interface{}{"part": "dispatcher-concurrent", "config": cfg, "dispatches_overlapping_a_registration_change": overl,
			"ops": len(allOps), "messages": len(msgs), "first_dispatches": firstN(plans, 3)})
	}
}

func firstN(plans [][]dispRec, n int) []dispRec {
	var out []dispRec
	for _, p := range plans {
		for _, d := range p {
			if len(out) < n {
				out = append(out, d)
			}
		}
	}
	return out
}
