package main

// Parts (a) and (b): tdpos / xpoa schedule tiling audit and CheckMinerMatch acceptance matrix.

import (
	"encoding/json"
	"fmt"
	"math/rand"
	"reflect"
	"strconv"
	"strings"
	"sync"

	"github.com/xuperchain/xupercore/bcs/consensus/tdpos"
	"github.com/xuperchain/xupercore/bcs/consensus/xpoa"
	xctx "github.com/xuperchain/xupercore/kernel/common/xcontext"
	"github.com/xuperchain/xupercore/kernel/consensus"
	"github.com/xuperchain/xupercore/kernel/consensus/base"
	"github.com/xuperchain/xupercore/kernel/consensus/def"

	"verif/ev"
	sn "verif/simnode"
)

// ---- tdpos --------------------------------------------------------------------------------------

type tdposCfg struct {
	Period, BlockNum, ProposerNum, Alt, TermIv, InitNs int64
	BFT                                                bool
}

func (c tdposCfg) shape() string {
	return fmt.Sprintf("p=%d|bn=%d|pn=%d|alt=%d|term=%d|init=%d|bft=%v", c.Period, c.BlockNum, c.ProposerNum, c.Alt, c.TermIv, c.InitNs, c.BFT)
}

func (c tdposCfg) json(validators []string) string {
	m := map[string]interface{}{
		"timestamp":          strconv.FormatInt(c.InitNs, 10),
		"proposer_num":       strconv.FormatInt(c.ProposerNum, 10),
		"period":             strconv.FormatInt(c.Period, 10),
		"alternate_interval": strconv.FormatInt(c.Alt, 10),
		"term_interval":      strconv.FormatInt(c.TermIv, 10),
		"block_num":          strconv.FormatInt(c.BlockNum, 10),
		"vote_unit_price":    "1",
		"init_proposer":      map[string][]string{"1": validators},
	}
	if c.BFT {
		m["bft_config"] = map[string]bool{}
	}
	b, _ := json.Marshal(m)
	return string(b)
}

func tdposBox() []tdposCfg {
	var out []tdposCfg
	for _, p := range []int64{1, 2, 3, 7} {
		for _, bn := range []int64{1, 2, 3} {
			for pn := int64(1); pn <= 4; pn++ {
				for _, a := range []int64{p, p + 1, 3 * p} {
					for _, t := range []int64{a, a + p, 4 * a} {
						for _, init := range []int64{0, 5, 1000000} {
							out = append(out, tdposCfg{Period: p, BlockNum: bn, ProposerNum: pn, Alt: a, TermIv: t, InitNs: init})
						}
					}
				}
			}
		}
	}
	return out
}

// configurations outside the box: the shipped one, non-aligned init times, a few large ones
func tdposExtra(r *ev.Run) []tdposCfg {
	out := []tdposCfg{
		{Period: 3000, BlockNum: 20, ProposerNum: 2, Alt: 3000, TermIv: 6000, InitNs: 1559021720000000000},
		{Period: 3000, BlockNum: 3, ProposerNum: 3, Alt: 3000, TermIv: 6000, InitNs: 1559021720000000000},
		{Period: 500, BlockNum: 4, ProposerNum: 3, Alt: 700, TermIv: 1900, InitNs: 1559021720123456789},
		{Period: 7, BlockNum: 3, ProposerNum: 4, Alt: 8, TermIv: 15, InitNs: 1000005},
		{Period: 2, BlockNum: 2, ProposerNum: 2, Alt: 2, TermIv: 2, InitNs: 999999},
	}
	n := r.N(150, 4000)
	for i := 0; i < n; i++ {
		g := rand.New(rand.NewSource(r.Seed*1000003 + int64(i) + 77))
		p := int64(1 + g.Intn(40))
		a := p + int64(g.Intn(3))*int64(g.Intn(int(p)+1))
		t := a + int64(g.Intn(3))*int64(g.Intn(int(a)+1))
		init := int64(0)
		switch g.Intn(4) {
		case 1:
			init = int64(g.Intn(3000000))
		case 2:
			init = 1500000000000000000 + g.Int63n(100000000000000000)
		case 3:
			init = (1500000000000 + g.Int63n(100000000000)) * 1000000
		}
		out = append(out, tdposCfg{Period: p, BlockNum: int64(1 + g.Intn(5)), ProposerNum: int64(1 + g.Intn(5)), Alt: a, TermIv: t, InitNs: init})
	}
	return out
}

// validator identities: a seed-dependent permutation of the fixed keys, so that list order is
// unrelated to address order.
func pickValidators(seed int64, n int) (vals []*sn.Key, outsider *sn.Key) {
	g := rand.New(rand.NewSource(seed))
	perm := g.Perm(sn.NumKeys)
	for i := 0; i < n; i++ {
		vals = append(vals, sn.K(perm[i]))
	}
	return vals, sn.K(perm[n])
}

func addrs(ks []*sn.Key) []string {
	var out []string
	for _, k := range ks {
		out = append(out, k.Address)
	}
	return out
}

type instance struct {
	direct base.ConsensusImplInterface
	plug   consensus.ConsensusInterface // same configuration behind PluggableConsensus (may be nil)
	ledger *stubLedger
}

func newTdpos(c tdposCfg, vals []*sn.Key, withPlug bool) (*instance, error) {
	cfgJSON := c.json(addrs(vals))
	gen, _ := json.Marshal(def.ConsensusConfig{ConsensusName: "tdpos", Config: cfgJSON})
	l := newStubLedger(gen)
	genesisChain(l, 2, vals[0].Address)
	log := sn.NewCapLogger()
	ctx := newCtx(l, vals[0], log)
	in := &instance{ledger: l}
	in.direct = tdpos.NewTdposConsensus(ctx, def.ConsensusConfig{ConsensusName: "tdpos", Config: cfgJSON, StartHeight: 1, Index: 0})
	if in.direct == nil || isNilIface(in.direct) {
		return nil, fmt.Errorf("NewTdposConsensus returned nil: %v", log.Tail(3))
	}
	if withPlug {
		p, err := consensus.NewPluggableConsensus(newCtx(l, vals[0], log))
		if err != nil {
			return nil, fmt.Errorf("NewPluggableConsensus: %v", err)
		}
		in.plug = p
	}
	return in, nil
}

// windows longer than this many ms are sampled (all hand-over edges + a regular grid)
var sparseAbove = 6000

type matrixStats struct {
	calls, accepted, refusedIdle, refusedOther, refusedOutsider, refusedEmpty, lowHeight int64
}

// acceptance matrix over [from,to) ms: every candidate at both ns edges of every ms.
// entitled[i] = validator index entitled at ms from+i, or -1.
func acceptMatrix(r *ev.Run, kind, cfgShape string, chk func(*stubBlock) (bool, error), vals []*sn.Key, outsider *sn.Key,
	height int64, from int64, entitled []int64, minNs int64, spec tilingSpec, st *matrixStats) {
	cands := append(addrs(vals), outsider.Address, "")
	who := make([]int64, len(entitled))
	// long windows: every millisecond within 2 ms of a hand-over, and a regular sample inside
	var mask []bool
	if len(entitled) > sparseAbove {
		mask = make([]bool, len(entitled))
		stride := len(entitled)/sparseAbove + 1
		for i := range entitled {
			if i%stride == 0 || i < 3 || i >= len(entitled)-3 {
				mask[i] = true
			}
			if i > 0 && entitled[i] != entitled[i-1] {
				for j := i - 3; j <= i+2; j++ {
					if j >= 0 && j < len(entitled) {
						mask[j] = true
					}
				}
			}
		}
	}
	for i := range entitled {
		ms := from + int64(i)
		who[i] = -1
		if mask != nil && !mask[i] {
			continue
		}
		for e, ns := range []int64{ms * 1000000, ms*1000000 + 999999} {
			if ns < minNs {
				ns = minNs
			}
			nAcc := 0
			for ci, cand := range cands {
				blk := &stubBlock{Proposer: cand, Height: height, ID: []byte{0xB0, byte(ci)}, PreHash: []byte{0xA0, byte(height - 1)}, Timestamp: ns}
				var ok bool
				var err error
				func() {
					defer func() {
						if p := recover(); p != nil {
							r.Violation(kind+"|accept|panic", fmt.Sprintf("CheckMinerMatch panicked: %v (%s, ts=%d, proposer #%d)", p, cfgShape, ns, ci),
								map[string]interface{}{"config": cfgShape, "timestamp_ns": ns, "candidate": ci, "height": height})
						}
					}()
					ok, err = chk(blk)
				}()
				_ = err
				st.calls++
				want := entitled[i] >= 0 && int64(ci) == entitled[i]
				wit := map[string]interface{}{"config": cfgShape, "timestamp_ns": ns, "ms": ms, "height": height, "candidate_index": ci,
					"candidate": cand, "validators": addrs(vals), "entitled_index": entitled[i], "accepted": ok, "err": fmt.Sprint(err)}
				switch {
				case ok && !want:
					what := "other-validator"
					if entitled[i] < 0 {
						what = "nobody-entitled"
					}
					if ci == len(vals) {
						what = "outsider"
					} else if ci > len(vals) {
						what = "empty-proposer"
					}
					r.Violation(kind+"|accept|non-entitled-accepted|"+what,
						fmt.Sprintf("%s: block of candidate #%d (%q) at ts %d ns accepted, schedule entitles validator index %d (-1 = nobody)", cfgShape, ci, cand, ns, entitled[i]), wit)
				case !ok && want:
					r.Violation(kind+"|accept|entitled-refused",
						fmt.Sprintf("%s: block of the entitled validator #%d at ts %d ns refused: %v", cfgShape, ci, ns, err), wit)
				}
				if ci >= len(vals) && e == 0 && i%3 == 0 && !strings.Contains(cfgShape, "elected") && !strings.Contains(cfgShape, "edited") {
					// the FIRST block of the chain (height 1 on the genesis block: at the height the consensus
					// instance starts at, where the justification check is waived) must still come from an
					// entitled producer. Judged only where the candidate was never a validator (after an
					// election / edit the "outsider" of this matrix is a member of the initial set).
					b2 := &stubBlock{Proposer: cand, Height: 1, ID: []byte{0xB2, byte(ci)}, PreHash: []byte{0xA0, 0}, Timestamp: ns}
					ok2 := false
					func() {
						defer func() { recover() }()
						ok2, _ = chk(b2)
					}()
					st.calls++
					st.lowHeight++
					if ok2 {
						what := "outsider"
						if ci > len(vals) {
							what = "empty-proposer"
						}
						r.Violation(kind+"|accept|non-entitled-accepted|"+what+"|first-block-of-the-chain",
							fmt.Sprintf("%s: block of candidate #%d (%q, never a validator) at ts %d ns for height 1 on the genesis block is accepted", cfgShape, ci, cand, ns),
							map[string]interface{}{"config": cfgShape, "timestamp_ns": ns, "height": 1, "candidate": cand})
					}
				}
				if ok {
					nAcc++
					st.accepted++
					if e == 0 && ci < len(vals) {
						who[i] = int64(ci)
					}
				} else {
					switch {
					case ci == len(vals):
						st.refusedOutsider++
					case ci > len(vals):
						st.refusedEmpty++
					case entitled[i] < 0:
						st.refusedIdle++
					default:
						st.refusedOther++
					}
				}
			}
			if nAcc > 1 {
				r.Violation(kind+"|accept|two-producers-accepted", fmt.Sprintf("%s: %d different producers accepted at ts %d ns", cfgShape, nAcc, ns),
					map[string]interface{}{"config": cfgShape, "timestamp_ns": ns, "height": height})
			}
		}
	}
	// black-box audit of what was accepted (independent of the schedule hook)
	if mask != nil {
		return
	}
	for _, p := range auditRuns(spec, from, who, kind) {
		r.Violation(p.Sig, cfgShape+": "+p.Detail, map[string]interface{}{"config": cfgShape, "at_ms": p.AtMs, "height": height})
	}
}

func isNilIface(v interface{}) bool {
	if v == nil {
		return true
	}
	rv := reflect.ValueOf(v)
	return rv.Kind() == reflect.Ptr && rv.IsNil()
}

func runTdpos(r *ev.Run) {
	box := tdposBox()
	extra := tdposExtra(r)
	all := append(append([]tdposCfg{}, box...), extra...)
	// the acceptance matrix runs on every configuration whose three terms are short enough
	maxMatrixMs := int64(r.N(2000000, 2000000))
	sparseAbove = r.N(6000, 150000)
	var wg sync.WaitGroup
	sem := make(chan struct{}, 16)
	var mu sync.Mutex
	tot := matrixStats{}
	for ci, c := range all {
		ci, c := ci, c
		wg.Add(1)
		sem <- struct{}{}
		go func() {
			defer wg.Done()
			defer func() { <-sem }()
			vals, outsider := pickValidators(r.Seed*7919+int64(ci), int(c.ProposerNum))
			in, err := newTdpos(c, vals, true)
			if err != nil {
				r.Inconclusive("tdpos instance not created for " + c.shape() + ": " + err.Error())
				return
			}
			f := func(ns int64) triple {
				t, p, b, ok := tdpos.VerifMinerScheduling(in.direct, ns)
				if !ok {
					panic("VerifMinerScheduling: not a tdpos instance")
				}
				return triple{t, p, b}
			}
			initMs := c.InitNs / 1000000
			spec := tilingSpec{Kind: "tdpos", Period: c.Period, BlockNum: c.BlockNum, N: c.ProposerNum, Alt: c.Alt, TermIv: c.TermIv,
				BPBase: 0, FromMs: initMs, MinNs: c.InitNs, Origin: true, Terms: 3}
			res, probs := auditTiling(spec, f, func(k triple) bool { return k.BP < 0 })
			for _, p := range probs {
				r.Violation(p.Sig, c.shape()+": "+p.Detail, map[string]interface{}{"config": c, "at_ms": p.AtMs, "validators": addrs(vals)})
			}
			r.Case("tdpos-tiling|"+c.shape(), c.ProposerNum*c.BlockNum > 1)
			r.Evals(int(res.Evals))
			r.Count("tdpos.tiling.configs", 1)
			r.Count("tdpos.tiling.ms", int(res.Evals/2))
			r.Count("tdpos.tiling.slots", len(res.Slots))
			r.Count("tdpos.tiling.idle-ms", int(res.IdleMs))
			r.Count("tdpos.tiling.first-slot-1ms-short", int(res.ShortFirst))
			r.Count("tdpos.tiling.first-slot-vanished(period=1)", int(res.Vanished))
			if ci == len(box) || (c == tdposCfg{Period: 3, BlockNum: 2, ProposerNum: 3, Alt: 4, TermIv: 7, InitNs: 5}) {
				r.Sample(map[string]interface{}{"part": "tdpos-tiling", "config": c, "slots_first_term": firstSlots(res, 8)})
			}
			if len(probs) > 0 || res.From < 0 {
				return // the table is not trustworthy
			}
			// before the configured start of the chain the schedule is undefined; record what happens
			if c.InitNs > 0 {
				blk := &stubBlock{Proposer: vals[0].Address, Height: 2, ID: []byte{0xB1}, PreHash: []byte{0xA0, 1}, Timestamp: c.InitNs - 1}
				if ok, _ := in.direct.CheckMinerMatch(&xctx.BaseCtx{XLog: sn.NewCapLogger()}, blk); ok {
					r.Count("tdpos.observed.pre-init-timestamp-accepted-from-validator0", 1)
				}
			}
			if int64(len(res.Entitled)) > maxMatrixMs {
				r.Count("tdpos.accept.configs-skipped-too-long", 1)
				return
			}
			st := matrixStats{}
			xc := &xctx.BaseCtx{XLog: sn.NewCapLogger()}
			acceptMatrix(r, "tdpos", c.shape(), func(b *stubBlock) (bool, error) { return in.direct.CheckMinerMatch(xc, b) },
				vals, outsider, 2, res.From, res.Entitled, c.InitNs, spec, &st)
			r.Case("tdpos-accept|direct|"+c.shape(), st.accepted > 0 && st.refusedOther+st.refusedIdle > 0)
			// the same through the pluggable front (second term only, to bound the cost)
			if in.plug != nil {
				third := len(res.Entitled) / 3
				acceptMatrix(r, "tdpos", c.shape()+"|pluggable", func(b *stubBlock) (bool, error) { return in.plug.CheckMinerMatch(xc, b) },
					vals, outsider, 2, res.From+int64(third), res.Entitled[third:2*third], c.InitNs, spec, &st)
				r.Count("tdpos.accept.via-pluggable-configs", 1)
			}
			// the same on a running chain whose validators were replaced by an election
			runTdposElected(r, c, vals, outsider, res, spec, &st)
			r.Evals(int(st.calls))
			mu.Lock()
			tot.calls += st.calls
			tot.accepted += st.accepted
			tot.refusedIdle += st.refusedIdle
			tot.refusedOther += st.refusedOther
			tot.refusedOutsider += st.refusedOutsider
			tot.refusedEmpty += st.refusedEmpty
			tot.lowHeight += st.lowHeight
			mu.Unlock()
			r.Count("tdpos.accept.configs", 1)
		}()
	}
	wg.Wait()
	r.Count("tdpos.accept.calls", int(tot.calls))
	r.Count("tdpos.accept.accepted", int(tot.accepted))
	r.Count("tdpos.accept.refused.idle-gap", int(tot.refusedIdle))
	r.Count("tdpos.accept.refused.other-validator", int(tot.refusedOther))
	r.Count("tdpos.accept.refused.outsider", int(tot.refusedOutsider))
	r.Count("tdpos.accept.refused.empty-proposer", int(tot.refusedEmpty))
	r.Count("tdpos.accept.first-block-probes", int(tot.lowHeight))
}

// runTdposElected: a ledger holding one block per slot of term 1 (initial validators) and of the
// first half of term 2 (elected validators; the votes are on chain since block 1). Candidates
// for the next height are judged over the rest of term 2 and term 3 against the elected list,
// candidates for an old height of term 1 against the initial list.
func runTdposElected(r *ev.Run, c tdposCfg, init []*sn.Key, outsider *sn.Key, res *tilingResult, spec tilingSpec, st *matrixStats) {
	if c.ProposerNum*c.BlockNum < 4 || (c.Period == 1 && c.BlockNum*c.ProposerNum < 8) {
		r.Count("tdpos.elected.configs-skipped-term-shorter-than-4-blocks", 1)
		return
	}
	elected := append([]*sn.Key{outsider}, init[:len(init)-1]...)
	dropped := init[len(init)-1]
	cfgJSON := c.json(addrs(init))
	gen, _ := json.Marshal(def.ConsensusConfig{ConsensusName: "tdpos", Config: cfgJSON})
	l := newStubLedger(gen)
	genesisChain(l, 1, init[0].Address)
	var t1, t2 []slot
	for _, sl := range res.Slots {
		switch sl.K.Term {
		case res.FirstTerm:
			t1 = append(t1, sl)
		case res.FirstTerm + 1:
			t2 = append(t2, sl)
		}
	}
	if len(t1) < 4 || len(t2) < 2 {
		return
	}
	t2 = t2[:(len(t2)+1)/2]
	firstTerm2Ms := t2[0].Start
	for _, sl := range append(append([]slot{}, t1...), t2...) {
		who := init
		if sl.K.Term != res.FirstTerm {
			who = elected
		}
		h := len(l.blocks)
		ts := sl.Start * 1000000
		if ts < c.InitNs {
			ts = c.InitNs
		}
		stg, _ := json.Marshal(map[string]int64{"curTerm": sl.K.Term, "curBlockNum": sl.K.BP})
		l.put(&stubBlock{Proposer: who[sl.K.Pos].Address, Height: int64(h), ID: []byte{0xA0, byte(h)}, PreHash: []byte{0xA0, byte(h - 1)}, Storage: stg, Timestamp: ts})
	}
	nominate := map[string]map[string]int64{}
	votes := map[string][]byte{}
	for i, k := range elected {
		nominate[k.Address] = map[string]int64{k.Address: 1}
		v, _ := json.Marshal(map[string]int64{"voter": int64(1000 - i)})
		votes["tdpos_0_vote_"+k.Address] = v
	}
	nomJSON, _ := json.Marshal(nominate)
	l.snap = func(id []byte, bucket string, key []byte) []byte {
		if bucket != "$tdpos" || len(id) != 2 || id[1] < 1 {
			return nil
		}
		if string(key) == "tdpos_0_nominate" {
			return nomJSON
		}
		return votes[string(key)]
	}
	log := sn.NewCapLogger()
	inst := tdpos.NewTdposConsensus(newCtx(l, init[0], log), def.ConsensusConfig{ConsensusName: "tdpos", Config: cfgJSON, StartHeight: 1})
	if isNilIface(inst) {
		r.Inconclusive("tdpos instance on a running chain not created for " + c.shape() + ": " + fmt.Sprint(log.Tail(3)))
		return
	}
	xc := &xctx.BaseCtx{XLog: log}
	tip := l.blocks[len(l.blocks)-1]
	chk := func(b *stubBlock) (bool, error) { return inst.CheckMinerMatch(xc, b) }
	before := st.accepted
	// next height, from the tip's slot to the end of the audited terms
	fromMs := t2[len(t2)-1].Start
	if off := fromMs - res.From; off >= 0 && off < int64(len(res.Entitled)) {
		acceptMatrix(r, "tdpos", c.shape()+"|elected|next-height", chk, elected, dropped, tip.Height+1, fromMs, res.Entitled[off:], c.InitNs, spec, st)
	}
	// an old height of term 1 (a competing block for height 4), over term 1
	if n1 := firstTerm2Ms - res.From; n1 > 0 && n1 <= int64(len(res.Entitled)) {
		acceptMatrix(r, "tdpos", c.shape()+"|elected|old-height", chk, init, outsider, 4, res.From, res.Entitled[:n1], c.InitNs, spec, st)
	}
	r.Case("tdpos-accept|elected|"+c.shape(), st.accepted > before)
	r.Count("tdpos.elected.configs", 1)
}

func firstSlots(res *tilingResult, n int) []string {
	var out []string
	for i, s := range res.Slots {
		if i >= n {
			break
		}
		out = append(out, fmt.Sprintf("%v=[%d,%d)ms", s.K, s.Start, s.End))
	}
	return out
}

// ---- xpoa ---------------------------------------------------------------------------------------

type xpoaCfg struct {
	Period, BlockNum int64
	N                int   // initial validators
	N2               int   // validators after the contract edit (0 = no edit scenario)
	BaseMs           int64 // where the scan starts
}

func (c xpoaCfg) shape() string {
	return fmt.Sprintf("p=%d|bn=%d|n=%d|n2=%d|base=%d", c.Period, c.BlockNum, c.N, c.N2, c.BaseMs)
}

func xpoaJSON(c xpoaCfg, validators []string) string {
	b, _ := json.Marshal(map[string]interface{}{
		"period": c.Period, "block_num": c.BlockNum, "init_proposer": map[string][]string{"address": validators},
	})
	return string(b)
}

func xpoaConfigs(r *ev.Run) []xpoaCfg {
	var out []xpoaCfg
	for _, p := range []int64{1, 2, 3, 7} {
		for _, bn := range []int64{1, 2, 3} {
			for n := 1; n <= 4; n++ {
				for _, base := range []int64{0, 1600000000123} {
					n2 := 0
					if base != 0 {
						n2 = n%4 + 1
					}
					out = append(out, xpoaCfg{Period: p, BlockNum: bn, N: n, N2: n2, BaseMs: base})
				}
			}
		}
	}
	out = append(out, xpoaCfg{Period: 3000, BlockNum: 10, N: 2, N2: 3, BaseMs: 1600000000123})
	out = append(out, xpoaCfg{Period: 3000, BlockNum: 10, N: 3, BaseMs: 0})
	n := r.N(100, 3000)
	for i := 0; i < n; i++ {
		g := rand.New(rand.NewSource(r.Seed*1000033 + int64(i) + 99))
		out = append(out, xpoaCfg{Period: int64(1 + g.Intn(50)), BlockNum: int64(1 + g.Intn(6)), N: 1 + g.Intn(6), N2: g.Intn(7),
			BaseMs: []int64{0, g.Int63n(1 << 41), 1500000000000 + g.Int63n(200000000000)}[g.Intn(3)]})
	}
	return out
}

func runXpoa(r *ev.Run) {
	cfgs := xpoaConfigs(r)
	maxMatrixMs := int64(r.N(2000000, 2000000))
	var wg sync.WaitGroup
	sem := make(chan struct{}, 16)
	var mu sync.Mutex
	tot := matrixStats{}
	for ci, c := range cfgs {
		ci, c := ci, c
		wg.Add(1)
		sem <- struct{}{}
		go func() {
			defer wg.Done()
			defer func() { <-sem }()
			g := rand.New(rand.NewSource(r.Seed*104729 + int64(ci)))
			perm := g.Perm(sn.NumKeys)
			var vals, vals2 []*sn.Key
			for i := 0; i < c.N; i++ {
				vals = append(vals, sn.K(perm[i]))
			}
			perm2 := g.Perm(sn.NumKeys)
			for i := 0; i < c.N2; i++ {
				vals2 = append(vals2, sn.K(perm2[i]))
			}
			cfgJSON := xpoaJSON(c, addrs(vals))
			gen, _ := json.Marshal(def.ConsensusConfig{ConsensusName: "xpoa", Config: cfgJSON})
			l := newStubLedger(gen)
			genesisChain(l, 12, vals[0].Address)
			// the validator set was edited by a contract call in block 5 (visible in snapshots of blocks >= 5)
			if c.N2 > 0 {
				edited, _ := json.Marshal(map[string][]string{"address": addrs(vals2)})
				l.snap = func(id []byte, bucket string, key []byte) []byte {
					if bucket == "$poa" && string(key) == "0_validates" && len(id) == 2 && id[1] >= 5 && id[1] < 0xA0 {
						return edited
					}
					return nil
				}
			}
			log := sn.NewCapLogger()
			// the instance is created while the tip is block 1 (before the edit)
			full := l.blocks
			l.blocks = full[:2]
			inst := xpoa.NewXpoaConsensus(newCtx(l, vals[0], log), def.ConsensusConfig{ConsensusName: "xpoa", Config: cfgJSON, StartHeight: 1})
			var plug consensus.ConsensusInterface
			if inst != nil && !isNilIface(inst) {
				plug, _ = consensus.NewPluggableConsensus(newCtx(l, vals[0], log))
			}
			l.blocks = full
			if inst == nil || isNilIface(inst) {
				r.Inconclusive("xpoa instance not created for " + c.shape() + fmt.Sprint(log.Tail(3)))
				return
			}
			xc := &xctx.BaseCtx{XLog: sn.NewCapLogger()}
			// scenario 1: height 3 (initial validators); scenario 2: height 12 (edited set, other n)
			type scen struct {
				name   string
				vals   []*sn.Key
				height int64
			}
			scens := []scen{{"init", vals, 3}}
			if c.N2 > 0 {
				scens = append(scens, scen{"edited", vals2, 12})
			}
			for _, sc := range scens {
				n := len(sc.vals)
				f := func(ns int64) triple {
					t, p, b, ok := xpoa.VerifMinerScheduling(inst, ns, n)
					if !ok {
						panic("VerifMinerScheduling: not an xpoa instance")
					}
					return triple{t, p, b}
				}
				spec := tilingSpec{Kind: "xpoa", Period: c.Period, BlockNum: c.BlockNum, N: int64(n), Alt: c.Period, TermIv: c.Period,
					BPBase: 1, FromMs: c.BaseMs, MinNs: 0, Origin: c.BaseMs == 0, Terms: 3}
				res, probs := auditTiling(spec, f, func(k triple) bool { return false })
				shape := c.shape() + "|" + sc.name
				for _, p := range probs {
					r.Violation(p.Sig, shape+": "+p.Detail, map[string]interface{}{"config": c, "scenario": sc.name, "n": n, "at_ms": p.AtMs})
				}
				r.Case("xpoa-tiling|"+shape, int64(n)*c.BlockNum > 1)
				r.Evals(int(res.Evals))
				r.Count("xpoa.tiling.configs", 1)
				r.Count("xpoa.tiling.ms", int(res.Evals/2))
				r.Count("xpoa.tiling.slots", len(res.Slots))
				if res.IdleMs > 0 {
					r.Violation("xpoa|schedule|idle-time", shape+": nobody entitled during some millisecond although xpoa has no hand-over interval", map[string]interface{}{"config": c})
				}
				if c.Period == 3 && c.BlockNum == 2 && c.N == 3 && c.BaseMs != 0 && ci < 96 {
					r.Sample(map[string]interface{}{"part": "xpoa-tiling", "scenario": sc.name, "config": c, "slots": firstSlots(res, 6)})
				}
				if len(probs) > 0 || res.From < 0 {
					continue
				}
				if int64(len(res.Entitled)) > maxMatrixMs {
					r.Count("xpoa.accept.configs-skipped-too-long", 1)
					continue
				}
				outsider := sn.K(0)
				for _, k := range sn.Keys() {
					used := false
					for _, v := range sc.vals {
						used = used || v == k
					}
					if !used {
						outsider = k
					}
				}
				st := matrixStats{}
				acceptMatrix(r, "xpoa", shape, func(b *stubBlock) (bool, error) { return inst.CheckMinerMatch(xc, b) },
					sc.vals, outsider, sc.height, res.From, res.Entitled, 0, spec, &st)
				r.Case("xpoa-accept|direct|"+shape, st.accepted > 0 && (st.refusedOther > 0 || n == 1))
				if plug != nil {
					third := len(res.Entitled) / 3
					acceptMatrix(r, "xpoa", shape+"|pluggable", func(b *stubBlock) (bool, error) { return plug.CheckMinerMatch(xc, b) },
						sc.vals, outsider, sc.height, res.From+int64(third), res.Entitled[third:2*third], 0, spec, &st)
					r.Count("xpoa.accept.via-pluggable-configs", 1)
				}
				r.Evals(int(st.calls))
				r.Count("xpoa.accept.configs|"+sc.name, 1)
				mu.Lock()
				tot.calls += st.calls
				tot.accepted += st.accepted
				tot.refusedOther += st.refusedOther
				tot.refusedOutsider += st.refusedOutsider
				tot.refusedEmpty += st.refusedEmpty
				mu.Unlock()
			}
			// a block whose validator set cannot be determined (its height is far beyond the
			// ledger) entitles nobody: nothing may be accepted, whatever the proposer field says
			for pi, prop := range []string{"", vals[0].Address} {
				blk := &stubBlock{Proposer: prop, Height: 100, ID: []byte{0xB2}, PreHash: []byte{0xA0, 11}, Timestamp: (c.BaseMs + 1) * 1000000}
				ok, err := inst.CheckMinerMatch(xc, blk)
				r.Count("xpoa.accept.unresolvable-validators.calls", 1)
				if ok {
					r.Violation("xpoa|accept|validators-unresolvable|"+[]string{"empty-proposer", "named-proposer"}[pi]+"-accepted",
						fmt.Sprintf("%s: block at height 100 (ledger tip 11, validator set not determinable), proposer %q accepted", c.shape(), prop),
						map[string]interface{}{"config": c, "proposer": prop, "height": 100, "tip": 11, "err": fmt.Sprint(err)})
				}
			}
		}()
	}
	wg.Wait()
	r.Count("xpoa.accept.calls", int(tot.calls))
	r.Count("xpoa.accept.accepted", int(tot.accepted))
	r.Count("xpoa.accept.refused.other-validator", int(tot.refusedOther))
	r.Count("xpoa.accept.refused.outsider", int(tot.refusedOutsider))
	r.Count("xpoa.accept.refused.empty-proposer", int(tot.refusedEmpty))
}
