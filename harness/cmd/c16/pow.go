package main

// Part (d): proof of work. The target a block must meet is prescribed by the chain's own
// history, Bitcoin style:
//   * heights 1..gap carry the configured default target;
//   * any other height that is not a multiple of gap carries its parent's target;
//   * a height that is a multiple of gap carries parent_target * span / expected, where span is
//     the time between the parent and the block gap-1 blocks before it (whole seconds), clamped to
//     [expected/4, expected*4], expected = expectedPeriod * (gap-1); the result is never harder
//     than the configured hardest target ("maxTarget") and is stored in compact form.
// A block is acceptable only if it carries exactly that target, its id is not above it, its id
// is the recomputed header hash, its timestamp is not before its parent's and it is signed by its
// proposer. Everything below is computed with refDecode / refEncode of compact.go, not with the
// code under test.

import (
	"encoding/json"
	"fmt"
	"math/big"
	"math/rand"
	"strconv"

	"github.com/xuperchain/xupercore/bcs/consensus/pow"
	xctx "github.com/xuperchain/xupercore/kernel/common/xcontext"
	"github.com/xuperchain/xupercore/kernel/consensus/def"

	"verif/ev"
	sn "verif/simnode"
)

type powCfg struct {
	Default, Max uint32
	Gap, Period  int32 // Period: expected seconds per block
}

func (c powCfg) bitcoin() bool { return c.Default > 256 }
func (c powCfg) shape() string {
	return fmt.Sprintf("default=%#x|max=%#x|gap=%d|period=%ds", c.Default, c.Max, c.Gap, c.Period)
}
func (c powCfg) json() string {
	b, _ := json.Marshal(map[string]string{
		"defaultTarget": strconv.FormatUint(uint64(c.Default), 10), "maxTarget": strconv.FormatUint(uint64(c.Max), 10),
		"adjustHeightGap": strconv.FormatInt(int64(c.Gap), 10), "expectedPeriod": strconv.FormatInt(int64(c.Period), 10)})
	return string(b)
}

func powStorage(bits uint32) []byte {
	b, _ := json.Marshal(map[string]uint32{"targetBits": bits})
	return b
}

func bitsOf(b *stubBlock) uint32 {
	var s struct {
		TargetBits uint32 `json:"targetBits"`
	}
	json.Unmarshal(b.Storage, &s)
	return s.TargetBits
}

// targetValue is the number a block id must not exceed for the given target word.
func (c powCfg) targetValue(bits uint32) *big.Int {
	if c.bitcoin() {
		v, _, _ := refDecode(bits)
		return v
	}
	return new(big.Int).Lsh(big.NewInt(1), uint(256-bits))
}

// prescribed computes the target of height h = len(chain) from the history `chain` (heights
// 0..h-1). back = 1 is the rule of the statement (anchored at the parent); back = 2 anchors the
// same rule one block earlier and is used ONLY to name a deviation, never to accept one.
func (c powCfg) prescribed(chain []*stubBlock, back int) (bits uint32, kind string, defined bool) {
	h := int64(len(chain))
	G := int64(c.Gap)
	if h <= G {
		return c.Default, "default", true
	}
	ai := h - int64(back)
	if ai < 0 {
		return c.Default, "default", true
	}
	anchor := chain[ai]
	old := bitsOf(anchor)
	if h%G != 0 {
		return old, "keep", true
	}
	fi := ai - (G - 1)
	if fi < 0 {
		return c.Default, "default", true
	}
	span := (anchor.Timestamp - chain[fi].Timestamp) / 1000000000
	exp := int64(c.Period) * (G - 1)
	lo, hi := exp/4, exp*4
	kind = "adjust"
	if span < lo {
		span, kind = lo, "adjust-clamped-low"
	}
	if span > hi {
		span, kind = hi, "adjust-clamped-high"
	}
	if c.bitcoin() {
		v, _, _ := refDecode(old)
		nv := new(big.Int).Mul(v, big.NewInt(span))
		nv.Quo(nv, big.NewInt(exp))
		hardest, _, _ := refDecode(c.Max)
		if nv.Cmp(hardest) < 0 {
			return c.Max, kind + "-hardest", true
		}
		nb, ok := refEncode(nv)
		if !ok {
			return 0, kind, false
		}
		return nb, kind, true
	}
	// legacy: the word is the number of leading zero bits, work 2^bits scales with expected/span
	if span == 0 {
		return 0, kind + "-zero-span", false
	}
	x := new(big.Int).Lsh(big.NewInt(int64(exp)), uint(old))
	nbits := uint32(0)
	for b := uint(0); b < 600; b++ {
		if new(big.Int).Lsh(big.NewInt(span), b).Cmp(x) <= 0 {
			nbits = uint32(b)
		} else {
			break
		}
	}
	if nbits > c.Max {
		return c.Max, kind + "-hardest", true
	}
	return nbits, kind, true
}

type powScenario struct {
	Kind  string
	Cfg   powCfg
	TsSec []int64  // per height 0..P
	Bits  []uint32 // per height 0..P
}

func (s powScenario) shape() string {
	return fmt.Sprintf("pow|%s|%s|P=%d", s.Kind, s.Cfg.shape(), len(s.TsSec)-1)
}

func powID(h int) []byte { return []byte{0xD0, byte(h >> 8), byte(h)} }

func (s powScenario) ledger(miner *sn.Key) *stubLedger {
	gen, _ := json.Marshal(def.ConsensusConfig{ConsensusName: "pow", Config: s.Cfg.json()})
	l := newStubLedger(gen)
	for h := range s.TsSec {
		b := &stubBlock{Proposer: miner.Address, Height: int64(h), ID: powID(h), Storage: powStorage(s.Bits[h]), Timestamp: s.TsSec[h]*1000000000 + 123456789}
		if h > 0 {
			b.PreHash = powID(h - 1)
		}
		l.put(b)
	}
	return l
}

func newPow(r *ev.Run, cfg powCfg, l *stubLedger, self *sn.Key, shape string) (p *pow.PoWConsensus) {
	defer func() {
		if pn := recover(); pn != nil {
			r.Violation("pow|panic|NewPoWConsensus", fmt.Sprintf("%s: NewPoWConsensus panicked: %v", shape, pn), map[string]interface{}{"scenario": shape})
			p = nil
		}
	}()
	log := sn.NewCapLogger()
	// created while the chain is one block long (a node that has followed the chain from the
	// start); creation on the full chain (a restart) is probed separately by restartProbe
	full := l.blocks
	if len(full) > 2 {
		l.blocks = full[:2]
	}
	in := pow.NewPoWConsensus(newCtx(l, self, log), def.ConsensusConfig{ConsensusName: "pow", Config: cfg.json(), StartHeight: 1})
	l.blocks = full
	if isNilIface(in) {
		r.Inconclusive("pow instance not created for " + shape + ": " + fmt.Sprint(log.Tail(2)))
		return nil
	}
	pc, ok := in.(*pow.PoWConsensus)
	if !ok {
		r.Inconclusive("pow instance has unexpected type")
		return nil
	}
	pc.Start() // drains the new-height channel CheckMinerMatch writes to
	return pc
}

// restartProbe creates an instance on the full chain, as a restarting node does.
func restartProbe(r *ev.Run, sc powScenario, l *stubLedger, self *sn.Key) {
	defer func() {
		if pn := recover(); pn != nil {
			sig := "pow|panic|NewPoWConsensus"
			if sc.Cfg.bitcoin() && int64(len(l.blocks))%int64(sc.Cfg.Gap) == 0 && int64(len(l.blocks)) > int64(sc.Cfg.Gap) {
				sig = "pow|panic|restart-when-next-height-is-adjustment-height"
			}
			r.Violation(sig, fmt.Sprintf("%s: NewPoWConsensus on a ledger with tip %d panicked: %v", sc.shape(), len(l.blocks)-1, pn),
				map[string]interface{}{"scenario": sc, "tip_height": len(l.blocks) - 1, "next_height": len(l.blocks)})
		}
	}()
	r.Count("pow.restart.probes", 1)
	in := pow.NewPoWConsensus(newCtx(l, self, sn.NewCapLogger()), def.ConsensusConfig{ConsensusName: "pow", Config: sc.Cfg.json(), StartHeight: 1})
	if isNilIface(in) {
		r.Count("pow.restart.refused", 1)
	}
}

func idBytes(n *big.Int) []byte {
	if n.Sign() < 0 || n.BitLen() > 256 {
		return nil
	}
	return n.FillBytes(make([]byte, 32))
}

// composition of total into k non-negative parts
func compose(g *rand.Rand, total int64, k int) []int64 {
	out := make([]int64, k)
	for i := 0; i < k-1; i++ {
		if total > 0 {
			out[i] = g.Int63n(total + 1)
			if g.Intn(2) == 0 {
				out[i] = total / int64(k)
			}
		}
		total -= out[i]
	}
	out[k-1] = total
	return out
}

// chain with P+1 blocks whose last G intervals are given (older intervals = period)
func buildTs(P int, period int64, tail []int64) []int64 {
	ts := make([]int64, P+1)
	ts[0] = 1600000000
	for h := 1; h <= P; h++ {
		d := period
		if i := h - (P - len(tail)) - 1; i >= 0 && i < len(tail) {
			d = tail[i]
		}
		ts[h] = ts[h-1] + d
	}
	return ts
}

func uniformBits(P int, b uint32) []uint32 {
	out := make([]uint32, P+1)
	for i := range out {
		out[i] = b
	}
	return out
}

func powScenarios(r *ev.Run) []powScenario {
	var out []powScenario
	cfgs := []powCfg{
		{Default: 0x1e0fffff, Max: 0x1d00ffff, Gap: 2, Period: 15},
		{Default: 0x1e0fffff, Max: 0x1d00ffff, Gap: 3, Period: 16},
		{Default: 0x1f00ffff, Max: 0x1d00ffff, Gap: 5, Period: 10},
		{Default: 0x1e7fffff, Max: 0x1c0fffff, Gap: 4, Period: 7},
		{Default: 0x1903a30c, Max: 0, Gap: 2, Period: 15}, // the repository's own test configuration
		{Default: 10, Max: 30, Gap: 2, Period: 15},        // legacy: leading zero bits
		{Default: 12, Max: 14, Gap: 3, Period: 16},
		{Default: 8, Max: 200, Gap: 5, Period: 10},
	}
	nRand := r.N(9, 600)
	for i := 0; i < nRand; i++ {
		g := rand.New(rand.NewSource(r.Seed*31337 + int64(i)))
		if i%3 == 2 {
			d := uint32(4 + g.Intn(40))
			cfgs = append(cfgs, powCfg{Default: d, Max: d + uint32(g.Intn(6)), Gap: int32(2 + g.Intn(6)), Period: int32(4 + g.Intn(30))})
		} else {
			size := uint32(0x1c + g.Intn(4))
			cfgs = append(cfgs, powCfg{Default: size<<24 | uint32(0x008000+g.Intn(0x7f7fff)), Max: 0x1b000000 | uint32(0x008000+g.Intn(0x7f7fff)), Gap: int32(2 + g.Intn(6)), Period: int32(4 + g.Intn(30))})
		}
	}
	for ci, c := range cfgs {
		g := rand.New(rand.NewSource(r.Seed*7 + int64(ci)*1009))
		G := int(c.Gap)
		per := int64(c.Period)
		exp := per * int64(G-1)
		lo, hi := exp/4, exp*4
		// A: default region, B: plain keep before the first adjustment
		for h := 1; h < 2*G; h++ {
			kind := "A-default-region"
			if h > G {
				kind = "B-keep-before-first-adjustment"
			}
			out = append(out, powScenario{kind, c, buildTs(h-1, per, nil), uniformBits(h-1, c.Default)})
			// the same with blocks much faster / slower than expected: still no adjustment
			if h >= G && h > 1 {
				fast, slow := make([]int64, h-1), make([]int64, h-1)
				for i := range fast {
					fast[i], slow[i] = per/8, per*6
				}
				out = append(out, powScenario{kind + "|fast", c, buildTs(h-1, per, fast), uniformBits(h-1, c.Default)})
				out = append(out, powScenario{kind + "|slow", c, buildTs(h-1, per, slow), uniformBits(h-1, c.Default)})
			}
		}
		// an adjusted target to use as "previous" value in later epochs
		adj := c.Default
		if c.bitcoin() {
			v, _, _ := refDecode(c.Default)
			adj, _ = refEncode(new(big.Int).Quo(new(big.Int).Mul(v, big.NewInt(3)), big.NewInt(4)))
		} else if c.Default < c.Max {
			adj = c.Default + 1
		}
		spans := []int64{0, 1, lo - 1, lo, lo + 1, exp / 2, exp - 1, exp, exp + 1, 2 * exp, hi - 1, hi, hi + 1, 10 * hi}
		for k := 2; k <= 3; k++ {
			P := k*G - 1
			prev := c.Default
			if k == 3 {
				prev = adj
			}
			bits := uniformBits(P, prev)
			for h := 0; h < 2*G && k == 3; h++ {
				bits[h] = c.Default
			}
			// E: the parent is an adjustment block carrying a new target; F: two blocks later
			if adj != c.Default {
				bitsE := uniformBits(P+1, prev)
				for h := 0; h < 2*G && k == 3; h++ {
					bitsE[h] = c.Default
				}
				bitsE[P+1] = adj
				if prev == adj {
					bitsE[P+1] = c.Default
				}
				out = append(out, powScenario{fmt.Sprintf("E-keep-right-after-adjustment|k=%d", k), c, buildTs(P+1, per, nil), bitsE})
				if G > 2 {
					bitsF := append(append([]uint32{}, bitsE...), bitsE[P+1])
					out = append(out, powScenario{fmt.Sprintf("F-keep-two-after-adjustment|k=%d", k), c, buildTs(P+2, per, nil), bitsF})
				}
			}
			for _, sp := range spans {
				if sp < 0 {
					continue
				}
				if !c.bitcoin() && sp == 0 && lo == 0 {
					continue // see scenario Z
				}
				// C: window and the window one block earlier span the same time
				iv := compose(g, sp, G-1)
				tail := append([]int64{iv[len(iv)-1]}, iv...)
				out = append(out, powScenario{fmt.Sprintf("C-adjust|k=%d|span=%d", k, sp), c, buildTs(P, per, tail), bits})
			}
			// D: the two windows differ (the interval just before the window is 3*exp longer or 0)
			for _, pre := range []int64{0, 3 * exp} {
				iv := compose(g, exp, G-1)
				if iv[len(iv)-1] == pre {
					continue
				}
				tail := append([]int64{pre}, iv...)
				out = append(out, powScenario{fmt.Sprintf("D-adjust-window-ends-at-parent|k=%d|pre=%d", k, pre), c, buildTs(P, per, tail), bits})
			}
		}
		// G: result harder than the hardest allowed target
		if c.bitcoin() && c.Max != 0 {
			hv, _, _ := refDecode(c.Max)
			for _, mul := range []int64{1, 2, 3, 4, 5} {
				near, _ := refEncode(new(big.Int).Mul(hv, big.NewInt(mul)))
				P := 2*G - 1
				for _, sp := range []int64{lo, exp / 2, exp} {
					iv := compose(g, sp, G-1)
					tail := append([]int64{iv[len(iv)-1]}, iv...)
					out = append(out, powScenario{fmt.Sprintf("G-hardest|prev=%dx|span=%d", mul, sp), c, buildTs(P, per, tail), uniformBits(P, near)})
				}
			}
		}
		if !c.bitcoin() {
			P := 2*G - 1
			for _, sp := range []int64{lo, exp / 3, exp} {
				if sp == 0 {
					continue
				}
				iv := compose(g, sp, G-1)
				tail := append([]int64{iv[len(iv)-1]}, iv...)
				out = append(out, powScenario{fmt.Sprintf("G-hardest|prev=max|span=%d", sp), c, buildTs(P, per, tail), uniformBits(P, c.Max)})
			}
		}
	}
	// Z: legacy mode, expected span below 4 s, all blocks of the window within one second
	for _, c := range []powCfg{{Default: 10, Max: 30, Gap: 2, Period: 3}, {Default: 10, Max: 30, Gap: 4, Period: 1}} {
		P := 2*int(c.Gap) - 1
		out = append(out, powScenario{"Z-legacy-zero-span", c, buildTs(P, int64(c.Period), make([]int64, c.Gap)), uniformBits(P, c.Default)})
	}
	return out
}

func runPowScenarios(r *ev.Run) {
	scs := powScenarios(r)
	miner := sn.K(3)
	other := sn.K(4)
	cr := sn.Crypto()
	xc := &xctx.BaseCtx{XLog: sn.NewCapLogger()}
	sampled := 0
	for _, sc := range scs {
		shape := sc.shape()
		l := sc.ledger(miner)
		chain := l.blocks
		parent := chain[len(chain)-1]
		h := int64(len(chain))
		want, mkind, defined := sc.Cfg.prescribed(chain, 1)
		shifted, _, shiftedDef := sc.Cfg.prescribed(chain, 2)
		pc := newPow(r, sc.Cfg, l, other, shape)
		if pc == nil {
			continue
		}
		r.Count("pow.scenarios|"+sc.Kind[:1], 1)
		if len(chain) >= 2 && sc.Kind[0] != 'Z' {
			restartProbe(r, sc, l, other)
		}
		// what the code prescribes for the next block
		var codeBits uint32
		panicked := false
		func() {
			defer func() {
				if pn := recover(); pn != nil {
					panicked = true
					r.Violation("pow|panic|retarget|"+mkind, fmt.Sprintf("%s: ProcessBeforeMiner panicked: %v", shape, pn),
						map[string]interface{}{"scenario": sc, "height": h})
				}
			}()
			_, st, err := pc.ProcessBeforeMiner(parent.Timestamp)
			if err != nil {
				r.Violation("pow|retarget|error", fmt.Sprintf("%s: ProcessBeforeMiner failed: %v", shape, err), map[string]interface{}{"scenario": sc})
				panicked = true
				return
			}
			codeBits = bitsOf(&stubBlock{Storage: st})
		}()
		r.Case(shape, sc.Kind[0] != 'A')
		if panicked {
			continue
		}
		if !defined {
			r.Count("pow.scenarios.model-undefined", 1)
			pc.Stop()
			continue
		}
		mk := func(id []byte, bits uint32, ts int64, signer *sn.Key, pub string, made []byte) *stubBlock {
			b := &stubBlock{Proposer: miner.Address, Height: h, ID: id, MadeID: made, Storage: powStorage(bits), Timestamp: ts, PreHash: parent.ID, PubKey: pub}
			if signer != nil {
				s, err := cr.SignECDSA(signer.Priv, id)
				if err != nil {
					panic(err)
				}
				b.Sign = s
			}
			return b
		}
		check := func(b *stubBlock) (ok bool, err error) {
			defer func() {
				if pn := recover(); pn != nil {
					r.Violation("pow|panic|CheckMinerMatch", fmt.Sprintf("%s: CheckMinerMatch panicked: %v", shape, pn), map[string]interface{}{"scenario": sc})
				}
			}()
			r.Count("pow.accept.calls", 1)
			return pc.CheckMinerMatch(xc, b)
		}
		T := sc.Cfg.targetValue(want)
		if codeBits != want {
			// the code prescribes another target than the chain's history does
			sig := "pow|prescribed-target|mismatch|" + sc.Kind[:1] + "|" + mkind
			if shiftedDef && codeBits == shifted {
				sig = "pow|prescribed-target|anchored-at-grandparent-instead-of-parent"
			}
			wit := map[string]interface{}{"scenario": sc, "height": h, "prescribed_by_history": fmt.Sprintf("%#x", want), "rule": mkind,
				"code_prescribes": fmt.Sprintf("%#x", codeBits), "same_rule_anchored_at_grandparent": fmt.Sprintf("%#x", shifted)}
			// acceptance-level evidence
			if id := idBytes(T); id != nil {
				ok, err := check(mk(id, want, parent.Timestamp, miner, miner.PubJSON, nil))
				wit["block_with_prescribed_target_accepted"] = ok
				wit["block_with_prescribed_target_err"] = fmt.Sprint(err)
			}
			if id := idBytes(sc.Cfg.targetValue(codeBits)); id != nil {
				ok, _ := check(mk(id, codeBits, parent.Timestamp, miner, miner.PubJSON, nil))
				wit["block_with_code_target_accepted"] = ok
				wit["its_id_above_prescribed_target"] = sc.Cfg.targetValue(codeBits).Cmp(T) > 0
			}
			r.Violation(sig, fmt.Sprintf("%s: height %d must carry target %#x (%s), the code prescribes %#x", shape, h, want, mkind, codeBits), wit)
			r.Count("pow.scenarios.target-mismatch", 1)
			pc.Stop()
			continue
		}
		r.Count("pow.retarget.agree|"+mkind, 1)
		// ---- acceptance matrix around the prescribed target -----------------------------------
		expect := func(name string, b *stubBlock, wantOK bool) {
			if b == nil {
				return
			}
			ok, err := check(b)
			if ok != wantOK {
				sig := "pow|accept|invalid-block-accepted|" + name
				if wantOK {
					sig = "pow|accept|valid-block-refused|" + name
				}
				r.Violation(sig, fmt.Sprintf("%s: %s: accepted=%v err=%v", shape, name, ok, err), map[string]interface{}{"scenario": sc, "case": name, "height": h,
					"prescribed": fmt.Sprintf("%#x", want), "blockid_hex": fmt.Sprintf("%x", b.ID), "bits": fmt.Sprintf("%#x", bitsOf(b)), "ts": b.Timestamp, "parent_ts": parent.Timestamp})
			}
			if ok {
				r.Count("pow.accept.accepted", 1)
			} else {
				r.Count("pow.accept.refused|"+name, 1)
			}
		}
		idT := idBytes(T)
		if idT == nil || T.Sign() == 0 {
			r.Count("pow.scenarios.target-not-a-256-bit-id", 1)
			pc.Stop()
			continue
		}
		one := big.NewInt(1)
		expect("id-at-target", mk(idT, want, parent.Timestamp, miner, miner.PubJSON, nil), true)
		expect("id-below-target", mk(idBytes(new(big.Int).Sub(T, one)), want, parent.Timestamp+5, miner, miner.PubJSON, nil), true)
		if up := idBytes(new(big.Int).Add(T, one)); up != nil {
			expect("id-above-target", mk(up, want, parent.Timestamp, miner, miner.PubJSON, nil), false)
		}
		expect("timestamp-1ns-before-parent", mk(idT, want, parent.Timestamp-1, miner, miner.PubJSON, nil), false)
		expect("timestamp-1s-before-parent", mk(idT, want, parent.Timestamp-1000000000, miner, miner.PubJSON, nil), false)
		expect("timestamp-1ns-after-parent", mk(idT, want, parent.Timestamp+1, miner, miner.PubJSON, nil), true)
		// wrong target words; the id always satisfies the word the block carries AND the prescribed one
		wrongs := map[string]uint32{}
		if sc.Cfg.bitcoin() {
			wrongs["mantissa+1"] = want + 1
			wrongs["mantissa-1"] = want - 1
			wrongs["size+1"] = want + 1<<24
			wrongs["size-1"] = want - 1<<24
		} else {
			wrongs["bits+1"] = want + 1
			if want > 1 {
				wrongs["bits-1"] = want - 1
			}
		}
		if want != sc.Cfg.Default {
			wrongs["default"] = sc.Cfg.Default
		}
		if bitsOf(parent) != want {
			wrongs["parents"] = bitsOf(parent)
		}
		for name, w := range wrongs {
			if w == want || (!sc.Cfg.bitcoin() && w > 256) {
				continue
			}
			tv := sc.Cfg.targetValue(w)
			id := T
			if tv.Cmp(T) < 0 {
				id = tv
			}
			expect("wrong-target-word|"+name, mk(idBytes(id), w, parent.Timestamp, miner, miner.PubJSON, nil), false)
			// easier word, id between the two targets: above the prescribed target
			if tv.Cmp(T) > 0 {
				expect("wrong-target-word|"+name+"|id-above-prescribed", mk(idBytes(tv), w, parent.Timestamp, miner, miner.PubJSON, nil), false)
			}
		}
		expect("signed-by-other-key", mk(idT, want, parent.Timestamp, other, miner.PubJSON, nil), false)
		expect("public-key-of-other", mk(idT, want, parent.Timestamp, other, other.PubJSON, nil), false)
		expect("unsigned", mk(idT, want, parent.Timestamp, nil, miner.PubJSON, nil), false)
		bf := mk(idT, want, parent.Timestamp, miner, miner.PubJSON, nil)
		bf.Sign = append([]byte(nil), bf.Sign...)
		bf.Sign[len(bf.Sign)-3] ^= 4
		expect("signature-bit-flipped", bf, false)
		expect("id-is-not-header-hash", mk(idT, want, parent.Timestamp, miner, miner.PubJSON, idBytes(new(big.Int).Sub(T, one))), false)
		nostore := mk(idT, want, parent.Timestamp, miner, miner.PubJSON, nil)
		nostore.Storage = []byte("{}")
		expect("no-target-word", nostore, false)
		if sampled < 2 && sc.Kind[0] == 'C' {
			sampled++
			r.Sample(map[string]interface{}{"part": "pow", "scenario": shape, "timestamps_s": sc.TsSec, "rule": mkind, "prescribed": fmt.Sprintf("%#x", want), "target_hex": fmt.Sprintf("%x", T)})
		}
		pc.Stop()
	}
}

// IsProofed alone: every interesting target word x ids around its value.
func runIsProofed(r *ev.Run) {
	miner := sn.K(3)
	for _, cfg := range []powCfg{{Default: 0x1e0fffff, Max: 0x1d00ffff, Gap: 10, Period: 15}, {Default: 0x207fffff, Max: 0x03000001, Gap: 10, Period: 15}, {Default: 10, Max: 250, Gap: 10, Period: 15}} {
		sc := powScenario{"I", cfg, buildTs(1, 15, nil), uniformBits(1, cfg.Default)}
		pc := newPow(r, cfg, sc.ledger(miner), miner, "isproofed|"+cfg.shape())
		if pc == nil {
			continue
		}
		var words []uint32
		if cfg.bitcoin() {
			for e := uint32(0); e <= 40; e++ {
				for _, m := range []uint32{0, 1, 0xff, 0x100, 0xffff, 0x10000, 0x7fffff, 0x800001, 0x80ffff, 0xffffff} {
					words = append(words, e<<24|m)
				}
			}
			words = append(words, 0x1d00ffff, 0x1d00fffe, 0x1d010000, 0x1c7fffff, 0x1e0fffff, 0xff7fffff, 0x80000001)
			g := rand.New(rand.NewSource(r.Seed + 4242))
			for i := 0; i < r.N(2000, 50000); i++ {
				words = append(words, uint32(g.Intn(40))<<24|uint32(g.Intn(1<<24)))
			}
		} else {
			for b := uint32(0); b <= 256; b++ {
				words = append(words, b)
			}
		}
		hardest, _, _ := refDecode(cfg.Max)
		one := big.NewInt(1)
		for _, w := range words {
			var T *big.Int
			neg, ovf := false, false
			if cfg.bitcoin() {
				T, neg, ovf = refDecode(w)
			} else {
				T = cfg.targetValue(w)
			}
			ids := []*big.Int{big.NewInt(0), new(big.Int).Sub(T, one), T, new(big.Int).Add(T, one), new(big.Int).Sub(two256, one)}
			for k, idn := range ids {
				id := idBytes(idn)
				if id == nil {
					continue
				}
				var got bool
				func() {
					defer func() {
						if pn := recover(); pn != nil {
							r.Violation("pow|panic|IsProofed", fmt.Sprintf("IsProofed(%x, %#x) panicked: %v", id, w, pn), nil)
						}
					}()
					got = pc.IsProofed(id, w)
				}()
				r.Count("pow.isproofed.calls", 1)
				below := idn.Cmp(T) <= 0
				sound := !neg && !ovf && below
				wit := map[string]interface{}{"config": cfg.shape(), "word": fmt.Sprintf("%#x", w), "target_hex": fmt.Sprintf("%x", T), "id_hex": fmt.Sprintf("%x", id),
					"negative": neg, "overflow": ovf, "result": got}
				if got && !sound {
					why := "id-above-target"
					if neg {
						why = "negative-target"
					} else if ovf {
						why = "overflowing-target"
					}
					r.Violation("pow|isproofed|accepts|"+why, fmt.Sprintf("IsProofed(id=%x, word=%#x) = true; target %x negative=%v overflow=%v", id, w, T, neg, ovf), wit)
				}
				// must accept: a clean word that is not harder than the hardest allowed target
				// (words whose size byte is above 32 may be refused conservatively)
				must := sound && (!cfg.bitcoin() || (T.Cmp(hardest) >= 0 && w>>24 <= 32))
				if must && !got {
					r.Violation("pow|isproofed|refuses|id-not-above-target", fmt.Sprintf("IsProofed(id=%x, word=%#x) = false; target %x", id, w, T), wit)
				}
				if got {
					r.Count("pow.isproofed.true", 1)
				} else {
					r.Count("pow.isproofed.false", 1)
				}
				if k == 2 && got {
					r.Count("pow.isproofed.at-target.true", 1)
				}
				if k == 3 && !got {
					r.Count("pow.isproofed.target+1.false", 1)
				}
			}
		}
		r.Case("pow|isproofed|"+cfg.shape(), true)
		r.Evals(len(words) * 5)
		pc.Stop()
	}
}
