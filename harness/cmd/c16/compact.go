package main

// Part (d, compact): GetCompact / SetCompact against an independent implementation written from
// the definition of the compact ("nBits") format: a compact word c encodes
//     sign = bit 23, mantissa m = c & 0x7fffff, size e = c >> 24,
//     magnitude = m * 256^(e-3)            (e >= 3)
//               = floor(m / 256^(3-e))     (e <  3)
// negative iff sign is set and the magnitude is not zero; it overflows 256 bits iff
// magnitude >= 2^256. Encoding a number: its big-endian byte string, with a zero byte in front
// if the top bit is set; size = length, mantissa = the first three bytes.

import (
	"fmt"
	"math/big"
	"math/rand"

	"github.com/xuperchain/xupercore/bcs/consensus/pow"

	"verif/ev"
)

var (
	big256 = big.NewInt(256)
	two256 = new(big.Int).Exp(big.NewInt(2), big.NewInt(256), nil)
)

func refDecode(c uint32) (mag *big.Int, negative, overflow bool) {
	e := int64(c >> 24)
	m := big.NewInt(int64(c & 0x7fffff))
	if e >= 3 {
		mag = new(big.Int).Mul(m, new(big.Int).Exp(big256, big.NewInt(e-3), nil))
	} else {
		mag = new(big.Int).Quo(m, new(big.Int).Exp(big256, big.NewInt(3-e), nil))
	}
	negative = c&0x800000 != 0 && mag.Sign() != 0
	overflow = mag.Cmp(two256) >= 0
	return
}

// refEncode returns the compact word of n >= 0 and whether the size fits the 8-bit field.
func refEncode(n *big.Int) (uint32, bool) {
	b := n.Bytes()
	if len(b) > 0 && b[0]&0x80 != 0 {
		b = append([]byte{0}, b...)
	}
	size := len(b)
	var m uint32
	for i := 0; i < 3; i++ {
		m <<= 8
		if i < len(b) {
			m |= uint32(b[i])
		}
	}
	if size > 255 {
		return 0, false
	}
	return uint32(size)<<24 | m, true
}

func checkSetCompact(r *ev.Run, c uint32) {
	var u *big.Int
	var neg, ovf bool
	func() {
		defer func() {
			if p := recover(); p != nil {
				r.Violation("pow|compact|SetCompact-panic", fmt.Sprintf("SetCompact(%#08x) panicked: %v", c, p), map[string]interface{}{"compact": c})
			}
		}()
		u, neg, ovf = pow.SetCompact(c)
	}()
	if u == nil {
		return
	}
	mag, rneg, rovf := refDecode(c)
	r.Count("compact.set.words", 1)
	wit := map[string]interface{}{"compact_hex": fmt.Sprintf("%#08x", c), "code_value_hex": fmt.Sprintf("%x", u), "code_negative": neg, "code_overflow": ovf,
		"ref_value_hex": fmt.Sprintf("%x", mag), "ref_negative": rneg, "ref_overflow": rovf}
	if u.Cmp(mag) != 0 {
		r.Violation("pow|compact|SetCompact-value", fmt.Sprintf("SetCompact(%#08x) = %x, definition gives %x", c, u, mag), wit)
	}
	if rneg && !neg {
		r.Violation("pow|compact|SetCompact-negative-flag-unsound", fmt.Sprintf("SetCompact(%#08x): negative encoding not flagged", c), wit)
	}
	if neg && !rneg {
		if c&0x800000 == 0 {
			r.Violation("pow|compact|SetCompact-negative-flag-without-sign-bit", fmt.Sprintf("SetCompact(%#08x): flagged negative, sign bit clear", c), wit)
		}
		r.Count("compact.set.negative-over-reported", 1)
	}
	if rovf && !ovf {
		r.Violation("pow|compact|SetCompact-overflow-flag-unsound", fmt.Sprintf("SetCompact(%#08x) = %x (>= 2^256) not flagged as overflow", c, mag), wit)
	}
	if ovf && !rovf {
		// conservative over-reporting is allowed, but only where some mantissa can overflow at all
		if c>>24 < 33 {
			r.Violation("pow|compact|SetCompact-overflow-flag-on-small-exponent", fmt.Sprintf("SetCompact(%#08x) = %x flagged as overflow (size byte %d cannot overflow)", c, mag, c>>24), wit)
		}
		r.Count("compact.set.overflow-over-reported(conservative)", 1)
	}
	if rneg {
		r.Count("compact.set.negative", 1)
	}
	if rovf {
		r.Count("compact.set.overflow", 1)
	}
	// inverse direction on the decoded magnitude
	checkGetCompact(r, mag)
}

func checkGetCompact(r *ev.Run, n *big.Int) {
	want, representable := refEncode(n)
	if !representable {
		// no compact word exists for n; record whether the code says so (informational)
		_, ok := pow.GetCompact(n)
		if ok {
			r.Count("compact.get.unrepresentable-number-reported-ok(informational)", 1)
		} else {
			r.Count("compact.get.unrepresentable-number-refused", 1)
		}
		return
	}
	var got uint32
	var ok bool
	func() {
		defer func() {
			if p := recover(); p != nil {
				r.Violation("pow|compact|GetCompact-panic", fmt.Sprintf("GetCompact(%x) panicked: %v", n, p), map[string]interface{}{"number_hex": fmt.Sprintf("%x", n)})
			}
		}()
		in := new(big.Int).Set(n)
		got, ok = pow.GetCompact(in)
		if in.Cmp(n) != 0 {
			r.Violation("pow|compact|GetCompact-mutates-argument", fmt.Sprintf("GetCompact(%x) changed its argument to %x", n, in), nil)
		}
	}()
	r.Count("compact.get.numbers", 1)
	wit := map[string]interface{}{"number_hex": fmt.Sprintf("%x", n), "code": fmt.Sprintf("%#08x", got), "code_ok": ok, "ref": fmt.Sprintf("%#08x", want)}
	if !ok {
		r.Violation("pow|compact|GetCompact-refuses-representable", fmt.Sprintf("GetCompact(%x) failed, definition gives %#08x", n, want), wit)
		return
	}
	if got != want {
		r.Violation("pow|compact|GetCompact-value", fmt.Sprintf("GetCompact(%x) = %#08x, definition gives %#08x", n, got, want), wit)
		return
	}
	// the word must decode to n with everything below the top three bytes cleared, never above n
	back, neg, _ := refDecode(got)
	if neg || back.Cmp(n) > 0 {
		r.Violation("pow|compact|GetCompact-not-below", fmt.Sprintf("GetCompact(%x) = %#08x decodes to %x", n, got, back), wit)
	}
}

func runCompact(r *ev.Run) {
	mants := []uint32{0, 1, 2, 0x7f, 0x80, 0xff, 0x100, 0x101, 0x7fff, 0x8000, 0xffff, 0x10000, 0x10001, 0x7fffff, 0x7ffffe, 0x7fff00, 0x7f0000,
		0x800000, 0x800001, 0x8000ff, 0x800100, 0x80ffff, 0x810000, 0xffffff, 0xff0000, 0x00ff00, 0x400000, 0xc00000}
	for e := uint32(0); e < 256; e++ {
		for _, m := range mants {
			c := e<<24 | m
			checkSetCompact(r, c)
			r.Case(fmt.Sprintf("compact|boundary|e=%d|m=%#x", e, m), true)
		}
	}
	r.Count("compact.exponents", 256)
	nRand := r.N(400000, 8000000)
	g := rand.New(rand.NewSource(r.Seed*65537 + 5))
	for i := 0; i < nRand; i++ {
		c := g.Uint32()
		if i%4 == 1 { // concentrate on the exponents around the 256-bit boundary and the tiny ones
			c = c&0x00ffffff | uint32([]int{0, 1, 2, 3, 4, 29, 30, 31, 32, 33, 34, 35, 36}[g.Intn(13)])<<24
		}
		checkSetCompact(r, c)
	}
	r.Evals(nRand)
	r.Shape("compact|random-words")
	// numbers: around every byte-length boundary and random ones
	for nb := 0; nb <= 256; nb++ {
		base := new(big.Int).Exp(big256, big.NewInt(int64(nb)), nil)
		for _, mul := range []int64{1, 0x7f, 0x80, 0xff, 0x7fff, 0x8000, 0x7fffff, 0x800000, 0xffffff, 0x1000000} {
			for _, d := range []int64{-1, 0, 1} {
				n := new(big.Int).Mul(base, big.NewInt(mul))
				n.Add(n, big.NewInt(d))
				if n.Sign() >= 0 {
					checkGetCompact(r, n)
				}
			}
		}
		r.Case(fmt.Sprintf("compact|number-boundary|bytes=%d", nb), true)
	}
	nNum := r.N(150000, 3000000)
	for i := 0; i < nNum; i++ {
		bits := g.Intn(2041)
		if i%3 == 0 {
			bits = g.Intn(290)
		}
		n := new(big.Int).Rand(g, new(big.Int).Lsh(big.NewInt(1), uint(bits)))
		checkGetCompact(r, n)
	}
	r.Evals(nNum)
	r.Shape("compact|random-numbers")
	r.Sample(map[string]interface{}{"part": "compact", "example": "SetCompact(0x1d00ffff)", "ref_value_hex": fmt.Sprintf("%x", func() *big.Int { m, _, _ := refDecode(0x1d00ffff); return m }())})
}
