package main

// Part (d2): proof of work on FORKS with one long-lived consensus instance.
//
// The statement says the target is prescribed by the candidate's OWN history. Two branches
// that split below an adjustment window prescribe different targets for the same height. The
// oracle here is differential and therefore independent of the retarget arithmetic (and of the
// recorded anchoring finding): a candidate block must get the same verdict from an instance
// that has just validated / prepared to mine the OTHER branch as from a fresh instance that has
// seen nothing - anything else means the verdict depends on what the node happened to look at
// before, not on the block's history.

import (
	"encoding/json"
	"fmt"

	xctx "github.com/xuperchain/xupercore/kernel/common/xcontext"
	"github.com/xuperchain/xupercore/kernel/consensus/def"

	"verif/ev"
	sn "verif/simnode"
)

func sideID(h int) []byte { return []byte{0xD1, byte(h >> 8), byte(h)} }

func runPowForks(r *ev.Run) {
	miner := sn.K(3)
	other := sn.K(4)
	cr := sn.Crypto()
	xc := &xctx.BaseCtx{XLog: sn.NewCapLogger()}
	cfgs := []powCfg{
		{Default: 10, Max: 30, Gap: 4, Period: 10},
		{Default: 12, Max: 40, Gap: 3, Period: 8},
		{Default: 10, Max: 30, Gap: 2, Period: 20},
		{Default: 0x1e0fffff, Max: 0x1d00ffff, Gap: 4, Period: 15},
		{Default: 0x1e0fffff, Max: 0x1d00ffff, Gap: 3, Period: 16},
		{Default: 0x1f00ffff, Max: 0x1d00ffff, Gap: 5, Period: 10},
	}
	for _, c := range cfgs {
		G := int(c.Gap)
		for _, mult := range []int{2, 3} { // adjustment height H = mult * G
			H := mult * G
			split := H - G // last common block; the whole window above it differs
			if split < 1 {
				continue
			}
			for _, speeds := range [][2]int64{{int64(c.Period) * 4, 1}, {1, int64(c.Period) * 4}, {int64(c.Period), int64(c.Period) * 3}} {
				shape := fmt.Sprintf("pow-fork|%s|H=%d|trunk-interval=%ds|side-interval=%ds", c.shape(), H, speeds[0], speeds[1])
				gen, _ := json.Marshal(def.ConsensusConfig{ConsensusName: "pow", Config: c.json()})
				build := func() (*stubLedger, []*stubBlock, []*stubBlock) {
					l := newStubLedger(gen)
					var trunk, side []*stubBlock
					ts := int64(1600000000)
					for h := 0; h <= split; h++ {
						b := &stubBlock{Proposer: miner.Address, Height: int64(h), ID: powID(h), Storage: powStorage(c.Default), Timestamp: ts*1000000000 + 123456789}
						if h > 0 {
							b.PreHash = powID(h - 1)
						}
						l.put(b)
						trunk = append(trunk, b)
						side = append(side, b)
						ts += int64(c.Period)
					}
					tsA, tsB := ts, ts
					for h := split + 1; h < H; h++ {
						a := &stubBlock{Proposer: miner.Address, Height: int64(h), ID: powID(h), PreHash: trunk[h-1].ID, Storage: powStorage(c.Default), Timestamp: tsA*1000000000 + 123456789}
						l.put(a)
						trunk = append(trunk, a)
						tsA += speeds[0]
						s := &stubBlock{Proposer: miner.Address, Height: int64(h), ID: sideID(h), PreHash: side[h-1].ID, Storage: powStorage(c.Default), Timestamp: tsB*1000000000 + 123456789}
						l.byID[string(s.ID)] = s // stored side block: reachable by id only
						side = append(side, s)
						tsB += speeds[1]
					}
					return l, trunk, side
				}
				// bits carried by blocks split+1..H-1: those heights are not adjustment heights when
				// mult == 2 (they keep the default); for mult == 3 the height 2G in between is one, so
				// recompute branch by branch with the model and rebuild
				fix := func(chain []*stubBlock) {
					for h := 1; h < len(chain); h++ {
						if b, _, ok := c.prescribed(chain[:h], 1); ok {
							chain[h].Storage = powStorage(b)
						}
					}
				}
				mkCand := func(parent *stubBlock, bits uint32) *stubBlock {
					T := c.targetValue(bits)
					id := idBytes(T)
					if id == nil || T.Sign() == 0 {
						return nil
					}
					b := &stubBlock{Proposer: miner.Address, Height: parent.Height + 1, ID: id, Storage: powStorage(bits), Timestamp: parent.Timestamp + 1000000000, PreHash: parent.ID, PubKey: miner.PubJSON}
					s, err := cr.SignECDSA(miner.Priv, id)
					if err != nil {
						return nil
					}
					b.Sign = s
					return b
				}
				verdicts := func(order string) (map[string]bool, bool) {
					l, trunk, side := build()
					fix(trunk)
					fix(side)
					wantA, _, okA := c.prescribed(trunk, 1)
					wantB, _, okB := c.prescribed(side, 1)
					if !okA || !okB {
						return nil, false
					}
					pc := newPow(r, c, l, other, shape)
					if pc == nil {
						return nil, false
					}
					defer pc.Stop()
					call := func(b *stubBlock) bool {
						if b == nil {
							return false
						}
						defer func() {
							if pn := recover(); pn != nil {
								r.Violation("pow|panic|CheckMinerMatch", fmt.Sprintf("%s: CheckMinerMatch panicked on a fork candidate: %v", shape, pn), map[string]interface{}{"shape": shape})
							}
						}()
						ok, _ := pc.CheckMinerMatch(xc, b)
						r.Count("pow.fork.calls", 1)
						if ok {
							r.Count("pow.fork.accepted", 1)
						}
						return ok
					}
					pa, pb := trunk[len(trunk)-1], side[len(side)-1]
					switch order {
					case "trunk-first":
						pc.ProcessBeforeMiner(pa.Timestamp) // the node prepares to mine on its trunk
						call(mkCand(pa, wantA))
					case "side-first":
						call(mkCand(pb, wantB))
					}
					out := map[string]bool{
						"side-candidate-carrying-side-target":   call(mkCand(pb, wantB)),
						"side-candidate-carrying-trunk-target":  call(mkCand(pb, wantA)),
						"trunk-candidate-carrying-trunk-target": call(mkCand(pa, wantA)),
						"trunk-candidate-carrying-side-target":  call(mkCand(pa, wantB)),
					}
					if wantA == wantB {
						r.Count("pow.fork.same-target-on-both-branches", 1)
					} else {
						r.Count("pow.fork.different-targets", 1)
					}
					return out, true
				}
				fresh, ok := verdicts("fresh")
				if !ok {
					r.Count("pow.fork.skipped", 1)
					continue
				}
				r.Case(shape, true)
				for _, order := range []string{"trunk-first", "side-first"} {
					got, ok := verdicts(order)
					if !ok {
						continue
					}
					for k, v := range fresh {
						if got[k] != v {
							r.Violation("pow|accept|verdict-depends-on-branch-validated-before|"+order,
								fmt.Sprintf("%s: %s: a fresh instance answers %v, an instance that has just looked at the other branch (%s) answers %v", shape, k, v, order, got[k]),
								map[string]interface{}{"shape": shape, "candidate": k, "fresh": v, "after_other_branch": got[k], "order": order})
						}
					}
				}
			}
		}
	}
}
