package main

// Part (c): single consensus. A block is acceptable iff its proposer is the configured miner,
// the public key it carries belongs to that miner, the signature is the miner's signature over
// the block id, and the block id is the id recomputed from the header.

import (
	"encoding/json"
	"fmt"

	"github.com/xuperchain/xupercore/bcs/consensus/single"
	xctx "github.com/xuperchain/xupercore/kernel/common/xcontext"
	"github.com/xuperchain/xupercore/kernel/consensus"
	"github.com/xuperchain/xupercore/kernel/consensus/def"

	"verif/ev"
	sn "verif/simnode"
)

func runSingle(r *ev.Run) {
	cr := sn.Crypto()
	nMiners := r.N(3, 8)
	for mi := 0; mi < nMiners; mi++ {
		miner := sn.K(mi)
		other := sn.K((mi + 1) % sn.NumKeys)
		cfg, _ := json.Marshal(map[string]string{"miner": miner.Address, "period": "3000"})
		gen, _ := json.Marshal(def.ConsensusConfig{ConsensusName: "single", Config: string(cfg)})
		l := newStubLedger(gen)
		genesisChain(l, 2, miner.Address)
		log := sn.NewCapLogger()
		// the local node is NOT the miner: acceptance must not depend on who verifies
		direct := single.NewSingleConsensus(newCtx(l, other, log), def.ConsensusConfig{ConsensusName: "single", Config: string(cfg), StartHeight: 1})
		if isNilIface(direct) {
			r.Inconclusive("single instance not created: " + fmt.Sprint(log.Tail(3)))
			return
		}
		plug, err := consensus.NewPluggableConsensus(newCtx(l, other, log))
		if err != nil {
			r.Inconclusive("single pluggable instance not created: " + err.Error())
			return
		}
		xc := &xctx.BaseCtx{XLog: sn.NewCapLogger()}
		id := []byte{0xC0, byte(mi), 1, 2, 3, 4, 5, 6, 7, 8, 9, 10, 11, 12, 13, 14, 15, 16, 17, 18, 19, 20, 21, 22, 23, 24, 25, 26, 27, 28, 29, 30}
		otherID := append([]byte{0xC1}, id[1:]...)
		sig := func(k *sn.Key, msg []byte) []byte {
			s, err := cr.SignECDSA(k.Priv, msg)
			if err != nil {
				panic(err)
			}
			return s
		}
		flip := func(b []byte) []byte {
			o := append([]byte(nil), b...)
			o[len(o)/2] ^= 0x01
			return o
		}
		type opt struct {
			name string
			good bool
		}
		proposers := []struct {
			opt
			v string
		}{{opt{"miner", true}, miner.Address}, {opt{"other", false}, other.Address}, {opt{"empty", false}, ""}}
		pubkeys := []struct {
			opt
			v string
		}{{opt{"miner", true}, miner.PubJSON}, {opt{"other", false}, other.PubJSON}, {opt{"garbage", false}, "{}"}, {opt{"empty", false}, ""}}
		signs := []struct {
			opt
			v []byte
		}{
			{opt{"miner-over-id", true}, sig(miner, id)},
			{opt{"miner-over-other-id", false}, sig(miner, otherID)},
			{opt{"other-over-id", false}, sig(other, id)},
			{opt{"miner-over-id-bitflip", false}, flip(sig(miner, id))},
			{opt{"none", false}, nil},
		}
		ids := []struct {
			opt
			made []byte
		}{{opt{"id=hash", true}, nil}, {opt{"id!=hash", false}, otherID}}
		for _, p := range proposers {
			for _, k := range pubkeys {
				for _, s := range signs {
					for _, d := range ids {
						for _, ts := range []int64{0, 1600000000000000000} {
							blk := &stubBlock{Proposer: p.v, Height: 2, ID: id, MadeID: d.made, PreHash: []byte{0xA0, 1}, Timestamp: ts, PubKey: k.v, Sign: s.v}
							want := p.good && k.good && s.good && d.good
							shape := fmt.Sprintf("single|proposer=%s|pubkey=%s|sign=%s|%s", p.name, k.name, s.name, d.name)
							for vi, via := range []string{"direct", "pluggable"} {
								var ok bool
								var err error
								func() {
									defer func() {
										if pn := recover(); pn != nil {
											r.Violation("single|accept|panic", fmt.Sprintf("%s: CheckMinerMatch panicked: %v", shape, pn), map[string]interface{}{"shape": shape})
										}
									}()
									if vi == 0 {
										ok, err = direct.CheckMinerMatch(xc, blk)
									} else {
										ok, err = plug.CheckMinerMatch(xc, blk)
									}
								}()
								r.Case(shape+"|"+via, true)
								wit := map[string]interface{}{"shape": shape, "via": via, "miner": miner.Address, "proposer": p.v, "pubkey": k.v,
									"sign_hex": fmt.Sprintf("%x", s.v), "blockid_hex": fmt.Sprintf("%x", id), "made_id_hex": fmt.Sprintf("%x", d.made), "accepted": ok, "err": fmt.Sprint(err)}
								if ok && !want {
									bad := ""
									if !p.good {
										bad += "|proposer=" + p.name
									}
									if !k.good {
										bad += "|pubkey=" + k.name
									}
									if !s.good {
										bad += "|sign=" + s.name
									}
									if !d.good {
										bad += "|" + d.name
									}
									r.Violation("single|accept|invalid-block-accepted"+bad, shape+" accepted", wit)
								}
								if !ok && want {
									r.Violation("single|accept|miner-block-refused", fmt.Sprintf("%s refused: %v", shape, err), wit)
								}
								if ok {
									r.Count("single.accepted", 1)
								} else {
									r.Count("single.refused", 1)
								}
							}
						}
					}
				}
			}
		}
		if mi == 0 {
			r.Sample(map[string]interface{}{"part": "single", "miner": miner.Address, "verifier": other.Address, "blockid_hex": fmt.Sprintf("%x", id),
				"matrix": "3 proposers x 4 public keys x 5 signatures x 2 id relations x 2 timestamps x {direct, pluggable}"})
		}
	}
}
