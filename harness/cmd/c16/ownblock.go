package main

// Part (b3): the own-block path of tdpos.
//
// A node's own block never passes CheckMinerMatch: the miner loop asks CompeteMaster ("am I the
// producer now?"), possibly synchronises, then stamps the block with the time it has reached by
// then and asks ProcessBeforeMiner(timestamp) for the block's consensus storage; the block is
// confirmed into the node's own ledger directly. ProcessBeforeMiner is therefore the only thing
// between a delayed mining step and an own block stamped in a slot of somebody else, and the
// statement ("a block is accepted only from the producer entitled at the block's own
// timestamp") has to hold for it as it holds for CheckMinerMatch.
//
// Situation: real tdpos instances (directly and behind PluggableConsensus) for generated
// configurations, validator sets and local identities (each list position, sometimes a node
// that is no validator at all). CompeteMaster reads the wall clock, so the configured initial
// timestamp is chosen such that "now" lies inside a chosen slot of the node (first / last / any
// slot of its run, terms 1..4); the call is repeated the way the miner loop repeats it: until the
// node is the producer, and then - depending on the case - until the hand-over to the next
// producer or until the next term has begun. The wall clock is used for nothing else.
//
// After every CompeteMaster (and once before the first one) ProcessBeforeMiner is asked about
// EVERY millisecond (both ns edges) of the terms 1 .. target+2: the same slot, later slots of
// the node's run, the slots of the other producers of that term, hand-over gaps, other terms.
//
// Oracle (no clock in it; a function of configuration, identity, timestamp and the answer):
//   * ProcessBeforeMiner(ts) may succeed only if the audited schedule of this instance (the
//     relational tiling auditor of part (a)) entitles the node's own list position at ts;
//   * own-block admission and peer admission agree: a block of this node stamped ts that carries
//     the storage ProcessBeforeMiner returned is accepted by CheckMinerMatch of the node itself
//     and of another validator's instance;
//   * the storage names the slot of ts (term and block number), not the slot of some other time.
// A refusal is always allowed (whether the node considers a term "current" depends on when it
// last looked at the clock); refusals are only counted, by what the schedule says about ts.

import (
	"encoding/json"
	"fmt"
	"math/rand"
	"sync"
	"time"

	"github.com/xuperchain/xupercore/bcs/consensus/tdpos"
	"github.com/xuperchain/xupercore/bcs/consensus/xpoa"
	xctx "github.com/xuperchain/xupercore/kernel/common/xcontext"
	"github.com/xuperchain/xupercore/kernel/consensus"
	"github.com/xuperchain/xupercore/kernel/consensus/base"
	cctx "github.com/xuperchain/xupercore/kernel/consensus/context"
	"github.com/xuperchain/xupercore/kernel/consensus/def"

	"verif/ev"
	sn "verif/simnode"
)

const (
	sigOwnOther   = "schedule|tdpos|own-block-path-grants-slot-of-another-producer"
	sigOwnGap     = "schedule|tdpos|own-block-path-grants-time-nobody-is-entitled-at"
	sigOwnPeer    = "schedule|tdpos|own-block-path-grants-block-check-miner-match-refuses"
	sigOwnStorage = "schedule|tdpos|own-block-path-storage-names-another-slot"
	sigOwnPanic   = "schedule|tdpos|own-block-path|panic"
)

// what the miner loop uses of a consensus (both the plugin and the pluggable front have it)
type minerFace interface {
	CompeteMaster(height int64) (bool, bool, error)
	ProcessBeforeMiner(timestamp int64) ([]byte, []byte, error)
	CheckMinerMatch(ctx xctx.XContext, block cctx.BlockInterface) (bool, error)
	GetConsensusStatus() (base.ConsensusStatus, error)
}

type ownCase struct {
	Index      int
	Cfg        tdposCfg
	SelfIndex  int   // list position of the local node, -1 = not a validator
	TargetTerm int64 // term the first CompeteMaster is aimed at
	Where      string
	Goal       string // "producer-once" | "until-hand-over" | "until-next-term"
	ViaPlug    bool
	SubNs      int64
}

func genOwnCase(seed int64, i int) (ownCase, *rand.Rand) {
	g := rand.New(rand.NewSource(seed*1000211 + int64(i)*7 + 4242))
	p := []int64{12, 16, 20, 25, 30}[g.Intn(5)]
	bn := int64(1 + g.Intn(4))
	pn := int64(2 + g.Intn(3))
	alt := p // the usual configuration: no idle time at a hand-over
	switch g.Intn(4) {
	case 2:
		alt = p + 1 + int64(g.Intn(int(p)))
	case 3:
		alt = 2 * p
	}
	termIv := alt
	switch g.Intn(4) {
	case 2:
		termIv = alt + p
	case 3:
		termIv = 3 * alt
	}
	c := ownCase{Index: i, Cfg: tdposCfg{Period: p, BlockNum: bn, ProposerNum: pn, Alt: alt, TermIv: termIv}}
	c.SelfIndex = g.Intn(int(pn))
	if g.Intn(8) == 0 {
		c.SelfIndex = -1
	}
	c.TargetTerm = []int64{1, 1, 2, 3, 4}[g.Intn(5)]
	c.Where = []string{"first-slot", "last-slot", "any-slot"}[g.Intn(3)]
	c.Goal = []string{"producer-once", "until-hand-over", "until-next-term"}[g.Intn(3)]
	if c.Goal == "until-next-term" && pn*bn > 8 {
		c.Goal = "until-hand-over"
	}
	c.ViaPlug = g.Intn(3) == 0
	c.SubNs = []int64{0, 0, 5, 123456}[g.Intn(4)]
	return c, g
}

// a tdpos node whose local identity is `self` (the chain: two dull blocks, initial validators)
func newTdposNode(c tdposCfg, vals []*sn.Key, self *sn.Key, withPlug bool) (base.ConsensusImplInterface, consensus.ConsensusInterface, error) {
	cfgJSON := c.json(addrs(vals))
	gen, _ := json.Marshal(def.ConsensusConfig{ConsensusName: "tdpos", Config: cfgJSON})
	l := newStubLedger(gen)
	genesisChain(l, 2, vals[0].Address)
	log := sn.NewCapLogger()
	direct := tdpos.NewTdposConsensus(newCtx(l, self, log), def.ConsensusConfig{ConsensusName: "tdpos", Config: cfgJSON, StartHeight: 1, Index: 0})
	if direct == nil || isNilIface(direct) {
		return nil, nil, fmt.Errorf("NewTdposConsensus returned nil: %v", log.Tail(3))
	}
	if !withPlug {
		return direct, nil, nil
	}
	p, err := consensus.NewPluggableConsensus(newCtx(l, self, log))
	if err != nil {
		return nil, nil, fmt.Errorf("NewPluggableConsensus: %v", err)
	}
	return direct, p, nil
}

// schedule table of an instance over the terms 1..terms, from the audited answers
type ownTable struct {
	from     int64    // first ms
	entitled []int64  // per ms: list position or -1
	slotOf   []triple // per ms: the slot (term, pos, block number); Term 0 where nobody is entitled
	termOf   []int64  // per ms: the term (also for idle ms; used for counting only)
	slots    []slot
}

func buildOwnTable(inst base.ConsensusImplInterface, c tdposCfg, terms int) (*ownTable, []problem) {
	f := func(ns int64) triple {
		t, p, b, ok := tdpos.VerifMinerScheduling(inst, ns)
		if !ok {
			panic("VerifMinerScheduling: not a tdpos instance")
		}
		return triple{t, p, b}
	}
	spec := tilingSpec{Kind: "tdpos", Period: c.Period, BlockNum: c.BlockNum, N: c.ProposerNum, Alt: c.Alt, TermIv: c.TermIv,
		BPBase: 0, FromMs: c.InitNs / 1000000, MinNs: c.InitNs, Origin: true, Terms: terms}
	res, probs := auditTiling(spec, f, func(k triple) bool { return k.BP < 0 })
	if len(probs) > 0 || res.From < 0 {
		return nil, probs
	}
	t := &ownTable{from: res.From, entitled: res.Entitled, slots: res.Slots}
	t.slotOf = make([]triple, len(res.Entitled))
	t.termOf = make([]int64, len(res.Entitled))
	for _, sl := range res.Slots {
		for ms := sl.Start; ms < sl.End; ms++ {
			if i := ms - res.From; i >= 0 && i < int64(len(t.slotOf)) {
				t.slotOf[i] = sl.K
			}
		}
	}
	for i := range t.termOf {
		ns := (res.From + int64(i)) * 1000000
		if ns < c.InitNs {
			ns = c.InitNs
		}
		t.termOf[i] = f(ns).Term
	}
	return t, nil
}

type ownRound struct {
	Call       int    `json:"compete_master_call"` // 0 = before the first call
	SaidMaster bool   `json:"compete_master_said_producer"`
	Err        string `json:"compete_master_err,omitempty"`
	NodeTerm   int64  `json:"term_reported_by_the_node"`
	Granted    int    `json:"timestamps_granted"`
}

func nodeTerm(m minerFace) int64 {
	st, err := m.GetConsensusStatus()
	if err != nil || st == nil {
		return -1
	}
	return st.GetCurrentTerm()
}

// competeMaster runs one CompeteMaster call under a watch-dog (the call sleeps on the wall clock
// and retries by itself while nobody is entitled).
func competeMaster(m minerFace) (isMiner bool, err error, panicked interface{}, timedOut bool) {
	type res struct {
		ok  bool
		err error
		p   interface{}
	}
	ch := make(chan res, 1)
	go func() {
		var o res
		defer func() {
			if p := recover(); p != nil {
				o.p = p
			}
			ch <- o
		}()
		o.ok, _, o.err = m.CompeteMaster(2)
	}()
	select {
	case o := <-ch:
		return o.ok, o.err, o.p, false
	case <-time.After(20 * time.Second):
		return false, nil, nil, true
	}
}

func runOwnBlock(r *ev.Run) {
	n := r.N(64, 600)
	var wg sync.WaitGroup
	sem := make(chan struct{}, 16)
	for i := 0; i < n; i++ {
		i := i
		wg.Add(1)
		sem <- struct{}{}
		go func() {
			defer wg.Done()
			defer func() { <-sem }()
			defer func() {
				if p := recover(); p != nil {
					r.Inconclusive(fmt.Sprintf("own-block case %d aborted by a harness panic: %v", i, p))
				}
			}()
			ownBlockCase(r, i)
		}()
	}
	wg.Wait()
	runXpoaOwnBlock(r)
}

// ---- xpoa ---------------------------------------------------------------------------------------
//
// The same question for xpoa. Its schedule is anchored at absolute time zero, so "now" cannot be
// placed by configuration: CompeteMaster is simply repeated (periods of 8..25 ms) until the node
// is the producer. Before the first call and after the call that said "producer",
// ProcessBeforeMiner is asked about every millisecond (both ns edges) of three complete terms.
//
//   - granted in a slot of ANOTHER validator, and CheckMinerMatch (own instance and another
//     validator's) refuses this node's block there: the recorded open finding
//     schedule|xpoa|own-block-path-has-no-slot-guard (xpoa's ProcessBeforeMiner never looks at
//     the timestamp); reported once per case;
//   - every other discrepancy has its own signature: granted in another validator's slot while
//     CheckMinerMatch accepts the node's block there (schedule table and acceptance disagree),
//     granted in the node's own slot but the block with the returned storage is refused, a panic.
const (
	sigXpoaNoGuard  = "schedule|xpoa|own-block-path-has-no-slot-guard"
	sigXpoaDisagree = "schedule|xpoa|own-block-path-grants-slot-of-another-producer|check-miner-match-accepts-the-block"
	sigXpoaOwnRef   = "schedule|xpoa|own-block-path-grants-own-slot-block-check-miner-match-refuses"
	sigXpoaPanic    = "schedule|xpoa|own-block-path|panic"
)

func newXpoaNode(c xpoaCfg, vals []*sn.Key, self *sn.Key) (base.ConsensusImplInterface, error) {
	cfgJSON := xpoaJSON(c, addrs(vals))
	gen, _ := json.Marshal(def.ConsensusConfig{ConsensusName: "xpoa", Config: cfgJSON})
	l := newStubLedger(gen)
	genesisChain(l, 2, vals[0].Address)
	log := sn.NewCapLogger()
	inst := xpoa.NewXpoaConsensus(newCtx(l, self, log), def.ConsensusConfig{ConsensusName: "xpoa", Config: cfgJSON, StartHeight: 1})
	if inst == nil || isNilIface(inst) {
		return nil, fmt.Errorf("NewXpoaConsensus returned nil: %v", log.Tail(3))
	}
	return inst, nil
}

func runXpoaOwnBlock(r *ev.Run) {
	n := r.N(12, 96)
	var wg sync.WaitGroup
	sem := make(chan struct{}, 16)
	for i := 0; i < n; i++ {
		i := i
		wg.Add(1)
		sem <- struct{}{}
		go func() {
			defer wg.Done()
			defer func() { <-sem }()
			defer func() {
				if p := recover(); p != nil {
					r.Inconclusive(fmt.Sprintf("xpoa own-block case %d aborted by a harness panic: %v", i, p))
				}
			}()
			xpoaOwnBlockCase(r, i)
		}()
	}
	wg.Wait()
}

func xpoaOwnBlockCase(r *ev.Run, idx int) {
	g := rand.New(rand.NewSource(r.Seed*1000303 + int64(idx)*11 + 5151))
	c := xpoaCfg{Period: []int64{8, 12, 16, 20, 25}[g.Intn(5)], BlockNum: int64(1 + g.Intn(3)), N: 2 + g.Intn(3)}
	if idx == 0 {
		c = xpoaCfg{Period: 12, BlockNum: 2, N: 3}
	}
	selfIdx := g.Intn(c.N)
	vals, _ := pickValidators(r.Seed*32452843+int64(idx), c.N)
	self, peerKey := vals[selfIdx], vals[(selfIdx+1)%c.N]
	node, err := newXpoaNode(c, vals, self)
	if err != nil {
		r.Inconclusive("own-block: xpoa instance not created for " + c.shape() + ": " + err.Error())
		return
	}
	peer, err := newXpoaNode(c, vals, peerKey)
	if err != nil {
		r.Inconclusive("own-block: xpoa peer instance not created for " + c.shape() + ": " + err.Error())
		return
	}
	// the audited schedule of this instance over three complete terms around the present (the
	// wall clock only chooses WHICH stretch of time is looked at; xpoa's schedule has no origin
	// that a configuration could move)
	c.BaseMs = time.Now().UnixNano() / int64(time.Millisecond)
	f := func(ns int64) triple {
		t, p, b, ok := xpoa.VerifMinerScheduling(node, ns, c.N)
		if !ok {
			panic("VerifMinerScheduling: not an xpoa instance")
		}
		return triple{t, p, b}
	}
	spec := tilingSpec{Kind: "xpoa", Period: c.Period, BlockNum: c.BlockNum, N: int64(c.N), Alt: c.Period, TermIv: c.Period,
		BPBase: 1, FromMs: c.BaseMs, MinNs: 0, Origin: false, Terms: 3}
	res, probs := auditTiling(spec, f, func(k triple) bool { return false })
	if len(probs) > 0 || res.From < 0 {
		r.Count("xpoa.own-block.cases-skipped-schedule-not-auditable", 1)
		return
	}
	shape := fmt.Sprintf("p=%d|bn=%d|n=%d|self=%d", c.Period, c.BlockNum, c.N, selfIdx)
	xc := &xctx.BaseCtx{XLog: sn.NewCapLogger()}
	knownReported := false
	judgeBlock := func(ns int64, storage []byte) (peerOK, ownOK bool, errs [2]string) {
		for wi, judge := range []base.ConsensusImplInterface{peer, node} {
			blk := &stubBlock{Proposer: self.Address, Height: 2, ID: []byte{0xB5, byte(wi)}, PreHash: []byte{0xA0, 1}, Timestamp: ns, Storage: storage}
			ok, cerr := false, error(nil)
			func() {
				defer func() { recover() }()
				ok, cerr = judge.CheckMinerMatch(xc, blk)
			}()
			errs[wi] = fmt.Sprint(cerr)
			if wi == 0 {
				peerOK = ok
			} else {
				ownOK = ok
			}
		}
		return
	}
	probeAll := func(state string, saidMaster bool) bool {
		stats := map[string]int{}
		defer func() {
			for k, v := range stats {
				r.Count(k, v)
			}
			r.Evals(stats["xpoa.own-block.probes"])
		}()
		for i, ent := range res.Entitled {
			ms := res.From + int64(i)
			for _, ns := range []int64{ms * 1000000, ms*1000000 + 999999} {
				var storage []byte
				var perr error
				var pan interface{}
				func() {
					defer func() { pan = recover() }()
					_, storage, perr = node.ProcessBeforeMiner(ns)
				}()
				stats["xpoa.own-block.probes"]++
				wit := map[string]interface{}{"config": c, "validators": addrs(vals), "local_node": self.Address, "local_list_position": selfIdx,
					"state": state, "timestamp_ns": ns, "entitled_list_position": ent, "storage": string(storage)}
				if pan != nil {
					r.Violation(sigXpoaPanic, fmt.Sprintf("%s: ProcessBeforeMiner(%d) panicked: %v", shape, ns, pan), wit)
					return false
				}
				ownSlot := ent == int64(selfIdx)
				if ownSlot {
					stats["xpoa.own-block.probes|own-slot"]++
				} else {
					stats["xpoa.own-block.probes|slot-of-another-validator"]++
				}
				if perr != nil {
					if ownSlot {
						stats["xpoa.own-block.refused|own-slot"]++
					} else {
						stats["xpoa.own-block.refused|slot-of-another-validator"]++
					}
					continue
				}
				peerOK, ownOK, errs := judgeBlock(ns, storage)
				wit["check_miner_match"] = map[string]interface{}{"another_validator_accepts": peerOK, "own_instance_accepts": ownOK, "errors": errs}
				switch {
				case ownSlot && peerOK && ownOK:
					stats["xpoa.own-block.granted|own-slot|block-accepted-by-peer-and-self"]++
				case ownSlot:
					r.Violation(sigXpoaOwnRef, fmt.Sprintf("%s (%s): ProcessBeforeMiner(%d) grants the node a block in its own slot, CheckMinerMatch refuses that block (another validator accepts: %v, own instance accepts: %v, %v)",
						shape, state, ns, peerOK, ownOK, errs), wit)
					return false
				case !peerOK && !ownOK:
					// the recorded defect: no error for a timestamp in another validator's slot at which
					// CheckMinerMatch refuses this node's block
					stats["xpoa.observed.process-before-miner-grants-a-timestamp-check-miner-match-refuses-the-node-at"]++
					if saidMaster {
						stats["xpoa.observed.process-before-miner-grants-a-timestamp-check-miner-match-refuses-the-node-at|after-compete-master-said-producer"]++
					}
					if !knownReported {
						knownReported = true
						r.Violation(sigXpoaNoGuard, fmt.Sprintf("%s (%s): ProcessBeforeMiner(%d) returns no error for the node (list position %d) although the timestamp lies in the slot of validator %d and CheckMinerMatch of the node itself and of another validator refuses a block of the node stamped so (%v)",
							shape, state, ns, selfIdx, ent, errs), wit)
					}
				default:
					r.Violation(sigXpoaDisagree, fmt.Sprintf("%s (%s): ProcessBeforeMiner(%d) grants a timestamp the audited schedule gives to validator %d, and CheckMinerMatch accepts the node's (list position %d) block there (another validator accepts: %v, own instance accepts: %v)",
						shape, state, ns, ent, selfIdx, peerOK, ownOK), wit)
					return false
				}
			}
		}
		return true
	}
	if !probeAll("before the first CompeteMaster", false) {
		return
	}
	saw := false
	for call := 1; call <= 2*c.N*int(c.BlockNum)+6; call++ {
		isMiner, _, pan, timedOut := competeMaster(node)
		if timedOut {
			r.Inconclusive(fmt.Sprintf("own-block: xpoa CompeteMaster did not return within 20 s (%s); case abandoned", shape))
			return
		}
		if pan != nil {
			r.Violation(sigXpoaPanic, fmt.Sprintf("%s: CompeteMaster panicked: %v", shape, pan), map[string]interface{}{"config": c, "local_list_position": selfIdx})
			return
		}
		r.Count("xpoa.own-block.compete-master.calls", 1)
		if isMiner {
			saw = true
			r.Count("xpoa.own-block.compete-master.said-producer", 1)
			break
		}
	}
	if saw && !probeAll("after CompeteMaster said producer", true) {
		return
	}
	r.Case("xpoa-own-block|"+shape, saw)
	r.Count("xpoa.own-block.cases", 1)
	if saw {
		r.Count("xpoa.own-block.cases|node-was-producer", 1)
	}
}

func ownBlockCase(r *ev.Run, idx int) {
	oc, g := genOwnCase(r.Seed, idx)
	c := oc.Cfg
	vals, outsider := pickValidators(r.Seed*15485863+int64(idx), int(c.ProposerNum))
	self := outsider
	if oc.SelfIndex >= 0 {
		self = vals[oc.SelfIndex]
	}
	peerKey := vals[(oc.SelfIndex+1+int(c.ProposerNum))%int(c.ProposerNum)] // another validator (validator 0 for an outsider node)
	terms := int(oc.TargetTerm) + 2

	// ---- where the first CompeteMaster is to land: offsets relative to the initial timestamp, from
	// an instance of the same configuration whose chain starts at (almost) zero. Only used to
	// place the wall clock; the verdict table below is the one of the instance under test.
	c0 := c
	c0.InitNs = oc.SubNs
	probe, _, err := newTdposNode(c0, vals, self, false)
	if err != nil {
		r.Inconclusive("own-block: tdpos instance not created for " + c0.shape() + ": " + err.Error())
		return
	}
	rel, probs := buildOwnTable(probe, c0, terms)
	if rel == nil {
		// the schedule itself is broken (part (a) reports that); no entitlement table to judge by
		r.Count("tdpos.own-block.cases-skipped-schedule-not-auditable", 1)
		_ = probs
		return
	}
	aimPos := int64(oc.SelfIndex)
	if aimPos < 0 {
		aimPos = 0
	}
	var own []slot
	for _, sl := range rel.slots {
		if sl.K.Term == oc.TargetTerm && sl.K.Pos == aimPos {
			own = append(own, sl)
		}
	}
	if len(own) == 0 {
		r.Count("tdpos.own-block.cases-skipped-no-slot-to-aim-at", 1)
		return
	}
	aim := own[0]
	switch oc.Where {
	case "last-slot":
		aim = own[len(own)-1]
	case "any-slot":
		aim = own[g.Intn(len(own))]
	}
	into := int64(g.Intn(int(c.Period)/3 + 1)) // ms into the slot

	// ---- the situation (wall clock): the initial timestamp puts `landing` into the aimed slot
	nowMs := time.Now().UnixNano() / int64(time.Millisecond)
	// (CompeteMaster answers at most once per period of absolute time and the constructor marks the
	// period it runs in as answered: the landing period must begin after the set-up below is over)
	landing := ((nowMs+60)/c.Period+1)*c.Period + into
	c.InitNs = (landing-(aim.Start-rel.from)-into)*1000000 + oc.SubNs
	direct, plug, err := newTdposNode(c, vals, self, oc.ViaPlug)
	if err != nil {
		r.Inconclusive("own-block: tdpos instance not created for " + c.shape() + ": " + err.Error())
		return
	}
	peer, _, err := newTdposNode(c, vals, peerKey, false)
	if err != nil {
		r.Inconclusive("own-block: peer instance not created for " + c.shape() + ": " + err.Error())
		return
	}
	var node minerFace = direct
	tableOf := direct
	if oc.ViaPlug {
		node = plug
		// the front built its own instance from the same configuration; its schedule is audited
		// through a direct instance of that configuration (part (b) compares the two fronts)
	}
	tab, _ := buildOwnTable(tableOf, c, terms)
	if tab == nil {
		r.Count("tdpos.own-block.cases-skipped-schedule-not-auditable", 1)
		return
	}
	shape := fmt.Sprintf("%s|self=%d|aim=term%d/%s|%s|plug=%v", c.shape(), oc.SelfIndex, oc.TargetTerm, oc.Where, oc.Goal, oc.ViaPlug)
	xc := &xctx.BaseCtx{XLog: sn.NewCapLogger()}
	var rounds []ownRound
	violated := false
	witness := func(extra map[string]interface{}) map[string]interface{} {
		w := map[string]interface{}{"case": oc, "config": c, "validators": addrs(vals), "local_node": self.Address,
			"rounds": rounds, "first_slots": firstSlotsOf(tab, 10)}
		for k, v := range extra {
			w[k] = v
		}
		return w
	}

	// probe asks ProcessBeforeMiner about every millisecond of the table (both ns edges)
	probeAll := func(rd *ownRound) {
		stats := map[string]int{}
		// in time order, beginning with the node's first own slot of the term it believes to be in (so
		// that a witness shows what follows the slot the node was the producer of), then the rest
		first := 0
		for i := range tab.entitled {
			if oc.SelfIndex >= 0 && tab.entitled[i] == int64(oc.SelfIndex) && tab.termOf[i] == rd.NodeTerm {
				first = i
				break
			}
		}
		for j := range tab.entitled {
			i := (first + j) % len(tab.entitled)
			ms := tab.from + int64(i)
			for _, ns := range []int64{ms * 1000000, ms*1000000 + 999999} {
				if ns < c.InitNs {
					ns = c.InitNs
				}
				var storage []byte
				var perr error
				var pan interface{}
				func() {
					defer func() { pan = recover() }()
					_, storage, perr = node.ProcessBeforeMiner(ns)
				}()
				stats["probes"]++
				ent := tab.entitled[i]
				if pan != nil {
					violated = true
					r.Violation(sigOwnPanic, fmt.Sprintf("%s: ProcessBeforeMiner(%d) panicked: %v", shape, ns, pan), witness(map[string]interface{}{"timestamp_ns": ns}))
					return
				}
				sameTerm := rd.NodeTerm == tab.termOf[i]
				ownSlot := oc.SelfIndex >= 0 && ent == int64(oc.SelfIndex)
				if perr != nil {
					switch {
					case ownSlot && sameTerm:
						stats["refused|own-slot-in-the-node's-term"]++
					case ownSlot:
						stats["refused|own-slot-in-another-term"]++
					case ent >= 0 && sameTerm:
						stats["refused|slot-of-another-producer-in-the-node's-term"]++
						if rd.SaidMaster {
							stats["refused|slot-of-another-producer-in-the-node's-term|after-compete-master-said-producer"]++
						}
					case ent >= 0:
						stats["refused|slot-of-another-producer-in-another-term"]++
					case sameTerm:
						stats["refused|nobody-entitled-in-the-node's-term"]++
					default:
						stats["refused|nobody-entitled-in-another-term"]++
					}
					continue
				}
				// granted
				rd.Granted++
				wit := map[string]interface{}{"timestamp_ns": ns, "ms_after_init": ms - c.InitNs/1000000, "entitled_list_position": ent,
					"slot_of_timestamp": tab.slotOf[i].String(), "storage": string(storage), "local_list_position": oc.SelfIndex}
				if !ownSlot {
					violated = true
					if ent < 0 {
						r.Violation(sigOwnGap, fmt.Sprintf("%s: after CompeteMaster call %d (said producer: %v, node's term %d) ProcessBeforeMiner(%d) hands the node (list position %d) a consensus storage %s although the schedule entitles nobody at that time (term %d)",
							shape, rd.Call, rd.SaidMaster, rd.NodeTerm, ns, oc.SelfIndex, storage, tab.termOf[i]), witness(wit))
					} else {
						r.Violation(sigOwnOther, fmt.Sprintf("%s: after CompeteMaster call %d (said producer: %v, node's term %d) ProcessBeforeMiner(%d) hands the node (list position %d) a consensus storage %s for a timestamp in slot %v, which the schedule gives to validator %d: the node would confirm an own block that every peer refuses",
							shape, rd.Call, rd.SaidMaster, rd.NodeTerm, ns, oc.SelfIndex, storage, tab.slotOf[i], ent), witness(wit))
					}
					return
				}
				// the block the node would now produce, as its peers (and it itself) judge it
				for wi, judge := range []minerFace{peer, direct} {
					blk := &stubBlock{Proposer: self.Address, Height: 2, ID: []byte{0xB4, byte(wi)}, PreHash: []byte{0xA0, 1}, Timestamp: ns, Storage: storage}
					ok, cerr := false, error(nil)
					func() {
						defer func() { recover() }()
						ok, cerr = judge.CheckMinerMatch(xc, blk)
					}()
					stats["cross-check.calls"]++
					if !ok {
						violated = true
						wit["judge"] = []string{"instance of another validator", "the node's own instance"}[wi]
						wit["check_miner_match_err"] = fmt.Sprint(cerr)
						r.Violation(sigOwnPeer+"|"+[]string{"peer", "own-instance"}[wi], fmt.Sprintf("%s: ProcessBeforeMiner(%d) grants the node a block, CheckMinerMatch of %s refuses that block (%v)",
							shape, ns, wit["judge"], cerr), witness(wit))
						return
					}
				}
				stats["cross-check.granted-block-accepted-by-peer-and-self"]++
				var st struct {
					CurTerm     int64 `json:"curTerm"`
					CurBlockNum int64 `json:"curBlockNum"`
				}
				if json.Unmarshal(storage, &st) != nil || st.CurTerm != tab.slotOf[i].Term || st.CurBlockNum != tab.slotOf[i].BP {
					violated = true
					r.Violation(sigOwnStorage, fmt.Sprintf("%s: ProcessBeforeMiner(%d) returns storage %s, the timestamp lies in slot %v (term, list position, block number)",
						shape, ns, storage, tab.slotOf[i]), witness(wit))
					return
				}
				if rd.SaidMaster {
					stats["granted|own-slot|after-compete-master-said-producer"]++
				} else {
					stats["granted|own-slot|after-compete-master-said-not-producer"]++
				}
			}
		}
		for k, v := range stats {
			r.Count("tdpos.own-block."+k, v)
		}
		r.Evals(stats["probes"] + stats["cross-check.calls"])
	}

	// a node that has not looked at the clock yet
	rounds = append(rounds, ownRound{Call: 0, NodeTerm: nodeTerm(node)})
	probeAll(&rounds[0])
	r.Count("tdpos.own-block.rounds|before-first-compete-master", 1)
	if violated {
		return
	}
	if d := time.Until(time.Unix(0, landing*int64(time.Millisecond))); d > 0 {
		time.Sleep(d)
	} else {
		r.Count("tdpos.own-block.set-up-slower-than-a-period", 1)
	}
	maxCalls := int(2*c.ProposerNum*c.BlockNum) + 6
	sawMaster, handOver, nextTerm := false, false, false
	masterTerm := int64(-1)
	for call := 1; call <= maxCalls; call++ {
		isMiner, cerr, pan, timedOut := competeMaster(node)
		if timedOut {
			r.Inconclusive(fmt.Sprintf("own-block: CompeteMaster did not return within 20 s (%s); case abandoned", shape))
			return
		}
		if pan != nil {
			r.Violation(sigOwnPanic, fmt.Sprintf("%s: CompeteMaster panicked: %v", shape, pan), witness(nil))
			return
		}
		rd := ownRound{Call: call, SaidMaster: isMiner, NodeTerm: nodeTerm(node)}
		if cerr != nil {
			rd.Err = cerr.Error()
		}
		rounds = append(rounds, rd)
		r.Count("tdpos.own-block.compete-master.calls", 1)
		if isMiner {
			r.Count("tdpos.own-block.compete-master.said-producer", 1)
			if call == 1 {
				r.Count("tdpos.own-block.compete-master.said-producer-at-the-aimed-call", 1)
			}
		}
		probeAll(&rounds[len(rounds)-1])
		if violated {
			return
		}
		if isMiner && !sawMaster {
			sawMaster, masterTerm = true, rd.NodeTerm
		}
		if sawMaster && !isMiner {
			handOver = true
		}
		if sawMaster && rd.NodeTerm != masterTerm {
			nextTerm = true
		}
		done := false
		switch {
		case oc.SelfIndex < 0:
			done = call >= 2
		case !sawMaster:
		case oc.Goal == "producer-once":
			done = true
		case oc.Goal == "until-hand-over":
			done = handOver
		default:
			done = nextTerm
		}
		if done {
			break
		}
	}
	r.Case("tdpos-own-block|"+fmt.Sprintf("p=%d|bn=%d|pn=%d|alt=%d|term=%d|self=%d|aim=term%d/%s|%s|plug=%v", c.Period, c.BlockNum, c.ProposerNum, c.Alt, c.TermIv,
		oc.SelfIndex, oc.TargetTerm, oc.Where, oc.Goal, oc.ViaPlug), sawMaster)
	r.Count("tdpos.own-block.cases", 1)
	if oc.ViaPlug {
		r.Count("tdpos.own-block.cases|behind-pluggable-consensus", 1)
	}
	if oc.SelfIndex < 0 {
		r.Count("tdpos.own-block.cases|node-is-no-validator", 1)
	}
	if sawMaster {
		r.Count("tdpos.own-block.cases|node-was-producer", 1)
	}
	if handOver {
		r.Count("tdpos.own-block.cases|asked-again-after-the-hand-over", 1)
	}
	if nextTerm {
		r.Count("tdpos.own-block.cases|asked-again-in-a-later-term", 1)
	}
	if idx < 2 {
		r.Sample(map[string]interface{}{"part": "tdpos-own-block", "case": oc, "rounds": rounds, "first_slots": firstSlotsOf(tab, 6)})
	}
}

func firstSlotsOf(t *ownTable, n int) []string {
	var out []string
	for i, s := range t.slots {
		if i >= n {
			break
		}
		out = append(out, fmt.Sprintf("%v=[%d,%d)ms", s.K, s.Start, s.End))
	}
	return out
}
