package main

// Part (b2) "elected validator sets": the tdpos validator list that comes out of the ELECTION
// (nominate / vote records in the contract storage), not out of the initial proposers.
//
// A scenario = one schedule configuration + one generated table of stored records
//
//	tdpos_<version>_nominate        {candidate: {nominator: amount}}
//	tdpos_<version>_vote_<address>  {voter: ballots}
//
// (present in the snapshot of every block from height 1 on) + one chain layout (tip at the end of
// term 1 / inside term 2 / at the end of term 2 / inside term 3, optionally with empty slots).
// The tables contain ties inside the elected top K, ties across the cut (K-th = K+1-th), all-equal
// tables, candidates whose ballots were all revoked (total 0, empty record, no record), revoked
// candidates (a large vote record but no longer in the nominate list), too few candidates (the
// initial proposers stay), no nominate record, records of another contract version.
//
// What is asked, per slot of the terms after the tip (candidate for the next height, same term as
// the tip and the following term) and per slot of blocks already stored (competing candidate for
// a stored height): CheckMinerMatch of {every address that occurs in the records, the initial
// proposers, an outsider, ""}.
//
// Oracles (from the statement: "the slot schedule names at most one entitled producer", "a block
// is accepted only from the producer entitled at the block's own timestamp"):
//
//  1. determinism - the same stored records give the same verdict for the same block, however
//     often the question is asked and whichever instance is asked (an instance that has lived
//     since the genesis block, fresh instances created on the final chain); the validator list a
//     fresh instance reports is the same for every fresh instance;
//  2. an election model written from the records (candidates = nominate list; ballots = sum of
//     the vote record; no record / total <= 0: not eligible; fewer eligible candidates than
//     proposer_num or no nominate record: the initial proposers; otherwise the proposer_num
//     candidates with the most ballots, more ballots = earlier position): every slot has exactly
//     one accepted producer, its ballots are those of the model's position (WHO of several
//     candidates with equal ballots is not prescribed by the statement - any rule is accepted as
//     long as it is a function of the records, see 1; which rule was seen is counted), the owner
//     of a position is the same in every slot / term while the records do not change;
//  3. read faults - the snapshot reader fails for one key the election needs (each in turn: the
//     nominate record, each candidate's vote record; also: the snapshot cannot be created): a
//     block that the fault-free evaluation refuses must not be accepted (refusing / an error is
//     fine), an instance created during the fault must not report another validator list, and
//     after the fault the verdicts are the fault-free ones again.

import (
	"encoding/json"
	"errors"
	"fmt"
	"math/rand"
	"sort"
	"strconv"
	"sync"

	"github.com/xuperchain/xupercore/bcs/consensus/tdpos"
	xctx "github.com/xuperchain/xupercore/kernel/common/xcontext"
	"github.com/xuperchain/xupercore/kernel/consensus/base"
	"github.com/xuperchain/xupercore/kernel/consensus/def"
	"github.com/xuperchain/xupercore/kernel/ledger"

	"verif/ev"
	sn "verif/simnode"
)

// ---- records and the model of the election --------------------------------------------------------

type elRecords struct {
	Version  int64                       `json:"version"`
	HasNom   bool                        `json:"has_nominate_record"`
	Nominate map[string]map[string]int64 `json:"nominate"`
	Votes    map[string]map[string]int64 `json:"votes"` // address -> voter -> ballots; no entry = no record
	Decoy    bool                        `json:"records_of_another_version_present"`
}

func elNomKey(v int64) string            { return fmt.Sprintf("tdpos_%d_nominate", v) }
func elVoteKey(v int64, a string) string { return fmt.Sprintf("tdpos_%d_vote_%s", v, a) }

type elModel struct {
	List     []string         // expected proposers of every term after the first; ties ordered by address, greater first (the rule of the unchanged code)
	Fallback string           // "" or why the initial proposers stay
	Ballots  map[string]int64 // eligible candidates and their totals
	Class    string           // structural class of the table
}

// electModel is written from the meaning of the records, not from calTopKNominator.
func electModel(rec *elRecords, k int, init []string) elModel {
	m := elModel{Ballots: map[string]int64{}}
	if !rec.HasNom {
		m.List, m.Fallback, m.Class = init, "no-nominate-record", "fallback|no-nominate-record"
		return m
	}
	var el []string
	for c := range rec.Nominate {
		v, ok := rec.Votes[c]
		if !ok {
			continue
		}
		sum := int64(0)
		for _, b := range v {
			sum += b
		}
		if sum <= 0 {
			continue
		}
		m.Ballots[c] = sum
		el = append(el, c)
	}
	if len(el) < k {
		m.List, m.Fallback, m.Class = init, "fewer-eligible-candidates-than-proposer-num", "fallback|too-few-candidates"
		return m
	}
	sort.Slice(el, func(i, j int) bool {
		if m.Ballots[el[i]] != m.Ballots[el[j]] {
			return m.Ballots[el[i]] > m.Ballots[el[j]]
		}
		return el[i] > el[j]
	})
	m.List = append([]string(nil), el[:k]...)
	inside, across := false, len(el) > k && m.Ballots[el[k-1]] == m.Ballots[el[k]]
	for i := 1; i < k; i++ {
		if m.Ballots[el[i]] == m.Ballots[el[i-1]] {
			inside = true
		}
	}
	switch {
	case inside && across:
		m.Class = "tie-inside-top-k-and-across-cut"
	case inside:
		m.Class = "tie-inside-top-k"
	case across:
		m.Class = "tie-across-cut"
	default:
		m.Class = "no-tie-in-reach-of-top-k"
	}
	return m
}

// ---- ledger with read faults -----------------------------------------------------------------------

var errInjectedRead = errors.New("verif: injected storage read fault")

// elLedger is the stub ledger plus fault injection on the snapshot path. One scenario = one
// goroutine, so no locking.
type elLedger struct {
	*stubLedger
	failKey  string // Get of this key fails
	failSnap bool   // CreateSnapshot fails
	faults   int    // injected failures delivered
	reads    int    // snapshot reads answered
}

func (l *elLedger) CreateSnapshot(id []byte) (ledger.XMReader, error) {
	if l.failSnap {
		l.faults++
		return nil, errInjectedRead
	}
	rd, err := l.stubLedger.CreateSnapshot(id)
	if err != nil {
		return nil, err
	}
	return elReader{rd, l}, nil
}

func (l *elLedger) GetTipSnapshot() (ledger.XMReader, error) {
	if l.failSnap {
		l.faults++
		return nil, errInjectedRead
	}
	rd, err := l.stubLedger.GetTipSnapshot()
	if err != nil {
		return nil, err
	}
	return elReader{rd, l}, nil
}

type elReader struct {
	ledger.XMReader
	l *elLedger
}

func (r elReader) Get(bucket string, key []byte) (*ledger.VersionedData, error) {
	if r.l.failKey != "" && string(key) == r.l.failKey {
		r.l.faults++
		return nil, errInjectedRead
	}
	r.l.reads++
	return r.XMReader.Get(bucket, key)
}

// ---- scenario generation ---------------------------------------------------------------------------

type elScen struct {
	Index    int       `json:"scenario_index"`
	Cfg      tdposCfg  `json:"config"`
	Init     []string  `json:"initial_proposers"`
	Outsider string    `json:"outsider"`
	Rec      elRecords `json:"records"`
	Flavour  string    `json:"table_flavour"`
	Layout   int       `json:"chain_layout"` // 0 tip = last slot of term 1, 1 inside term 2, 2 last slot of term 2, 3 inside term 3
	Drop     bool      `json:"empty_slots"`
}

// (proposer_num, block_num): at least 4 slots per term (the first election needs 4 blocks of the
// first term below it)
var elShapes = [][2]int64{{1, 4}, {2, 2}, {3, 2}, {4, 1}, {2, 3}, {5, 1}, {4, 2}, {1, 5}, {3, 3}, {6, 1}, {2, 4}, {5, 2}}

var elFlavours = []string{"distinct", "tie-inside", "tie-across-cut", "all-equal", "small-range", "too-few", "no-record", "mixed"}

const elB58 = "123456789ABCDEFGHJKLMNPQRSTUVWXYZabcdefghijkmnopqrstuvwxyz"

// elAddrs: n distinct addresses - fixed identities and synthetic ones, some sharing a long prefix
// with their predecessor (the order of two such addresses is decided by their last characters).
func elAddrs(g *rand.Rand, n int) []string {
	perm := g.Perm(sn.NumKeys)
	seen := map[string]bool{}
	var out []string
	for len(out) < n {
		var a string
		if i := len(out); i < sn.NumKeys && g.Intn(3) > 0 {
			a = sn.K(perm[i]).Address
		} else {
			b := make([]byte, 33)
			for j := range b {
				b[j] = elB58[g.Intn(len(elB58))]
			}
			if len(out) > 0 && g.Intn(4) == 0 && len(out[len(out)-1]) >= 31 {
				copy(b, out[len(out)-1][:31])
			}
			a = string(b)
		}
		if !seen[a] {
			seen[a] = true
			out = append(out, a)
		}
	}
	return out
}

// elSplit writes a ballot total as the record of 1..3 voters.
func elSplit(g *rand.Rand, total int64) map[string]int64 {
	v := map[string]int64{}
	parts := 1 + g.Intn(3)
	rest := total
	for i := 0; i < parts && rest > 0; i++ {
		amt := rest
		if i < parts-1 && rest > 1 {
			amt = 1 + g.Int63n(rest)
		}
		v["voter"+strconv.Itoa(i)] = amt
		rest -= amt
	}
	if g.Intn(5) == 0 {
		v["withdrawn"] = 0 // a voter who revoked everything stays in the record with 0
	}
	return v
}

func genElection(seed int64, idx int) *elScen {
	g := rand.New(rand.NewSource(seed*1000211 + int64(idx)*7 + 5))
	kb := elShapes[idx%len(elShapes)]
	fl := elFlavours[(idx/len(elShapes))%len(elFlavours)]
	k := int(kb[0])
	p := []int64{2, 3, 5}[g.Intn(3)]
	alt := p + []int64{0, 1, p}[g.Intn(3)]
	tiv := alt + []int64{0, p, 2 * alt}[g.Intn(3)]
	sc := &elScen{Index: idx, Flavour: fl, Layout: (idx / (len(elShapes) * len(elFlavours))) % 4, Drop: g.Intn(3) == 0,
		Cfg: tdposCfg{Period: p, BlockNum: kb[1], ProposerNum: kb[0], Alt: alt, TermIv: tiv,
			InitNs: []int64{0, 5, 1000000, 1559021720000000000, 1559021720123456789}[g.Intn(5)]}}
	sc.Rec = elRecords{Version: []int64{0, 0, 1, 3}[g.Intn(4)], HasNom: true, Nominate: map[string]map[string]int64{}, Votes: map[string]map[string]int64{}}

	// number of candidates with ballots
	n := k + g.Intn(5)
	switch fl {
	case "tie-across-cut":
		n = k + 1 + g.Intn(4)
	case "too-few":
		n = g.Intn(k)
	case "all-equal", "small-range":
		n = k + g.Intn(6)
	}
	nZero, nAbsent, nRevoked := 0, 0, 0
	if g.Intn(2) == 0 {
		nZero = 1 + g.Intn(2)
	}
	if g.Intn(3) == 0 {
		nAbsent = 1
	}
	if g.Intn(2) == 0 {
		nRevoked = 1 + g.Intn(2)
	}
	if fl == "too-few" { // make sure the non-eligible ones would fill the list if they were counted
		nZero, nAbsent, nRevoked = 1+g.Intn(2), g.Intn(2), k
	}
	pool := elAddrs(g, k+1+n+nZero+nAbsent+nRevoked)
	sc.Init, sc.Outsider, pool = pool[:k], pool[k], pool[k+1:]
	// some candidates are initial proposers standing for election
	if g.Intn(3) == 0 {
		for i := 0; i < len(pool) && i < k; i++ {
			if g.Intn(2) == 0 {
				pool[i] = sc.Init[g.Intn(k)]
			}
		}
		seen := map[string]bool{}
		var u []string
		for _, a := range pool {
			if !seen[a] {
				seen[a] = true
				u = append(u, a)
			}
		}
		for len(u) < len(pool) { // refill
			a := elAddrs(g, 1)[0]
			if !seen[a] && a != sc.Outsider {
				seen[a] = true
				u = append(u, a)
			}
		}
		pool = u
		g.Shuffle(len(pool), func(i, j int) { pool[i], pool[j] = pool[j], pool[i] })
	}
	cands, pool := pool[:n], pool[n:]

	// ballot totals by intended rank (non-increasing), then dealt to the addresses in pool order
	// (pool order is random, so address order and rank are unrelated)
	b := make([]int64, n)
	base := int64(1 + g.Intn(50))
	for i := range b {
		b[i] = base + int64(n-i)*int64(1+g.Intn(3))*7
		if i > 0 && b[i] >= b[i-1] {
			b[i] = b[i-1] - 1
		}
		if b[i] < 1 {
			b[i] = 1
		}
	}
	// the loop above can leave equal 1s at the tail for tiny bases; make distinct tables really distinct
	for i := n - 2; i >= 0; i-- {
		if b[i] <= b[i+1] {
			b[i] = b[i+1] + 1
		}
	}
	eq := func(lo, hi int) {
		for i := lo; i <= hi && i < n; i++ {
			b[i] = b[lo]
		}
	}
	switch fl {
	case "tie-inside":
		if k >= 2 && n >= 2 {
			lo := g.Intn(k - 1)
			eq(lo, lo+1+g.Intn(k-1-lo))
		} else if n >= 2 {
			eq(0, 1) // proposer_num 1: the only possible tie is across the cut
		}
	case "tie-across-cut":
		lo := k - 1 - g.Intn(k)
		eq(lo, k+g.Intn(n-k))
	case "all-equal":
		eq(0, n-1)
	case "small-range":
		for i := range b {
			b[i] = int64(1 + g.Intn(3))
		}
	case "mixed":
		for i := 1; i < n; i++ {
			if g.Intn(3) == 0 {
				b[i] = b[i-1]
			}
		}
	case "no-record":
		if g.Intn(2) == 0 {
			sc.Rec.HasNom = false // never nominated anybody; (else: an empty nominate list after revocations)
		}
	}
	nominator := func(c string) map[string]int64 {
		if g.Intn(3) == 0 {
			return map[string]int64{sc.Outsider: int64(1 + g.Intn(1000))} // co-signed nomination by somebody else
		}
		return map[string]int64{c: int64(1 + g.Intn(1000))}
	}
	if fl != "no-record" {
		for i, c := range cands {
			sc.Rec.Nominate[c] = nominator(c)
			sc.Rec.Votes[c] = elSplit(g, b[i])
		}
		for i := 0; i < nZero; i++ { // every ballot revoked
			c := pool[0]
			pool = pool[1:]
			sc.Rec.Nominate[c] = nominator(c)
			sc.Rec.Votes[c] = []map[string]int64{{"voter0": 0}, {}, {"voter0": 0, "voter1": 0}}[g.Intn(3)]
		}
		for i := 0; i < nAbsent; i++ { // nominated, never voted for
			c := pool[0]
			pool = pool[1:]
			sc.Rec.Nominate[c] = nominator(c)
		}
		for i := 0; i < nRevoked; i++ { // nomination revoked, the vote record stays behind; would win if counted
			c := pool[0]
			pool = pool[1:]
			top := int64(1000)
			if n > 0 {
				top = b[0] + int64(g.Intn(2))*int64(1+g.Intn(100))
			}
			sc.Rec.Votes[c] = elSplit(g, top)
		}
	} else if g.Intn(2) == 0 {
		// vote records without any nominate list: nobody is a candidate
		for _, c := range cands {
			sc.Rec.Votes[c] = elSplit(g, int64(1+g.Intn(100)))
		}
	}
	sc.Rec.Decoy = g.Intn(4) == 0
	return sc
}

// addresses asked in every slot: everything that occurs in the records, the initial proposers,
// an outsider, the empty proposer
func (sc *elScen) universe() []string {
	seen := map[string]bool{}
	var out []string
	add := func(a string) {
		if !seen[a] {
			seen[a] = true
			out = append(out, a)
		}
	}
	for c := range sc.Rec.Nominate {
		add(c)
	}
	for c := range sc.Rec.Votes {
		add(c)
	}
	for _, a := range sc.Init {
		add(a)
	}
	sort.Strings(out)
	add(sc.Outsider)
	add("")
	return out
}

func (sc *elScen) cfgJSON() string {
	m := map[string]interface{}{
		"timestamp":          strconv.FormatInt(sc.Cfg.InitNs, 10),
		"proposer_num":       strconv.FormatInt(sc.Cfg.ProposerNum, 10),
		"period":             strconv.FormatInt(sc.Cfg.Period, 10),
		"alternate_interval": strconv.FormatInt(sc.Cfg.Alt, 10),
		"term_interval":      strconv.FormatInt(sc.Cfg.TermIv, 10),
		"block_num":          strconv.FormatInt(sc.Cfg.BlockNum, 10),
		"vote_unit_price":    "1",
		"init_proposer":      map[string][]string{"1": sc.Init},
	}
	if sc.Rec.Version != 0 {
		m["version"] = strconv.FormatInt(sc.Rec.Version, 10)
	}
	b, _ := json.Marshal(m)
	return string(b)
}

// storage answers of the snapshot of every block from height 1 on
func (sc *elScen) stored() map[string][]byte {
	out := map[string][]byte{}
	if sc.Rec.HasNom {
		out[elNomKey(sc.Rec.Version)], _ = json.Marshal(sc.Rec.Nominate)
	}
	for c, v := range sc.Rec.Votes {
		out[elVoteKey(sc.Rec.Version, c)], _ = json.Marshal(v)
	}
	if sc.Rec.Decoy {
		// records of another version of the contract (an earlier / later tdpos instance of an
		// upgraded chain): the outsider alone, with more ballots than anybody
		ov := sc.Rec.Version + 1
		out[elNomKey(ov)], _ = json.Marshal(map[string]map[string]int64{sc.Outsider: {sc.Outsider: 1}})
		out[elVoteKey(ov, sc.Outsider)], _ = json.Marshal(map[string]int64{"voter0": 1 << 40})
		for c := range sc.Rec.Nominate {
			out[elVoteKey(ov, c)], _ = json.Marshal(map[string]int64{"voter0": 1 << 41})
		}
	}
	return out
}

// ---- one scenario ------------------------------------------------------------------------------------

type elSite struct {
	Height int64  `json:"height"`
	Ts     int64  `json:"timestamp_ns"`
	Term   int64  `json:"term"`
	Pos    int64  `json:"position"`
	BP     int64  `json:"block_pos"`
	Path   string `json:"path"` // next-height|same-term, next-height|next-term, stored-height
}

type elEnv struct {
	cnt  map[string]int // counters of this scenario, flushed once (the run's counters are behind a mutex)
	r    *ev.Run
	sc   *elScen
	l    *elLedger
	json string
	univ []string
	xc   *xctx.BaseCtx
}

func (e *elEnv) count(name string, d int) { e.cnt[name] += d }

func (e *elEnv) flush() {
	for k, v := range e.cnt {
		e.r.Count(k, v)
	}
	e.cnt = map[string]int{}
}

func elID(h int) []byte { return []byte{0xA0, byte(h >> 8), byte(h)} }

func (e *elEnv) newInstance() base.ConsensusImplInterface {
	log := sn.NewCapLogger()
	ctx := newCtx(e.l.stubLedger, sn.K(0), log)
	ctx.Ledger = e.l
	var inst base.ConsensusImplInterface
	func() {
		defer func() {
			if p := recover(); p != nil {
				e.r.Violation("tdpos|elected|panic|new-instance", fmt.Sprintf("NewTdposConsensus panicked: %v (%s)", p, e.sc.Cfg.shape()), e.witness(nil))
				inst = nil
			}
		}()
		inst = tdpos.NewTdposConsensus(ctx, def.ConsensusConfig{ConsensusName: "tdpos", Config: e.json, StartHeight: 1})
	}()
	if inst == nil || isNilIface(inst) {
		return nil
	}
	return inst
}

func (e *elEnv) witness(extra map[string]interface{}) map[string]interface{} {
	w := map[string]interface{}{"scenario": e.sc, "config_shape": e.sc.Cfg.shape(), "tip_height": len(e.l.blocks) - 1}
	for k, v := range extra {
		w[k] = v
	}
	return w
}

// validators a (fresh) instance reports
func elValidators(inst base.ConsensusImplInterface) []string {
	st, err := inst.GetConsensusStatus()
	if err != nil || st == nil {
		return nil
	}
	var v struct {
		Validators []string `json:"validators"`
	}
	if json.Unmarshal(st.GetCurrentValidatorsInfo(), &v) != nil {
		return nil
	}
	return v.Validators
}

type elVerdicts struct {
	ok   [][]bool // [site][candidate]
	errs [][]string
}

func (e *elEnv) eval(inst base.ConsensusImplInterface, sites []elSite, keepErr bool) elVerdicts {
	v := elVerdicts{ok: make([][]bool, len(sites))}
	if keepErr {
		v.errs = make([][]string, len(sites))
	}
	for si, s := range sites {
		v.ok[si] = make([]bool, len(e.univ))
		if keepErr {
			v.errs[si] = make([]string, len(e.univ))
		}
		for ci, cand := range e.univ {
			blk := &stubBlock{Proposer: cand, Height: s.Height, ID: []byte{0xB0, byte(ci)}, PreHash: elID(int(s.Height) - 1), Timestamp: s.Ts}
			if s.Path != "stored-height" {
				stg, _ := json.Marshal(map[string]int64{"curTerm": s.Term, "curBlockNum": s.BP})
				blk.Storage = stg
			}
			var ok bool
			var err error
			func() {
				defer func() {
					if p := recover(); p != nil {
						ok = false
						e.r.Violation("tdpos|elected|panic|check-miner-match", fmt.Sprintf("CheckMinerMatch panicked: %v (%s)", p, e.sc.Cfg.shape()),
							e.witness(map[string]interface{}{"site": s, "proposer": cand}))
					}
				}()
				ok, err = inst.CheckMinerMatch(e.xc, blk)
			}()
			v.ok[si][ci] = ok
			if keepErr && err != nil {
				v.errs[si][ci] = err.Error()
			}
		}
	}
	e.r.Evals(len(sites) * len(e.univ))
	e.count("tdpos.election.calls", len(sites)*len(e.univ))
	return v
}

func runElections(r *ev.Run) {
	n := r.N(len(elShapes)*len(elFlavours)*4, len(elShapes)*len(elFlavours)*40)
	var wg sync.WaitGroup
	sem := make(chan struct{}, 16)
	for i := 0; i < n; i++ {
		i := i
		wg.Add(1)
		sem <- struct{}{}
		go func() {
			defer wg.Done()
			defer func() { <-sem }()
			defer func() {
				if p := recover(); p != nil {
					r.Inconclusive(fmt.Sprintf("election scenario %d aborted by a harness panic: %v", i, p))
				}
			}()
			runElectionScenario(r, genElection(r.Seed, i))
		}()
	}
	wg.Wait()
}

func runElectionScenario(r *ev.Run, sc *elScen) {
	c := sc.Cfg
	k := int(c.ProposerNum)
	gen, _ := json.Marshal(def.ConsensusConfig{ConsensusName: "tdpos", Config: sc.cfgJSON()})
	e := &elEnv{cnt: map[string]int{}, r: r, sc: sc, l: &elLedger{stubLedger: newStubLedger(gen)}, json: sc.cfgJSON(), univ: sc.universe(), xc: &xctx.BaseCtx{XLog: sn.NewCapLogger()}}
	defer e.flush()
	l := e.l
	l.put(&stubBlock{Proposer: sc.Init[0], Height: 0, ID: elID(0)})
	stored := sc.stored()
	l.snap = func(id []byte, bucket string, key []byte) []byte {
		if bucket != "$tdpos" || len(id) != 3 || (id[1] == 0 && id[2] == 0) {
			return nil // the genesis block has no contract state
		}
		return stored[string(key)]
	}
	model := electModel(&sc.Rec, k, sc.Init)

	// the instance that lives through the whole history: created on the genesis block
	old := e.newInstance()
	if old == nil {
		r.Inconclusive("election part: tdpos instance not created on the genesis block for " + c.shape())
		return
	}
	f := func(ns int64) triple {
		t, p, b, ok := tdpos.VerifMinerScheduling(old, ns)
		if !ok {
			panic("VerifMinerScheduling: not a tdpos instance")
		}
		return triple{t, p, b}
	}
	spec := tilingSpec{Kind: "tdpos", Period: c.Period, BlockNum: c.BlockNum, N: c.ProposerNum, Alt: c.Alt, TermIv: c.TermIv,
		BPBase: 0, FromMs: c.InitNs / 1000000, MinNs: c.InitNs, Origin: true, Terms: 5}
	res, probs := auditTiling(spec, f, func(k triple) bool { return k.BP < 0 })
	if len(probs) > 0 || res.From < 0 {
		for _, p := range probs {
			r.Violation(p.Sig, c.shape()+": "+p.Detail, map[string]interface{}{"config": c, "at_ms": p.AtMs, "part": "elections"})
		}
		e.count("tdpos.election.scenarios-skipped|schedule-not-trustworthy", 1)
		return
	}
	byTerm := map[int64][]slot{}
	for _, s := range res.Slots {
		byTerm[s.K.Term] = append(byTerm[s.K.Term], s)
	}
	t1 := res.FirstTerm
	if len(byTerm[t1]) < 4 || len(byTerm[t1+1]) < 2 || len(byTerm[t1+2]) < 2 || len(byTerm[t1+3]) < 1 {
		e.count("tdpos.election.scenarios-skipped|term-shorter-than-4-blocks", 1)
		return
	}
	listOf := func(term int64) []string {
		if term == t1 {
			return sc.Init
		}
		return model.List
	}
	tsOf := func(s slot, off int64) int64 {
		ts := s.Start*1000000 + off
		if ts < c.InitNs {
			ts = c.InitNs
		}
		return ts
	}
	// ---- the chain: one block per slot, in slot order
	g := rand.New(rand.NewSource(r.Seed*1000231 + int64(sc.Index)*13 + 1))
	var chainSlots []slot
	half := func(s []slot) []slot { return s[:(len(s)+1)/2] }
	switch sc.Layout {
	case 0:
		chainSlots = append(chainSlots, byTerm[t1]...)
	case 1:
		chainSlots = append(append(chainSlots, byTerm[t1]...), half(byTerm[t1+1])...)
	case 2:
		chainSlots = append(append(chainSlots, byTerm[t1]...), byTerm[t1+1]...)
	default:
		chainSlots = append(append(append(chainSlots, byTerm[t1]...), byTerm[t1+1]...), half(byTerm[t1+2])...)
	}
	tipSlot := chainSlots[len(chainSlots)-1]
	type stBlock struct {
		h int64
		s slot
	}
	var storedBlocks []stBlock
	for i, s := range chainSlots {
		if sc.Drop && s.K.Term != t1 && i != len(chainSlots)-1 && g.Intn(4) == 0 {
			e.count("tdpos.election.empty-slots-in-chain", 1)
			continue // nobody produced in this slot
		}
		h := len(l.blocks)
		stg, _ := json.Marshal(map[string]int64{"curTerm": s.K.Term, "curBlockNum": s.K.BP})
		l.put(&stubBlock{Proposer: listOf(s.K.Term)[s.K.Pos], Height: int64(h), ID: elID(h), PreHash: elID(h - 1), Storage: stg, Timestamp: tsOf(s, 0)})
		storedBlocks = append(storedBlocks, stBlock{int64(h), s})
	}
	tipH := int64(len(l.blocks) - 1)

	// ---- the questions
	var sites []elSite
	offs := []int64{0, 500000, 999999}
	addNext := func(s slot, path string) {
		// at most the first and the last slot of a validator per term
		if s.K.BP != 0 && s.K.BP != c.BlockNum-1 {
			return
		}
		sites = append(sites, elSite{Height: tipH + 1, Ts: tsOf(s, offs[g.Intn(3)]), Term: s.K.Term, Pos: s.K.Pos, BP: s.K.BP, Path: path})
	}
	for _, s := range byTerm[tipSlot.K.Term] {
		if s.Start > tipSlot.Start && tipSlot.K.Term != t1 {
			addNext(s, "next-height|same-term")
		}
	}
	for _, s := range byTerm[tipSlot.K.Term+1] {
		addNext(s, "next-height|next-term")
	}
	// competing candidates for stored heights (>= 4: below, the initial proposers are not in question)
	pick := map[int64]bool{4: true, tipH: true, tipH - 1: true}
	for i, sb := range storedBlocks {
		if i > 0 && storedBlocks[i-1].s.K.Term != sb.s.K.Term {
			pick[sb.h], pick[sb.h-1], pick[sb.h+1] = true, true, true
		}
	}
	for i := 0; i < 2; i++ {
		pick[4+g.Int63n(tipH-3)] = true
	}
	for _, sb := range storedBlocks {
		if pick[sb.h] && sb.h >= 4 && sb.h <= tipH {
			sites = append(sites, elSite{Height: sb.h, Ts: tsOf(sb.s, 0), Term: sb.s.K.Term, Pos: sb.s.K.Pos, BP: sb.s.K.BP, Path: "stored-height"})
		}
	}

	cls := model.Class
	e.count("tdpos.election.scenarios", 1)
	e.count("tdpos.election.scenarios|"+cls, 1)
	e.count("tdpos.election.scenarios|layout-"+strconv.Itoa(sc.Layout), 1)
	for cnd := range sc.Rec.Nominate {
		v, has := sc.Rec.Votes[cnd]
		sum := int64(0)
		for _, x := range v {
			sum += x
		}
		switch {
		case !has:
			e.count("tdpos.election.candidates|nominated-without-vote-record", 1)
		case sum == 0:
			e.count("tdpos.election.candidates|all-ballots-revoked", 1)
		default:
			e.count("tdpos.election.candidates|with-ballots", 1)
		}
	}
	for cnd := range sc.Rec.Votes {
		if _, nom := sc.Rec.Nominate[cnd]; !nom && sc.Rec.HasNom {
			e.count("tdpos.election.candidates|nomination-revoked-vote-record-left", 1)
		}
	}
	if sc.Rec.Decoy {
		e.count("tdpos.election.scenarios|records-of-another-version-present", 1)
	}

	// ---- 1. determinism: the same question again, to the same and to fresh instances
	const repeats, freshN = 3, 2
	var all []elVerdicts
	var who []string
	for i := 0; i < repeats; i++ {
		all = append(all, e.eval(old, sites, i == 0))
		who = append(who, "repeated-call")
	}
	var freshLists [][]string
	for j := 0; j < freshN; j++ {
		in := e.newInstance()
		if in == nil {
			r.Violation("tdpos|elected|no-instance-on-a-legal-chain", fmt.Sprintf("%s: NewTdposConsensus returns nil on the final chain (tip %d, no fault)", c.shape(), tipH), e.witness(nil))
			return
		}
		freshLists = append(freshLists, elValidators(in))
		all = append(all, e.eval(in, sites, false))
		who = append(who, "fresh-instance")
	}
	v0 := all[0]
	for i := 1; i < len(all); i++ {
		for si := range sites {
			for ci := range e.univ {
				if all[i].ok[si][ci] != v0.ok[si][ci] {
					var vec []bool
					for _, a := range all {
						vec = append(vec, a.ok[si][ci])
					}
					r.Violation("tdpos|elected|same-block-judged-differently|"+who[i]+"|"+cls,
						fmt.Sprintf("%s: the same stored records, the same candidate block (height %d, ts %d, proposer %q, slot of position %d): accepted=%v by the first evaluation, %v by evaluation #%d (%s); model of the election: %v, ballots %v",
							c.shape(), sites[si].Height, sites[si].Ts, e.univ[ci], sites[si].Pos, v0.ok[si][ci], all[i].ok[si][ci], i, who[i], model.List, model.Ballots),
						e.witness(map[string]interface{}{"site": sites[si], "proposer": e.univ[ci], "verdicts_of_evaluations": vec, "evaluations": who, "model_list": model.List, "model_ballots": model.Ballots, "class": cls}))
					r.Case("tdpos-election|"+cls+"|"+sc.Flavour+"|k="+strconv.Itoa(k), true)
					return // tainted: nothing else is judged on this scenario
				}
			}
		}
	}
	for j := 1; j < len(freshLists); j++ {
		if fmt.Sprint(freshLists[j]) != fmt.Sprint(freshLists[0]) {
			r.Violation("tdpos|elected|validator-list-differs-between-fresh-instances|"+cls,
				fmt.Sprintf("%s: two instances created on the same chain (tip %d, term %d) report the validators %v and %v", c.shape(), tipH, tipSlot.K.Term, freshLists[0], freshLists[j]),
				e.witness(map[string]interface{}{"lists": freshLists, "model_list": model.List, "model_ballots": model.Ballots, "class": cls}))
			return
		}
	}
	e.count("tdpos.election.determinism.blocks-asked-5-times", len(sites)*len(e.univ))

	// ---- 2. the model
	owner := map[int64]string{} // position -> accepted producer in the terms after the first
	okModel := true
	accepted, refused := 0, 0
	for si, s := range sites {
		var acc []string
		for ci, cand := range e.univ {
			if v0.ok[si][ci] {
				acc = append(acc, cand)
				accepted++
			} else {
				refused++
			}
		}
		want := listOf(s.Term)[s.Pos]
		wit := func() map[string]interface{} {
			return e.witness(map[string]interface{}{"site": s, "accepted": acc, "model_list": listOf(s.Term), "model_ballots": model.Ballots, "class": cls, "fallback": model.Fallback, "errors": v0.errs[si], "universe": e.univ})
		}
		switch {
		case len(acc) == 0:
			okModel = false
			r.Violation("tdpos|elected|entitled-refused|"+s.Path, fmt.Sprintf("%s: nobody is accepted in the slot of position %d of term %d (height %d, ts %d); the records entitle %q (list %v, ballots %v; %s)",
				c.shape(), s.Pos, s.Term, s.Height, s.Ts, want, listOf(s.Term), model.Ballots, cls), wit())
		case len(acc) > 1:
			okModel = false
			r.Violation("tdpos|elected|two-producers-accepted-in-one-slot|"+s.Path, fmt.Sprintf("%s: %v are all accepted in the slot of position %d of term %d (height %d, ts %d)", c.shape(), acc, s.Pos, s.Term, s.Height, s.Ts), wit())
		default:
			a := acc[0]
			if a == want {
				if s.Term != t1 && model.Fallback == "" {
					e.count("tdpos.election.accepted.elected-producer", 1)
				} else {
					e.count("tdpos.election.accepted.initial-proposer", 1)
				}
			} else {
				// another candidate with the same ballots: a different, but possibly deterministic tie rule
				ba, eligible := model.Ballots[a]
				if s.Term != t1 && model.Fallback == "" && eligible && ba == model.Ballots[want] {
					e.count("tdpos.election.observed.tie-broken-by-another-rule-than-greater-address-first", 1)
				} else {
					okModel = false
					what := "other-candidate"
					_, nominated := sc.Rec.Nominate[a]
					_, hasVotes := sc.Rec.Votes[a]
					switch {
					case a == "":
						what = "empty-proposer"
					case a == sc.Outsider:
						what = "outsider"
					case s.Term != t1 && model.Fallback == "" && !nominated && hasVotes:
						what = "candidate-whose-nomination-was-revoked"
					case s.Term != t1 && model.Fallback == "" && nominated && !eligible:
						what = "candidate-without-ballots"
					case s.Term != t1 && model.Fallback == "" && eligible && ba < model.Ballots[want]:
						what = "candidate-with-fewer-ballots"
					case s.Term != t1 && model.Fallback == "" && eligible:
						what = "candidate-with-more-ballots-at-a-later-position"
					case s.Term != t1 && model.Fallback == "":
						what = "initial-proposer-although-an-election-took-place"
					case model.Fallback != "":
						what = "candidate-although-the-initial-proposers-stay|" + model.Fallback
					}
					r.Violation("tdpos|elected|non-entitled-accepted|"+what, fmt.Sprintf("%s: block of %q accepted in the slot of position %d of term %d (height %d, ts %d, %s); the records entitle %q (list %v, ballots %v; %s %s)",
						c.shape(), a, s.Pos, s.Term, s.Height, s.Ts, s.Path, want, listOf(s.Term), model.Ballots, cls, model.Fallback), wit())
				}
			}
			if s.Term != t1 {
				if prev, ok := owner[s.Pos]; ok && prev != a {
					okModel = false
					r.Violation("tdpos|elected|position-owner-changes-while-records-do-not|"+cls, fmt.Sprintf("%s: position %d belongs to %q in one slot and to %q in another (term %d, %s) although the stored records are the same at every height",
						c.shape(), s.Pos, prev, a, s.Term, s.Path), wit())
				}
				owner[s.Pos] = a
			}
		}
	}
	seenOwner := map[string]int64{}
	for pos, a := range owner {
		if p2, dup := seenOwner[a]; dup {
			okModel = false
			r.Violation("tdpos|elected|one-candidate-owns-two-positions", fmt.Sprintf("%s: %q is accepted at positions %d and %d", c.shape(), a, p2, pos), e.witness(map[string]interface{}{"owners": owner}))
		}
		seenOwner[a] = pos
	}
	// the list a fresh instance reports is the one of the tip's term
	if okModel && len(freshLists) > 0 {
		rep := freshLists[0]
		bad := len(rep) != k
		for pos := 0; pos < k && !bad; pos++ {
			if tipSlot.K.Term == t1 || model.Fallback != "" {
				bad = rep[pos] != sc.Init[pos]
			} else if o, ok := owner[int64(pos)]; ok {
				bad = rep[pos] != o
			} else {
				bad = model.Ballots[rep[pos]] != model.Ballots[model.List[pos]] || model.Ballots[rep[pos]] == 0
			}
		}
		if bad {
			r.Violation("tdpos|elected|reported-validator-list-disagrees-with-acceptance", fmt.Sprintf("%s: an instance created at tip %d (term %d) reports the validators %v, CheckMinerMatch accepts %v per position, the records give %v",
				c.shape(), tipH, tipSlot.K.Term, rep, owner, listOf(tipSlot.K.Term)), e.witness(map[string]interface{}{"reported": rep, "owners": owner, "model_list": listOf(tipSlot.K.Term), "class": cls}))
		} else {
			e.count("tdpos.election.reported-validator-lists-agree", 1)
		}
	}
	e.count("tdpos.election.accepted", accepted)
	e.count("tdpos.election.refused", refused)
	r.Case("tdpos-election|"+cls+"|"+sc.Flavour+"|k="+strconv.Itoa(k)+"|layout="+strconv.Itoa(sc.Layout), accepted > 0 && refused > 0)
	if sc.Index%97 == 5 {
		r.Sample(map[string]interface{}{"part": "tdpos-election", "scenario": sc, "model_list": model.List, "class": cls, "accepted_per_position": owner, "sites": len(sites)})
	}
	if !okModel {
		return
	}

	// ---- 3. read faults
	// questions: per path and position the first site
	var fsites []elSite
	var fidx []int
	seenF := map[string]bool{}
	for si, s := range sites {
		key := s.Path + "|" + strconv.FormatInt(s.Pos, 10) + "|" + strconv.FormatBool(s.Term == t1)
		if !seenF[key] {
			seenF[key] = true
			fsites = append(fsites, s)
			fidx = append(fidx, si)
		}
	}
	type fault struct{ kind, key string }
	faults := []fault{{"nominate-record", elNomKey(sc.Rec.Version)}}
	var noms []string
	for cnd := range sc.Rec.Nominate {
		noms = append(noms, cnd)
	}
	sort.Strings(noms)
	for _, cnd := range noms {
		faults = append(faults, fault{"vote-record", elVoteKey(sc.Rec.Version, cnd)})
	}
	faults = append(faults, fault{"create-snapshot", ""})
	for _, ft := range faults {
		l.failKey, l.failSnap, l.faults = ft.key, ft.kind == "create-snapshot", 0
		vf := e.eval(old, fsites, true)
		hit := l.faults
		// an instance that starts while the store is failing
		l.faults = 0
		born := e.newInstance()
		hitBorn := l.faults
		l.failKey, l.failSnap = "", false
		e.count("tdpos.election.read-fault.injected|"+ft.kind, 1)
		if hit == 0 {
			e.count("tdpos.election.read-fault.not-reached|"+ft.kind, 1) // e.g. no election is consulted (vote records when the nominate list is absent)
		} else {
			e.count("tdpos.election.read-fault.hit|"+ft.kind, 1)
		}
		for fi, s := range fsites {
			for ci, cand := range e.univ {
				free := v0.ok[fidx[fi]][ci]
				switch {
				case vf.ok[fi][ci] && !free:
					var accFree []string
					for cj, c2 := range e.univ {
						if v0.ok[fidx[fi]][cj] {
							accFree = append(accFree, c2)
						}
					}
					r.Violation("tdpos|elected|read-fault-changes-accepted-producer|"+ft.kind,
						fmt.Sprintf("%s: while the read of %s fails (%d injected failures), the block of %q (height %d, ts %d, slot of position %d of term %d, %s) is accepted with err=%q; without the fault it is refused and %v is the accepted producer (records: list %v, ballots %v)",
							c.shape(), elFaultName(ft.kind, ft.key), hit, cand, s.Height, s.Ts, s.Pos, s.Term, s.Path, vf.errs[fi][ci], accFree, listOf(s.Term), model.Ballots),
						e.witness(map[string]interface{}{"site": s, "proposer": cand, "fault_kind": ft.kind, "failing_key": ft.key, "injected_failures": hit, "accepted_without_fault": accFree, "model_list": listOf(s.Term), "model_ballots": model.Ballots, "class": cls}))
					return
				case vf.ok[fi][ci]:
					e.count("tdpos.election.read-fault.same-producer-accepted", 1)
				case free:
					e.count("tdpos.election.read-fault.entitled-refused-during-fault", 1)
				default:
					e.count("tdpos.election.read-fault.refused-as-without-fault", 1)
				}
			}
		}
		if born != nil {
			e.count("tdpos.election.read-fault.instance-created-during-fault|"+ft.kind, 1)
			lst := elValidators(born)
			if hitBorn > 0 && len(freshLists) > 0 && fmt.Sprint(lst) != fmt.Sprint(freshLists[0]) {
				r.Violation("tdpos|elected|read-fault-changes-validator-list|"+ft.kind,
					fmt.Sprintf("%s: an instance created at tip %d while the read of %s fails (%d injected failures) starts with the validators %v; without the fault they are %v",
						c.shape(), tipH, elFaultName(ft.kind, ft.key), hitBorn, lst, freshLists[0]),
					e.witness(map[string]interface{}{"fault_kind": ft.kind, "failing_key": ft.key, "validators_with_fault": lst, "validators_without_fault": freshLists[0], "class": cls}))
				return
			}
		} else if hitBorn > 0 {
			e.count("tdpos.election.read-fault.instance-refused-to-start|"+ft.kind, 1)
		}
	}
	// the store works again: the fault-free verdicts
	va := e.eval(old, fsites, true)
	for fi, s := range fsites {
		for ci, cand := range e.univ {
			if va.ok[fi][ci] != v0.ok[fidx[fi]][ci] {
				r.Violation("tdpos|elected|verdict-differs-after-transient-read-faults", fmt.Sprintf("%s: block of %q (height %d, ts %d, position %d): accepted=%v before the read faults, %v after them (err %q)",
					c.shape(), cand, s.Height, s.Ts, s.Pos, v0.ok[fidx[fi]][ci], va.ok[fi][ci], va.errs[fi][ci]), e.witness(map[string]interface{}{"site": s, "proposer": cand, "class": cls}))
				return
			}
		}
	}
	e.count("tdpos.election.read-fault.scenarios", 1)
}

func elFaultName(kind, key string) string {
	if kind == "create-snapshot" {
		return "the snapshot (CreateSnapshot)"
	}
	return "key " + key
}
