package main

// Part (e): which consensus judges a block. A chain's consensus can be upgraded; the history is
// kept on chain ($consensus/PluggableConfig) and rebuilt at every restart. Whatever the restart
// does, a candidate block must be judged by the rules of the LATEST consensus of that history:
// after an upgrade single -> pow, a block that is merely signed by the former single miner,
// without any proof of work, must be refused by every restarted instance (and vice versa: after
// pow -> single a block of an outsider carrying a valid-looking pow storage must be refused).
// The restart is repeated because its order of rebuilding comes from a Go map.

import (
	"encoding/json"
	"fmt"

	bmock "github.com/xuperchain/xupercore/bcs/consensus/mock"
	_ "github.com/xuperchain/xupercore/bcs/consensus/pow"
	_ "github.com/xuperchain/xupercore/bcs/consensus/single"
	"github.com/xuperchain/xupercore/kernel/consensus"
	"github.com/xuperchain/xupercore/kernel/consensus/def"
	kmock "github.com/xuperchain/xupercore/kernel/consensus/mock"

	"verif/ev"
)

func runPluggableRestarts(r *ev.Run) {
	defer func() {
		if pn := recover(); pn != nil {
			r.Violation("pluggable|panic|restart", fmt.Sprintf("rebuilding the consensus history panicked: %v", pn), nil)
		}
	}()
	singleCfg, _ := json.Marshal(map[string]string{"version": "0", "miner": bmock.Miner, "period": "3000"})
	powCfg := `{"defaultTarget":"419668748","adjustHeightGap":"2","expectedPeriod":"15","maxTarget":"0"}`
	genesis, _ := json.Marshal(map[string]string{"name": "single", "config": string(singleCfg)})
	type hist struct {
		name   string
		steps  map[int]def.ConsensusConfig
		latest string
	}
	hs := []hist{
		{"single->pow", map[int]def.ConsensusConfig{
			0: {ConsensusName: "single", Config: string(singleCfg), StartHeight: 1, Index: 0},
			1: {ConsensusName: "pow", Config: powCfg, StartHeight: 2, Index: 1}}, "pow"},
		{"single->pow->single", map[int]def.ConsensusConfig{
			0: {ConsensusName: "single", Config: string(singleCfg), StartHeight: 1, Index: 0},
			1: {ConsensusName: "pow", Config: powCfg, StartHeight: 2, Index: 1},
			2: {ConsensusName: "single", Config: string(singleCfg), StartHeight: 3, Index: 2}}, "single"},
	}
	restarts := r.N(120, 1500)
	for _, h := range hs {
		l := kmock.NewFakeLedger(genesis) // blocks 0..2
		hb, _ := json.Marshal(h.steps)
		reader, _ := l.GetTipXMSnapshotReader()
		reader.(*kmock.FakeSandBox).SetContext("$consensus", []byte("PluggableConfig"), hb)
		cCtx, err := bmock.NewConsensusCtx(l)
		if err != nil {
			r.Inconclusive("pluggable: cannot build a consensus context: " + err.Error())
			return
		}
		cCtx.Ledger = l
		// a block of the single miner: right address, key and signature, no proof-of-work storage
		blk, err := bmock.NewBlock(3, cCtx.Crypto, cCtx.Address)
		if err != nil {
			r.Inconclusive("pluggable: cannot build the candidate block: " + err.Error())
			return
		}
		wrongLatest, wrongVerdict := 0, 0
		first := ""
		for i := 0; i < restarts; i++ {
			pc, err := consensus.NewPluggableConsensus(*cCtx)
			if err != nil || pc == nil {
				r.Inconclusive(fmt.Sprintf("pluggable: restart failed: %v", err))
				return
			}
			st, err := pc.GetConsensusStatus()
			if err == nil && (st.GetConsensusName() != h.latest || st.GetStepConsensusIndex() != len(h.steps)-1) {
				wrongLatest++
				if first == "" {
					first = fmt.Sprintf("restart %d: effective consensus %s (index %d), latest of the history is %s (index %d)", i, st.GetConsensusName(), st.GetStepConsensusIndex(), h.latest, len(h.steps)-1)
				}
			}
			ok, _ := pc.CheckMinerMatch(&cCtx.BaseCtx, blk)
			// under pow the unproved block of the former miner must be refused; under single it is the
			// configured miner's correctly signed block
			want := h.latest == "single"
			if ok != want {
				wrongVerdict++
			}
			r.Count("pluggable.restarts", 1)
		}
		r.Case("pluggable|"+h.name, true)
		r.Evals(restarts)
		if wrongLatest > 0 || wrongVerdict > 0 {
			r.Violation("pluggable|restart|block-judged-by-a-superseded-consensus",
				fmt.Sprintf("history %s: in %d of %d restarts the effective consensus was not the latest one, in %d the candidate block got the verdict of a superseded consensus; %s", h.name, wrongLatest, restarts, wrongVerdict, first),
				map[string]interface{}{"history": h.name, "restarts": restarts, "wrong_latest": wrongLatest, "wrong_verdict": wrongVerdict})
		}
	}
}
