package main

// Offline stand-ins for everything a consensus plugin wants from its surroundings: a
// ledger (blocks by id / height, tip, snapshots), blocks, a contract manager with a kernel
// registry, and a network that only knows its own account. All deterministic, no clock.

import (
	"errors"
	"fmt"

	xctx "github.com/xuperchain/xupercore/kernel/common/xcontext"
	cctx "github.com/xuperchain/xupercore/kernel/consensus/context"
	"github.com/xuperchain/xupercore/kernel/contract"
	"github.com/xuperchain/xupercore/kernel/ledger"
	nctx "github.com/xuperchain/xupercore/kernel/network/context"
	"github.com/xuperchain/xupercore/kernel/network/p2p"
	"github.com/xuperchain/xupercore/lib/logs"
	pb "github.com/xuperchain/xupercore/protos"

	sn "verif/simnode"
)

var errNotFound = errors.New("stub ledger: block not found")

// ---- block ------------------------------------------------------------------------------------

type stubBlock struct {
	Proposer  string
	Height    int64
	ID        []byte
	MadeID    []byte // what MakeBlockId recomputes; nil = same as ID
	Storage   []byte
	Timestamp int64
	PreHash   []byte
	PubKey    string
	Sign      []byte
}

func (b *stubBlock) GetProposer() []byte                  { return []byte(b.Proposer) }
func (b *stubBlock) GetHeight() int64                     { return b.Height }
func (b *stubBlock) GetBlockid() []byte                   { return b.ID }
func (b *stubBlock) GetConsensusStorage() ([]byte, error) { return b.Storage, nil }
func (b *stubBlock) GetTimestamp() int64                  { return b.Timestamp }
func (b *stubBlock) SetItem(string, interface{}) error    { return errors.New("stub block: read only") }
func (b *stubBlock) MakeBlockId() ([]byte, error) {
	if b.MadeID != nil {
		return b.MadeID, nil
	}
	return b.ID, nil
}
func (b *stubBlock) GetPreHash() []byte   { return b.PreHash }
func (b *stubBlock) GetNextHash() []byte  { return nil }
func (b *stubBlock) GetPublicKey() string { return b.PubKey }
func (b *stubBlock) GetSign() []byte      { return b.Sign }
func (b *stubBlock) GetTxIDs() []string   { return nil }
func (b *stubBlock) GetInTrunk() bool     { return true }

// ---- ledger -----------------------------------------------------------------------------------

// stubLedger is a linear chain; blocks[i] has height i.
type stubLedger struct {
	conf   []byte
	blocks []*stubBlock
	byID   map[string]*stubBlock
	// snap answers reads of contract storage as of a block (CreateSnapshot) or the tip.
	snap func(blockID []byte, bucket string, key []byte) []byte
}

func newStubLedger(conf []byte) *stubLedger {
	return &stubLedger{conf: conf, byID: map[string]*stubBlock{}}
}

func (l *stubLedger) put(b *stubBlock) {
	if int64(len(l.blocks)) != b.Height {
		panic(fmt.Sprintf("stub ledger: height %d appended at %d", b.Height, len(l.blocks)))
	}
	l.blocks = append(l.blocks, b)
	l.byID[string(b.ID)] = b
}

func (l *stubLedger) GetConsensusConf() ([]byte, error) { return l.conf, nil }
func (l *stubLedger) QueryBlock(id []byte) (ledger.BlockHandle, error) {
	if b, ok := l.byID[string(id)]; ok {
		return b, nil
	}
	return nil, errNotFound
}
func (l *stubLedger) QueryBlockByHeight(h int64) (ledger.BlockHandle, error) {
	if h < 0 || h >= int64(len(l.blocks)) {
		return nil, errNotFound
	}
	return l.blocks[h], nil
}
func (l *stubLedger) GetTipBlock() ledger.BlockHandle { return l.blocks[len(l.blocks)-1] }
func (l *stubLedger) GetTipXMSnapshotReader() (ledger.XMSnapshotReader, error) {
	return tipReader{l}, nil
}
func (l *stubLedger) CreateSnapshot(id []byte) (ledger.XMReader, error) {
	if _, ok := l.byID[string(id)]; !ok {
		return nil, errNotFound
	}
	return snapReader{l, append([]byte(nil), id...)}, nil
}
func (l *stubLedger) GetTipSnapshot() (ledger.XMReader, error) {
	return snapReader{l, l.blocks[len(l.blocks)-1].ID}, nil
}

type tipReader struct{ l *stubLedger }

func (r tipReader) Get(bucket string, key []byte) ([]byte, error) {
	if r.l.snap == nil {
		return nil, nil
	}
	return r.l.snap(r.l.blocks[len(r.l.blocks)-1].ID, bucket, key), nil
}

type snapReader struct {
	l  *stubLedger
	id []byte
}

func (r snapReader) Get(bucket string, key []byte) (*ledger.VersionedData, error) {
	if r.l.snap == nil {
		return nil, nil
	}
	v := r.l.snap(r.id, bucket, key)
	if v == nil {
		return nil, nil
	}
	return &ledger.VersionedData{PureData: &ledger.PureData{Bucket: bucket, Key: key, Value: v}}, nil
}
func (r snapReader) Select(string, []byte, []byte) (ledger.XMIterator, error) {
	return nil, errors.New("stub snapshot: no select")
}

// ---- contract manager -------------------------------------------------------------------------

type stubRegistry struct {
	m map[string]contract.KernMethod
}

func (r *stubRegistry) RegisterKernMethod(c, m string, h contract.KernMethod) { r.m[c+"."+m] = h }
func (r *stubRegistry) RegisterShortcut(string, string, string)               {}
func (r *stubRegistry) GetKernMethod(c, m string) (contract.KernMethod, error) {
	if h, ok := r.m[c+"."+m]; ok {
		return h, nil
	}
	return nil, errors.New("stub registry: no such method")
}

type stubManager struct{ r *stubRegistry }

func (m *stubManager) NewContext(*contract.ContextConfig) (contract.Context, error) {
	return nil, errors.New("stub manager")
}
func (m *stubManager) NewStateSandbox(*contract.SandboxConfig) (contract.StateSandbox, error) {
	return nil, errors.New("stub manager")
}
func (m *stubManager) GetKernRegistry() contract.KernRegistry { return m.r }

// ---- network ----------------------------------------------------------------------------------

type stubNet struct{ account string }

func (n *stubNet) Start() {}
func (n *stubNet) Stop()  {}
func (n *stubNet) SendMessage(xctx.XContext, *pb.XuperMessage, ...p2p.OptionFunc) error {
	return nil
}
func (n *stubNet) SendMessageWithResponse(xctx.XContext, *pb.XuperMessage, ...p2p.OptionFunc) ([]*pb.XuperMessage, error) {
	return nil, nil
}
func (n *stubNet) NewSubscriber(pb.XuperMessage_MessageType, interface{}, ...p2p.SubscriberOption) p2p.Subscriber {
	return nil
}
func (n *stubNet) Register(p2p.Subscriber) error   { return nil }
func (n *stubNet) UnRegister(p2p.Subscriber) error { return nil }
func (n *stubNet) Context() *nctx.NetCtx           { return nil }
func (n *stubNet) PeerInfo() pb.PeerInfo           { return pb.PeerInfo{Account: n.account} }

// ---- context ----------------------------------------------------------------------------------

// newCtx builds a ConsensusCtx around a stub ledger; the local node is identity `self`.
func newCtx(l *stubLedger, self *sn.Key, log logs.Logger) cctx.ConsensusCtx {
	return cctx.ConsensusCtx{
		BaseCtx: xctx.BaseCtx{XLog: log},
		BcName:  "xuper",
		Address: &cctx.Address{Address: self.Address, PrivateKey: self.Priv, PrivateKeyStr: self.PrivJSON,
			PublicKey: &self.Priv.PublicKey, PublicKeyStr: self.PubJSON},
		Crypto:   sn.Crypto(),
		Contract: &stubManager{&stubRegistry{map[string]contract.KernMethod{}}},
		Ledger:   l,
		Network:  &stubNet{account: self.Address},
	}
}

// genesisChain puts n dull blocks (heights 0..n-1) into the ledger: ids {0xA0,h}, timestamps 0.
func genesisChain(l *stubLedger, n int, proposer string) {
	for h := 0; h < n; h++ {
		b := &stubBlock{Proposer: proposer, Height: int64(h), ID: []byte{0xA0, byte(h)}, Storage: nil}
		if h > 0 {
			b.PreHash = []byte{0xA0, byte(h - 1)}
		}
		l.put(b)
	}
}
