package main

// Tiling auditor, written from the statement of C16 and the meaning of the configuration keys:
//
//   * every timestamp names at most one producer (a slot) or nobody (idle);
//   * a term consists of the slots (validator 0, 1st block) ... (validator 0, block_num-th block),
//     (validator 1, 1st block) ... in exactly this order, each exactly once, each one contiguous
//     run of milliseconds, consecutive slots of one validator adjacent;
//   * successive slots start `period` ms apart inside one validator's run, `alternate interval`
//     ms apart where the producer changes and `term interval` ms apart where the term changes;
//   * a slot is `period` ms long.
//
// Nothing here computes a slot from a timestamp: the auditor only looks at the sequence of
// answers for consecutive milliseconds and checks the relations above between neighbouring
// slots. Allowed (DESIGN.md C16): every length / distance may be off by 1 ms (the first slot of
// a producer is 1 ms shorter in tdpos; with period = 1 ms that slot has no millisecond at all).

import (
	"fmt"
)

type triple struct{ Term, Pos, BP int64 }

func (t triple) String() string { return fmt.Sprintf("(%d,%d,%d)", t.Term, t.Pos, t.BP) }

type tilingSpec struct {
	Kind     string // "tdpos" | "xpoa"
	Period   int64  // ms
	BlockNum int64
	N        int64 // validators
	Alt      int64 // ms between the starts of successive slots where the producer changes
	TermIv   int64 // ... where the term changes
	BPBase   int64 // number of a validator's first slot (0 tdpos, 1 xpoa)
	FromMs   int64 // first millisecond scanned
	MinNs    int64 // smallest timestamp (ns) the schedule is defined for
	Origin   bool  // FromMs is where the schedule starts (first term complete from its beginning)
	Terms    int   // complete terms to audit
}

func (s tilingSpec) String() string {
	return fmt.Sprintf("%s period=%d block_num=%d n=%d alternate=%d term=%d from=%dms minNs=%d", s.Kind, s.Period, s.BlockNum, s.N, s.Alt, s.TermIv, s.FromMs, s.MinNs)
}

type slot struct {
	K          triple
	Start, End int64 // [Start, End) in ms
}

type problem struct {
	Sig    string
	Detail string
	AtMs   int64
}

type tilingResult struct {
	Slots      []slot  // all slots seen, time order
	FirstTerm  int64   // first audited term
	LastTerm   int64   // last audited term
	From, To   int64   // ms range [From,To) covered by Entitled
	Entitled   []int64 // per ms: validator index or -1
	Evals      int64
	Vanished   int64 // first slots that have no millisecond (period = 1)
	ShortFirst int64 // first slots 1 ms shorter than the period
	IdleMs     int64
}

// ordinal of a slot inside its term and the distance (ms) the configuration prescribes between
// the starts of two slots of the enumeration (a before b).
func (s tilingSpec) ordinal(k triple) int64 { return k.Pos*s.BlockNum + (k.BP - s.BPBase) }

func (s tilingSpec) step(ord int64) int64 { // distance from slot ord to slot ord+1 inside a term
	if (ord+1)%s.BlockNum != 0 {
		return s.Period
	}
	return s.Alt
}

func (s tilingSpec) inRange(k triple) bool {
	return k.Pos >= 0 && k.Pos < s.N && k.BP >= s.BPBase && k.BP < s.BPBase+s.BlockNum
}

func (s tilingSpec) dist(a, b triple) int64 {
	per := s.N * s.BlockNum
	d := int64(0)
	ta, oa := a.Term, s.ordinal(a)
	for ta < b.Term || (ta == b.Term && oa < s.ordinal(b)) {
		if oa >= per-1 { // (>= : an out-of-range slot number must not keep the walk going)
			d += s.TermIv
			ta++
			oa = 0
		} else {
			d += s.step(oa)
			oa++
		}
	}
	return d
}

func less(a, b triple) bool {
	if a.Term != b.Term {
		return a.Term < b.Term
	}
	if a.Pos != b.Pos {
		return a.Pos < b.Pos
	}
	return a.BP < b.BP
}

func abs64(x int64) int64 {
	if x < 0 {
		return -x
	}
	return x
}

// auditTiling scans f millisecond by millisecond (both ns edges of every ms) and audits it.
func auditTiling(s tilingSpec, f func(ns int64) triple, idle func(triple) bool) (*tilingResult, []problem) {
	var probs []problem
	seen := map[string]bool{}
	add := func(sig, detail string, at int64) {
		if !seen[sig] {
			seen[sig] = true
			probs = append(probs, problem{s.Kind + "|schedule|" + sig, detail, at})
		}
	}
	res := &tilingResult{}
	// length of a term as the configuration prescribes it (sum of the start-to-start distances)
	L := s.TermIv + (s.N-1)*s.Alt + s.N*(s.BlockNum-1)*s.Period
	capMs := s.FromMs + int64(s.Terms+3)*(L+s.N*s.BlockNum+2) + 16
	var cur *slot
	var t0 int64
	first := true
	var prevK triple
	type row struct {
		k    triple
		idle bool
	}
	var rows []row
	done := false
	T := s.FromMs
	for ; T < capMs; T++ {
		lo := T * 1000000
		if lo < s.MinNs {
			lo = s.MinNs
		}
		hi := T*1000000 + 999999
		k := f(lo)
		k2 := f(hi)
		res.Evals += 2
		if k != k2 {
			add("sub-millisecond-dependence", fmt.Sprintf("ts %d -> %v but ts %d -> %v (same millisecond)", lo, k, hi, k2), T)
		}
		id := idle(k)
		if first {
			t0 = k.Term
			res.FirstTerm = t0 + 1
			if s.Origin {
				res.FirstTerm = t0
			}
			res.LastTerm = res.FirstTerm + int64(s.Terms) - 1
			first = false
		} else if k.Term < prevK.Term {
			add("term-decreases", fmt.Sprintf("ms %d -> %v after ms %d -> %v", T, k, T-1, prevK), T)
		}
		// range
		if k.Term < 1 || k.Pos < 0 || k.Pos >= s.N || (!id && (k.BP < s.BPBase || k.BP >= s.BPBase+s.BlockNum)) {
			add("out-of-range", fmt.Sprintf("ms %d -> %v (validators %d, block_num %d)", T, k, s.N, s.BlockNum), T)
		}
		rows = append(rows, row{k, id})
		if id {
			res.IdleMs++
			cur = nil
			// no slot at all (period 1 ms, block_num 1): stop one whole term after the audited ones
			if k.Term > res.LastTerm+1 {
				done = true
			}
		} else if cur != nil && cur.K == k {
			cur.End = T + 1
		} else {
			res.Slots = append(res.Slots, slot{K: k, Start: T, End: T + 1})
			cur = &res.Slots[len(res.Slots)-1]
			// stop once the first slot after the last audited term has started
			if k.Term > res.LastTerm {
				done = true
			}
		}
		prevK = k
		if done {
			break
		}
	}
	if !done {
		add("term-does-not-advance", fmt.Sprintf("scanned ms %d..%d (%d prescribed term lengths of %d ms) without reaching term %d; last answer %v",
			s.FromMs, capMs, s.Terms+3, L, res.LastTerm+1, prevK), capMs)
		return res, probs
	}
	// ---- slot sequence ------------------------------------------------------------------------
	per := s.N * s.BlockNum
	byKey := map[triple]int{}
	for i, sl := range res.Slots {
		if i > 0 && !less(res.Slots[i-1].K, sl.K) {
			add("slot-order", fmt.Sprintf("slot %v [%d,%d) is followed by slot %v [%d,%d)", res.Slots[i-1].K, res.Slots[i-1].Start, res.Slots[i-1].End, sl.K, sl.Start, sl.End), sl.Start)
		}
		if _, dup := byKey[sl.K]; dup {
			add("slot-split", fmt.Sprintf("slot %v occupies two separate runs, second at [%d,%d)", sl.K, sl.Start, sl.End), sl.Start)
		}
		byKey[sl.K] = i
	}
	// every slot of every audited term, exactly once
	for t := res.FirstTerm; t <= res.LastTerm; t++ {
		n := int64(0)
		for _, sl := range res.Slots {
			if sl.K.Term == t {
				n++
			}
		}
		for pos := int64(0); pos < s.N; pos++ {
			for b := int64(0); b < s.BlockNum; b++ {
				k := triple{t, pos, b + s.BPBase}
				if _, ok := byKey[k]; !ok {
					if s.Period == 1 && b == 0 && s.Kind == "tdpos" {
						res.Vanished++ // allowed: 1 ms shorter first slot of a 1 ms period
						continue
					}
					add("slot-missing", fmt.Sprintf("term %d: validator %d never gets its slot number %d (slots of the term seen: %d of %d)", t, pos, b+s.BPBase, n, per), 0)
				}
			}
		}
	}
	// lengths, adjacency, distances
	for i, sl := range res.Slots {
		if sl.K.Term < res.FirstTerm || sl.K.Term > res.LastTerm+1 {
			continue
		}
		audited := sl.K.Term <= res.LastTerm
		ln := sl.End - sl.Start
		if audited && abs64(ln-s.Period) > 1 {
			add("slot-length", fmt.Sprintf("slot %v = [%d,%d) is %d ms long, period %d", sl.K, sl.Start, sl.End, ln, s.Period), sl.Start)
		}
		if audited && ln == s.Period-1 {
			res.ShortFirst++
			if sl.K.BP != s.BPBase {
				add("slot-length-short-not-first", fmt.Sprintf("slot %v = [%d,%d) is 1 ms short but is not a validator's first slot", sl.K, sl.Start, sl.End), sl.Start)
			}
		}
		if i == 0 {
			continue
		}
		p := res.Slots[i-1]
		if p.K.Term < res.FirstTerm || !less(p.K, sl.K) || !s.inRange(p.K) || !s.inRange(sl.K) {
			continue
		}
		want := s.dist(p.K, sl.K)
		got := sl.Start - p.Start
		if abs64(got-want) > 1 {
			kind := "period"
			if p.K.Term != sl.K.Term {
				kind = "term-interval"
			} else if p.K.Pos != sl.K.Pos {
				kind = "alternate-interval"
			}
			add("slot-distance|"+kind, fmt.Sprintf("slot %v starts at %d, next slot %v at %d: %d ms apart, configuration prescribes %d", p.K, p.Start, sl.K, sl.Start, got, want), sl.Start)
		}
		if p.K.Term == sl.K.Term && p.K.Pos == sl.K.Pos && p.End != sl.Start {
			add("slots-of-one-validator-not-adjacent", fmt.Sprintf("slot %v ends at %d, slot %v starts at %d", p.K, p.End, sl.K, sl.Start), sl.Start)
		}
	}
	// entitlement table over the audited terms (from the first ms whose term is audited to the
	// start of the first slot after them)
	res.From, res.To = -1, T
	for i, rw := range rows {
		ms := s.FromMs + int64(i)
		if rw.k.Term < res.FirstTerm {
			continue
		}
		if res.From < 0 {
			res.From = ms
		}
		if ms >= res.To {
			break
		}
		if rw.idle {
			res.Entitled = append(res.Entitled, -1)
		} else {
			res.Entitled = append(res.Entitled, rw.k.Pos)
		}
	}
	return res, probs
}

// auditRuns is the black-box variant used on acceptance results: who[i] is the validator index
// accepted at millisecond from+i (-1 nobody). Only what is visible without slot numbers is
// checked: one run per validator and term, in list order, run length block_num*period (±1),
// starts of successive runs (block_num-1)*period + alternate / term interval apart (±1).
func auditRuns(s tilingSpec, from int64, who []int64, kind string) []problem {
	var probs []problem
	seen := map[string]bool{}
	add := func(sig, detail string, at int64) {
		if !seen[sig] {
			seen[sig] = true
			probs = append(probs, problem{kind + "|accept-runs|" + sig, detail, at})
		}
	}
	type run struct{ v, a, b int64 }
	var runs []run
	for i, v := range who {
		ms := from + int64(i)
		if v < 0 {
			continue
		}
		if n := len(runs); n > 0 && runs[n-1].v == v && runs[n-1].b == ms {
			runs[n-1].b = ms + 1
		} else {
			runs = append(runs, run{v, ms, ms + 1})
		}
	}
	// with one validator and no idle time successive terms merge into one run: nothing to see
	if s.N == 1 {
		return nil
	}
	for i, rn := range runs {
		full := i > 0 && i < len(runs)-1
		ln := rn.b - rn.a
		want := s.BlockNum * s.Period
		if full && abs64(ln-want) > 1 {
			add("run-length", fmt.Sprintf("validator %d is accepted during [%d,%d) = %d ms, block_num*period = %d", rn.v, rn.a, rn.b, ln, want), rn.a)
		}
		if i == 0 {
			continue
		}
		p := runs[i-1]
		if rn.v != (p.v+1)%s.N {
			add("run-order", fmt.Sprintf("validator %d [%d,%d) is followed by validator %d [%d,%d)", p.v, p.a, p.b, rn.v, rn.a, rn.b), rn.a)
			continue
		}
		if i == 1 {
			continue // first run may be cut by the window
		}
		d := (s.BlockNum-1)*s.Period + s.Alt
		if rn.v == 0 {
			d = (s.BlockNum-1)*s.Period + s.TermIv
		}
		if got := rn.a - p.a; abs64(got-d) > 1 {
			add("run-distance", fmt.Sprintf("validator %d starts at %d, validator %d at %d: %d ms apart, configuration prescribes %d", p.v, p.a, rn.v, rn.a, got, d), rn.a)
		}
	}
	return probs
}
