package main

// Part (f): who is ACCEPTED is decided by the engine with the plugin's verdict. A received block
// travels Miner.ProcBlock -> ... -> batchConfirmBlock (Ledger.VerifyBlock, Consensus.CheckMinerMatch,
// Ledger.ConfirmBlock). Two things the plugin-level matrices cannot see are judged here on a real
// ledger + state + engine miner:
//  (1) the verdict convention: single and pow refuse with (false, nil) on most paths, tdpos / xpoa
//      with (false, err) - a block the plugin refuses must not be confirmed, whichever form;
//  (2) the height FIELD of a received block is covered by neither block id nor signature, and every
//      plugin picks validator set / target by it: a block whose height field is not parent + 1 must
//      not be confirmed (a former validator could otherwise be judged by an old set, a pow block
//      by the target of another height).

import (
	"encoding/json"
	"fmt"

	"github.com/xuperchain/xupercore/bcs/consensus/single"
	pb "github.com/xuperchain/xupercore/bcs/ledger/xledger/xldgpb"
	xctx "github.com/xuperchain/xupercore/kernel/common/xcontext"
	cbase "github.com/xuperchain/xupercore/kernel/consensus/base"
	cctx "github.com/xuperchain/xupercore/kernel/consensus/context"
	"github.com/xuperchain/xupercore/kernel/consensus/def"

	"verif/ev"
	sn "verif/simnode"
)

// engineConsensus: the real plugin's CheckMinerMatch, nothing else to compute.
type engineConsensus struct {
	sn.NullConsensus
	inner  cbase.ConsensusImplInterface
	record func(cctx.BlockInterface, bool, error)
}

func (e engineConsensus) CheckMinerMatch(ctx xctx.XContext, b cctx.BlockInterface) (bool, error) {
	ok, err := e.inner.CheckMinerMatch(ctx, b)
	if e.record != nil {
		e.record(b, ok, err)
	}
	return ok, err
}

func runEngineAcceptance(r *ev.Run) {
	defer func() {
		if p := recover(); p != nil {
			if inc, ok := p.(sn.Inconclusive); ok {
				r.Inconclusive(inc.Why)
				return
			}
			r.Violation("engine|panic", fmt.Sprintf("the engine's receive path panicked: %v", p), nil)
		}
	}()
	rounds := r.N(6, 40)
	for round := 0; round < rounds; round++ {
		minerKey := sn.K(round % 4)
		other := sn.K((round + 1) % 4)
		n, err := sn.NewNode(sn.DefaultConfig())
		if err != nil {
			r.Inconclusive("engine acceptance: " + err.Error())
			return
		}
		cfg, _ := json.Marshal(map[string]string{"miner": minerKey.Address, "period": "3000"})
		gen, _ := json.Marshal(def.ConsensusConfig{ConsensusName: "single", Config: string(cfg)})
		l := newStubLedger(gen)
		genesisChain(l, 2, minerKey.Address)
		inner := single.NewSingleConsensus(newCtx(l, other, sn.NewCapLogger()), def.ConsensusConfig{ConsensusName: "single", Config: string(cfg), StartHeight: 1})
		if isNilIface(inner) {
			n.Drop()
			r.Inconclusive("engine acceptance: single instance not created")
			return
		}
		var lastVerdict *bool
		n.Consensus = engineConsensus{inner: inner, record: func(_ cctx.BlockInterface, ok bool, _ error) { v := ok; lastVerdict = &v }}
		height := int64(0)
		ts := int64(1000)
		deliver := func(proposer *sn.Key, mutate func(*pb.InternalBlock)) (*pb.InternalBlock, error, bool) {
			ts += 10
			b, err := n.FormatBlock(n.Ledger.GetMeta().TipBlockid, height+1, proposer, ts, nil, true)
			if err != nil {
				panic(sn.Inconclusive{Why: "engine acceptance: cannot build a block: " + err.Error()})
			}
			if mutate != nil {
				mutate(b)
			}
			lastVerdict = nil
			perr := n.ProcBlock(b)
			return b, perr, n.Ledger.ExistBlock(b.Blockid)
		}
		// honest blocks of the configured miner extend the chain
		for i := 0; i < 2; i++ {
			b, perr, stored := deliver(minerKey, nil)
			r.Count("engine.blocks-delivered", 1)
			if perr != nil || !stored {
				r.Violation("engine|single|block-of-the-configured-miner-refused", fmt.Sprintf("block %x of the configured miner at height %d refused: %v", b.Blockid, height+1, perr), nil)
				n.Drop()
				return
			}
			height++
		}
		// (1) a correctly built and signed block of somebody else
		b, perr, stored := deliver(other, nil)
		r.Count("engine.blocks-delivered", 1)
		r.Case(fmt.Sprintf("engine|single|foreign-producer|round=%d", round), true)
		if lastVerdict != nil && !*lastVerdict {
			r.Count("engine.plugin-refusals-seen", 1)
		}
		if stored || perr == nil {
			r.Violation("engine|single|block-refused-by-the-plugin-confirmed",
				fmt.Sprintf("single chain with miner %s: the engine confirmed block %x (height %d) produced and signed by %s; the plugin's verdict was %v", minerKey.Address, b.Blockid, height+1, other.Address, verdictString(lastVerdict)),
				map[string]interface{}{"miner": minerKey.Address, "producer": other.Address})
			n.Drop()
			return
		}
		// (2) a block of the configured miner whose height field lies (id and signature do not cover it)
		for _, hf := range []int64{0, 1, height, height + 2, height + 100, -1} {
			if hf == height+1 {
				continue
			}
			hf := hf
			b, perr, stored := deliver(minerKey, func(b *pb.InternalBlock) { b.Height = hf })
			r.Count("engine.blocks-delivered", 1)
			r.Count("engine.height-field-probes", 1)
			r.Case(fmt.Sprintf("engine|height-field|%d-instead-of-parent+1", hf-(height+1)), true)
			if stored || perr == nil {
				sb, _ := n.Ledger.QueryBlockHeader(b.Blockid)
				got := int64(-999)
				if sb != nil {
					got = sb.Height
				}
				r.Violation("engine|height-field-not-parent+1-accepted",
					fmt.Sprintf("a received block on a parent of height %d whose height field says %d (neither block id nor signature cover the field, the consensus plugins choose validator set / target by it) was handed to the consensus with that height and confirmed (stored with height %d)", height, hf, got),
					map[string]interface{}{"parent_height": height, "height_field": hf})
				n.Drop()
				return
			}
		}
		// and the chain still grows
		if _, perr, stored := deliver(minerKey, nil); perr != nil || !stored {
			r.Violation("engine|single|block-of-the-configured-miner-refused", fmt.Sprintf("after the refused blocks the next honest block is refused: %v", perr), nil)
		}
		r.Count("engine.rounds", 1)
		n.Drop()
	}
	r.Floor("engine.rounds", 3)
	r.Floor("engine.plugin-refusals-seen", 3)
	r.Floor("engine.height-field-probes", 10)
}

func verdictString(v *bool) string {
	if v == nil {
		return "not asked"
	}
	return fmt.Sprintf("%v", *v)
}
