// C16: only the entitled producer's block is accepted (TDPoS / XPoA slot schedule, single, PoW).
package main

import (
	"fmt"
	"io/ioutil"
	"log"
	"os"
	"time"

	"verif/ev"
	sn "verif/simnode"
)

func main() {
	r := ev.Start("C16", "exploration",
		"(a) slot schedule of real tdpos / xpoa instances, every millisecond (both ns edges) of 3 complete terms, for the full box period{1,2,3,7} x block_num{1,2,3} x "+
			"proposer_num{1..4} x alternate{p,p+1,3p} x term{a,a+p,4a} x init{0,5ns,1ms} (tdpos), period x block_num x n{1..4} x base{0,now} (xpoa), the shipped configurations "+
			"and seeded random ones, audited by a relational tiling auditor (order, one run per slot, block_num adjacent slots per validator and term, start distances = "+
			"period / alternate / term interval, all +-1 ms); (b) CheckMinerMatch of the same instances (direct and behind PluggableConsensus) for every ms of the audited terms x "+
			"{each validator, an outsider, empty proposer} x both ns edges, plus a black-box run audit of what was accepted; xpoa also with a contract-edited validator set of "+
			"another size; (b2) elected validator sets: tdpos instances over generated nominate / vote records (ties inside the top K and across the cut, all-equal tables, revoked ballots, "+
			"revoked nominations, too few candidates, records of another version) on chains with the tip in terms 1..3: every stored record table gives the same verdict for the same "+
			"block on repeated calls and on fresh instances, the accepted producer per slot is the one an election model written from the records entitles (who wins among equal "+
			"ballots is not prescribed, only that it is a function of the records), and a failing snapshot read (each key of the election in turn, CreateSnapshot) never makes a "+
			"block accepted that the fault-free evaluation refuses; (b3) own-block path of tdpos (a node's own block never passes CheckMinerMatch): real instances, directly and behind "+
			"PluggableConsensus, for generated configurations / validator sets / local identities (each list position, a non-validator); CompeteMaster with 'now' placed inside a chosen slot of the node "+
			"(terms 1..4, first / last / any slot of its run), repeated like the miner loop until the node is the producer and on to the hand-over or the next term; before the first and after every call "+
			"ProcessBeforeMiner for every ms (both ns edges) of the terms 1..target+2: it may grant a timestamp only if the audited schedule entitles the node's own list position there, a block of the node "+
			"with that timestamp and the returned storage is accepted by CheckMinerMatch of the node and of another validator's instance, and the storage names the slot of the timestamp; the same question for xpoa instances (ProcessBeforeMiner before and after CompeteMaster said producer, every ms of 3 terms, "+
			"cross-checked with CheckMinerMatch of the node and of another validator); (c) single: proposer x public key x signature x id relation x timestamp matrix; (d) pow: IsProofed around every target word, CheckMinerMatch on stub "+
			"chains (default region, keep, adjust with spans at/around both clamps, after adjustment, hardest-target clamp; id at target / +-1, timestamp vs parent, wrong words, "+
			"bad signatures) against an independent Bitcoin-style rule, GetCompact / SetCompact for 256 exponents x boundary mantissas + random words / numbers against an "+
			"independent codec. A case = one configuration (a, b), one matrix cell (c), one chain scenario (d); non-trivial = more than one slot per term / both accept and refuse seen")
	defer sn.CleanupScratch()
	sn.InitLogs()
	log.SetOutput(ioutil.Discard) // the crypto library reports malformed keys through the std logger
	// watch-dog: a hang (of the harness or of the code under test) makes the run inconclusive
	go func() {
		time.Sleep(time.Duration(r.N(15, 90)) * time.Minute)
		r.Inconclusive("watch-dog: the run did not finish in time; parts after the last progress line on stderr were not executed")
		r.Finish()
	}()
	step := func(name string, f func()) {
		// development aid: VERIF_C16_ONLY=<part> runs one part (the floors of the others then make the run inconclusive)
		if only := os.Getenv("VERIF_C16_ONLY"); only != "" && only != name {
			return
		}
		t := time.Now()
		func() {
			defer func() {
				if p := recover(); p != nil {
					r.Inconclusive(fmt.Sprintf("part %s aborted by a harness panic: %v", name, p))
				}
			}()
			f()
		}()
		fmt.Fprintf(os.Stderr, "c16: %-10s %6.1fs  violations so far %d\n", name, time.Since(t).Seconds(), r.NumViolations())
	}
	step("tdpos", func() { runTdpos(r) })
	step("own-block", func() { runOwnBlock(r) })
	step("elections", func() { runElections(r) })
	step("xpoa", func() { runXpoa(r) })
	step("single", func() { runSingle(r) })
	step("isproofed", func() { runIsProofed(r) })
	step("pow", func() { runPowScenarios(r) })
	step("pow-forks", func() { runPowForks(r) })
	step("pluggable", func() { runPluggableRestarts(r) })
	step("compact", func() { runCompact(r) })
	step("engine", func() { runEngineAcceptance(r) })

	// every mechanism of the statement must have been reached
	r.Floor("tdpos.tiling.configs", 1296)
	r.Floor("tdpos.tiling.slots", 10000)
	r.Floor("tdpos.tiling.idle-ms", 1000)
	r.Floor("tdpos.accept.configs", 1000)
	r.Floor("tdpos.accept.accepted", 10000)
	r.Floor("tdpos.accept.refused.idle-gap", 1000)
	r.Floor("tdpos.accept.refused.other-validator", 10000)
	r.Floor("tdpos.accept.refused.outsider", 10000)
	r.Floor("tdpos.accept.via-pluggable-configs", 1000)
	r.Floor("tdpos.elected.configs", 500)
	r.Floor("tdpos.election.scenarios", 300)
	r.Floor("tdpos.election.scenarios|tie-inside-top-k", 30)
	r.Floor("tdpos.election.scenarios|tie-across-cut", 30)
	r.Floor("tdpos.election.scenarios|tie-inside-top-k-and-across-cut", 10)
	r.Floor("tdpos.election.scenarios|no-tie-in-reach-of-top-k", 30)
	r.Floor("tdpos.election.scenarios|fallback|too-few-candidates", 20)
	r.Floor("tdpos.election.scenarios|fallback|no-nominate-record", 10)
	r.Floor("tdpos.election.candidates|all-ballots-revoked", 50)
	r.Floor("tdpos.election.candidates|nomination-revoked-vote-record-left", 50)
	r.Floor("tdpos.election.accepted.elected-producer", 1000)
	r.Floor("tdpos.election.determinism.blocks-asked-5-times", 20000)
	r.Floor("tdpos.election.read-fault.hit|nominate-record", 200)
	r.Floor("tdpos.election.read-fault.hit|vote-record", 500)
	r.Floor("tdpos.election.read-fault.hit|create-snapshot", 200)
	r.Floor("tdpos.election.read-fault.entitled-refused-during-fault", 1000)
	r.Floor("tdpos.own-block.cases", 36)
	r.Floor("tdpos.own-block.cases|node-was-producer", 24)
	r.Floor("tdpos.own-block.cases|asked-again-after-the-hand-over", 6)
	r.Floor("tdpos.own-block.cases|asked-again-in-a-later-term", 4)
	r.Floor("tdpos.own-block.compete-master.said-producer", 30)
	r.Floor("tdpos.own-block.granted|own-slot|after-compete-master-said-producer", 2000)
	r.Floor("tdpos.own-block.refused|slot-of-another-producer-in-the-node's-term|after-compete-master-said-producer", 5000)
	r.Floor("tdpos.own-block.refused|nobody-entitled-in-the-node's-term", 200)
	r.Floor("tdpos.own-block.refused|own-slot-in-another-term", 5000)
	r.Floor("tdpos.own-block.cross-check.granted-block-accepted-by-peer-and-self", 2000)
	r.Floor("xpoa.own-block.cases", 8)
	r.Floor("xpoa.own-block.cases|node-was-producer", 6)
	r.Floor("xpoa.own-block.probes|own-slot", 1000)
	r.Floor("xpoa.own-block.probes|slot-of-another-validator", 2000)
	r.Floor("xpoa.tiling.configs", 96)
	r.Floor("xpoa.accept.configs|init", 90)
	r.Floor("xpoa.accept.configs|edited", 40)
	r.Floor("xpoa.accept.accepted", 2000)
	r.Floor("xpoa.accept.refused.other-validator", 2000)
	r.Floor("xpoa.accept.refused.outsider", 2000)
	r.Floor("single.accepted", 4)
	r.Floor("single.refused", 400)
	r.Floor("pow.isproofed.at-target.true", 50)
	r.Floor("pow.isproofed.target+1.false", 50)
	r.Floor("pow.retarget.agree|default", 10)
	r.Floor("pow.retarget.agree|keep", 10)
	r.Floor("pow.retarget.agree|adjust", 20)
	r.Floor("pow.retarget.agree|adjust-clamped-low", 10)
	r.Floor("pow.retarget.agree|adjust-clamped-high", 10)
	r.Floor("pow.restart.probes", 100)
	r.Floor("pow.accept.accepted", 100)
	r.Floor("pow.accept.refused|id-above-target", 30)
	r.Floor("pow.accept.refused|timestamp-1ns-before-parent", 30)
	r.Floor("compact.set.words", 100000)
	r.Floor("compact.get.numbers", 100000)
	r.Floor("compact.set.overflow", 100)
	r.Floor("compact.set.negative", 100)
	r.Exhaustive(false)
	r.Assume("timestamps before the configured tdpos init timestamp are outside the audited domain (the schedule is undefined there; see counter tdpos.observed.*)")
	r.Assume("validator sets are supplied by stub ledgers: initial list (tdpos, xpoa) and a contract-edited list read from a snapshot (xpoa), nominate / vote records served by the stub snapshot reader (tdpos elections; the records are generated in the form the $tdpos contract writes them, the contract calls themselves belong to C19); the records are the same at every height >= 1 of a scenario, so the oracle does not depend on which height's snapshot an election reads")
	r.Assume("the producing side of tdpos is driven on instances with the initial validator set only (part b3: CompeteMaster reads the wall clock, the configured initial timestamp places 'now' inside a chosen slot; no verdict depends on where it really landed); for elected sets the validator list a freshly created instance reports (GetCurrentValidatorsInfo) stands for it; Miner.mining as a whole (it broadcasts) is not run")
	r.Assume("xpoa's own-block path (part b3, 12 generated configurations, CompeteMaster repeated until the node is the producer): its ProcessBeforeMiner has no slot guard - the open finding schedule|xpoa|own-block-path-has-no-slot-guard; every other discrepancy of that path has its own signature")
	r.Assume("expectedPeriod of pow is in seconds (as in the shipped genesis files), block timestamps are whole seconds plus a common sub-second offset")
	r.Assume("numbers that have no compact word (size byte would exceed 255) are outside the domain of GetCompact")
	r.Assume("chained-bft justification checks of xpos / xpoa+bft blocks are C14's subject; the instances here run without bft_config")
	r.Finish()
}
