package main

// Workload generator: one call at a time, chosen with the model's current state in view so
// that boundary amounts (exactly available, available + 1 ...) and structurally interesting
// receivers (self, accounts holding locks, fresh accounts) are hit often.

import (
	"encoding/base64"
	"encoding/json"
	"fmt"
	"math/big"
	"math/rand"
	"sort"
	"strings"

	sn "verif/simnode"
)

type op struct {
	Kind string            // init transfer propose vote thaw do lock unlock rawlock rawunlock checkvote trigger nominate tvote revokevote revokenom query supply seal pack
	By   string            // initiator
	Via  string            // "" = the user transaction names the method itself; otherwise the forwarding kernel contract
	Args map[string]string // contract arguments
	Meta map[string]string // generator annotations
	Tag  string            // structural class, part of the shape
}

// auth lists the auth_require entries of the call: the initiator and, for a nomination
// that the candidate co-signs, the candidate.
func (o *op) auth() []string {
	if c := o.Meta["cosigner"]; c != "" && c != o.By {
		return []string{o.By, c}
	}
	return []string{o.By}
}

func (o *op) viaName() string {
	if o.Via == "" {
		return "user-transaction"
	}
	return "via-" + o.Via
}

func (o *op) String() string {
	var ks []string
	for k := range o.Args {
		ks = append(ks, k)
	}
	sort.Strings(ks)
	var as []string
	for _, k := range ks {
		v := o.Args[k]
		if i, ok := addrIndex[v]; ok {
			v = fmt.Sprintf("K%d", i)
		}
		if len(v) > 120 {
			v = v[:120] + ".."
		}
		as = append(as, k+"="+v)
	}
	via := ""
	if o.Via != "" {
		via = " via " + o.Via
	}
	return fmt.Sprintf("%s[%s](%s) by %s%s", o.Kind, o.Tag, strings.Join(as, ","), short(o.By), via)
}

// target maps an op to the kernel contract method it invokes.
func (o *op) target() (string, string) {
	switch o.Kind {
	case "init":
		return "$govern_token", "Init"
	case "transfer":
		return "$govern_token", "Transfer"
	case "lock":
		return "$govern_token", "Lock"
	case "unlock":
		return "$govern_token", "UnLock"
	case "query":
		return "$govern_token", "Query"
	case "supply":
		return "$govern_token", "TotalSupply"
	case "propose":
		return "$proposal", "Propose"
	case "vote":
		return "$proposal", "Vote"
	case "thaw":
		return "$proposal", "Thaw"
	case "checkvote":
		return "$proposal", "CheckVoteResult"
	case "trigger":
		return "$proposal", "Trigger"
	case "do":
		return "$timer_task", "Do"
	case "nominate":
		return "$tdpos", "nominateCandidate"
	case "tvote":
		return "$tdpos", "voteCandidate"
	case "revokevote":
		return "$tdpos", "revokeVote"
	case "revokenom":
		return "$tdpos", "revokeNominate"
	case "rawlock":
		return "$govern_token", "Lock"
	case "rawunlock":
		return "$govern_token", "UnLock"
	}
	return "", ""
}

var (
	mainAddrs  []string // the 4 accounts of the statement (genesis quota)
	freshAddrs []string // identities without genesis quota (have keys)
	namedFresh = []string{"fresh-account-a", "fresh-account-b", "XC1111111111111111@xuper", "b"}
	addrIndex  = map[string]int{}
)

func initAddrs() {
	for i := 0; i < sn.NumKeys; i++ {
		addrIndex[sn.K(i).Address] = i
	}
	for i := 0; i < 4; i++ {
		mainAddrs = append(mainAddrs, sn.K(i).Address)
	}
	for i := 4; i < 6; i++ {
		freshAddrs = append(freshAddrs, sn.K(i).Address)
	}
}

type genCtx struct {
	rng    *rand.Rand
	m      *model
	e2e    bool
	height int64 // FAST: number of sealed snapshots - 1 (tip height); E2E: ledger tip height
	pool   int   // E2E: transactions waiting for a block
	// profile of the sequence: 0 mixed, 1 proposal heavy, 2 tdpos heavy, 3 transfer heavy, 4 raw lock primitive
	profile int
}

func pickProfile(rng *rand.Rand) int {
	switch x := rng.Intn(100); {
	case x < 40:
		return 0
	case x < 60:
		return 1
	case x < 80:
		return 2
	case x < 90:
		return 3
	default:
		return 4
	}
}

func (g *genCtx) pick(xs []string) string { return xs[g.rng.Intn(len(xs))] }

func (g *genCtx) initiator() string {
	if g.rng.Intn(100) < 85 {
		return g.pick(mainAddrs)
	}
	return g.pick(freshAddrs)
}

// holders returns the accounts that currently hold a lock.
func (g *genCtx) holders() []string {
	var hs []string
	for a := range g.m.accts {
		if g.m.holdsLock(a) {
			hs = append(hs, a)
		}
	}
	sort.Strings(hs)
	return hs
}

var nonNumeric = []string{"abc", "", "1e3", "0x10", " 5", "5 ", "1_0", "1.5", "--1", "٣"}

// amount picks an amount string around a boundary value (what is exactly available).
func (g *genCtx) amount(avail, bal *big.Int) (string, string) {
	one := big.NewInt(1)
	if avail == nil {
		avail, bal = big.NewInt(0), big.NewInt(0)
	}
	x := g.rng.Intn(100)
	switch {
	case x < 30:
		return fmt.Sprint(1 + g.rng.Intn(60)), "small"
	case x < 42:
		return avail.String(), "exact"
	case x < 54:
		return new(big.Int).Add(avail, one).String(), "avail+1"
	case x < 58:
		return new(big.Int).Sub(avail, one).String(), "avail-1"
	case x < 62:
		return bal.String(), "balance"
	case x < 65:
		return new(big.Int).Add(bal, one).String(), "balance+1"
	case x < 72:
		return "0", "zero"
	case x < 80:
		return new(big.Int).Div(avail, big.NewInt(int64(2+g.rng.Intn(3)))).String(), "part"
	case x < 84:
		return fmt.Sprint(-1 - g.rng.Intn(20)), "negative"
	case x < 89:
		return g.pick(nonNumeric), "nonnumeric"
	case x < 91:
		return "+7", "plus"
	case x < 93:
		return "007", "leadingzero"
	case x < 95:
		return "9223372036854775808", "2^63"
	case x < 97:
		return "18446744073709551616", "2^64"
	default:
		return "10000000000000000000000000000000000000000", "huge"
	}
}

func (g *genCtx) propIDs() []string {
	ids := sortedIDs(g.m.props)
	return ids
}

// proposalJSON renders a proposal; stop / trig are decimal strings / numbers.
func proposalJSON(minPct, stop string, trig int64, trigKind int) string {
	trigger := map[string]interface{}{"height": trig, "module": "xkernel"}
	switch trigKind {
	case 0: // harmless harness contract: writes one key
		trigger["contract"] = sn.VerifContract
		trigger["method"] = "timer"
		trigger["args"] = map[string]interface{}{"prog": (&sn.ProgBuilder{}).Put("vb0", []byte("trig"), []byte("1")).String()}
	case 1: // a contract that does not exist: the trigger fails
		trigger["contract"] = "$nosuch"
		trigger["method"] = "run"
		trigger["args"] = map[string]interface{}{}
	case 2: // tries to reach the token contract with the proposal contract as the caller
		trigger["contract"] = "$govern_token"
		trigger["method"] = "UnLock"
		trigger["args"] = map[string]interface{}{"from": mainAddrs[0], "amount": "1", "lock_type": "ordinary"}
	}
	p := map[string]interface{}{
		"args":    map[string]interface{}{"min_vote_percent": minPct, "stop_vote_height": stop},
		"trigger": trigger,
	}
	b, _ := json.Marshal(p)
	return string(b)
}

func timerArgsJSON(id string) string {
	b, _ := json.Marshal(map[string]interface{}{"proposal_id": base64.StdEncoding.EncodeToString([]byte(id))})
	return string(b)
}

// heightArg picks the `height` argument of a tdpos call.
func (g *genCtx) heightArg() (string, string) {
	h := g.height
	x := g.rng.Intn(100)
	switch {
	case x < 55:
		return fmt.Sprint(h), "tip"
	case x < 65:
		return fmt.Sprint(h - 1), "tip-1"
	case x < 88:
		if h >= 2 {
			return fmt.Sprint(2 + g.rng.Int63n(h-1)), "old"
		}
		return fmt.Sprint(h), "tip"
	case x < 92:
		return fmt.Sprint(h + 1), "tip+1"
	case x < 96:
		return "1", "start"
	default:
		return "x", "garbage"
	}
}

// next generates the next call.
func (g *genCtx) next() *op {
	m := g.m
	r := g.rng
	if !m.inited {
		x := r.Intn(100)
		if x < 70 {
			by := g.initiator()
			tag := "genesis-account"
			if _, ok := m.quota[by]; !ok {
				tag = "non-genesis-account"
			}
			return &op{Kind: "init", By: by, Tag: tag}
		}
	} else if r.Intn(100) < 3 {
		by := g.initiator()
		tag := "second"
		if _, ok := m.quota[by]; !ok {
			tag = "second-non-genesis"
		}
		return &op{Kind: "init", By: by, Tag: tag}
	}
	type choice struct {
		w int
		f func() *op
	}
	// the sequence's profile shifts the mix so that deep scenarios (nominate - block - vote -
	// block - revoke; propose - votes - tally - trigger) are reached within 60 calls
	tx, pr, td, bl := 30, 10, 6, 10
	switch g.profile {
	case 1: // proposal heavy
		tx, pr, td, bl = 18, 22, 2, 10
	case 2: // tdpos heavy
		tx, pr, td, bl = 16, 3, 18, 22
	case 3: // transfer heavy
		tx, pr, td, bl = 50, 6, 4, 8
	case 4: // the lock primitive itself, called by a TDPoS-named kernel contract with all amounts
		tx, pr, td, bl = 20, 8, 5, 8
	}
	cs := []choice{
		{tx, g.genTransfer},
		{pr * 9 / 10, g.genPropose},
		{pr, g.genVote},
		{pr * 4 / 10, g.genThaw},
		{6, g.genDirectLock},
		{2, g.genDirectTally},
		{td, g.genNominate},
		{td, g.genTVote},
		{td, g.genRevokeVote},
		{td * 5 / 6, g.genRevokeNom},
		{3, g.genQuery},
	}
	if g.profile == 4 {
		cs = append(cs, choice{30, g.genRawLock})
	}
	if g.e2e {
		cs = append(cs, choice{bl * 12 / 10, func() *op { return &op{Kind: "pack", Tag: fmt.Sprint(1 + r.Intn(2))} }})
	} else {
		cs = append(cs, choice{pr * 8 / 10, g.genDo}, choice{bl, func() *op { return &op{Kind: "seal"} }})
	}
	tot := 0
	for _, c := range cs {
		tot += c.w
	}
	x := r.Intn(tot)
	for _, c := range cs {
		if x < c.w {
			return c.f()
		}
		x -= c.w
	}
	return g.genTransfer()
}

func (g *genCtx) genTransfer() *op {
	r := g.rng
	by := g.initiator()
	var to, tag string
	hs := g.holders()
	others := func(xs []string) string {
		for {
			if a := g.pick(xs); a != by {
				return a
			}
		}
	}
	x := r.Intn(100)
	switch {
	case x < 4:
		to, tag = by, "self"
	case x < 26 && len(hs) > 0 && !(len(hs) == 1 && hs[0] == by):
		to, tag = others(hs), "to-lock-holder"
	case x < 72:
		to, tag = others(mainAddrs), "to-other"
	case x < 84:
		to, tag = others(freshAddrs), "to-fresh-key"
	case x < 92:
		to, tag = g.pick(namedFresh), "to-fresh-name"
	case x < 96:
		// a DIFFERENT account whose name differs from an existing one only by decoration
		// (whitespace, NUL, letter case): names are byte strings, so these are accounts of their own
		base := by
		if r.Intn(2) == 0 {
			base = g.pick(mainAddrs)
		}
		deco := []func(string) string{
			func(a string) string { return a + "\n" }, func(a string) string { return " " + a }, func(a string) string { return a + " " },
			func(a string) string { return a + "\x00" }, func(a string) string { return "\t" + a + "\r\n" }, strings.ToUpper, strings.ToLower,
		}
		to, tag = deco[r.Intn(len(deco))](base), "to-decorated-name"
		if to == base {
			to += " "
		}
	default:
		to, tag = "", "to-empty-name"
	}
	if tag != "self" && g.m.holdsLock(to) {
		tag = "to-lock-holder"
	}
	var avail, bal *big.Int
	if a := g.m.acct(by); a != nil {
		avail, bal = a.avail(), a.bal
		if a.maxLocked().Sign() > 0 {
			tag += "+sender-locked"
		}
	}
	amt, atag := g.amount(avail, bal)
	o := &op{Kind: "transfer", By: by, Args: map[string]string{"to": to, "amount": amt}, Tag: tag + ":" + atag}
	if r.Intn(100) < 6 {
		o.Via = proxyName // a kernel contract forwards the call: the sender stays the initiator
		o.Tag += ":proxied"
	}
	if r.Intn(100) < 2 {
		delete(o.Args, "to")
		o.Tag = "no-receiver"
	}
	if r.Intn(100) < 5 {
		// an argument the method has no business reading: the sender is the initiator
		o.Args["from"] = others(mainAddrs)
		o.Tag += ":with-from-arg"
	}
	return o
}

func (g *genCtx) genPropose() *op {
	r := g.rng
	by := g.initiator()
	pct := "51"
	switch x := r.Intn(100); {
	case x < 55:
		pct = "51"
	case x < 75:
		pct = fmt.Sprint(52 + r.Intn(49))
	case x < 85:
		pct = "100"
	case x < 90:
		pct = "50"
	case x < 95:
		pct = "101"
	default:
		pct = "abc"
	}
	var stop int64
	tag := "stop-ahead"
	past := false
	if g.e2e {
		// the block at height tip+1 may already be under construction: stay clear of it
		stop = g.height + 2 + r.Int63n(5)
		if r.Intn(100) < 15 {
			stop = 1 + r.Int63n(g.height) // strictly below the next block's height
			tag = "stop-in-the-past"
			past = true
		}
	} else {
		stop = 2 + r.Int63n(10)
	}
	trig := int64(0)
	switch x := r.Intn(100); {
	case x < 60:
		trig = stop + 1 + r.Int63n(3)
	case x < 85:
		trig = 0
		tag += "+no-trigger-height"
	default:
		trig = stop - r.Int63n(2)
		tag += "+trigger-not-after-stop"
	}
	if g.e2e && past && trig > 0 && trig <= g.height+2 {
		trig = 0
	}
	tk := r.Intn(3)
	if a := g.m.acct(by); a == nil {
		tag += "+no-balance"
	} else if new(big.Int).Sub(a.bal, a.locked[ltOrdinary]).Cmp(big.NewInt(1000)) < 0 {
		tag += "+poor"
	}
	o := &op{Kind: "propose", By: by, Args: map[string]string{"proposal": proposalJSON(pct, fmt.Sprint(stop), trig, tk)},
		Meta: map[string]string{"stop": fmt.Sprint(stop), "trig": fmt.Sprint(trig)}, Tag: fmt.Sprintf("%s:pct%s:trig%d", tag, pct, tk)}
	if r.Intn(100) < 3 {
		// a proposal document that is well-formed JSON but not a well-formed proposal: must be
		// refused like any other bad argument
		var doc map[string]interface{}
		json.Unmarshal([]byte(o.Args["proposal"]), &doc)
		class := ""
		switch r.Intn(4) {
		case 0:
			delete(doc, "trigger")
			class = "no-trigger"
			o.Meta["trig"] = "0"
		case 1:
			doc["args"].(map[string]interface{})["min_vote_percent"] = 51
			class = "numeric-min-vote-percent"
		case 2:
			delete(doc["args"].(map[string]interface{}), "stop_vote_height")
			class = "no-stop-vote-height"
		case 3:
			delete(doc, "args")
			class = "no-args"
		}
		b, _ := json.Marshal(doc)
		o.Args["proposal"] = string(b)
		// two structural classes: the trigger is missing / one of the two vote arguments is
		// missing or not a string
		o.Meta["malformed"] = "vote-argument-missing-or-not-a-string"
		if class == "no-trigger" {
			o.Meta["malformed"] = "proposal-without-trigger"
		}
		o.Tag = "malformed:" + class
	}
	return o
}

func (g *genCtx) pickProp() (string, string) {
	ids := g.propIDs()
	x := g.rng.Intn(100)
	switch {
	case len(ids) == 0 || x < 8:
		return fmt.Sprint(1 + g.rng.Intn(5)), "id-guess"
	case x < 12:
		return "0" + ids[0], "id-leading-zero"
	default:
		id := g.pick(ids)
		return id, "id-" + g.m.props[id].status
	}
}

func (g *genCtx) genVote() *op {
	by := g.initiator()
	id, tag := g.pickProp()
	var avail, bal *big.Int
	if a := g.m.acct(by); a != nil {
		avail, bal = new(big.Int).Sub(a.bal, a.locked[ltOrdinary]), a.bal
	}
	amt, atag := g.amount(avail, bal)
	if g.m.inited && g.rng.Intn(100) < 25 && avail != nil {
		// enough to carry the proposal, if the voter can afford it
		need := new(big.Int).Mul(g.m.supply, big.NewInt(51))
		need.Div(need, big.NewInt(100))
		need.Add(need, big.NewInt(1))
		if avail.Cmp(need) >= 0 {
			amt, atag = need.String(), "majority"
		}
	}
	return &op{Kind: "vote", By: by, Args: map[string]string{"proposal_id": id, "amount": amt}, Tag: tag + ":" + atag}
}

func (g *genCtx) genThaw() *op {
	id, tag := g.pickProp()
	by := g.initiator()
	if p := g.m.props[id]; p != nil && g.rng.Intn(100) < 75 {
		by = p.proposer
		tag += ":by-proposer"
		if p.votes.Sign() > 0 {
			tag += "+voted"
		}
	}
	return &op{Kind: "thaw", By: by, Args: map[string]string{"proposal_id": id}, Tag: tag}
}

// the forwarding kernel contracts registered by the harness (none of them is the proposal
// or a TDPoS contract; two have look-alike names)
const proxyName = "$c19proxy"

var proxyNames = []string{proxyName, "$proposal2", "$Proposal", "$tdpos_"}

func (g *genCtx) genDirectLock() *op {
	r := g.rng
	by := g.initiator()
	kind := "lock"
	if r.Intn(2) == 0 {
		kind = "unlock"
	}
	target := by
	if r.Intn(100) < 50 {
		target = g.pick(mainAddrs)
	}
	if hs := g.holders(); len(hs) > 0 && kind == "unlock" && r.Intn(100) < 70 {
		target = g.pick(hs)
	}
	lt := g.pick([]string{ltOrdinary, ltTdpos, ltOrdinary, ltTdpos, "other"})
	amt, atag := g.amount(big.NewInt(int64(r.Intn(2000))), big.NewInt(5000))
	o := &op{Kind: kind, By: by, Args: map[string]string{"from": target, "amount": amt, "lock_type": lt}, Tag: lt + ":" + atag}
	if r.Intn(100) < 60 {
		o.Via = g.pick(proxyNames)
	}
	o.Tag += ":" + o.viaName()
	return o
}

func (g *genCtx) genDirectTally() *op {
	id, tag := g.pickProp()
	kind := "checkvote"
	if g.rng.Intn(2) == 0 {
		kind = "trigger"
	}
	o := &op{Kind: kind, By: g.initiator(), Args: map[string]string{"args": timerArgsJSON(id)}, Tag: tag}
	if g.rng.Intn(100) < 50 {
		o.Via = g.pick(proxyNames)
	}
	o.Tag += ":" + o.viaName()
	return o
}

func (g *genCtx) genDo() *op {
	r := g.rng
	var hs []string
	for _, id := range g.propIDs() {
		p := g.m.props[id]
		if p.status == "voting" && p.stop != "" {
			hs = append(hs, p.stop)
		}
		if p.status == "passed" && p.trig > 0 {
			hs = append(hs, fmt.Sprint(p.trig))
		}
	}
	h, tag := fmt.Sprint(2+r.Intn(14)), "random-height"
	if len(hs) > 0 && r.Intn(100) < 80 {
		h, tag = g.pick(hs), "due-height"
	}
	return &op{Kind: "do", By: g.initiator(), Args: map[string]string{"block_height": h}, Tag: tag}
}

func (g *genCtx) tdposAmount(by string) (string, string) {
	var avail, bal *big.Int
	if a := g.m.acct(by); a != nil {
		avail, bal = new(big.Int).Sub(a.bal, a.locked[ltTdpos]), a.bal
	}
	return g.amount(avail, bal)
}

func (g *genCtx) genNominate() *op {
	by := g.initiator()
	cand, tag := by, "self-candidate"
	meta := map[string]string{}
	switch x := g.rng.Intn(100); {
	case x < 10:
		cand, tag = g.pick(mainAddrs), "other-candidate"
	case x < 35:
		// somebody else is nominated and co-signs the transaction
		cand, tag = g.pick(mainAddrs), "cosigned-candidate"
		meta["cosigner"] = cand
		if cand == by {
			tag = "self-candidate"
		}
	}
	amt, atag := g.tdposAmount(by)
	h, htag := g.heightArg()
	return &op{Kind: "nominate", By: by, Args: map[string]string{"candidate": cand, "amount": amt, "height": h}, Meta: meta, Tag: tag + ":" + atag + ":" + htag}
}

func (g *genCtx) candidates() []string {
	seen := map[string]bool{}
	var cs []string
	for _, n := range g.m.noms {
		if !seen[n.cand] {
			seen[n.cand] = true
			cs = append(cs, n.cand)
		}
	}
	sort.Strings(cs)
	return cs
}

func (g *genCtx) genTVote() *op {
	by := g.initiator()
	cand, tag := g.pick(mainAddrs), "guess"
	if cs := g.candidates(); len(cs) > 0 && g.rng.Intn(100) < 85 {
		cand, tag = g.pick(cs), "nominated"
	}
	amt, atag := g.tdposAmount(by)
	h, htag := g.heightArg()
	return &op{Kind: "tvote", By: by, Args: map[string]string{"candidate": cand, "amount": amt, "height": h}, Tag: tag + ":" + atag + ":" + htag}
}

func (g *genCtx) genRevokeVote() *op {
	r := g.rng
	by := g.initiator()
	cand, tag := g.pick(mainAddrs), "guess"
	amt := fmt.Sprint(1 + r.Intn(50))
	atag := "small"
	// prefer a vote that exists (or existed)
	var pairs [][2]string
	for c, vs := range g.m.tvotes {
		for v := range vs {
			pairs = append(pairs, [2]string{c, v})
		}
	}
	sort.Slice(pairs, func(i, j int) bool { return pairs[i][0]+pairs[i][1] < pairs[j][0]+pairs[j][1] })
	if len(pairs) > 0 && r.Intn(100) < 85 {
		p := pairs[r.Intn(len(pairs))]
		cand, by, tag = p[0], p[1], "voted"
		have := g.m.tvotes[cand][by]
		switch x := r.Intn(100); {
		case x < 45 && have > 0:
			amt, atag = fmt.Sprint(have), "all"
		case x < 60:
			amt, atag = fmt.Sprint(have+1), "all+1"
		case x < 80 && have > 1:
			amt, atag = fmt.Sprint(1+r.Int63n(have)), "part"
		case x < 85:
			amt, atag = "0", "zero"
		case x < 90:
			amt, atag = "-3", "negative"
		case x < 93:
			amt, atag = "abc", "nonnumeric"
		}
		if have == 0 {
			tag = "voted-and-revoked"
		}
	}
	h, htag := g.heightArg()
	return &op{Kind: "revokevote", By: by, Args: map[string]string{"candidate": cand, "amount": amt, "height": h}, Tag: tag + ":" + atag + ":" + htag}
}

func (g *genCtx) genRevokeNom() *op {
	r := g.rng
	by := g.initiator()
	cand, tag := by, "guess"
	if len(g.m.noms) > 0 && r.Intn(100) < 88 {
		n := g.m.noms[r.Intn(len(g.m.noms))]
		cand, by = n.cand, n.by
		tag = "nominated"
		if !n.active {
			tag = "already-revoked"
		}
		if r.Intn(100) < 10 {
			by = g.initiator()
			tag += "+maybe-foreign"
		}
	}
	h, htag := g.heightArg()
	return &op{Kind: "revokenom", By: by, Args: map[string]string{"candidate": cand, "height": h}, Tag: tag + ":" + htag}
}

func (g *genCtx) genQuery() *op {
	if g.rng.Intn(4) == 0 {
		return &op{Kind: "supply", By: g.initiator()}
	}
	a := g.pick(append(append([]string{}, mainAddrs...), freshAddrs...))
	return &op{Kind: "query", By: g.initiator(), Args: map[string]string{"account": a}}
}

// rawCaller is a forwarding kernel contract registered under a name Lock / UnLock accept:
// "$xpos" is what the TDPoS kernel contract is called when chained-BFT is enabled (no such
// instance exists on the harness nodes). Through it the lock primitive is exercised the
// way the statement quantifies it: lock / unlock operations with all amounts.
const rawCaller = "$xpos"

func (g *genCtx) genRawLock() *op {
	r := g.rng
	kind := "rawlock"
	if r.Intn(100) < 50 {
		kind = "rawunlock"
	}
	target := g.pick(mainAddrs)
	if x := r.Intn(100); x < 10 {
		target = g.pick(freshAddrs)
	} else if x < 14 {
		target = g.pick(namedFresh)
	}
	if hs := g.holders(); len(hs) > 0 && kind == "rawunlock" && r.Intn(100) < 60 {
		target = g.pick(hs)
	}
	lt := g.pick([]string{ltOrdinary, ltTdpos})
	if r.Intn(100) < 5 {
		lt = "other"
	}
	var avail, bal *big.Int
	if a := g.m.acct(target); a != nil && a.locked[lt] != nil {
		if kind == "rawlock" {
			avail, bal = new(big.Int).Sub(a.bal, a.locked[lt]), a.bal
		} else {
			avail, bal = new(big.Int).Set(a.locked[lt]), a.bal // "available" to unlock = what is locked
		}
	}
	amt, atag := g.amount(avail, bal)
	return &op{Kind: kind, By: g.initiator(), Via: rawCaller, Args: map[string]string{"from": target, "amount": amt, "lock_type": lt},
		Tag: lt + ":" + atag}
}
