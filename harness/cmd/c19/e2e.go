package main

// END-TO-END driving mode: every call is a signed transaction built the way a client does
// (pre-execute on the producer, assemble, sign, VerifyTx, DoTx), packed into blocks by the
// transcribed miner (real GetTimerTx -> timer transaction, FormatMinerBlock, ConfirmBlock,
// PlayForMiner) and replayed by a replica that never saw the pool (ConfirmBlock + Walk, which
// re-executes every contract transaction). Caller identity, the caller restriction on
// Lock / UnLock and the fate of refused transactions are the real ones here.

import (
	"bytes"
	"fmt"
	"math/rand"
	"runtime/debug"
	"sort"
	"strings"

	pb "github.com/xuperchain/xupercore/bcs/ledger/xledger/xldgpb"
	"github.com/xuperchain/xupercore/protos"

	"verif/ev"
	sn "verif/simnode"
)

var scanEnd = []byte{0xff, 0xff, 0xff, 0xff}

// readBucket reads a whole bucket from the node's live state (confirmed + pool).
func readBucket(n *sn.Node, bucket string) (map[string][]byte, error) {
	it, err := n.State.CreateXMReader().Select(bucket, []byte(""), scanEnd)
	if err != nil {
		return nil, err
	}
	defer it.Close()
	out := map[string][]byte{}
	for it.Next() {
		v := it.Value().GetPureData().GetValue()
		if len(v) == 1 && v[0] == 0 { // delete mark
			continue
		}
		out[string(it.Key())] = append([]byte(nil), v...)
	}
	return out, it.Error()
}

type heldTx struct {
	o  *op
	tx *pb.Transaction
}

type e2eRun struct {
	r         *ev.Run
	idx       int
	prod, rep *env
	m         *model
	st        *stats
	lg        *seqLog
	ts        int64
	nonce     int
	pool      int
	held      *heldTx
	bad       bool
}

func (x *e2eRun) witness() map[string]interface{} {
	return map[string]interface{}{"mode": "e2e", "sequence": x.idx, "seed": x.r.Seed, "calls": x.lg.lines}
}

func (x *e2eRun) violation(sig, detail string, extra map[string]interface{}) {
	w := x.witness()
	for k, v := range extra {
		w[k] = v
	}
	w["producer_log_tail"] = x.prod.n.Log.Tail(8)
	x.st.count("violations.e2e."+sig, 1)
	x.r.Violation(sig, detail+"\ncalls:\n"+strings.Join(x.lg.lines, "\n"), w)
	x.bad = true
}

// preexec pre-executes the call as its initiator; returns the unsigned material or a refusal.
func (x *e2eRun) preexec(o *op, as string) (*sn.PreExecResult, *outcome) {
	out := &outcome{}
	auth := o.auth()
	if as != o.By {
		auth = []string{as}
	}
	res, err := x.prod.n.PreExec([]*protos.InvokeRequest{request(o)}, as, auth)
	if err != nil {
		out.err, out.stage = err.Error(), "preexec"
		return nil, out
	}
	for _, rsp := range res.Responses {
		out.status, out.body = rsp.Status, rsp.Body
		if rsp.Status >= 400 {
			out.err, out.stage = fmt.Sprintf("status %d: %s", rsp.Status, rsp.Message), "preexec"
			return nil, out
		}
	}
	return res, out
}

func (x *e2eRun) build(o *op, res *sn.PreExecResult) (*pb.Transaction, error) {
	var signers []*sn.Key
	for _, a := range o.auth() {
		signers = append(signers, sn.KeyByAddr(a))
	}
	x.nonce++
	x.ts++
	return sn.BuildTx(sn.TxSpec{Initiator: o.By, Signers: signers, InExt: res.Inputs, OutExt: res.Outputs,
		Requests: res.Requests, Nonce: fmt.Sprintf("c19-%d-%d", x.idx, x.nonce), Timestamp: x.ts})
}

// admit hands a transaction to the producer: VerifyTx then DoTx.
func (x *e2eRun) admit(tx *pb.Transaction, out *outcome) {
	ok, err := x.prod.n.State.VerifyTx(tx)
	if !ok || err != nil {
		out.ok, out.err, out.stage = false, fmt.Sprint(err), "verify"
		return
	}
	if err := x.prod.n.State.DoTx(tx); err != nil {
		out.ok, out.err, out.stage = false, err.Error(), "dotx"
		return
	}
	out.ok = true
	x.pool++
	x.st.count("e2e.tx.admitted", 1)
}

// audit reads the producer's live bucket back and steps the model.
func (x *e2eRun) audit(o *op, out *outcome, psBefore propStatus) {
	gb, err := readBucket(x.prod.n, "governToken")
	if err != nil {
		x.r.Inconclusive("cannot read governToken bucket: " + err.Error())
		x.bad = true
		return
	}
	pbk, _ := readBucket(x.prod.n, "proposal")
	after := parseView(gb)
	countOp(x.st, o, out, x.m)
	before := acctsString(x.m.accts)
	probs := x.m.step(o, out, after, psBefore, propStatuses(pbk), x.st)
	x.r.Evals(1)
	for _, p := range probs {
		x.violation(p.sig, p.detail, map[string]interface{}{"model_before": before, "bucket_after": after.String()})
	}
}

func (x *e2eRun) statuses() propStatus {
	b, _ := readBucket(x.prod.n, "proposal")
	return propStatuses(b)
}

// submit performs one call end to end.
func (x *e2eRun) submit(o *op) {
	psBefore := x.statuses()
	if o.Kind == "query" || o.Kind == "supply" {
		// read-only: answered by the pre-execution
		_, out := x.preexec(o, o.By)
		out.ok = out.err == ""
		x.lg.add(o, out)
		x.audit(o, out, psBefore)
		return
	}
	forger := o.Meta["forged-by"]
	as := o.By
	if forger != "" {
		// the write set is computed for the victim; the thief puts its own name and signature on it
		as = o.Meta["victim"]
	}
	res, out := x.preexec(o, as)
	if res == nil {
		x.lg.add(o, out)
		x.audit(o, out, psBefore)
		return
	}
	tx, err := x.build(o, res)
	if err != nil {
		x.r.Inconclusive("cannot build transaction: " + err.Error())
		x.bad = true
		return
	}
	if o.Meta["hold"] != "" && x.held == nil {
		x.held = &heldTx{o: o, tx: tx}
		x.lg.lines = append(x.lg.lines, fmt.Sprintf("%d: (pre-executed and signed, submitted later) %s", len(x.lg.lines), o))
		x.st.count("e2e.held", 1)
		return
	}
	x.admit(tx, out)
	x.lg.add(o, out)
	if forger != "" {
		x.st.count("e2e.forged.submitted", 1)
		if out.ok {
			x.violation("govtoken|e2e|transaction-carrying-another-initiators-write-set-admitted",
				fmt.Sprintf("write set pre-executed for %s, transaction initiated and signed by %s was admitted", short(as), short(o.By)), nil)
			return
		}
	}
	x.audit(o, out, psBefore)
}

// submitHeld sends the transaction that was signed before the previous call.
func (x *e2eRun) submitHeld() {
	h := x.held
	x.held = nil
	psBefore := x.statuses()
	out := &outcome{}
	x.admit(h.tx, out)
	h.o.Tag += ":delayed"
	x.lg.add(h.o, out)
	if out.ok {
		x.st.count("e2e.held.admitted", 1)
	} else {
		x.st.count("e2e.held.refused", 1)
	}
	x.audit(h.o, out, psBefore)
}

func (x *e2eRun) timerDue(h int64) bool {
	b, _ := readBucket(x.prod.n, "timer")
	pre := fmt.Sprintf("%d_", h)
	for k := range b {
		if strings.HasPrefix(k, pre) {
			return true
		}
	}
	return false
}

func bucketsEqual(a, b map[string][]byte) []string {
	var d []string
	for k, v := range a {
		if w, ok := b[k]; !ok {
			d = append(d, k+" missing on replica")
		} else if !bytes.Equal(v, w) {
			d = append(d, fmt.Sprintf("%s: producer %s replica %s", k, v, w))
		}
	}
	for k := range b {
		if _, ok := a[k]; !ok {
			d = append(d, k+" only on replica")
		}
	}
	sort.Strings(d)
	return d
}

// packOne produces one block from the pool, applies it on the producer and replays it on
// the replica.
func (x *e2eRun) packOne() {
	if x.bad {
		return
	}
	n := x.prod.n
	h := n.LedgerHeight() + 1
	psBefore := x.statuses()
	x.ts++
	b, err := n.PackBlock(sn.K(0), x.ts)
	if err != nil {
		x.violation("govtoken|e2e|producer-cannot-pack-block", err.Error(), nil)
		return
	}
	hasTimer := false
	for _, t := range b.Transactions {
		if t.Autogen {
			hasTimer = true
		}
	}
	b = sn.WireBlock(b)
	if err := n.ConfirmForMiner(b); err != nil {
		x.violation("govtoken|e2e|producer-refuses-own-block", fmt.Sprintf("height %d: %v", h, err), nil)
		return
	}
	packed := len(b.Transactions) - 1
	if hasTimer {
		packed--
		x.st.count("e2e.blocks.with-timer-tx", 1)
		if x.pool > 0 {
			x.st.count("e2e.blocks.timer-and-pool", 1)
		}
	}
	x.pool -= packed
	x.st.count("e2e.blocks", 1)
	x.lg.lines = append(x.lg.lines, fmt.Sprintf("%d: block %d (%d pool txs, timer tx: %v)", len(x.lg.lines), h, packed, hasTimer))
	x.lg.shape = append(x.lg.shape, fmt.Sprintf("block(%d,%v)", packed, hasTimer))
	// the timer transaction is a call of $timer_task.Do(height)
	do := &op{Kind: "do", By: "", Args: map[string]string{"block_height": fmt.Sprint(h)}, Tag: "block-timer"}
	x.audit(do, &outcome{ok: true}, psBefore)
	if x.bad {
		return
	}
	// replica
	rn := x.rep.n
	if st := rn.Confirm(b); !st.Succ {
		x.violation("govtoken|e2e|replica-refuses-block|confirm", fmt.Sprintf("height %d: %v %v", h, st.Error, rn.Log.Tail(5)), nil)
		return
	}
	if err := rn.Walk(b.Blockid, false); err != nil {
		x.violation("govtoken|e2e|replica-refuses-block|walk", fmt.Sprintf("height %d: %v %v", h, err, rn.Log.Tail(5)), nil)
		return
	}
	pg, _ := readBucket(n, "governToken")
	rg, err := readBucket(rn, "governToken")
	if err != nil {
		x.r.Inconclusive("cannot read replica bucket: " + err.Error())
		x.bad = true
		return
	}
	if d := bucketsEqual(pg, rg); len(d) > 0 {
		x.violation("govtoken|e2e|replica-bucket-differs-from-producer", strings.Join(d, "; "), nil)
		return
	}
	if ds := diffAccts(x.m.accts, parseView(rg).accts); len(ds) > 0 {
		x.violation("govtoken|e2e|replica-bucket-differs-from-model", diffString(ds), nil)
		return
	}
	x.st.count("e2e.replica.compared", 1)
	// the manager's own read path (snapshot at the tip)
	for a, acc := range x.m.accts {
		gbal, err := n.State.QueryAccountGovernTokenBalance(a)
		if err != nil {
			x.violation("govtoken|e2e|manager-balance-query-failed", fmt.Sprintf("%s: %v", short(a), err), nil)
			return
		}
		if gbal.TotalBalance != acc.bal.String() {
			x.violation("govtoken|e2e|manager-balance-differs", fmt.Sprintf("%s: manager says %s, model %s", short(a), gbal.TotalBalance, acc.bal), nil)
			return
		}
		x.st.count("e2e.manager.balance.compared", 1)
	}
}

// pack produces k blocks and then every block whose timer tasks are due, so that a timer
// transaction never shares a block with pool transactions (see the open C13 finding).
// refreshPool: a walk to the state's own block rolls every pending transaction back and
// re-admits it (what a node does when a peer block arrives, and after own blocks that change
// access-control rules). Pending token operations of one account chain on the same keys; undoing
// and re-applying them must leave the token ledger exactly as it was.
func (x *e2eRun) refreshPool() {
	n := x.prod.n
	before, err := readBucket(n, "governToken")
	if err != nil {
		return
	}
	if err := n.Walk(n.StateTip(), false); err != nil {
		x.violation("govtoken|e2e|pool-refresh-failed", err.Error(), nil)
		return
	}
	after, _ := readBucket(n, "governToken")
	x.st.count("e2e.pool-refreshes", 1)
	x.lg.lines = append(x.lg.lines, fmt.Sprintf("%d: pool refresh (walk to the state's own block, %d pending)", len(x.lg.lines), x.pool))
	x.lg.shape = append(x.lg.shape, "refresh")
	if d := bucketsEqual(before, after); len(d) > 0 {
		x.violation("govtoken|e2e|pool-refresh-changes-token-ledger", fmt.Sprintf("rolling the %d pending transactions back and re-admitting them (walk to the state's own block) changed the token ledger: %s", x.pool, strings.Join(d, "; ")), nil)
	}
}

func (x *e2eRun) pack(k int) {
	for i := 0; i < k && !x.bad; i++ {
		x.packOne()
	}
	for !x.bad && x.timerDue(x.prod.n.LedgerHeight()+1) {
		x.packOne()
		x.st.count("e2e.blocks.timer-due", 1)
	}
}

func runE2E(r *ev.Run, idx int, minOps, maxOps int) {
	rng := rand.New(rand.NewSource(r.Seed*1000003 + 500000000 + int64(idx)))
	cfg := chainConfig(idx%4 == 3)
	st := newStats()
	defer st.flush(r)
	lg := &seqLog{}
	x := &e2eRun{r: r, idx: idx, m: newModel(quotaOf(cfg)), st: st, lg: lg, ts: 1000}
	var cur *op
	defer func() {
		if p := recover(); p != nil {
			if inc, ok := p.(sn.Inconclusive); ok {
				r.Inconclusive(fmt.Sprintf("e2e sequence %d: %s", idx, inc.Why))
				return
			}
			st.count("violations.e2e."+panicSig(cur), 1)
			r.Violation(panicSig(cur), fmt.Sprintf("panic while executing %s: %v\n%s", cur, p, debug.Stack()), x.witness())
			finishSeq(r, st, lg, x.m, "e2e", true)
		}
	}()
	cur = &op{Kind: "setup"}
	var err error
	if x.prod, err = newEnv(cfg); err != nil {
		r.Inconclusive("cannot start producer: " + err.Error())
		return
	}
	defer x.prod.n.Drop()
	if x.rep, err = newEnv(cfg); err != nil {
		r.Inconclusive("cannot start replica: " + err.Error())
		return
	}
	defer x.rep.n.Drop()
	x.pack(2) // tdpos calls need height >= 2
	g := &genCtx{rng: rng, m: x.m, e2e: true, profile: pickProfile(rng)}
	nops := minOps + rng.Intn(maxOps-minOps+1)
	limit := 1 + rng.Intn(5)
	for i := 0; i < nops && !x.bad; i++ {
		g.height = x.prod.n.LedgerHeight()
		o := g.next()
		cur = o
		if o.Kind == "pack" {
			k := 1
			fmt.Sscan(o.Tag, &k)
			x.pack(k)
			continue
		}
		if o.Kind == "transfer" && o.Via == "" {
			switch v := rng.Intn(100); {
			case v < 5:
				// a thief re-labels a transfer pre-executed for a richer account
				victim := mainAddrs[0]
				if o.By != victim {
					if o.Meta == nil {
						o.Meta = map[string]string{}
					}
					o.Meta["forged-by"], o.Meta["victim"] = o.By, victim
					o.Tag += ":forged-initiator"
				}
			case v < 12:
				if o.Meta == nil {
					o.Meta = map[string]string{}
				}
				o.Meta["hold"] = "1"
			}
		}
		hadHeld := x.held != nil
		x.submit(o)
		if hadHeld && x.held != nil && !x.bad {
			x.submitHeld()
		}
		if x.pool >= 2 && !x.bad && rng.Intn(6) == 0 {
			x.refreshPool()
		}
		if x.pool >= limit {
			x.pack(1)
			limit = 1 + rng.Intn(5)
		}
	}
	if x.held != nil && !x.bad {
		x.submitHeld()
	}
	if !x.bad {
		x.pack(1)
	}
	finishSeq(r, st, lg, x.m, "e2e", x.bad)
}
