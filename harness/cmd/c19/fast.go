package main

// FAST driving mode: the kernel methods are invoked through the node's contract manager
// (sandbox + context + Invoke, the same calls PreExec makes) over ONE long-lived backing
// state per sequence that the driver updates from each accepted call's write set.

import (
	"crypto/sha256"
	"encoding/hex"
	"encoding/json"
	"fmt"
	"math/rand"
	"runtime/debug"
	"strings"
	"sync"

	"github.com/xuperchain/xupercore/kernel/contract"

	"verif/ev"
)

// stats collects per-sequence counters; merged into the run when the sequence ends.
type stats struct {
	c     map[string]int
	notes map[string]string
}

func newStats() *stats { return &stats{c: map[string]int{}, notes: map[string]string{}} }

func (s *stats) count(k string, d int) { s.c[k] += d }
func (s *stats) note(k, v string) {
	if _, ok := s.notes[k]; !ok {
		s.notes[k] = v
	}
}

var (
	noteMu sync.Mutex
	notes  = map[string]string{}
)

func (s *stats) flush(r *ev.Run) {
	for k, v := range s.c {
		r.Count(k, v)
	}
	noteMu.Lock()
	for k, v := range s.notes {
		if _, ok := notes[k]; !ok {
			notes[k] = v
		}
	}
	noteMu.Unlock()
}

// propStatuses extracts id -> status from the proposal bucket.
func propStatuses(b map[string][]byte) propStatus {
	ps := propStatus{}
	for k, v := range b {
		if k == "id" || strings.HasPrefix(k, "lock_") {
			continue
		}
		var p struct {
			Status string `json:"status"`
		}
		if json.Unmarshal(v, &p) == nil {
			ps[k] = p.Status
		}
	}
	return ps
}

// seqLog is the witness of a sequence: every call with its outcome.
type seqLog struct {
	lines []string
	shape []string
}

func (l *seqLog) add(o *op, out *outcome) {
	res := "ok"
	if !out.ok {
		res = "refused"
		if out.stage != "" {
			res += "@" + out.stage
		}
		res += "(" + clip(out.err, 90) + ")"
	} else if len(out.body) > 0 && len(out.body) < 12 {
		res += "=" + string(out.body)
	}
	l.lines = append(l.lines, fmt.Sprintf("%d: %s -> %s", len(l.lines), o, res))
	c := "+"
	if !out.ok {
		c = "-"
	}
	l.shape = append(l.shape, o.Kind+"["+o.Tag+"]"+c)
}

func clip(s string, n int) string {
	if len(s) > n {
		return s[:n] + ".."
	}
	return s
}

// countOp records coverage of one audited call.
func countOp(st *stats, o *op, out *outcome, m *model) {
	res := "refused"
	if out.ok {
		res = "accepted"
	}
	st.count("call."+o.Kind+"."+res, 1)
	st.count("calls", 1)
	if o.Kind == "transfer" && out.ok {
		tag := strings.SplitN(o.Tag, ":", 2)[0]
		st.count("transfer.accepted."+tag, 1)
		if strings.Contains(o.Tag, ":exact") {
			st.count("transfer.accepted.exactly-available", 1)
		}
	}
	if o.Kind == "transfer" && !out.ok && strings.Contains(o.Tag, ":avail+1") && m.acct(o.By) != nil {
		st.count("transfer.refused.available+1", 1)
		if m.holdsLock(o.By) {
			st.count("transfer.refused.available+1.sender-holds-lock", 1)
		}
	}
	if o.Kind == "nominate" && out.ok && strings.HasPrefix(o.Tag, "cosigned") {
		st.count("nominate.accepted.cosigned-candidate", 1)
	}
	if o.Kind == "rawunlock" && out.ok && strings.Contains(o.Tag, ":exact") {
		st.count("rawunlock.accepted.exactly-locked", 1)
	}
	if o.Kind == "rawunlock" && strings.Contains(o.Tag, ":avail+1") && m.acct(o.Args["from"]) != nil {
		st.count("rawunlock.attempted.locked+1", 1)
	}
	if (o.Kind == "lock" || o.Kind == "unlock") && !out.ok {
		st.count("directlock.refused."+o.viaName(), 1)
	}
}

type fastRunner struct {
	e *env
}

// invoke runs one call in a fresh sandbox over the store and commits its write set when it
// was accepted.
func (f *fastRunner) invoke(store *kvStore, o *op) (out *outcome) {
	out = &outcome{}
	req := request(o)
	sb, err := f.e.n.Contract.NewStateSandbox(&contract.SandboxConfig{XMReader: store, UTXOReader: f.e.n.State.CreateUtxoReader()})
	if err != nil {
		out.err, out.stage = "sandbox: "+err.Error(), "harness"
		return out
	}
	ctx, err := f.e.n.Contract.NewContext(&contract.ContextConfig{Module: "xkernel", ContractName: req.ContractName,
		Initiator: o.By, AuthRequire: o.auth(), State: sb, ResourceLimits: contract.MaxLimits})
	if err != nil {
		out.err, out.stage = "context: "+err.Error(), "preexec"
		return out
	}
	resp, err := ctx.Invoke(req.MethodName, req.Args)
	ctx.Release()
	if err != nil {
		out.err, out.stage = err.Error(), "preexec"
		return out
	}
	out.status, out.body = resp.Status, resp.Body
	if resp.Status >= contract.StatusErrorThreshold {
		// a client drops a pre-execution that answered with an error status
		out.err, out.stage = fmt.Sprintf("status %d: %s", resp.Status, resp.Message), "preexec"
		return out
	}
	if err := sb.Flush(); err != nil {
		out.err, out.stage = "flush: "+err.Error(), "preexec"
		return out
	}
	store.apply(sb.RWSet().WSet)
	out.ok = true
	return out
}

// runFast runs sequence idx.
func (f *fastRunner) runFast(r *ev.Run, idx int, minOps, maxOps int) {
	rng := rand.New(rand.NewSource(r.Seed*1000003 + int64(idx)))
	st := newStats()
	defer st.flush(r)
	lg := &seqLog{}
	store := newKV()
	chain := &fastChain{snaps: []*kvStore{store.clone(), store.clone(), store.clone()}}
	f.e.rely.fast = chain
	m := newModel(quotaOf(f.e.cfg))
	g := &genCtx{rng: rng, m: m, profile: pickProfile(rng)}
	nops := minOps + rng.Intn(maxOps-minOps+1)
	witness := func() map[string]interface{} {
		return map[string]interface{}{"mode": "fast", "sequence": idx, "seed": r.Seed, "calls": lg.lines}
	}
	var cur *op
	defer func() {
		if p := recover(); p != nil {
			st.count("violations.fast."+panicSig(cur), 1)
			r.Violation(panicSig(cur), fmt.Sprintf("panic while executing %s: %v\n%s", cur, p, debug.Stack()), witness())
			finishSeq(r, st, lg, m, "fast", true)
		}
	}()
	bad := false
	for i := 0; i < nops && !bad; i++ {
		g.height = chain.tip()
		o := g.next()
		cur = o
		if o.Kind == "seal" {
			chain.snaps = append(chain.snaps, store.clone())
			lg.shape = append(lg.shape, "seal")
			lg.lines = append(lg.lines, fmt.Sprintf("%d: seal -> height %d", len(lg.lines), chain.tip()))
			st.count("fast.seal", 1)
			continue
		}
		psBefore := propStatuses(store.bucket("proposal"))
		out := f.invoke(store, o)
		lg.add(o, out)
		after := parseView(store.bucket("governToken"))
		countOp(st, o, out, m)
		probs := m.step(o, out, after, psBefore, propStatuses(store.bucket("proposal")), st)
		r.Evals(1)
		for _, p := range probs {
			w := witness()
			w["model_before"] = acctsString(m.accts)
			w["bucket_after"] = after.String()
			st.count("violations.fast."+p.sig, 1)
			r.Violation(p.sig, p.detail+"\ncalls:\n"+strings.Join(lg.lines, "\n"), w)
			bad = true
		}
	}
	finishSeq(r, st, lg, m, "fast", bad)
}

// finishSeq records the case and its coverage.
func finishSeq(r *ev.Run, st *stats, lg *seqLog, m *model, mode string, bad bool) {
	nontrivial := st.c["call.transfer.accepted"] > 0 && (st.c["call.propose.accepted"]+st.c["call.vote.accepted"]+
		st.c["call.nominate.accepted"]+st.c["call.tvote.accepted"]) > 0
	// the shape is the sequence of (call kind, structural class, accepted / refused); it is
	// long, so the run keeps its digest
	h := sha256.Sum256([]byte(strings.Join(lg.shape, " ")))
	r.Case(mode+"|"+hex.EncodeToString(h[:12]), nontrivial && !bad)
	st.count(mode+".sequences", 1)
	if bad {
		st.count(mode+".sequences.abandoned-at-violation", 1)
	}
	if nontrivial && !bad {
		calls := lg.lines
		if len(calls) > 25 {
			calls = append(append([]string{}, calls[:24]...), fmt.Sprintf("... %d more calls", len(lg.lines)-24))
		}
		r.Sample(map[string]interface{}{"mode": mode, "calls": calls, "final": acctsString(m.accts)})
	}
}

// panicSig names a panic of xupercore code structurally: the call kind and, when the input
// was deliberately ill-formed, in which way.
func panicSig(o *op) string {
	sig := "govtoken|panic|" + o.Kind
	if c := o.Meta["malformed"]; c != "" {
		sig += "|" + c
	}
	return sig
}
