package main

// What surrounds the contracts under test: a simnode node (real contract manager with the
// real $govern_token / $proposal / $timer_task kernel contracts), a real tdpos consensus
// instance created on that node's contract manager (it registers the real $tdpos
// nomination / vote kernel methods, which call $govern_token Lock / UnLock), and the
// forwarding kernel contracts used for the caller-restriction attempts.

import (
	"encoding/json"
	"errors"
	"fmt"
	"math/big"
	"strings"

	"github.com/xuperchain/xupercore/bcs/consensus/tdpos"
	"github.com/xuperchain/xupercore/bcs/ledger/xledger/state"
	xctx "github.com/xuperchain/xupercore/kernel/common/xcontext"
	cctx "github.com/xuperchain/xupercore/kernel/consensus/context"
	"github.com/xuperchain/xupercore/kernel/consensus/def"
	"github.com/xuperchain/xupercore/kernel/contract"
	"github.com/xuperchain/xupercore/kernel/ledger"
	nctx "github.com/xuperchain/xupercore/kernel/network/context"
	"github.com/xuperchain/xupercore/kernel/network/p2p"
	pb "github.com/xuperchain/xupercore/protos"

	sn "verif/simnode"
)

// ---- forwarding contracts ---------------------------------------------------------------------

// fwd forwards a call: args "c" / "m" name the callee, every "a.<k>" argument is passed on
// as <k>. The callee sees the forwarding contract as its caller and the transaction's
// initiator as the initiator - exactly what a kernel contract calling another one gets.
func fwd(ctx contract.KContext) (*contract.Response, error) {
	args := ctx.Args()
	in := map[string][]byte{}
	for k, v := range args {
		if strings.HasPrefix(k, "a.") {
			in[k[2:]] = v
		}
	}
	return ctx.Call("xkernel", string(args["c"]), string(args["m"]), in)
}

func registerProxies(reg contract.KernRegistry) {
	for _, name := range proxyNames {
		reg.RegisterKernMethod(name, "fwd", fwd)
	}
	reg.RegisterKernMethod(rawCaller, "fwd", fwd)
}

// request renders an op as the invoke request a client would send.
func request(o *op) *pb.InvokeRequest {
	c, m := o.target()
	args := map[string][]byte{}
	if o.Via == "" {
		for k, v := range o.Args {
			args[k] = []byte(v)
		}
		return &pb.InvokeRequest{ModuleName: "xkernel", ContractName: c, MethodName: m, Args: args}
	}
	args["c"], args["m"] = []byte(c), []byte(m)
	for k, v := range o.Args {
		args["a."+k] = []byte(v)
	}
	return &pb.InvokeRequest{ModuleName: "xkernel", ContractName: o.Via, MethodName: "fwd", Args: args}
}

// ---- ledger seen by the tdpos instance --------------------------------------------------------

// fastChain is the "chain" of the FAST mode: snaps[h] is the state as of height h.
type fastChain struct {
	snaps []*kvStore
}

func (c *fastChain) tip() int64 { return int64(len(c.snaps) - 1) }

type stubBlock struct{ h int64 }

func (b *stubBlock) GetProposer() []byte                  { return []byte(mainAddrs[0]) }
func (b *stubBlock) GetHeight() int64                     { return b.h }
func (b *stubBlock) GetBlockid() []byte                   { return []byte(fmt.Sprintf("fast-%d", b.h)) }
func (b *stubBlock) GetConsensusStorage() ([]byte, error) { return nil, nil }
func (b *stubBlock) GetTimestamp() int64                  { return 0 }
func (b *stubBlock) SetItem(string, interface{}) error    { return errors.New("read only") }
func (b *stubBlock) MakeBlockId() ([]byte, error)         { return b.GetBlockid(), nil }
func (b *stubBlock) GetPreHash() []byte                   { return nil }
func (b *stubBlock) GetNextHash() []byte                  { return nil }
func (b *stubBlock) GetPublicKey() string                 { return "" }
func (b *stubBlock) GetSign() []byte                      { return nil }
func (b *stubBlock) GetTxIDs() []string                   { return nil }
func (b *stubBlock) GetInTrunk() bool                     { return true }

// rely implements the consensus module's view of the ledger. With fast == nil it is the
// node's real ledger + state (what the engine's LedgerAgent does); otherwise heights and
// snapshots come from the FAST mode's sealed copies.
type rely struct {
	n    *sn.Node
	fast *fastChain
}

var errNoBlock = errors.New("block not found")

func (r *rely) GetConsensusConf() ([]byte, error) { return []byte("{}"), nil }

func (r *rely) QueryBlock(id []byte) (ledger.BlockHandle, error) {
	if r.fast != nil {
		var h int64
		if _, err := fmt.Sscanf(string(id), "fast-%d", &h); err != nil || h < 0 || h > r.fast.tip() {
			return nil, errNoBlock
		}
		return &stubBlock{h}, nil
	}
	b, err := r.n.Ledger.QueryBlock(id)
	if err != nil {
		return nil, err
	}
	return state.NewBlockAgent(b), nil
}

func (r *rely) QueryBlockByHeight(h int64) (ledger.BlockHandle, error) {
	if r.fast != nil {
		if h < 0 || h > r.fast.tip() {
			return nil, errNoBlock
		}
		return &stubBlock{h}, nil
	}
	b, err := r.n.Ledger.QueryBlockByHeight(h)
	if err != nil {
		return nil, err
	}
	return state.NewBlockAgent(b), nil
}

func (r *rely) GetTipBlock() ledger.BlockHandle {
	if r.fast != nil {
		return &stubBlock{r.fast.tip()}
	}
	b, err := r.QueryBlock(r.n.Ledger.GetMeta().TipBlockid)
	if err != nil {
		panic("tip block not found: " + err.Error())
	}
	return b
}

type snapGetter struct{ s *kvStore }

func (g snapGetter) Get(bucket string, key []byte) ([]byte, error) {
	v, _ := g.s.Get(bucket, key)
	return v.PureData.Value, nil
}

func (r *rely) GetTipXMSnapshotReader() (ledger.XMSnapshotReader, error) {
	if r.fast != nil {
		return snapGetter{r.fast.snaps[r.fast.tip()]}, nil
	}
	return r.n.State.GetTipXMSnapshotReader()
}

func (r *rely) CreateSnapshot(id []byte) (ledger.XMReader, error) {
	if r.fast != nil {
		b, err := r.QueryBlock(id)
		if err != nil {
			return nil, err
		}
		return r.fast.snaps[b.GetHeight()], nil
	}
	return r.n.State.CreateSnapshot(id)
}

func (r *rely) GetTipSnapshot() (ledger.XMReader, error) {
	if r.fast != nil {
		return r.fast.snaps[r.fast.tip()], nil
	}
	return r.n.State.GetTipSnapshot()
}

// ---- network stub -----------------------------------------------------------------------------

type stubNet struct{ account string }

func (n *stubNet) Start() {}
func (n *stubNet) Stop()  {}
func (n *stubNet) SendMessage(xctx.XContext, *pb.XuperMessage, ...p2p.OptionFunc) error {
	return nil
}
func (n *stubNet) SendMessageWithResponse(xctx.XContext, *pb.XuperMessage, ...p2p.OptionFunc) ([]*pb.XuperMessage, error) {
	return nil, nil
}
func (n *stubNet) NewSubscriber(pb.XuperMessage_MessageType, interface{}, ...p2p.SubscriberOption) p2p.Subscriber {
	return nil
}
func (n *stubNet) Register(p2p.Subscriber) error   { return nil }
func (n *stubNet) UnRegister(p2p.Subscriber) error { return nil }
func (n *stubNet) Context() *nctx.NetCtx           { return nil }
func (n *stubNet) PeerInfo() pb.PeerInfo           { return pb.PeerInfo{Account: n.account} }

// ---- node -------------------------------------------------------------------------------------

// quotas of the governance token = genesis predistribution of the chain. K3 starts below
// the amount a proposal locks, K0 holds the majority (so that proposals can pass) and is
// beyond 64 bits in the "big" configuration.
func chainConfig(big bool) sn.Config {
	c := sn.DefaultConfig()
	c.NoFee = true
	c.Quota = []string{"1000000", "5000", "1500", "999"}
	if big {
		c.Quota = []string{"100000000000000000000", "5000", "1500", "999"}
	}
	return c
}

func quotaOf(c sn.Config) map[string]*big.Int {
	q := map[string]*big.Int{}
	for i, s := range c.Quota {
		if s == "" {
			continue
		}
		n, _ := parseAmount(s)
		q[sn.K(i).Address] = n
	}
	return q
}

type env struct {
	n    *sn.Node
	rely *rely
	cfg  sn.Config
}

// newEnv creates a node plus the tdpos instance and the forwarding contracts on it.
func newEnv(cfg sn.Config) (*env, error) {
	n, err := sn.NewNode(cfg)
	if err != nil {
		return nil, err
	}
	e := &env{n: n, rely: &rely{n: n}, cfg: cfg}
	if err := e.attach(); err != nil {
		n.Drop()
		return nil, err
	}
	return e, nil
}

func (e *env) attach() error {
	registerProxies(e.n.Contract.GetKernRegistry())
	me := sn.K(0)
	tcfg, _ := json.Marshal(map[string]interface{}{
		"timestamp": "1559021720000000000", "proposer_num": "1", "period": "3000", "alternate_interval": "3000",
		"term_interval": "6000", "block_num": "20", "vote_unit_price": "1",
		"init_proposer": map[string][]string{"1": {me.Address}},
	})
	cc := cctx.ConsensusCtx{
		BaseCtx: xctx.BaseCtx{XLog: e.n.Log},
		BcName:  sn.BCName,
		Address: &cctx.Address{Address: me.Address, PrivateKey: me.Priv, PrivateKeyStr: me.PrivJSON,
			PublicKey: &me.Priv.PublicKey, PublicKeyStr: me.PubJSON},
		Crypto:   sn.Crypto(),
		Contract: e.n.Contract,
		Ledger:   e.rely,
		Network:  &stubNet{account: me.Address},
	}
	inst := tdpos.NewTdposConsensus(cc, def.ConsensusConfig{ConsensusName: "tdpos", Config: string(tcfg), StartHeight: 1, Index: 0})
	if inst == nil || fmt.Sprint(inst) == "<nil>" {
		return fmt.Errorf("NewTdposConsensus returned nil: %v", e.n.Log.Tail(3))
	}
	if _, err := e.n.Contract.GetKernRegistry().GetKernMethod("$tdpos", "nominateCandidate"); err != nil {
		return fmt.Errorf("tdpos kernel methods not registered: %v", err)
	}
	return nil
}
