// C19: governance tokens are conserved; locks bind and only lock / unlock changes them.
package main

import (
	"fmt"
	"os"
	"runtime"
	"sync"

	"verif/ev"
	sn "verif/simnode"
)

func main() {
	r := ev.Start("C19", "exploration",
		"random sequences of 5-60 calls (Init incl. second / by non-genesis accounts; Transfer to others / self / fresh / lock holders with amounts 0, exactly available, available+1, "+
			"negative, non-numeric, beyond 64 bit, also forwarded by a kernel contract and with a foreign 'from' argument; Propose (incl. ill-formed proposal documents) / Vote / Thaw; timer "+
			"tallies and triggers at right and wrong heights; tdpos nominate (own and co-signed candidate) / vote / revokeVote / revokeNominate incl. stale snapshot heights; Lock / UnLock / "+
			"CheckVoteResult / Trigger attempts as user transactions and through four forwarding kernel contracts with look-alike names; raw Lock / UnLock with all amounts through a forwarder "+
			"registered under the TDPoS name $xpos) over 4 genesis accounts + 2 fresh identities + fresh names, driven (fast) through the contract manager over one backing state per sequence "+
			"and (end-to-end) as signed transactions through PreExec / VerifyTx / DoTx / packed blocks with real timer transactions and a replica that re-executes every block; after EVERY call "+
			"the whole governToken bucket is read back and compared with a token-ledger model written from the statement; case = one sequence, distinct by the sequence of (call kind, "+
			"structural class, accepted/refused); non-trivial = at least one accepted transfer and one accepted lock operation, not abandoned at a violation")
	defer sn.CleanupScratch()
	initAddrs()

	nFast := r.N(30000, 1500000)
	nE2E := r.N(800, 30000)
	workers := runtime.GOMAXPROCS(0)
	if workers > 16 {
		workers = 16
	}
	if os.Getenv("C19_DIRECTED") != "" {
		directed()
	}
	if r.Replay != "" {
		replay(r)
		r.Finish()
	}

	// ---- fast mode
	var wg sync.WaitGroup
	jobs := make(chan int, 256)
	for w := 0; w < workers; w++ {
		wg.Add(1)
		go func() {
			defer wg.Done()
			var runners [2]*fastRunner
			for idx := range jobs {
				k := 0
				if idx%4 == 3 {
					k = 1
				}
				if runners[k] == nil {
					e, err := newEnv(chainConfig(k == 1))
					if err != nil {
						r.Inconclusive("cannot start node: " + err.Error())
						continue
					}
					runners[k] = &fastRunner{e: e}
				}
				runners[k].runFast(r, idx, 5, 60)
			}
			for _, fr := range runners {
				if fr != nil {
					fr.e.n.Drop()
				}
			}
		}()
	}
	for i := 0; i < nFast; i++ {
		jobs <- i
	}
	close(jobs)
	wg.Wait()
	fmt.Fprintf(os.Stderr, "c19: fast mode done: %d sequences, %d calls\n", r.Counter("fast.sequences"), r.Counter("calls"))

	// ---- end-to-end mode
	jobs = make(chan int, 64)
	for w := 0; w < workers; w++ {
		wg.Add(1)
		go func() {
			defer wg.Done()
			for idx := range jobs {
				runE2E(r, idx, 8, 40)
			}
		}()
	}
	for i := 0; i < nE2E; i++ {
		jobs <- i
	}
	close(jobs)
	wg.Wait()
	fmt.Fprintf(os.Stderr, "c19: end-to-end mode done: %d sequences\n", r.Counter("e2e.sequences"))

	floors(r)
	noteMu.Lock()
	for k, v := range notes {
		r.Extra("note."+k, v)
	}
	noteMu.Unlock()
	r.Assume("fast mode: a refused call is discarded by the driver exactly like a client discards a failed pre-execution; real rollback of refused transactions is exercised by the end-to-end mode only")
	r.Assume("the $tdpos kernel contract is a real tdpos consensus instance created on the node's contract manager; its view of the ledger is the node's ledger + state (end-to-end) or per-height copies of the backing state (fast)")
	r.Assume("$xpos is accepted by Lock / UnLock as a caller besides $proposal and $tdpos: it is the name the same TDPoS kernel contract registers under when chained-BFT is enabled; the harness registers a forwarding contract under that (otherwise unused) name to issue lock / unlock operations with arbitrary amounts, as the statement quantifies them")
	r.Assume("a due unlock that the timer does not carry out (tally.unlock_not_done.*) is counted, not flagged: the statement forbids lock changes without a lock / unlock operation, it does not demand that an unlock succeeds")
	r.Assume("blocks whose timer transaction would depend on pool transactions of the same block (open C13 finding) are avoided by construction in the end-to-end mode")
	r.Finish()
}

func floors(r *ev.Run) {
	q := r.Quick()
	f := func(name string, quick, thorough int64) {
		if q {
			r.Floor(name, quick)
		} else {
			r.Floor(name, thorough)
		}
	}
	f("calls", 20000, 500000)
	f("e2e.pool-refreshes", 100, 1000)
	f("call.init.accepted", 1500, 50000)
	f("call.init.refused", 100, 3000)
	f("call.transfer.accepted", 2000, 50000)
	f("call.transfer.refused", 2000, 50000)
	f("transfer.accepted.to-fresh-key", 100, 3000)
	f("transfer.accepted.to-fresh-name", 100, 3000)
	f("transfer.accepted.exactly-available", 100, 3000)
	f("transfer.refused.available+1", 100, 3000)
	f("transfer.refused.available+1.sender-holds-lock", 20, 500)
	f("call.propose.accepted", 300, 8000)
	f("call.vote.accepted", 200, 5000)
	f("call.thaw.accepted", 20, 500)
	f("call.do.accepted", 500, 10000)
	f("tally.rejected", 50, 1000)
	f("tally.passed", 10, 200)
	f("call.nominate.accepted", 100, 3000)
	f("call.tvote.accepted", 50, 1500)
	f("call.revokevote.accepted", 10, 300)
	f("call.revokenom.accepted", 10, 300)
	f("nominate.accepted.cosigned-candidate", 50, 1500)
	f("call.rawlock.accepted", 300, 9000)
	f("call.rawunlock.accepted", 200, 6000)
	f("rawunlock.attempted.locked+1", 50, 1500)
	f("transfer.accepted.self", 300, 9000)
	f("transfer.accepted.to-lock-holder", 300, 9000)
	f("directlock.refused.user-transaction", 100, 3000)
	f("directlock.refused.via-"+proxyName, 20, 600)
	f("call.checkvote.refused", 20, 600)
	f("e2e.sequences", 30, 1000)
	f("e2e.blocks", 200, 6000)
	f("e2e.tx.admitted", 300, 9000)
	f("e2e.replica.compared", 200, 6000)
}
