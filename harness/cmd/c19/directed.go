package main

// Development aid (C19_DIRECTED=1): runs the minimal witnesses of the defects this check
// found on the pinned tree, in FAST mode, and prints the bucket after every call to stderr.
// Not part of the verdict.

import (
	"fmt"
	"os"
)

func directed() {
	e, err := newEnv(chainConfig(false))
	if err != nil {
		fmt.Fprintln(os.Stderr, "cannot start node:", err)
		return
	}
	f := &fastRunner{e: e}
	k := func(i int) string { return mainAddrs[i] }
	k4 := freshAddrs[0]
	type sc struct {
		name string
		ops  []*op
	}
	scs := []sc{
		{"self-transfer mints", []*op{
			{Kind: "init", By: k(0)},
			{Kind: "transfer", By: k(0), Args: map[string]string{"to": k(0), "amount": "10"}}}},
		{"transfer resets the receiver's locks", []*op{
			{Kind: "init", By: k(0)},
			{Kind: "propose", By: k(0), Args: map[string]string{"proposal": proposalJSON("51", "5", 6, 0)}},
			{Kind: "transfer", By: k(1), Args: map[string]string{"to": k(0), "amount": "5"}}}},
		{"revokeNominate repeated", []*op{
			{Kind: "init", By: k(0)},
			{Kind: "nominate", By: k(1), Args: map[string]string{"candidate": k(1), "amount": "2", "height": "2"}},
			{Kind: "seal"},
			{Kind: "revokenom", By: k(1), Args: map[string]string{"candidate": k(1), "height": "3"}},
			{Kind: "revokenom", By: k(1), Args: map[string]string{"candidate": k(1), "height": "3"}}}},
		{"UnLock below zero / Lock of a negative amount by an entitled caller", []*op{
			{Kind: "init", By: k(0)},
			{Kind: "rawunlock", By: k(1), Via: rawCaller, Args: map[string]string{"from": k(1), "amount": "1", "lock_type": "ordinary"}},
			{Kind: "rawlock", By: k(1), Via: rawCaller, Args: map[string]string{"from": k(2), "amount": "-7", "lock_type": "tdpos"}},
			{Kind: "rawlock", By: k(1), Via: rawCaller, Args: map[string]string{"from": k(2), "amount": "12abc", "lock_type": "tdpos"}}}},
		{"rejected proposal keeps a lower-case address locked", []*op{
			{Kind: "init", By: k(0)},
			{Kind: "transfer", By: k(0), Args: map[string]string{"to": k4, "amount": "2000"}},
			{Kind: "propose", By: k4, Args: map[string]string{"proposal": proposalJSON("51", "5", 6, 0)}},
			{Kind: "propose", By: k(1), Args: map[string]string{"proposal": proposalJSON("51", "5", 6, 0)}},
			{Kind: "do", By: k(2), Args: map[string]string{"block_height": "5"}}}},
		{"Propose without trigger", []*op{
			{Kind: "init", By: k(0)},
			{Kind: "propose", By: k(0), Args: map[string]string{"proposal": `{"args":{"min_vote_percent":"51","stop_vote_height":"5"}}`}}}},
	}
	for _, s := range scs {
		fmt.Fprintf(os.Stderr, "== %s\n", s.name)
		store := newKV()
		chain := &fastChain{snaps: []*kvStore{store.clone(), store.clone(), store.clone()}}
		e.rely.fast = chain
		func() {
			defer func() {
				if p := recover(); p != nil {
					fmt.Fprintf(os.Stderr, "   PANIC: %v\n", p)
				}
			}()
			for _, o := range s.ops {
				if o.Kind == "seal" {
					chain.snaps = append(chain.snaps, store.clone())
					fmt.Fprintf(os.Stderr, "   seal -> height %d\n", chain.tip())
					continue
				}
				out := f.invoke(store, o)
				res := "accepted"
				if !out.ok {
					res = "refused: " + out.err
				}
				fmt.Fprintf(os.Stderr, "   %s -> %s\n      %s\n", o, res, parseView(store.bucket("governToken")))
			}
		}()
	}
}
