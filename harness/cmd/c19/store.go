package main

// A tiny versioned key/value store that stands in for the state database in the FAST
// driving mode: the contract sandbox reads through it (ledger.XMReader) and the driver
// applies each successful call's write set to it. "Sealing" takes an immutable copy that
// plays the role of the state as of a block (the tdpos kernel contract reads its own
// records through such per-height snapshots).

import (
	"bytes"
	"fmt"
	"sort"

	"github.com/xuperchain/xupercore/kernel/contract/sandbox"
	"github.com/xuperchain/xupercore/kernel/ledger"
)

type kvStore struct {
	m   map[string]*ledger.VersionedData // "bucket/key" -> data
	ver int
}

func newKV() *kvStore { return &kvStore{m: map[string]*ledger.VersionedData{}} }

func rawKey(bucket string, key []byte) string { return bucket + "/" + string(key) }

func (s *kvStore) clone() *kvStore {
	c := &kvStore{m: make(map[string]*ledger.VersionedData, len(s.m)), ver: s.ver}
	for k, v := range s.m {
		c.m[k] = v // values are never mutated in place
	}
	return c
}

// Get answers like the real xmodel: a key that was never written yields an empty
// versioned record (no error).
func (s *kvStore) Get(bucket string, key []byte) (*ledger.VersionedData, error) {
	if v, ok := s.m[rawKey(bucket, key)]; ok {
		return v, nil
	}
	return &ledger.VersionedData{PureData: &ledger.PureData{Bucket: bucket, Key: append([]byte(nil), key...)}}, nil
}

func (s *kvStore) put(bucket string, key, value []byte) {
	s.ver++
	s.m[rawKey(bucket, key)] = &ledger.VersionedData{
		RefTxid:   []byte(fmt.Sprintf("v%08d", s.ver)),
		RefOffset: 0,
		PureData:  &ledger.PureData{Bucket: bucket, Key: append([]byte(nil), key...), Value: append([]byte(nil), value...)},
	}
}

// apply commits a write set.
func (s *kvStore) apply(ws []*ledger.PureData) {
	for _, w := range ws {
		if w.Bucket == sandbox.TransientBucket {
			continue
		}
		s.put(w.Bucket, w.Key, w.Value)
	}
}

type kvIter struct {
	items []*ledger.VersionedData
	i     int
}

func (it *kvIter) Key() []byte {
	if it.i < 1 || it.i > len(it.items) {
		return nil
	}
	return it.items[it.i-1].PureData.Key
}
func (it *kvIter) Value() *ledger.VersionedData {
	if it.i < 1 || it.i > len(it.items) {
		return nil
	}
	return it.items[it.i-1]
}
func (it *kvIter) Next() bool {
	if it.i >= len(it.items) {
		it.i = len(it.items) + 1
		return false
	}
	it.i++
	return true
}
func (it *kvIter) Error() error { return nil }
func (it *kvIter) Close()       {}

// Select yields [start, end) of a bucket in key order (nil end = to the end of the
// bucket). Deleted keys (delete mark) are skipped like the real iterator does.
func (s *kvStore) Select(bucket string, start, end []byte) (ledger.XMIterator, error) {
	var items []*ledger.VersionedData
	for _, v := range s.m {
		if v.PureData.Bucket != bucket {
			continue
		}
		if bytes.Compare(v.PureData.Key, start) < 0 {
			continue
		}
		if end != nil && bytes.Compare(v.PureData.Key, end) >= 0 {
			continue
		}
		if sandbox.IsDelFlag(v.PureData.Value) {
			continue
		}
		items = append(items, v)
	}
	sort.Slice(items, func(i, j int) bool { return bytes.Compare(items[i].PureData.Key, items[j].PureData.Key) < 0 })
	return &kvIter{items: items}, nil
}

// bucket returns key -> value of one bucket.
func (s *kvStore) bucket(name string) map[string][]byte {
	out := map[string][]byte{}
	for _, v := range s.m {
		if v.PureData.Bucket == name && !sandbox.IsDelFlag(v.PureData.Value) {
			out[string(v.PureData.Key)] = v.PureData.Value
		}
	}
	return out
}
