package main

import (
	"encoding/json"
	"io/ioutil"

	"verif/ev"
)

// replay re-runs exactly the sequence named by a witness file.
func replay(r *ev.Run) {
	var w struct {
		Seed    int64 `json:"seed"`
		Witness struct {
			Mode     string `json:"mode"`
			Sequence int    `json:"sequence"`
		} `json:"witness"`
	}
	buf, err := ioutil.ReadFile(r.Replay)
	if err != nil || json.Unmarshal(buf, &w) != nil {
		r.Inconclusive("cannot read replay file " + r.Replay)
		return
	}
	r.Seed = w.Seed
	if w.Witness.Mode == "e2e" {
		runE2E(r, w.Witness.Sequence, 8, 40)
		return
	}
	e, err := newEnv(chainConfig(w.Witness.Sequence%4 == 3))
	if err != nil {
		r.Inconclusive("cannot start node: " + err.Error())
		return
	}
	(&fastRunner{e: e}).runFast(r, w.Witness.Sequence, 5, 60)
}
