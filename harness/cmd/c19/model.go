package main

// Token-ledger model written from the statement of C19:
//
//   (1) the sum of all account balances equals the total supply fixed at initialisation;
//   (2) an account's locked amounts (per lock type) change only through lock / unlock
//       operations on that account;
//   (3) a transfer never leaves the sender's balance below any of its locked amounts.
//
// plus the two facts every ledger of non-negative quantities implies: a call that was
// refused changes nothing, and 0 <= locked <= balance at all times ("locks bind").
//
// The model is OUTCOME DRIVEN: it never predicts whether the code accepts a call (the
// statement does not demand that any call succeeds; coverage floors make sure enough of
// them do). Given that a call was accepted it says (a) whether accepting it was legal
// and (b) exactly what the governToken bucket must look like afterwards.

import (
	"encoding/json"
	"fmt"
	"math/big"
	"sort"
	"strconv"
	"strings"
)

// strictTallyUnlock decides what happens when the timer closes a proposal (rejected /
// completed) and an account that locked tokens for it keeps them locked. The statement only
// forbids lock changes WITHOUT a lock / unlock operation; it does not say that an unlock
// must be carried out. false: counted (tally.unlock_not_done) and reported in the evidence;
// true: violation govtoken|do|unexpected-lock-ordinary-of-*.
const strictTallyUnlock = false

// strictLockRecords: an accepted tdpos revoke must release a lock that a live nomination /
// vote of the caller actually holds ("locks bind": tokens locked for a vote that still
// counts may not be released by revoking something else twice). With false only the
// amounts are checked (0 <= locked <= balance, exact deltas).
const strictLockRecords = false

const (
	ltOrdinary = "ordinary"
	ltTdpos    = "tdpos"
)

var lockTypes = []string{ltOrdinary, ltTdpos}

type acct struct {
	bal    *big.Int
	locked map[string]*big.Int
}

func newAcct() *acct {
	return &acct{bal: new(big.Int), locked: map[string]*big.Int{ltOrdinary: new(big.Int), ltTdpos: new(big.Int)}}
}

func (a *acct) clone() *acct {
	c := &acct{bal: new(big.Int).Set(a.bal), locked: map[string]*big.Int{}}
	for k, v := range a.locked {
		c.locked[k] = new(big.Int).Set(v)
	}
	return c
}

func (a *acct) maxLocked() *big.Int {
	m := new(big.Int)
	for _, v := range a.locked {
		if v.Cmp(m) > 0 {
			m = v
		}
	}
	return new(big.Int).Set(m)
}

// avail is what the account may transfer: balance minus its largest lock.
func (a *acct) avail() *big.Int { return new(big.Int).Sub(a.bal, a.maxLocked()) }

// prop is what the model remembers of a proposal: who locked how much for it.
type prop struct {
	id       string
	proposer string
	locks    map[string]*big.Int // account -> amount still locked for this proposal
	status   string              // voting | passed | closed (cancelled / rejected / completed)
	stop     string              // stop_vote_height as given
	trig     int64
	votes    *big.Int
}

// nomRec is one accepted tdpos nomination (a tdpos lock on `by`).
type nomRec struct {
	cand, by string
	amount   int64
	active   bool
}

type model struct {
	quota  map[string]*big.Int // genesis predistribution (what Init hands out)
	inited bool
	supply *big.Int
	accts  map[string]*acct
	props  map[string]*prop
	noms   []*nomRec
	tvotes map[string]map[string]int64 // candidate -> voter -> votes still locked
}

func newModel(quota map[string]*big.Int) *model {
	return &model{quota: quota, supply: new(big.Int), accts: map[string]*acct{}, props: map[string]*prop{},
		tvotes: map[string]map[string]int64{}}
}

func (m *model) acct(a string) *acct {
	if x, ok := m.accts[a]; ok {
		return x
	}
	return nil
}

func (m *model) cloneAccts() map[string]*acct {
	c := map[string]*acct{}
	for k, v := range m.accts {
		c[k] = v.clone()
	}
	return c
}

func (m *model) holdsLock(a string) bool {
	x := m.acct(a)
	return x != nil && x.maxLocked().Sign() > 0
}

// ---- observed bucket -----------------------------------------------------------------------

type balanceRec struct {
	TotalBalance  *big.Int            `json:"total_balance"`
	LockedBalance map[string]*big.Int `json:"locked_balances"`
}

type view struct {
	supply      *big.Int // nil when the key is absent
	distributed string
	accts       map[string]*acct
	bad         []string // unparsable records / unknown keys
}

const balPrefix = "balanceOf_"

func parseBalance(val []byte) (*acct, error) {
	var rec balanceRec
	if err := json.Unmarshal(val, &rec); err != nil {
		return nil, err
	}
	if rec.TotalBalance == nil {
		return nil, fmt.Errorf("no total_balance")
	}
	a := newAcct()
	a.bal.Set(rec.TotalBalance)
	for t, v := range rec.LockedBalance {
		if v == nil {
			return nil, fmt.Errorf("null lock %q", t)
		}
		a.locked[t] = new(big.Int).Set(v)
	}
	return a, nil
}

func parseView(b map[string][]byte) *view {
	v := &view{accts: map[string]*acct{}}
	for k, val := range b {
		switch {
		case k == "totalSupply":
			n, ok := new(big.Int).SetString(string(val), 10)
			if !ok {
				v.bad = append(v.bad, fmt.Sprintf("totalSupply=%q", val))
				continue
			}
			v.supply = n
		case k == "distributed":
			v.distributed = string(val)
		case strings.HasPrefix(k, balPrefix):
			a, err := parseBalance(val)
			if err != nil {
				v.bad = append(v.bad, fmt.Sprintf("%s=%q (%v)", k, val, err))
				continue
			}
			v.accts[k[len(balPrefix):]] = a
		default:
			v.bad = append(v.bad, fmt.Sprintf("unknown key %q", k))
		}
	}
	sort.Strings(v.bad)
	return v
}

func (v *view) sum() *big.Int {
	s := new(big.Int)
	for _, a := range v.accts {
		s.Add(s, a.bal)
	}
	return s
}

func (v *view) String() string {
	var names []string
	for n := range v.accts {
		names = append(names, n)
	}
	sort.Strings(names)
	var sb strings.Builder
	if v.supply != nil {
		fmt.Fprintf(&sb, "totalSupply=%s ", v.supply)
	}
	for _, n := range names {
		a := v.accts[n]
		fmt.Fprintf(&sb, "%s{bal=%s ord=%s tdpos=%s} ", short(n), a.bal, a.locked[ltOrdinary], a.locked[ltTdpos])
	}
	return sb.String()
}

func acctsString(m map[string]*acct) string {
	return (&view{accts: m}).String()
}

func short(a string) string {
	if i, ok := addrIndex[a]; ok {
		return fmt.Sprintf("K%d", i)
	}
	if len(a) > 12 {
		return a[:12] + ".."
	}
	return a
}

// ---- problems ----------------------------------------------------------------------------

type problem struct {
	sig    string
	detail string
}

func parseAmount(s string) (*big.Int, bool) {
	n, ok := new(big.Int).SetString(s, 10)
	if !ok {
		return nil, false
	}
	return n, true
}

// diff lists the differences between the expected accounts and the observed ones.
type adiff struct {
	acct   string
	field  string // "bal" or a lock type, "missing", "extra"
	exp    *big.Int
	got    *big.Int
	detail string
}

func zero(x *big.Int) *big.Int {
	if x == nil {
		return new(big.Int)
	}
	return x
}

func diffAccts(exp, got map[string]*acct) []adiff {
	var out []adiff
	names := map[string]bool{}
	for n := range exp {
		names[n] = true
	}
	for n := range got {
		names[n] = true
	}
	var ns []string
	for n := range names {
		ns = append(ns, n)
	}
	sort.Strings(ns)
	for _, n := range ns {
		e, g := exp[n], got[n]
		if e == nil {
			// an account record the model does not know: only harmless when it is all zero
			e = newAcct()
			if g.bal.Sign() == 0 && g.maxLocked().Sign() == 0 {
				continue
			}
		}
		if g == nil {
			out = append(out, adiff{acct: n, field: "missing", exp: e.bal, got: new(big.Int)})
			continue
		}
		if e.bal.Cmp(g.bal) != 0 {
			out = append(out, adiff{acct: n, field: "bal", exp: e.bal, got: g.bal})
		}
		types := map[string]bool{}
		for t := range e.locked {
			types[t] = true
		}
		for t := range g.locked {
			types[t] = true
		}
		var ts []string
		for t := range types {
			ts = append(ts, t)
		}
		sort.Strings(ts)
		for _, t := range ts {
			if zero(e.locked[t]).Cmp(zero(g.locked[t])) != 0 {
				out = append(out, adiff{acct: n, field: t, exp: zero(e.locked[t]), got: zero(g.locked[t])})
			}
		}
	}
	return out
}

func diffString(ds []adiff) string {
	var p []string
	for _, d := range ds {
		p = append(p, fmt.Sprintf("%s.%s expected %s got %s", short(d.acct), d.field, d.exp, d.got))
	}
	return strings.Join(p, "; ")
}

// invariants checks the op-independent part of the statement on an observed bucket.
func (m *model) invariants(v *view, kind string, inited bool, supply *big.Int) []problem {
	var ps []problem
	if len(v.bad) > 0 {
		ps = append(ps, problem{"govtoken|bucket|unparsable-or-unknown-record", strings.Join(v.bad, "; ")})
	}
	if !inited {
		return ps
	}
	if v.supply == nil || v.supply.Cmp(supply) != 0 {
		sig := "govtoken|total-supply-changed|after-" + kind
		if !m.inited {
			sig = "govtoken|init|total-supply-is-not-the-sum-handed-out"
		}
		ps = append(ps, problem{sig, fmt.Sprintf("totalSupply key is %v, supply fixed at Init is %s", v.supply, supply)})
	}
	if s := v.sum(); s.Cmp(supply) != 0 {
		dir := "sum-below-supply"
		if s.Cmp(supply) > 0 {
			dir = "sum-above-supply"
		}
		ps = append(ps, problem{"govtoken|conservation|after-" + kind + "|" + dir,
			fmt.Sprintf("sum of balances %s != total supply %s", s, supply)})
	}
	var names []string
	for n := range v.accts {
		names = append(names, n)
	}
	sort.Strings(names)
	for _, n := range names {
		a := v.accts[n]
		if a.bal.Sign() < 0 {
			ps = append(ps, problem{"govtoken|negative-balance|after-" + kind, fmt.Sprintf("%s balance %s", short(n), a.bal)})
		}
		for _, t := range sortedTypes(a.locked) {
			l := a.locked[t]
			if l.Sign() < 0 {
				ps = append(ps, problem{"govtoken|locked-amount-negative|" + t + "|after-" + kind, fmt.Sprintf("%s locked[%s] = %s", short(n), t, l)})
			} else if l.Cmp(a.bal) > 0 {
				ps = append(ps, problem{"govtoken|balance-below-locked-amount|" + t + "|after-" + kind,
					fmt.Sprintf("%s balance %s < locked[%s] %s", short(n), a.bal, t, l)})
			}
		}
	}
	return ps
}

func sortedTypes(m map[string]*big.Int) []string {
	var ts []string
	for t := range m {
		ts = append(ts, t)
	}
	sort.Strings(ts)
	return ts
}

// ---- transitions --------------------------------------------------------------------------

// outcome is what the driver observed of one call.
type outcome struct {
	ok     bool   // the call was accepted (and, end-to-end, its transaction admitted)
	err    string // refusal reason
	body   []byte
	status int
	stage  string // where it was refused: preexec | verify | dotx
}

// propStatus is the observed status of every proposal in the proposal bucket.
type propStatus map[string]string

// step checks one call against the statement and advances the model. before / after are
// the observed governToken buckets around the call.
func (m *model) step(o *op, out *outcome, after *view, psBefore, psAfter propStatus, st *stats) []problem {
	kind := o.Kind
	if !out.ok {
		// a refused call changes nothing
		var ps []problem
		if ds := diffAccts(m.accts, after.accts); len(ds) > 0 {
			ps = append(ps, problem{"govtoken|refused-call-changed-state|" + kind, "refused (" + out.err + ") but: " + diffString(ds)})
		}
		ps = append(ps, m.invariants(after, kind, m.inited, m.supply)...)
		if len(ps) > 1 {
			ps[0].detail += " || also: " + problemsString(ps[1:])
			ps = ps[:1]
		}
		return ps
	}
	exp := m.cloneAccts()
	expInited, expSupply := m.inited, m.supply
	var ps []problem
	var commit []func()
	illegal := func(sig, detail string) { ps = append(ps, problem{sig, detail}) }
	get := func(a string) *acct {
		if x, ok := exp[a]; ok {
			return x
		}
		return nil
	}
	// lock / unlock primitives on the expected state, with the legality rules of the statement
	lock := func(a, t string, amt *big.Int, what string) {
		x := get(a)
		if x == nil {
			illegal("govtoken|lock-accepted|unknown-account|"+what, fmt.Sprintf("%s has no balance record", short(a)))
			return
		}
		if amt.Sign() < 0 {
			illegal("govtoken|lock-accepted|negative-amount|"+what, fmt.Sprintf("lock %s on %s", amt, short(a)))
			return
		}
		if new(big.Int).Sub(x.bal, x.locked[t]).Cmp(amt) < 0 {
			illegal("govtoken|lock-accepted|exceeds-unlocked-balance|"+t,
				fmt.Sprintf("%s (%s): balance %s, already locked[%s] %s, asked to lock %s", short(a), what, x.bal, t, x.locked[t], amt))
		}
		x.locked[t].Add(x.locked[t], amt)
	}
	unlock := func(a, t string, amt *big.Int, what string) {
		x := get(a)
		if x == nil {
			illegal("govtoken|unlock-accepted|unknown-account|"+what, fmt.Sprintf("%s has no balance record", short(a)))
			return
		}
		if amt.Sign() < 0 {
			illegal("govtoken|unlock-accepted|negative-amount|"+what, fmt.Sprintf("unlock %s on %s", amt, short(a)))
			return
		}
		if x.locked[t].Cmp(amt) < 0 {
			illegal("govtoken|unlock-accepted|exceeds-locked-amount",
				fmt.Sprintf("%s (%s): locked[%s] %s, asked to unlock %s", short(a), what, t, x.locked[t], amt))
		}
		x.locked[t].Sub(x.locked[t], amt)
	}

	switch kind {
	case "init":
		if m.inited {
			// a second Init that is accepted must not change anything (supply is fixed for ever)
			st.count("init.second.accepted", 1)
		} else {
			sup := new(big.Int)
			for a, q := range m.quota {
				x := newAcct()
				x.bal.Set(q)
				exp[a] = x
				sup.Add(sup, q)
			}
			expInited, expSupply = true, sup
			commit = append(commit, func() { m.inited = true; m.supply = sup })
		}
	case "transfer":
		amt, okAmt := parseAmount(o.Args["amount"])
		from, to := o.By, o.Args["to"]
		s := get(from)
		switch {
		case !okAmt || amt.Sign() < 0:
			illegal("govtoken|transfer-accepted|invalid-amount", fmt.Sprintf("amount %q", o.Args["amount"]))
		case s == nil:
			illegal("govtoken|transfer-accepted|sender-without-balance-record", short(from))
		default:
			rest := new(big.Int).Sub(s.bal, amt)
			if rest.Sign() < 0 {
				illegal("govtoken|transfer-accepted|overdraws-balance", fmt.Sprintf("%s balance %s, amount %s", short(from), s.bal, amt))
			}
			for _, t := range sortedTypes(s.locked) {
				if rest.Cmp(s.locked[t]) < 0 && rest.Sign() >= 0 {
					illegal("govtoken|transfer-accepted|leaves-balance-below-lock|"+t,
						fmt.Sprintf("%s balance %s - amount %s < locked[%s] %s", short(from), s.bal, amt, t, s.locked[t]))
				}
			}
			s.bal.Sub(s.bal, amt)
			r := get(to)
			if r == nil {
				r = newAcct()
				exp[to] = r
			}
			r.bal.Add(r.bal, amt)
		}
	case "lock", "unlock", "checkvote", "trigger":
		// issued by a user transaction, directly or through a kernel contract that is neither
		// the proposal nor a TDPoS contract: must never be accepted
		illegal("govtoken|"+kind+"-accepted|unauthorised-caller|"+o.viaName(), fmt.Sprintf("%s %v by %s via %q accepted", kind, o.Args, short(o.By), o.Via))
	case "rawlock", "rawunlock":
		// a lock / unlock operation issued by a kernel contract that is entitled to (TDPoS name)
		t, target := o.Args["lock_type"], o.Args["from"]
		amt, okAmt := parseAmount(o.Args["amount"])
		switch {
		case t != ltOrdinary && t != ltTdpos:
			illegal("govtoken|lock-or-unlock-accepted|unknown-lock-type", fmt.Sprintf("%s %v", kind, o.Args))
		case !okAmt || amt.Sign() < 0:
			illegal("govtoken|lock-or-unlock-accepted|amount-not-a-non-negative-number", fmt.Sprintf("%s %v", kind, o.Args))
		case kind == "rawlock":
			lock(target, t, amt, "raw")
		default:
			unlock(target, t, amt, "raw")
		}
	case "propose":
		// a lock operation on the proposer; the amount is whatever the proposal contract chose
		id := string(out.body)
		x := get(o.By)
		d := new(big.Int)
		if g := after.accts[o.By]; g != nil && x != nil {
			d.Sub(zero(g.locked[ltOrdinary]), x.locked[ltOrdinary])
		}
		if x == nil {
			illegal("govtoken|lock-accepted|unknown-account|propose", short(o.By))
		} else {
			lock(o.By, ltOrdinary, d, "propose")
		}
		p := &prop{id: id, proposer: o.By, locks: map[string]*big.Int{o.By: new(big.Int).Set(d)}, status: "voting",
			stop: o.Meta["stop"], votes: new(big.Int)}
		fmt.Sscan(o.Meta["trig"], &p.trig)
		commit = append(commit, func() {
			if _, dup := m.props[id]; !dup {
				m.props[id] = p
			}
			st.count("propose.lock."+d.String(), 1)
		})
	case "vote":
		amt, okAmt := parseAmount(o.Args["amount"])
		if !okAmt || amt.Sign() < 0 {
			illegal("govtoken|lock-accepted|invalid-amount|vote", fmt.Sprintf("amount %q", o.Args["amount"]))
			break
		}
		lock(o.By, ltOrdinary, amt, "vote")
		id := o.Args["proposal_id"]
		commit = append(commit, func() {
			p := m.props[id]
			if p == nil {
				p = &prop{id: id, locks: map[string]*big.Int{}, status: "voting", votes: new(big.Int)}
				m.props[id] = p
			}
			if p.locks[o.By] == nil {
				p.locks[o.By] = new(big.Int)
			}
			p.locks[o.By].Add(p.locks[o.By], amt)
			p.votes.Add(p.votes, amt)
		})
	case "thaw":
		id := o.Args["proposal_id"]
		p := m.props[id]
		if p == nil || p.locks[o.By] == nil {
			// nothing was ever locked for this proposal by this account: an accepted Thaw may
			// not release anything
			break
		}
		amt := new(big.Int).Set(p.locks[o.By])
		unlock(o.By, ltOrdinary, amt, "thaw")
		commit = append(commit, func() { p.locks[o.By] = new(big.Int); p.status = "closed" })
	case "do":
		// the timer: proposals whose tally / trigger ran in this call release the locks held
		// for them. The timer swallows the failure of an individual unlock, so each due unlock
		// is either carried out (then it must be a legal unlock of exactly that amount) or
		// not at all (counted; see strictTallyUnlock).
		due := map[string][]*big.Int{} // account -> amounts due in this call
		for _, id := range sortedIDs(m.props) {
			p := m.props[id]
			was, now := psBefore[id], psAfter[id]
			if was == now {
				continue
			}
			switch now {
			case "passed":
				commit = append(commit, func() { p.status = "passed"; st.count("tally.passed", 1) })
			case "rejected", "completed_success", "completed_failure":
				now := now
				for _, a := range sortedKeys(p.locks) {
					if amt := p.locks[a]; amt.Sign() > 0 {
						due[a] = append(due[a], amt)
					}
				}
				commit = append(commit, func() { p.status = "closed"; st.count("tally."+now, 1) })
			}
		}
		var accs []string
		for a := range due {
			accs = append(accs, a)
		}
		sort.Strings(accs)
		for _, a := range accs {
			x, g := get(a), after.accts[a]
			if x == nil || g == nil {
				continue
			}
			released := new(big.Int).Sub(x.locked[ltOrdinary], zero(g.locked[ltOrdinary])) // observed
			// which of the due unlocks were carried out? (a handful at most: try all subsets)
			amts := due[a]
			if len(amts) > 12 {
				amts = amts[:12]
			}
			best := -1
			for mask := (1 << uint(len(amts))) - 1; mask >= 0; mask-- {
				sum := new(big.Int)
				for i, v := range amts {
					if mask&(1<<uint(i)) != 0 {
						sum.Add(sum, v)
					}
				}
				if sum.Cmp(released) == 0 {
					best = mask
					break
				}
			}
			if best < 0 {
				best = (1 << uint(len(amts))) - 1 // nothing fits: expect all of them, the comparison below reports
			}
			for i, v := range amts {
				if best&(1<<uint(i)) != 0 {
					unlock(a, ltOrdinary, new(big.Int).Set(v), "tally")
				} else {
					a, v := a, v
					if x.locked[ltOrdinary].Cmp(v) < 0 {
						// the account no longer holds that much: an unlock of the full amount would have been illegal
						st.count("tally.unlock_not_done.lock-already-smaller", 1)
						continue
					}
					st.count("tally.unlock_not_done.lock-sufficient", 1)
					st.note("tally.unlock_not_done", fmt.Sprintf("account %s kept %s tokens locked although the proposal they were locked for was closed by the timer and its lock covered them", a, v))
					if strictTallyUnlock {
						illegal("govtoken|tally-leaves-lock-of-closed-proposal", fmt.Sprintf("%s keeps %s locked[ordinary] of a proposal the timer closed", short(a), v))
					}
				}
			}
		}
	case "nominate", "tvote":
		n, okAmt := parseInt64(o.Args["amount"])
		if !okAmt || n <= 0 {
			illegal("govtoken|lock-accepted|invalid-amount|"+kind, fmt.Sprintf("amount %q", o.Args["amount"]))
			break
		}
		lock(o.By, ltTdpos, big.NewInt(n), kind)
		cand := o.Args["candidate"]
		if kind == "nominate" {
			commit = append(commit, func() { m.noms = append(m.noms, &nomRec{cand: cand, by: o.By, amount: n, active: true}) })
		} else {
			commit = append(commit, func() {
				if m.tvotes[cand] == nil {
					m.tvotes[cand] = map[string]int64{}
				}
				m.tvotes[cand][o.By] += n
			})
		}
	case "revokevote":
		n, okAmt := parseInt64(o.Args["amount"])
		if !okAmt || n <= 0 {
			illegal("govtoken|unlock-accepted|invalid-amount|revokevote", fmt.Sprintf("amount %q", o.Args["amount"]))
			break
		}
		cand := o.Args["candidate"]
		have := m.tvotes[cand][o.By]
		if have < n && strictLockRecords {
			illegal("govtoken|unlock-accepted|no-matching-lock|revokevote",
				fmt.Sprintf("%s revokes %d votes for %s but only %d of its votes are still locked (height arg %s)", short(o.By), n, short(cand), have, o.Args["height"]))
		}
		unlock(o.By, ltTdpos, big.NewInt(n), "revokevote")
		commit = append(commit, func() {
			if m.tvotes[cand] == nil {
				m.tvotes[cand] = map[string]int64{}
			}
			if m.tvotes[cand][o.By] -= n; m.tvotes[cand][o.By] < 0 {
				m.tvotes[cand][o.By] = 0
			}
		})
	case "revokenom":
		// an unlock operation on the initiator: it must release exactly what one of its live
		// nominations of that candidate locked
		cand := o.Args["candidate"]
		x, g := get(o.By), after.accts[o.By]
		if x == nil || g == nil {
			illegal("govtoken|unlock-accepted|unknown-account|revokenom", short(o.By))
			break
		}
		d := new(big.Int).Sub(x.locked[ltTdpos], zero(g.locked[ltTdpos])) // observed release
		var pick *nomRec
		var live []string
		for _, r := range m.noms {
			if r.active && r.cand == cand && r.by == o.By {
				live = append(live, fmt.Sprint(r.amount))
				if pick == nil && d.IsInt64() && d.Int64() == r.amount {
					pick = r
				}
			}
		}
		if pick == nil && !strictLockRecords {
			unlock(o.By, ltTdpos, d, "revokenom")
			break
		}
		if pick == nil {
			illegal("govtoken|unlock-accepted|no-matching-lock|revokenom",
				fmt.Sprintf("%s revokes its nomination of %s (height arg %s) and %s tdpos tokens are released, but its live nomination locks for that candidate are %v",
					short(o.By), short(cand), o.Args["height"], d, live))
			if d.Sign() > 0 {
				unlock(o.By, ltTdpos, d, "revokenom")
			}
			break
		}
		unlock(o.By, ltTdpos, big.NewInt(pick.amount), "revokenom")
		commit = append(commit, func() { pick.active = false })
	case "query":
		if x := get(o.Args["account"]); x != nil {
			g, err := parseBalance(out.body)
			if err != nil {
				illegal("govtoken|query-answer-differs", fmt.Sprintf("unparsable answer %q", out.body))
			} else if ds := diffAccts(map[string]*acct{"q": x}, map[string]*acct{"q": g}); len(ds) > 0 {
				illegal("govtoken|query-answer-differs", fmt.Sprintf("Query(%s): %s", short(o.Args["account"]), diffString(ds)))
			}
		}
	case "supply":
		if m.inited && string(out.body) != m.supply.String() {
			illegal("govtoken|total-supply-answer-differs", fmt.Sprintf("TotalSupply answered %q, fixed at Init: %s", out.body, m.supply))
		}
	}

	// compare the whole bucket with the expected state
	ds := diffAccts(exp, after.accts)
	if len(ds) > 0 {
		ps = append(ps, classify(o, m, exp, after, ds))
	}
	ps = append(ps, m.invariants(after, kind, expInited, expSupply)...)
	if len(ps) > 1 {
		// one call, one root cause: report the most specific problem, keep the rest as detail
		ps[0].detail += " || also: " + problemsString(ps[1:])
		ps = ps[:1]
	}
	if len(ps) == 0 {
		m.accts = exp
		for _, f := range commit {
			f()
		}
	}
	return ps
}

func problemsString(ps []problem) string {
	var s []string
	for _, p := range ps {
		s = append(s, p.sig+": "+p.detail)
	}
	return strings.Join(s, " / ")
}

// classify turns a difference between expected and observed bucket into a narrow signature.
func classify(o *op, m *model, exp map[string]*acct, after *view, ds []adiff) problem {
	detail := fmt.Sprintf("after accepted %s: %s", o, diffString(ds))
	if o.Kind == "transfer" {
		amt, _ := parseAmount(o.Args["amount"])
		to := o.Args["to"]
		if amt != nil {
			// D6a: the sender is also the receiver and ends with `amount` more than before
			if to == o.By {
				for _, d := range ds {
					if d.acct == o.By && d.field == "bal" && amt.Sign() > 0 && new(big.Int).Sub(d.got, d.exp).Cmp(amt) == 0 {
						return problem{"govtoken|self-transfer-mints", detail}
					}
				}
			}
			// D6b: only the receiver's locks differ, and they are all zero now
			onlyRecvLocks := true
			for _, d := range ds {
				if d.acct != to || d.field == "bal" || d.field == "missing" || d.got.Sign() != 0 {
					onlyRecvLocks = false
				}
			}
			if onlyRecvLocks {
				return problem{"govtoken|transfer-resets-receiver-locks", detail}
			}
		}
	}
	if o.Kind == "init" && m.inited {
		return problem{"govtoken|second-init-changed-state", detail}
	}
	// generic: name the most significant difference structurally (receiver before sender
	// before third parties, balances before locks)
	role := func(d adiff) (string, int) {
		switch {
		case o.Kind == "do":
			return "an-account", 0
		case o.Kind == "transfer" && d.acct == o.Args["to"]:
			return "receiver", 0
		case (o.Kind == "rawlock" || o.Kind == "rawunlock") && d.acct == o.Args["from"]:
			return "target", 1
		case (o.Kind == "rawlock" || o.Kind == "rawunlock"):
			return "other-account", 2
		case d.acct == o.By:
			return "caller", 1
		}
		return "other-account", 2
	}
	field := func(d adiff) int {
		switch d.field {
		case "bal", "missing":
			return 0
		case ltOrdinary:
			return 1
		case ltTdpos:
			return 2
		}
		return 3
	}
	sort.SliceStable(ds, func(i, j int) bool {
		_, ri := role(ds[i])
		_, rj := role(ds[j])
		if ri != rj {
			return ri < rj
		}
		return field(ds[i]) < field(ds[j])
	})
	d := ds[0]
	rn, _ := role(d)
	what := "lock-" + d.field
	if d.field == "bal" || d.field == "missing" {
		what = "balance"
	}
	return problem{"govtoken|" + o.Kind + "|unexpected-" + what + "-of-" + rn, detail}
}

func parseInt64(s string) (int64, bool) {
	n, err := strconv.ParseInt(s, 10, 64)
	return n, err == nil
}

func sortedIDs(m map[string]*prop) []string {
	var ks []string
	for k := range m {
		ks = append(ks, k)
	}
	sort.Strings(ks)
	return ks
}

func sortedKeys(m map[string]*big.Int) []string {
	var ks []string
	for k := range m {
		ks = append(ks, k)
	}
	sort.Strings(ks)
	return ks
}
