package main

import (
	"fmt"
	"math/rand"
	"sync"
	"sync/atomic"

	"verif/ev"
	"verif/gen"
	"verif/hist"
	"verif/memkv"
	sn "verif/simnode"
)

// metaReaders: the irreversible height is what GetMeta reports, and GetMeta is asked by other
// goroutines all the time (every pre-execution reads the gas price through it, status queries).
// A linear chain is applied block by block - through Walk, through the engine's receive path and
// as own blocks - while two goroutines keep calling GetMeta; after every block, with the readers
// still running, the reported height must be the model's (height - w, floored at 0). What the
// readers themselves see while a block is being applied is not judged (either value is fine),
// except that it never goes down.
func metaReaders(r *ev.Run) {
	for ci := 0; ci < r.N(6, 60); ci++ {
		func() {
			defer func() {
				if p := recover(); p != nil {
					if inc, ok := p.(sn.Inconclusive); ok {
						r.Inconclusive("meta readers: " + inc.Why)
						return
					}
					r.Violation("panic|meta-readers", fmt.Sprintf("panic: %v", p), map[string]interface{}{"case": ci})
				}
			}()
			rng := rand.New(rand.NewSource(r.Seed*6151 + int64(ci)))
			w := int64(1 + ci%3)
			o := gen.DefaultOpts()
			o.Cfg.Window = int(w)
			o.Linear = true
			o.MaxBlocks = 30
			t, err := gen.NewTree(o)
			if err != nil {
				r.Inconclusive(err.Error())
				return
			}
			defer t.Drop()
			n := 14 + rng.Intn(8)
			for i := 0; i < n; i++ {
				if _, err := t.AddBlock(rng, len(t.Blocks)-1, rng.Intn(3), nil); err != nil {
					r.Violation("generator|fresh-replay-failed", err.Error(), nil)
					return
				}
			}
			s, err := hist.NewSUT(t)
			if err != nil {
				r.Inconclusive(err.Error())
				return
			}
			defer s.N.Drop()
			memkv.SetJitter(r.Seed*17+int64(ci), 5) // the batch write is where a real node waits for the disk
			defer memkv.SetJitter(0, 0)
			var stop int32
			var reads int64
			var wg sync.WaitGroup
			var wentDown atomic.Value
			for g := 0; g < 2; g++ {
				wg.Add(1)
				go func() {
					defer wg.Done()
					last := int64(0)
					for atomic.LoadInt32(&stop) == 0 {
						h := s.N.State.GetMeta().IrreversibleBlockHeight
						atomic.AddInt64(&reads, 1)
						if h < last {
							wentDown.Store(fmt.Sprintf("a reader saw the irreversible height go from %d to %d", last, h))
						}
						last = h
					}
				}()
			}
			var ops []string
			bad := ""
			for i := 1; i < len(t.Blocks) && bad == ""; i++ {
				how := []string{"walk", "receive", "own"}[rng.Intn(3)]
				switch how {
				case "walk":
					s.Confirm(i)
					if op := s.Walk(i, false); op.Result != "ok" {
						bad = "walk to a valid next block failed: " + op.Result
					}
				case "receive":
					if op := s.Receive(i); op.Result != "ok" {
						bad = "receive of a valid next block failed: " + op.Result
					}
				case "own":
					if op := s.Mine(i); op.Result != "ok" {
						// (a block whose transactions the pool refuses cannot be an own block: fall back)
						s.Confirm(i)
						if op := s.Walk(i, false); op.Result != "ok" {
							bad = "walk to a valid next block failed: " + op.Result
						}
						how = "walk(after-own-refused)"
					}
				}
				ops = append(ops, fmt.Sprintf("%s(%d)", how, i))
				r.Count("meta-readers.blocks", 1)
				r.Count("meta-readers.blocks."+how, 1)
				if bad != "" {
					break
				}
				want := max64(t.Blocks[i].Height-w, 0)
				if got := s.N.State.GetMeta().IrreversibleBlockHeight; got != want {
					atomic.StoreInt32(&stop, 1)
					wg.Wait()
					r.Violation("irr|value|with-concurrent-meta-readers", fmt.Sprintf("after block %d (height %d, window %d, applied through %s) with two goroutines calling GetMeta, GetMeta reports irreversible height %d, want %d; ops: %v",
						i, t.Blocks[i].Height, w, how, got, want, ops), map[string]interface{}{"case": ci, "ops": ops})
					return
				}
				r.Count("irr.compared", 1)
			}
			atomic.StoreInt32(&stop, 1)
			wg.Wait()
			r.Count("meta-readers.reads", int(atomic.LoadInt64(&reads)))
			r.Case(fmt.Sprintf("meta-readers|w%d|%d", w, len(ops)), true)
			if bad != "" {
				r.Violation("legal-op-failed|meta-readers", bad, map[string]interface{}{"case": ci, "ops": ops})
				return
			}
			if v := wentDown.Load(); v != nil {
				r.Violation("irr|went-down|seen-by-concurrent-meta-reader", v.(string), map[string]interface{}{"case": ci, "ops": ops})
			}
		}()
	}
}
