// C17: finality window - irreversible height is monotone and never undone by consensus.
package main

import (
	"fmt"
	"math/rand"
	"strings"

	"verif/ev"
	"verif/gen"
	"verif/hist"
	sn "verif/simnode"
)

// model of one history
type irr struct {
	w     int64
	value int64
	chain []int // state chain (tree indices by height) after the previous op
}

func max64(a, b int64) int64 {
	if a > b {
		return a
	}
	return b
}

func main() {
	r := ev.Start("C17", "exploration",
		"random block trees x op sequences (confirm, play, own blocks, walks incl. cross-fork and with the prune flag, reopen, pool) on chains with slide window w in {0,1,2,3,5}; "+
			"a max-monotone model of the irreversible height is updated on every applied block and compared with GetMeta after every op and after reopen; every non-pruning walk (successful or "+
			"refused) must leave the blocks at heights <= irreversible height on the state's chain untouched, may only be refused when it would have to undo such a block, and must be refused then; "+
			"case = one history; non-trivial = w>0 and at least one walk attempted across the irreversible height")
	defer sn.CleanupScratch()
	nh := r.N(200, 5000)
	models := map[*hist.SUT]*irr{}
	lastKind := map[*hist.SUT]string{}
	hist.NonTrivial = func(s *hist.SUT) bool { return s.T.Opts.Cfg.Window > 0 && s.Stats["walk.across"] > 0 }
	windows := []int{0, 1, 2, 3, 5}
	for wi, w := range windows {
		o := gen.DefaultOpts()
		o.Cfg.Window = w
		o.MaxDepth = 8
		o.MaxBlocks = 12
		win := int64(w)
		sub := nh / len(windows)
		r.Seed += int64(wi) * 1000 // different histories per window
		hist.RunHistoriesX(r, sub, o, hist.StepOpts{Reopen: true, Pool: true, Mine: true, Prune: true, Engine: true}, 12, 45, nil,
			func(s *hist.SUT, op hist.Op) []hist.Problem {
				m := models[s]
				if m == nil {
					m = &irr{w: win, chain: []int{0}}
					models[s] = m
				}
				lastKind[s] = op.Kind
				return audit(r, s, op, m)
			}, func(s *hist.SUT, rng *rand.Rand) []hist.Problem {
				// operations that FAIL part of the way: a junk peer block played or walked to (a walk
				// over several blocks whose last one is refused stops at an intermediate block), a
				// storage write error inside confirm / play / walk / own block. Whether they leave a
				// trace is C05's question; here the irreversible height must still be the maximum over
				// the blocks that were applied, in memory and after the next reopen.
				if rng.Intn(10) == 0 {
					// two walks at the same time (the engine walks from its sync path and from its
					// mining loop): the outcome must be that of one of the two sequential orders
					var stored []int
					for _, b := range s.T.Blocks {
						if s.Confirmed[b.Idx] || b.Idx == 0 {
							stored = append(stored, b.Idx)
						}
					}
					if len(stored) >= 3 && s.LedgerTip() >= 0 {
						a, b := stored[rng.Intn(len(stored))], stored[rng.Intn(len(stored))]
						if a != b {
							op, ps := s.TwoWalks(rng, a, b)
							if len(ps) > 0 {
								return ps
							}
							m := models[s]
							if m == nil {
								m = &irr{w: win, chain: []int{0}}
								models[s] = m
							}
							// the model follows whatever sequential order explains the outcome: resynchronise
							// it with the chain the state is on now (the height itself was just compared with
							// the twins, which run the same max-monotone rule)
							if tip := s.Tip(); tip >= 0 {
								m.chain = s.T.Path(tip)
								m.value = s.N.State.GetMeta().IrreversibleBlockHeight
							}
							r.Count("twowalks", 1)
							_ = op
							return nil
						}
					}
				}
				var op hist.Op
				pick := rng.Intn(12)
				if lastKind[s] == "mine" && rng.Intn(2) == 0 {
					pick = 2 // a write error right after the node applied a block of its own
				}
				switch pick {
				case 0:
					op, _ = s.FailPlay(rng)
				case 1:
					op, _ = s.FailWalk(rng)
				case 2:
					op, _ = s.FaultOp(rng)
				default:
					return nil
				}
				if op.Kind == "" {
					return nil
				}
				m := models[s]
				if m == nil {
					m = &irr{w: win, chain: []int{0}}
					models[s] = m
				}
				r.Count("failing-ops", 1)
				wasMine := op.Kind == "fault" && strings.Contains(op.Arg, ",mine")
				op.Kind = "partial:" + op.Kind
				ps := audit(r, s, op, m)
				if len(ps) == 0 && wasMine && rng.Intn(2) == 0 {
					// a write error at the node's own block, then right away a walk that undoes a block
					// (the height computed for the block that was never applied must not be published
					// by the next step that does not raise the height itself)
					if tip := s.Tip(); tip > 0 {
						op2 := s.Walk(s.T.Blocks[tip].Parent, false)
						r.Count("fault-at-own-block-then-undo", 1)
						return audit(r, s, op2, m)
					}
				}
				return ps
			})
		r.Seed -= int64(wi) * 1000
		for k := range models {
			delete(models, k)
		}
		for k := range lastKind {
			delete(lastKind, k)
		}
	}
	metaReaders(r)
	r.Floor("meta-readers.blocks", 60)
	r.Floor("meta-readers.reads", 5000)
	r.Floor("irr.compared", 2000)
	r.Floor("failing-ops", 100)
	r.Floor("twowalks", 60)
	r.Floor("fault-at-own-block-then-undo", 5)
	r.Floor("irr.raised", 200)
	r.Floor("walk.refused.justified", 30)
	r.Floor("walk.prune.lowered", 5)
	r.Floor("op.reopen", 100)
	r.Floor("walk.crossfork", 50)
	r.Assume("the window itself never changes at this commit (no caller of the meta updaters)")
	r.Finish()
}

func audit(r *ev.Run, s *hist.SUT, op hist.Op, m *irr) []hist.Problem {
	var ps []hist.Problem
	t := s.T
	tip := s.Tip()
	if tip < 0 {
		return []hist.Problem{{Sig: "irr|tip-unknown", Detail: "state tip unknown after " + op.String()}}
	}
	newChain := t.Path(tip)
	var preWalkRaise int64
	failed := strings.HasPrefix(op.Result, "FAIL")
	prune := op.Kind == "walk" && op.Arg == ",prune"
	before := m.value
	if (op.Kind == "walk" && !prune) || op.Kind == "receive" {
		// blocks at heights <= irreversible height must still be on the state's chain (the engine's
		// receive path walks the state to the ledger tip without the prune flag)
		for h := int64(0); h <= before && h < int64(len(m.chain)); h++ {
			if h >= int64(len(newChain)) || newChain[h] != m.chain[h] {
				ps = append(ps, hist.Problem{Sig: "irr|finalised-block-left-the-state-chain", Detail: fmt.Sprintf(
					"after %s the state's chain no longer contains block %d at height %d <= irreversible height %d", op.String(), m.chain[h], h, before)})
				return ps
			}
		}
	}
	if op.Kind == "receive" {
		// its internal walk may be refused by the finality rule: no verdict on the result itself
	} else if op.Kind == "walk" && !prune {
		// was a refusal justified? the walk had to undo blocks above the common ancestor of the old tip and the target
		old := m.chain[len(m.chain)-1]
		lca := old
		for !t.IsAncestor(lca, op.Block) {
			lca = t.Blocks[lca].Parent
		}
		mustRefuse := m.w > 0 && lca != old && t.Blocks[lca].Height+1 <= before
		if mustRefuse {
			r.Count("walk.across.attempted", 1)
		}
		if failed && !mustRefuse {
			return []hist.Problem{{Sig: "legal-op-failed|walk", Detail: "walk refused although it does not undo a finalised block: " + op.String()}}
		}
		if failed && mustRefuse {
			r.Count("walk.refused.justified", 1)
			s.Stats["walk.across"]++
		}
		// (a successful walk that should have been refused is caught by the chain comparison above)
	} else if strings.HasPrefix(op.Kind, "partial:") {
		// built to fail (or to hit a write error): no verdict on the result itself
	} else if failed && op.Kind != "submit" {
		return []hist.Problem{{Sig: "legal-op-failed|" + op.Kind, Detail: "legal operation failed: " + op.String()}}
	}
	// update the model
	if m.w > 0 && (op.Kind == "receive" || strings.HasSuffix(op.Kind, "fault") && strings.Contains(op.Arg, "receive")) && s.LedgerTipBefore >= 0 && len(m.chain) > 0 {
		// The engine's receive path first walks the state to the ledger's tip of the moment when
		// the two differ, and only then stores the block and walks to the new tip. Blocks applied by
		// the first walk count ("maximum over blocks EVER applied") even when the second walk
		// undoes them again. A walk that would undo a finalised block is refused (it may have
		// undone blocks above the finalised height first: that raises nothing).
		cur := m.chain[len(m.chain)-1]
		walk := func(target int) {
			lca := cur
			for !t.IsAncestor(lca, target) {
				lca = t.Blocks[lca].Parent
			}
			if lca != cur && t.Blocks[lca].Height+1 <= m.value {
				return // refused
			}
			for _, j := range t.Path(target) {
				m.value = max64(m.value, t.Blocks[j].Height-m.w)
			}
			cur = target
		}
		if s.LedgerTipBefore != cur {
			before0 := m.value
			walk(s.LedgerTipBefore)
			preWalkRaise = m.value - before0
			r.Count("receive.pre-sync-walk-modelled", 1)
		}
	}
	if m.w > 0 {
		if prune && !failed {
			// explicit pruning: the value may be lowered to (lowest undone height - w), floored at 0
			old := m.chain[len(m.chain)-1]
			lca := old
			for !t.IsAncestor(lca, op.Block) {
				lca = t.Blocks[lca].Parent
			}
			if lca != old {
				lowest := t.Blocks[lca].Height + 1
				m.value = max64(lowest-m.w, 0)
				if m.value < before {
					r.Count("walk.prune.lowered", 1)
				}
			}
			for _, j := range newChain {
				if t.Blocks[j].Height > t.Blocks[lca].Height { // redone blocks
					m.value = max64(m.value, t.Blocks[j].Height-m.w)
				}
			}
		} else {
			for _, j := range newChain {
				m.value = max64(m.value, t.Blocks[j].Height-m.w)
			}
		}
		if m.value > before {
			r.Count("irr.raised", 1)
		}
	}
	m.chain = newChain
	meta := s.N.State.GetMeta()
	if op.Result != "ok" && preWalkRaise > 0 && meta.IrreversibleBlockHeight >= m.value-preWalkRaise && meta.IrreversibleBlockHeight <= m.value {
		// an ignored / failed / faulted receive may or may not have got as far as its first walk:
		// either value is right then
		m.value = meta.IrreversibleBlockHeight
		r.Count("receive.pre-sync-walk-either-way", 1)
	}
	r.Count("irr.compared", 1)
	if meta.IrreversibleBlockHeight != m.value || meta.IrreversibleSlideWindow != m.w {
		ps = append(ps, hist.Problem{Sig: "irr|value|after-" + op.Kind, Detail: fmt.Sprintf(
			"after %s GetMeta reports irreversible height %d / window %d, model %d / %d (previous %d)", op.String(),
			meta.IrreversibleBlockHeight, meta.IrreversibleSlideWindow, m.value, m.w, before)})
	}
	return ps
}
