package main

// Cluster: three nodes, each with the engine's real miner (packBlock / confirmBlockForMiner) and
// the engine's real receive path (Miner.ProcBlock), connected by a simulated network that serves
// GET_BLOCK from the peers' ledgers. Clients submit transactions to random nodes (the engine's
// real Chain.SubmitTx) and nodes gossip them; producers take turns, sometimes two produce on the
// same parent (a fork); a block reaches each peer now, later, or never - a lagging node only gets a
// later tip and has to fetch the missing ancestors over the network (multi-block sync, sometimes a
// reorganisation). A node is restarted now and then.
//
// What is judged: (a) a block a node assembled from its own pool is accepted by every peer whose
// ledger holds (or can fetch) its ancestors, and an accepted block that became the ledger tip is
// applied; (b) once the newest tip has been delivered everywhere, all nodes hold the same tip and
// answer every query alike, and like a fresh node that plays the main chain from genesis - which
// never saw any of those transactions pending; (c) no transaction sits on the main chain twice.

import (
	"fmt"
	"math/rand"
	"strings"

	pb "github.com/xuperchain/xupercore/bcs/ledger/xledger/xldgpb"

	"verif/ev"
	"verif/gen"
	sn "verif/simnode"
)

func cluster(r *ev.Run, idx int) {
	rng := rand.New(rand.NewSource(r.Seed*7477 + int64(idx)))
	var ops []string
	wit := func() map[string]interface{} { return map[string]interface{}{"cluster": idx, "ops": ops} }
	defer func() {
		if p := recover(); p != nil {
			if inc, ok := p.(sn.Inconclusive); ok {
				r.Inconclusive(inc.Why)
				return
			}
			r.Violation("panic|cluster", fmt.Sprintf("panic in cluster %d: %v", idx, p), wit())
		}
	}()
	o := gen.DefaultOpts()
	o.Cfg.Award = "1000000"
	if idx%2 == 1 {
		o.Cfg.DecayGap = 3
		o.Cfg.DecayRatio = 0.5
	}
	t, err := gen.NewTree(o)
	if err != nil {
		r.Inconclusive(err.Error())
		return
	}
	defer t.Drop()
	const N = 3
	var nodes []*sn.Node
	defer func() {
		for _, n := range nodes {
			n.Drop()
		}
	}()
	for i := 0; i < N; i++ {
		n, err := t.Author(0)
		if err != nil {
			r.Inconclusive(err.Error())
			return
		}
		nodes = append(nodes, n)
	}
	for i, n := range nodes {
		net := &sn.SimNet{Self: sn.K(i).Address}
		for j, p := range nodes {
			if j != i {
				net.Peers = append(net.Peers, p)
			}
		}
		n.Net = net
	}
	height := func(n *sn.Node) int64 { return n.Ledger.GetMeta().TrunkHeight }
	tipOf := func(n *sn.Node) []byte { return n.Ledger.GetMeta().TipBlockid }
	produced := map[string]*pb.InternalBlock{}
	producerOf := map[string]int{}
	// deliver hands block b to node i through the engine; judged (a)
	deliver := func(i int, b *pb.InternalBlock, why string) bool {
		n := nodes[i]
		before := height(n)
		err := n.ProcBlock(b)
		r.Count("cluster.deliveries", 1)
		ops = append(ops, fmt.Sprintf("deliver(h%d->n%d,%s)=%v", b.Height, i, why, err == nil))
		if err != nil {
			if b.Height < before {
				r.Count("cluster.deliveries.lower-than-trunk-refused", 1)
				return true // "recv block height lower than in sync height": ignoring an old block is fine
			}
			r.Violation("cluster|honest-block-refused", fmt.Sprintf("node %d (trunk height %d) refuses block %x (height %d) that node produced from its own pool: %v; log %v", i, before, b.Blockid, b.Height, err, n.Log.Tail(4)), wit())
			return false
		}
		if string(tipOf(n)) != string(n.StateTip()) {
			r.Violation("cluster|accepted-but-not-applied", fmt.Sprintf("node %d accepted block %x (height %d): its ledger tip is %x (height %d) but its state machine stays at %x; log %v", i, b.Blockid, b.Height, tipOf(n), height(n), n.StateTip(), n.Log.Tail(4)), wit())
			return false
		}
		return true
	}
	rounds := 14 + rng.Intn(8)
	ts := int64(9000000 + idx*100000)
	offlineUntil := make([]int, N) // a partitioned node: nothing reaches it, it keeps working on its own chain
	for round := 1; round <= rounds; round++ {
		if round%5 != 0 && rng.Intn(6) == 0 {
			i := rng.Intn(N)
			if offlineUntil[i] < round {
				offlineUntil[i] = round + 2 + rng.Intn(3)
				r.Count("cluster.partitions", 1)
				ops = append(ops, fmt.Sprintf("r%d:partition(n%d,until r%d)", round, i, offlineUntil[i]))
			}
		}
		off := func(i int) bool { return offlineUntil[i] >= round && round%5 != 0 && round != rounds }
		// clients
		for c := rng.Intn(4); c > 0; c-- {
			at := rng.Intn(N)
			x, kind, _ := t.GenTx(rng, nodes[at])
			if x == nil {
				continue
			}
			if err := nodes[at].SubmitTx(sn.CloneTx(x)); err != nil {
				continue
			}
			r.Count("cluster.submitted", 1)
			ops = append(ops, fmt.Sprintf("r%d:submit(%s@n%d)", round, kind, at))
			for j := range nodes { // gossip (a peer that is behind may refuse it)
				if j != at && rng.Intn(4) > 0 && !off(j) && !off(at) {
					c := sn.CloneTx(x)
					if ok, _ := nodes[j].State.VerifyTx(c); ok {
						nodes[j].State.DoTx(c)
					}
				}
			}
		}
		// producers: one, or two on their own tips (a fork when their tips coincide)
		prods := []int{rng.Intn(N)}
		if rng.Intn(4) == 0 {
			prods = append(prods, (prods[0]+1+rng.Intn(N-1))%N)
		}
		var fresh []*pb.InternalBlock
		for _, pi := range prods {
			ts += 10
			b, err := nodes[pi].PackBlock(sn.K(pi), ts)
			if err == nil {
				err = nodes[pi].ConfirmForMiner(b)
			}
			if err != nil {
				r.Violation("cluster|producer-cannot-produce", fmt.Sprintf("round %d: node %d cannot produce from its pool: %v; log %v", round, pi, err, nodes[pi].Log.Tail(4)), wit())
				return
			}
			w := sn.WireBlock(b)
			produced[string(w.Blockid)] = w
			producerOf[string(w.Blockid)] = pi
			fresh = append(fresh, w)
			r.Count("cluster.blocks", 1)
			ops = append(ops, fmt.Sprintf("r%d:n%d-produces(h%d,%dtx)", round, pi, w.Height, len(w.Transactions)-1))
		}
		if len(prods) == 2 {
			r.Count("cluster.rounds-with-two-producers", 1)
		}
		// delivery: now (2/3), or not at all this round - the node catches up from a later tip
		for _, b := range fresh {
			for i := range nodes {
				if nodes[i].Ledger.ExistBlock(b.Blockid) {
					continue
				}
				if off(i) || off(producerOf[string(b.Blockid)]) {
					r.Count("cluster.deliveries-cut-by-partition", 1)
					continue
				}
				if rng.Intn(3) == 0 {
					r.Count("cluster.deliveries-skipped", 1)
					continue
				}
				if !deliver(i, b, "new") {
					return
				}
			}
		}
		if rng.Intn(9) == 0 {
			i := rng.Intn(N)
			if err := nodes[i].Reopen(); err != nil {
				r.Inconclusive(err.Error())
				return
			}
			ops = append(ops, fmt.Sprintf("r%d:restart(n%d)", round, i))
			r.Count("cluster.restarts", 1)
		}
		if round%5 == 0 || round == rounds {
			// ---- heal: one more block on the highest tip, delivered everywhere ----
			best := 0
			for i := range nodes {
				if height(nodes[i]) > height(nodes[best]) {
					best = i
				}
			}
			ts += 10
			b, err := nodes[best].PackBlock(sn.K(best), ts)
			if err == nil {
				err = nodes[best].ConfirmForMiner(b)
			}
			if err != nil {
				r.Violation("cluster|producer-cannot-produce", fmt.Sprintf("round %d (heal): node %d cannot produce: %v", round, best, err), wit())
				return
			}
			w := sn.WireBlock(b)
			produced[string(w.Blockid)] = w
			ops = append(ops, fmt.Sprintf("r%d:heal(n%d,h%d)", round, best, w.Height))
			for i := range nodes {
				if i != best {
					lag := w.Height - 1 - height(nodes[i])
					if !nodes[best].Ledger.ExistBlock(tipOf(nodes[i])) || func() bool {
						bb, e := nodes[best].Ledger.QueryBlockHeader(tipOf(nodes[i]))
						return e != nil || !bb.InTrunk
					}() {
						r.Count("cluster.heals-that-reorganise-a-node", 1)
					}
					if lag > 0 {
						r.Count("cluster.catch-ups-over-the-network", 1)
						r.Count("cluster.catch-up-blocks", int(lag))
					}
					if !deliver(i, w, "heal") {
						return
					}
				}
			}
			// (b) everybody agrees
			for i := range nodes {
				if string(tipOf(nodes[i])) != string(w.Blockid) || string(nodes[i].StateTip()) != string(w.Blockid) {
					r.Violation("cluster|no-convergence", fmt.Sprintf("round %d: after the newest block (height %d) was delivered everywhere node %d is at ledger tip %x (height %d), state %x", round, w.Height, i, tipOf(nodes[i]), height(nodes[i]), nodes[i].StateTip()), wit())
					return
				}
			}
			// the main chain, replayed by a node that never saw anything pending
			var chain []*pb.InternalBlock
			seen := map[string]int64{}
			for id := w.Blockid; ; {
				blk, err := nodes[best].Ledger.QueryBlock(id)
				if err != nil {
					r.Violation("cluster|main-chain-unreadable", fmt.Sprintf("round %d: %v", round, err), wit())
					return
				}
				if blk.Height == 0 {
					break
				}
				chain = append([]*pb.InternalBlock{blk}, chain...)
				for _, x := range blk.Transactions {
					if h, dup := seen[string(x.Txid)]; dup {
						r.Violation("cluster|transaction-twice-on-the-main-chain", fmt.Sprintf("round %d: transaction %x is in the blocks at heights %d and %d of the main chain", round, x.Txid, blk.Height, h), wit())
						return
					}
					seen[string(x.Txid)] = blk.Height
				}
				id = blk.PreHash
			}
			ref, err := t.Author(0)
			if err != nil {
				r.Inconclusive(err.Error())
				return
			}
			for _, blk := range chain {
				c := sn.CloneBlock(blk)
				if st := ref.Confirm(c); !st.Succ {
					ref.Drop()
					r.Violation("cluster|main-chain-does-not-replay", fmt.Sprintf("round %d: a fresh ledger refuses main-chain block at height %d: %v", round, blk.Height, st.Error), wit())
					return
				}
				if err := ref.State.Play(blk.Blockid); err != nil {
					ref.Drop()
					r.Violation("cluster|main-chain-does-not-replay", fmt.Sprintf("round %d: a fresh node cannot play main-chain block at height %d: %v; log %v", round, blk.Height, err, ref.Log.Tail(3)), wit())
					return
				}
			}
			// every node's state = the replayed chain + its own pending transactions, admitted in the
			// order its pool yields them (which the statement says is a valid sequential order)
			for i := range nodes {
				ri, err := ref.Twin()
				if err != nil {
					ref.Drop()
					r.Inconclusive(err.Error())
					return
				}
				pool, _ := nodes[i].State.GetUnconfirmedTx(false)
				for _, x := range pool {
					c := sn.CloneTx(x)
					if err := ri.State.DoTx(c); err != nil {
						ri.Drop()
						ref.Drop()
						r.Violation("cluster|pool-invalid-on-replayed-chain", fmt.Sprintf("round %d: node %d at the common tip (height %d) holds pending transaction %x which a fresh node that played the main chain refuses (pool order, %d pending): %v", round, i, w.Height, x.Txid, len(pool), err), wit())
						return
					}
				}
				r.Count("cluster.pool-transactions-replayed", len(pool))
				d := sn.ObserveOpt(ri, sn.ObsOpt{}).Diff(sn.ObserveOpt(nodes[i], sn.ObsOpt{}))
				ri.Drop()
				if len(d) > 0 {
					if len(d) > 6 {
						d = d[:6]
					}
					ref.Drop()
					r.Violation("cluster|state-differs-from-replay", fmt.Sprintf("round %d: node %d at the common tip (height %d, %d pending) vs a fresh node that played the main chain and admitted the same pending transactions: %s", round, i, w.Height, len(pool), strings.Join(d, " ;; ")), wit())
					return
				}
			}
			ref.Drop()
			r.Count("cluster.convergences", 1)
		}
	}
	r.Case(fmt.Sprintf("cluster|%d|%s", idx, strings.Join(ops, ",")), true)
}
